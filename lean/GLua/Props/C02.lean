/-
  C02 (mechanism) — calls pass/return exactly the values Lua 5.1 prescribes; tail calls are proper.
  Property theorems only: the Model (GLua/Model/CallFrame.lean, a transcription of the registry block moves, frame
  set-up, result delivery and operand decoding of /repo/state.go, vm.go, baselib.go, compile.go — tied to the
  real code by the C02M correspondence run) refines the Spec (GLua/Spec/Adjust.lean, written from the manual).
  All statements quantify over every register file, base, argument count, parameter count,
  NumUsedRegisters, wanted and produced result count.  Standing assumption of the Model: registry capacity
  suffices (growth is C12's).
-/
import GLua.Proofs.CallFrameRun
import GLua.Proofs.CallCompileRet

namespace GLua.Props.C02
open GLua GLua.CallFrame GLua.CallFrame.Reg GLua.Adjust

/-! ### result delivery: copyReturnValues / OP_RETURN -/


/- what the `B` operand of OP_RETURN says about the values `vals` available from register `start` on:
    `B = 1` none, `B ≥ 2` exactly `B-1` registers (below top), `B = 0` everything up to top. -/
export GLua.CallFrame.Run (RetAvail)

/-- **copyReturnValues_adjusts** — for the three encodings of the available count (`B = 1`, `B > 1`, `B = 0`) and
    every wanted count `n`: the destination window is exactly `adjust vals n` (truncated / nil-padded, no stale
    register content), `top = regv + n`, nothing below `regv` changes, and everything between the new and the
    old top is cleared. -/
theorem copyReturnValues_adjusts (r : Reg) (regv start n b : Nat) (vals : List OVal)
    (hle : regv ≤ start) (hav : RetAvail r start b vals)
    (hv : r.window start vals.length = vals.map some) :
    (copyReturnValues r regv start n b).top = regv + n ∧
    (copyReturnValues r regv start n b).window regv n = (adjust vals (some n)).map some ∧
    (∀ j, j < regv → (copyReturnValues r regv start n b).arr j = r.arr j) ∧
    (∀ j, regv + n ≤ j → j < r.top → (copyReturnValues r regv start n b).arr j = goNil) :=
  Run.copyReturnValues_adjusts r regv start n b vals hle hav hv

/-- **opReturn_delivers** — OP_RETURN pops exactly one frame and leaves at the frame's `ReturnBase` the returned
    values adjusted to the caller's wish `cf.NRet` (`none` = MultRet = all of them). -/
theorem opReturn_delivers (s : St) (cf : Frame) (rest : List Frame) (A B : Nat) (vals : List OVal)
    (hst : s.stack = cf :: rest) (hle : cf.returnBase ≤ cf.localBase + A)
    (hav : RetAvail s.reg (cf.localBase + A) B vals)
    (hv : s.reg.window (cf.localBase + A) vals.length = vals.map some) :
    ∃ s', opReturn s A B = .ok s' ∧ s'.stack = rest ∧ s'.sp + 1 = s.sp ∧
      s'.reg.top = cf.returnBase + (adjust vals cf.nret).length ∧
      s'.reg.window cf.returnBase (adjust vals cf.nret).length = (adjust vals cf.nret).map some ∧
      (∀ j, j < cf.returnBase → s'.reg.arr j = s.reg.arr j) :=
  Run.opReturn_delivers s cf rest A B vals hst hle hav hv

/-! ### host functions: callGFunction -/


/-- **gfunction_returns_topmost** — a host function that returns `k` (and has at least `k` values above the
    slot its results go to) delivers exactly its top-most `k` stack values, adjusted to the frame's `NRet`, at
    `ReturnBase`; its frame is popped; nothing below `ReturnBase` changes. -/
theorem gfunction_returns_topmost (s : St) (frame : Frame) (rest : List Frame) (k : Nat) (vals : List OVal)
    (hst : s.stack = frame :: rest) (hk : vals.length = k) (hroom : frame.returnBase + k ≤ s.reg.top)
    (hv : s.reg.window (s.reg.top - k) k = vals.map some) :
    ∃ s', gReturn s k false = .ok s' ∧ s'.stack = rest ∧
      s'.reg.top = frame.returnBase + (adjust vals frame.nret).length ∧
      s'.reg.window frame.returnBase (adjust vals frame.nret).length = (adjust vals frame.nret).map some ∧
      (∀ j, j < frame.returnBase → s'.reg.arr j = s.reg.arr j) :=
  Run.gfunction_returns_topmost s frame rest k vals hst hk hroom hv

/-! ### OP_VARARG -/


/- the frame of a running vararg function as `initCallFrame` leaves it: the extra arguments sit between the
    (nil-ed) original parameter slots and `LocalBase`. -/
export GLua.CallFrame.Run (VarargFrame)

/-- **vararg_spec** — `OP_VARARG A B` leaves in `R[A]…` exactly `adjust extra (B-1)` (all of them for `B = 0`),
    `top` just above the last one, registers below `R[A]` untouched. -/
theorem vararg_spec (s : St) (cf : Frame) (rest : List Frame) (A B : Nat) (extra : List OVal)
    (hst : s.stack = cf :: rest) (hf : VarargFrame s.reg cf extra) :
    ∃ s', opVararg s A B = .ok s' ∧ s'.stack = s.stack ∧
      s'.reg.top = cf.localBase + A + (adjust extra (decodeNRet B)).length ∧
      s'.reg.window (cf.localBase + A) (adjust extra (decodeNRet B)).length = (adjust extra (decodeNRet B)).map some ∧
      (∀ j, j < cf.localBase + A → s'.reg.arr j = s.reg.arr j) :=
  Run.vararg_spec s cf rest A B extra hst hf

/-! ### OP_SELF, OP_SETLIST -/


/-- **self_inserts_receiver** — `OP_SELF A B C` puts the method in `R[A]` and the receiver `R[B]` in `R[A+1]`, i.e.
    in front of the explicit arguments that follow from `R[A+2]`: `obj:m(args)` calls `m` with
    `methodArgs obj args`; every other register keeps its value. -/
theorem self_inserts_receiver (s : St) (cf : Frame) (rest : List Frame) (A B : Nat) (method : Slot)
    (hst : s.stack = cf :: rest) :
    ∃ s', opSelf s A B method = .ok s' ∧ s'.stack = s.stack ∧
      s'.reg.arr (cf.localBase + A + 1) = s.reg.arr (cf.localBase + B) ∧
      (A + 1 ≠ A → s'.reg.arr (cf.localBase + A) = method) ∧
      (∀ j, j ≠ cf.localBase + A → j ≠ cf.localBase + A + 1 → s'.reg.arr j = s.reg.arr j) ∧
      (∀ (args : List OVal) (recv : OVal), s.reg.arr (cf.localBase + B) = some recv →
        (∀ i, i < args.length → s.reg.arr (cf.localBase + A + 2 + i) = some ((args[i]?).getD none)) →
        s'.reg.window (cf.localBase + A + 1) (args.length + 1) = (methodArgs recv args).map some) :=
  Run.self_inserts_receiver s cf rest A B method hst

/-- **setlist_fills** — `OP_SETLIST A B C` performs exactly the stores `t[(C'-1)·FieldsPerFlush + i] := R[A+i]` for
    `i = 1 … n`, in order, where `n = B`, or "up to top" for `B = 0`, and `C'` is `C`, or the following code word for
    `C = 0`. -/
theorem setlist_fills (s : St) (cf : Frame) (rest : List Frame) (A B C extra tid : Nat)
    (hst : s.stack = cf :: rest) (ht : s.reg.arr (cf.localBase + A) = some (some (.ref tid))) :
    ∃ stores, opSetList s A B C extra = .ok stores ∧
      stores.length = (if B = 0 then s.reg.top - (cf.localBase + A) - 1 else B) ∧
      ∀ i, i < stores.length →
        stores[i]? = some ((((if C = 0 then extra else C : Nat) : Int) - 1) * (Generated.FieldsPerFlush : Int) + ((i + 1 : Nat) : Int),
                           s.reg.arr (cf.localBase + A + (i + 1))) :=
  Run.setlist_fills s cf rest A B C extra tid hst ht

/-! ### frame set-up: initCallFrame -/


/-- **initCallFrame_binds (fixed arity)** — for a Lua function without `...`: the parameter registers hold
    `bind np false args` = the arguments adjusted to `np` (missing ones nil, surplus dropped), every other
    register of the window is LNil (a Lua value, never Go nil), `top = LocalBase + NumUsedRegisters`, the frame
    record and everything below `LocalBase` are unchanged. -/
theorem initCallFrame_binds_fixed (r : Reg) (cf : Frame) (args : List OVal) (argId : Nat)
    (hG : cf.fn.isG = false) (hva : cf.fn.varArg = false)
    (hn : cf.nargs = args.length) (ha : ArgsAt r cf.localBase args) :
    let res := initCallFrame r cf argId
    res.2.1 = cf ∧ res.2.2.isNone ∧
    res.1.top = cf.localBase + cf.fn.nur ∧
    res.1.window cf.localBase cf.fn.np = (bind cf.fn.np false args).1.map some ∧
    (∀ i, cf.fn.np ≤ i → i < cf.fn.nur → res.1.arr (cf.localBase + i) = lnil) ∧
    (∀ j, j < cf.localBase → res.1.arr j = r.arr j) :=
  Run.initCallFrame_binds_fixed r cf args argId hG hva hn ha

/-- **initCallFrame_binds (vararg)** — for a Lua function with `...` (`np < NumUsedRegisters`, which patchCode
    guarantees): `LocalBase` moves past the arguments; the parameter registers hold the arguments adjusted to
    `np`; the extra arguments `(bind np true args).2 = args.drop np` stay where OP_VARARG will read them
    (`VarargFrame`, hence `vararg_spec` applies); with `VarArgNeedsArg` the register behind the parameters holds a
    fresh table `{extra…, n = #extra}`, otherwise LNil; all further registers are LNil;
    `top = LocalBase + NumUsedRegisters`; nothing below the old `LocalBase` changes. -/
theorem initCallFrame_binds_vararg (r : Reg) (cf : Frame) (args : List OVal) (argId : Nat)
    (hG : cf.fn.isG = false) (hva : cf.fn.varArg = true) (hb : cf.base + 1 = cf.localBase)
    (hn : cf.nargs = args.length) (ha : ArgsAt r cf.localBase args) (hnur : cf.fn.np < cf.fn.nur) :
    let res := initCallFrame r cf argId
    let lb' := cf.localBase + max cf.nargs cf.fn.np
    res.2.1 = { cf with localBase := lb' } ∧
    res.1.top = lb' + cf.fn.nur ∧
    res.1.window lb' cf.fn.np = (bind cf.fn.np true args).1.map some ∧
    VarargFrame res.1 res.2.1 (bind cf.fn.np true args).2 ∧
    (if cf.fn.needsArg then
        res.1.arr (lb' + cf.fn.np) = some (some (.ref argId)) ∧
        ∃ a, res.2.2 = some a ∧ a.n = (bind cf.fn.np true args).2.length ∧
             a.items = (bind cf.fn.np true args).2.map some
      else res.1.arr (lb' + cf.fn.np) = lnil ∧ res.2.2 = none) ∧
    (∀ i, cf.fn.np < i → i < cf.fn.nur → res.1.arr (lb' + i) = lnil) ∧
    (∀ j, j < cf.localBase → res.1.arr j = r.arr j) :=
  Run.initCallFrame_binds_vararg r cf args argId hG hva hb hn ha hnur

/-- **initCallFrame_binds (host function)** — a Go callee sees exactly the supplied arguments as its stack
    `1..nargs` (`top = LocalBase + nargs`), nothing else changes below them. -/
theorem initCallFrame_binds_G (r : Reg) (cf : Frame) (args : List OVal) (argId : Nat)
    (hG : cf.fn.isG = true) (hn : cf.nargs = args.length) (ha : ArgsAt r cf.localBase args) :
    let res := initCallFrame r cf argId
    res.2.1 = cf ∧ res.1.top = cf.localBase + args.length ∧
    res.1.window cf.localBase args.length = args.map some ∧
    (∀ j, j < cf.localBase → res.1.arr j = r.arr j) :=
  Run.initCallFrame_binds_G r cf args argId hG hn ha

/-! ### proper tail calls -/


/-- shape of the frame and `top` after `initCallFrame` for a Lua callee, for *any* registry contents. -/
theorem initCallFrame_shape (r : Reg) (cf : Frame) (argId : Nat) (hG : cf.fn.isG = false) :
    (initCallFrame r cf argId).2.1 =
      { cf with localBase := cf.localBase + (if cf.fn.varArg then max cf.nargs cf.fn.np else 0) } ∧
    (initCallFrame r cf argId).1.top = (initCallFrame r cf argId).2.1.localBase + cf.fn.nur :=
  Run.initCallFrame_shape r cf argId hG

/-- **tailcall_reuses_frame** — `OP_TAILCALL` to a Lua function (any register contents, any operands, also through
    `__call`): the call stack keeps its depth — the caller's frame record is overwritten in place —, `Base`,
    `ReturnBase` and `NRet` are the caller's, `LocalBase` is a function of the caller's `Base` and the callee's own
    shape only (`Base + 1`, plus `max(nargs, np)` for a vararg callee), and `top = LocalBase + NumUsedRegisters`:
    nothing accumulates from one tail call to the next. -/
theorem tailcall_reuses_frame (s : St) (cf : Frame) (rest : List Frame) (A B : Nat) (callee : FnInfo)
    (isMeta : Bool) (argId : Nat) (hst : s.stack = cf :: rest) (hG : callee.isG = false) :
    ∃ s' atb cf', opTailCallLua s A B callee isMeta argId = .ok (s', atb) ∧
      s'.stack = cf' :: rest ∧ s'.sp = s.sp ∧ s'.maxSp = s.maxSp ∧
      cf'.fn = callee ∧ cf'.base = cf.base ∧ cf'.returnBase = cf.returnBase ∧ cf'.nret = cf.nret ∧
      cf'.tailCall = cf.tailCall + 1 ∧
      cf'.nargs = decodeNArgs s.reg.top (cf.localBase + A) B + (if isMeta then 1 else 0) ∧
      cf'.localBase = cf.base + 1 + (if callee.varArg then max cf'.nargs callee.np else 0) ∧
      s'.reg.top = cf'.localBase + callee.nur :=
  Run.tailcall_reuses_frame s cf rest A B callee isMeta argId hst hG

/- a run of a function that keeps tail-calling Lua functions: between two tail calls the body may change the
    registers arbitrarily (`reg'`) but not the call stack. -/
export GLua.CallFrame.Run (TailChain)

/-- **tailcall_constant_space** — by induction on the number of successive tail calls: the call-stack depth `Sp`,
    the frames below, and the running frame's `Base`/`ReturnBase`/`NRet` never change, and after every tail call
    `top = LocalBase + NumUsedRegisters` with `LocalBase ≤ Base + 1 + max(nargs, np)` of the *last* callee only —
    `return f(args)` can repeat without bound without consuming call-stack space or registry space. -/
theorem tailcall_constant_space {s s' : St} (h : TailChain s s') (cf : Frame) (rest : List Frame)
    (hst : s.stack = cf :: rest) :
    s'.sp = s.sp ∧ ∃ cf', s'.stack = cf' :: rest ∧ cf'.base = cf.base ∧ cf'.returnBase = cf.returnBase ∧
      cf'.nret = cf.nret ∧
      (s' = s ∨ (cf'.localBase ≤ cf.base + 1 + max cf'.nargs cf'.fn.np ∧ s'.reg.top = cf'.localBase + cf'.fn.nur)) :=
  Run.tailcall_constant_space h cf rest hst

/-- **tailcall_host_pops_both** — `OP_TAILCALL` to a host function: while the Go function runs its frame sits on top
    of the caller's (`Sp + 1`, carrying the caller's `ReturnBase` and `NRet`); when it returns, the caller's frame
    is removed as well and the results are delivered to the caller's caller: `Sp` ends one *below* where it was. -/
theorem tailcall_host_pops_both (s : St) (cf : Frame) (rest : List Frame) (A B : Nat) (callee : FnInfo) (isMeta : Bool)
    (s1 : St) (hst : s.stack = cf :: rest) (h1 : opTailCallG s A B callee isMeta = .ok s1) :
    ∃ g, s1.stack = g :: cf :: rest ∧ g.returnBase = cf.returnBase ∧ g.nret = cf.nret ∧
      ∀ (reg' : Reg) (k : Nat), ∃ s2, gReturn { s1 with reg := reg' } k true = .ok s2 ∧ s2.stack = rest ∧ s2.sp + 1 = s.sp :=
  Run.tailcall_host_pops_both s cf rest A B callee isMeta s1 hst h1

/-! ### `select` and `unpack` -/
theorem drop_cons_pos {α} (a : α) (l : List α) (n : Nat) (h : 0 < n) : (a :: l).drop n = l.drop (n - 1) := by
  cases n with
  | zero => omega
  | succ n => simp

/-- **select_spec** — `baseSelect`'s index arithmetic + "the host function returns its top-most `k` values": for
    every number index and every argument list, `select(idx, …)` yields exactly the manual's values (the arguments
    from `idx` on; for a negative index the last `-idx`), and raises exactly when the reference does (0, or a
    negative index before the first argument). -/
theorem select_spec (idx : Int) (extra : List OVal) :
    (∀ k, baseSelectNum idx (extra.length + 1) = .ok k →
        selectSpec idx extra = .ok (gResults (some (.int idx) :: extra) k)) ∧
    ((∃ e, baseSelectNum idx (extra.length + 1) = .error e) ↔ (∃ e, selectSpec idx extra = .error e)) := by
  by_cases h1 : idx ≥ 1
  · -- positive index
    have hs : selectSpec idx extra = .ok (extra.drop (idx.toNat - 1)) := by simp [selectSpec, h1]
    by_cases h2 : idx > ((extra.length + 1 : Nat) : Int)
    · have hb : baseSelectNum idx (extra.length + 1) = .ok 0 := by
        simp only [baseSelectNum]
        rw [if_neg (by omega), if_pos h2, if_neg (by omega)]
        simp
      refine ⟨?_, by simp [hb, hs]⟩
      intro k hk
      rw [hb] at hk; injection hk with hk; subst hk
      rw [hs]
      simp only [gResults, List.length_cons, Nat.sub_zero, List.drop_length]
      congr 1
      rw [List.drop_eq_nil_of_le (by omega), List.drop_eq_nil_of_le (by simp)]
    · have hb : baseSelectNum idx (extra.length + 1) = .ok (extra.length + 1 - idx.toNat) := by
        simp only [baseSelectNum]
        rw [if_neg (by omega), if_neg h2, if_neg (by omega)]
        congr 1; omega
      refine ⟨?_, by simp [hb, hs]⟩
      intro k hk
      rw [hb] at hk; injection hk with hk; subst hk
      rw [hs]
      simp only [gResults, List.length_cons]
      congr 1
      rw [drop_cons_pos _ _ _ (by omega)]
      congr 1; omega
  · by_cases h3 : idx < 0 ∧ idx.natAbs ≤ extra.length
    · have hs : selectSpec idx extra = .ok (extra.drop (extra.length - idx.natAbs)) := by
        simp [selectSpec, h1, h3]
      have hb : baseSelectNum idx (extra.length + 1) = .ok idx.natAbs := by
        simp only [baseSelectNum]
        rw [if_pos h3.1, if_neg (by omega)]
        congr 1; omega
      refine ⟨?_, by simp [hb, hs]⟩
      intro k hk
      rw [hb] at hk; injection hk with hk; subst hk
      rw [hs]
      simp only [gResults, List.length_cons]
      congr 1
      rw [drop_cons_pos _ _ _ (by omega)]
      congr 1; omega
    · have hs : selectSpec idx extra = .error "index out of range" := by simp [selectSpec, h1, h3]
      have hb : ∃ e, baseSelectNum idx (extra.length + 1) = .error e := by
        simp only [baseSelectNum]
        by_cases h4 : idx < 0
        · have h5 : 1 > ((extra.length + 1 : Nat) : Int) + idx := by omega
          simp only [h4, if_true, h5]; exact ⟨_, rfl⟩
        · have h5 : ¬ idx > ((extra.length + 1 : Nat) : Int) := by omega
          have h6 : 1 > idx := by omega
          simp only [h4, h5, if_false, h6, if_true]; exact ⟨_, rfl⟩
      obtain ⟨e, he⟩ := hb
      refine ⟨?_, ?_⟩
      · intro k hk
        rw [he] at hk
        cases hk
      · constructor
        · intro _; exact ⟨_, hs⟩
        · intro _; exact ⟨_, he⟩

/-- `select('#', …)` pushes the number of extra arguments. -/
theorem select_count_spec (extra : List OVal) :
    baseSelectCount (extra.length + 1) = (selectCount extra : Int) := by
  simp [baseSelectCount, selectCount]

theorem unpackLoop_eq (t : Int → OVal) (i : Int) (k : Nat) :
    unpackLoop t i k = (List.range k).map (fun (j : Nat) => t (i + (j : Int))) := by
  induction k generalizing i with
  | zero => rfl
  | succ k ih =>
    rw [unpackLoop, ih, List.range_succ_eq_map]
    simp only [List.map_cons, List.map_map]
    congr 1
    · simp
    · apply List.map_congr_left
      intro j _
      simp only [Function.comp]
      congr 1
      simp only [Nat.succ_eq_add_one, Int.natCast_add, Int.natCast_one]
      omega

/-- **unpack_spec** — `baseUnpack`'s loop and result count: whatever arguments lie below on the callee's stack, the
    values delivered are exactly `list[i], …, list[j]` (none when `i > j`). -/
theorem unpack_spec (t : Int → OVal) (i j : Int) (below : List OVal) :
    gResults (below ++ (baseUnpack t i j).1) (baseUnpack t i j).2 = unpackSpec t i j := by
  simp only [baseUnpack, unpackSpec, gResults, unpackLoop_eq]
  by_cases h : j - i + 1 < 0
  · have : (j - i + 1).toNat = 0 := by omega
    simp [h, this]
  · simp only [h, if_false, List.length_append, List.length_map, List.length_range]
    rw [Nat.add_sub_cancel, List.drop_left]

/-! ## The COMPILE-TIME half: the compiler encodes every call shape so that the run-time theorems above apply

  Model = `Model/CallCompile.lean` (a transcription of `compileExpr` / `compileFuncCallExpr` / `compileTableExpr` /
  `compileReturnStmt` / `compileRegAssignment` … for the producer language of `Spec/CallShapes.lean`, tied word for
  word to the real compiler by the `cc` requests of the C02M run) + a machine that executes the emitted
  instructions with the run-time Model above (`opCall`, `initCallFrame`, `opReturn`, `gReturn`, `opVararg`,
  `opSetList`, `opSelf`) and ABSTRACT callees (`MEnv.sem`: any function from (parameters, extra arguments, world)
  to (results, world); `luaBody`/`goBody`: any body that leaves its results where its OP_RETURN / return count says:
  `BodiesOK`).  Spec = `CallShapes.evalMulti / evalList / evalFields / execStmt` (the manual's evaluation).

  All statements are for EVERY producer (any nesting depth), every list length, every number of wanted values,
  every callee kind (host, fixed-arity Lua, vararg Lua with or without `arg`), every register file and frame that
  satisfy the activation invariant `Inv`, every constant pool `K` extending the one the compiler built.
  They speak about the ENCODED code (`Instr.mask` = the operand truncation of `AddABC`) under the decidable guard
  `Fits` (no operand was truncated; `patchCode` rejects functions that need 200 registers or more). -/

section CompileTime
open GLua.CallCompile GLua.CallShapes

variable {W : Type}

/-- **results_adjusted** — every producer `e`, compiled for any context (`varargopt`: `-2` open, `-1` no value,
    `k ≥ 0` exactly `k+1` values), leaves in the registers from `R[reg]` exactly what the manual prescribes: ALL its
    values with `top` just above them (open), resp. `adjust values (k+1)` (truncated / nil-padded); it has the
    Spec's effect on the world and on the table heap, and changes nothing below `R[reg]` nor the call stack. -/
theorem results_adjusted (env : MEnv W) (hB : BodiesOK env) (hI : InfoWF env) (K : List Konst) (e : Ex)
    (rt reg : Nat) (ec : ExpCtx) (cs : CState) (cf : Frame) (rest : List Frame) (loc : Nat → OVal)
    (extra : List OVal) (s : MS W)
    (hp : Plain ec reg) (hctx : CtxOK e ec.varargopt) (hsc : e.scoped rt = true) (hreg : rt ≤ reg)
    (hK : (compExpr rt e reg ec cs).cs.consts <+: K) (hfits : Fits (compExpr rt e reg ec cs).code)
    (hinv : Inv cf rest rt loc extra s) (htop : cf.localBase + reg ≤ s.st.reg.top) :
    ∃ s', exec env K ((compExpr rt e reg ec cs).code.map Instr.mask) s = .ok s' ∧
      s'.st.stack = s.st.stack ∧ (∀ j, j < cf.localBase + reg → s'.st.reg.arr j = s.st.reg.arr j) ∧
      s'.σ = (evalMulti (env.toSEnv extra) loc e s.σ).2 ∧
      (ec.varargopt = -2 →
        s'.st.reg.top = cf.localBase + reg + (evalMulti (env.toSEnv extra) loc e s.σ).1.length ∧
        s'.st.reg.window (cf.localBase + reg) (evalMulti (env.toSEnv extra) loc e s.σ).1.length =
          (evalMulti (env.toSEnv extra) loc e s.σ).1.map some) ∧
      (∀ k : Nat, ec.varargopt = (k : Int) →
        cf.localBase + reg + (k + 1) ≤ s'.st.reg.top ∧
        s'.st.reg.window (cf.localBase + reg) (k + 1) =
          (adjust (evalMulti (env.toSEnv extra) loc e s.σ).1 (some (k + 1))).map some) := by
  obtain ⟨s', hrun, hstep, hσ, hres⟩ := exprSound env hB hI K e rt reg ec cs cf rest loc extra s hp hctx hsc hreg hK hfits
    hinv htop
  obtain ⟨ht, h2, h0, _⟩ := hres
  refine ⟨s', hrun.masked hfits, hstep.stack, hstep.below, hσ, fun hv => ?_, fun k hk => ?_⟩
  · obtain ⟨ha, hb, _⟩ := h2 hv
    exact ⟨ha, valsAt_window hb⟩
  · obtain ⟨ha, hb⟩ := h0 (by omega)
    have hk1 : (ec.varargopt + 1).toNat = k + 1 := by omega
    rw [hk1] at ha hb
    exact ⟨by rw [hb] at ht; exact ht, ha.window⟩

/-- **call_site_delivers** — for `f(args)` in any context: the callee is the first value of `f`; it runs in the
    world left by evaluating `f` and then the argument list, with its parameters and `...` bound (`Adjust.bind`, by
    its own parameter count and vararg-ness) to EXACTLY the manual's argument list — every producer but the last
    adjusted to one value, the last one expanded (`evalList`); the world afterwards is the one it returns. -/
theorem call_site_delivers (env : MEnv W) (hB : BodiesOK env) (hI : InfoWF env) (K : List Konst) (p : Bool) (f : Ex)
    (args : List Ex) (rt reg : Nat) (ec : ExpCtx) (cs : CState) (cf : Frame) (rest : List Frame) (loc : Nat → OVal)
    (extra : List OVal) (s : MS W)
    (hp : Plain ec reg) (hctx : CtxOK (.call p f args) ec.varargopt) (hsc : (Ex.call p f args).scoped rt = true)
    (hreg : rt ≤ reg) (hK : (compExpr rt (.call p f args) reg ec cs).cs.consts <+: K)
    (hfits : Fits (compExpr rt (.call p f args) reg ec cs).code)
    (hinv : Inv cf rest rt loc extra s) (htop : cf.localBase + reg ≤ s.st.reg.top) :
    ∃ s', exec env K ((compExpr rt (.call p f args) reg ec cs).code.map Instr.mask) s = .ok s' ∧
      let senv := env.toSEnv extra
      let r1 := evalMulti senv loc f s.σ            -- the function expression
      let r2 := evalList senv loc args r1.2         -- the argument list, as §2.5 evaluates it
      let fv := first r1.1
      s'.w = (env.sem fv (bind (senv.np fv) (senv.va fv) r2.1).1 (bind (senv.np fv) (senv.va fv) r2.1).2 r2.2.w).2 ∧
      s'.heap = r2.2.heap := by
  obtain ⟨s', hrun, _, hσ, _⟩ := exprSound env hB hI K _ rt reg ec cs cf rest loc extra s hp hctx hsc hreg hK hfits
    hinv htop
  refine ⟨s', hrun.masked hfits, ?_⟩
  have hw : s'.w = (evalMulti (env.toSEnv extra) loc (.call p f args) s.σ).2.w := by rw [← hσ]; rfl
  have hh : s'.heap = (evalMulti (env.toSEnv extra) loc (.call p f args) s.σ).2.heap := by rw [← hσ]; rfl
  simp only [evalMulti, callSem] at hw hh
  exact ⟨hw, hh⟩

/-- **method_call_self** — `recv:name(args)`: the receiver is evaluated once, the method is `index recv name` looked
    up BEFORE the arguments are evaluated, and the callee's argument list is `methodArgs recv args` = the receiver
    followed by the explicit arguments (last one expanded). -/
theorem method_call_self (env : MEnv W) (hB : BodiesOK env) (hI : InfoWF env) (K : List Konst) (p : Bool) (recv : Ex)
    (m : String) (args : List Ex) (rt reg : Nat) (ec : ExpCtx) (cs : CState) (cf : Frame) (rest : List Frame)
    (loc : Nat → OVal) (extra : List OVal) (s : MS W)
    (hp : Plain ec reg) (hctx : CtxOK (.mcall p recv m args) ec.varargopt)
    (hsc : (Ex.mcall p recv m args).scoped rt = true) (hreg : rt ≤ reg)
    (hK : (compExpr rt (.mcall p recv m args) reg ec cs).cs.consts <+: K)
    (hfits : Fits (compExpr rt (.mcall p recv m args) reg ec cs).code)
    (hinv : Inv cf rest rt loc extra s) (htop : cf.localBase + reg ≤ s.st.reg.top) :
    ∃ s', exec env K ((compExpr rt (.mcall p recv m args) reg ec cs).code.map Instr.mask) s = .ok s' ∧
      let senv := env.toSEnv extra
      let r1 := evalMulti senv loc recv s.σ
      let rv := first r1.1
      let fv := env.index rv m r1.2.w
      let r2 := evalList senv loc args r1.2
      let all := methodArgs rv r2.1
      s'.w = (env.sem fv (bind (senv.np fv) (senv.va fv) all).1 (bind (senv.np fv) (senv.va fv) all).2 r2.2.w).2 := by
  obtain ⟨s', hrun, _, hσ, _⟩ := exprSound env hB hI K _ rt reg ec cs cf rest loc extra s hp hctx hsc hreg hK hfits
    hinv htop
  refine ⟨s', hrun.masked hfits, ?_⟩
  have hw : s'.w = (evalMulti (env.toSEnv extra) loc (.mcall p recv m args) s.σ).2.w := by rw [← hσ]; rfl
  simp only [evalMulti, callSem] at hw
  exact hw

/-- **explist_delivers** — an expression list (the arguments of a call, the values of a `return`) of ANY length:
    its values (`evalList`: one per producer, the last one expanded) sit in consecutive registers from `R[reg]`;
    after an open-ended last producer `top` is exactly above the last value (what `B = 0` of the following
    OP_CALL / OP_RETURN reads), otherwise there is exactly one register per expression. -/
theorem explist_delivers (env : MEnv W) (hB : BodiesOK env) (hI : InfoWF env) (K : List Konst) (es : List Ex)
    (rt reg : Nat) (cs : CState) (cf : Frame) (rest : List Frame) (loc : Nat → OVal) (extra : List OVal) (s : MS W)
    (hsc : scopedL rt es = true) (hreg : rt ≤ reg)
    (hK : (compList rt es reg cs).cs.consts <+: K) (hfits : Fits (compList rt es reg cs).code)
    (hinv : Inv cf rest rt loc extra s) (htop : cf.localBase + reg ≤ s.st.reg.top) :
    ∃ s', exec env K ((compList rt es reg cs).code.map Instr.mask) s = .ok s' ∧
      s'.st.stack = s.st.stack ∧ (∀ j, j < cf.localBase + reg → s'.st.reg.arr j = s.st.reg.arr j) ∧
      s'.σ = (evalList (env.toSEnv extra) loc es s.σ).2 ∧
      s'.st.reg.window (cf.localBase + reg) (evalList (env.toSEnv extra) loc es s.σ).1.length =
        (evalList (env.toSEnv extra) loc es s.σ).1.map some ∧
      (if (compList rt es reg cs).lastMulti then
         s'.st.reg.top = cf.localBase + reg + (evalList (env.toSEnv extra) loc es s.σ).1.length
       else (evalList (env.toSEnv extra) loc es s.σ).1.length = es.length ∧
            cf.localBase + reg + es.length ≤ s'.st.reg.top) := by
  obtain ⟨s', hrun, hstep, hσ, hv, hlast⟩ := listSound env hB hI K es rt reg cs cf rest loc extra s hsc hreg hK hfits
    hinv htop
  refine ⟨s', hrun.masked hfits, hstep.stack, hstep.below, hσ, valsAt_window hv, ?_⟩
  split
  · rename_i h; simp only [h, if_true] at hlast; exact hlast
  · rename_i h; simp only [h, Bool.false_eq_true, if_false] at hlast; exact ⟨hlast.1, hlast.2.2⟩

/-- **constructor_fields_stored** — a table constructor with ANY field list (positional, keyed, an open-ended last
    field; any length: every SETLIST batch boundary, batch numbers beyond 511 in the extra code word): the machine's
    table heap afterwards is exactly the Spec's — the new table's positional store log and keyed store log are the
    ones `evalFields` prescribes (see `constructor_positional_fields` for what that log is). -/
theorem constructor_fields_stored (env : MEnv W) (hB : BodiesOK env) (hI : InfoWF env) (K : List Konst)
    (keys : List (Option Key)) (vals : List Ex) (rt reg : Nat) (cs : CState) (cf : Frame) (rest : List Frame)
    (loc : Nat → OVal) (extra : List OVal) (s : MS W)
    (hsc : (Ex.tbl keys vals).scoped rt = true) (hreg : rt ≤ reg)
    (hK : (compExpr rt (.tbl keys vals) reg (ecnone 0) cs).cs.consts <+: K)
    (hfits : Fits (compExpr rt (.tbl keys vals) reg (ecnone 0) cs).code)
    (hinv : Inv cf rest rt loc extra s) (htop : cf.localBase + reg ≤ s.st.reg.top) :
    ∃ s', exec env K ((compExpr rt (.tbl keys vals) reg (ecnone 0) cs).code.map Instr.mask) s = .ok s' ∧
      s'.st.reg.arr (cf.localBase + reg) = some (some (.ref s.heap.length)) ∧
      s'.heap = (evalFields (env.toSEnv extra) loc s.heap.length keys vals 0
                  { w := s.w, heap := s.heap ++ [{}] }).heap ∧
      s'.w = (evalFields (env.toSEnv extra) loc s.heap.length keys vals 0 { w := s.w, heap := s.heap ++ [{}] }).w := by
  obtain ⟨s', hrun, _, hσ, hres⟩ := exprSound env hB hI K _ rt reg (ecnone 0) cs cf rest loc extra s (plain_ecnone _ _)
    (ctxOK_0 _) hsc hreg hK hfits hinv htop
  obtain ⟨_, _, h0, _⟩ := hres
  obtain ⟨hv, _⟩ := h0 (Int.le_refl _)
  refine ⟨s', hrun.masked hfits, ?_, ?_, ?_⟩
  · have := hv 0 (by show 0 < ((0 : Int) + 1).toNat; decide)
    rw [Nat.add_zero] at this
    rw [this]; simp [evalMulti]; rfl
  · have : s'.heap = (evalMulti (env.toSEnv extra) loc (.tbl keys vals) s.σ).2.heap := by rw [← hσ]; rfl
    rw [this]; simp only [evalMulti]; rfl
  · have : s'.w = (evalMulti (env.toSEnv extra) loc (.tbl keys vals) s.σ).2.w := by rw [← hσ]; rfl
    rw [this]; simp only [evalMulti]; rfl

/-- **return_list_delivers** — EVERY return statement (`compileReturnStmt`: `return x` for a local, the general list
    `return e1, …, en` with `B = n+1` or `B = 0` behind an open-ended last producer, `return (f(args))`, and the tail
    call `return f(args)`): the function's frame is popped and its caller finds at `ReturnBase` exactly
    `adjust (evalList es) NRet` — the list as the manual evaluates it (last producer expanded), adjusted to what
    the caller asked for; for the tail call the callee received the same arguments an ordinary call gives it. -/
theorem return_list_delivers (env : MEnv W) (hB : BodiesOK env) (hI : InfoWF env) (K : List Konst) (es : List Ex)
    (cf : Frame) (rest : List Frame) (rt : Nat) (loc : Nat → OVal) (extra : List OVal) (s : MS W) (cs : CState)
    (hsc : scopedL rt es = true) (hK : (compReturn rt es cs).2.consts <+: K) (hfits : Fits (compReturn rt es cs).1)
    (hinv : Inv cf rest rt loc extra s) (htop : cf.localBase + rt ≤ s.st.reg.top) :
    ∃ s', exec env K ((compReturn rt es cs).1.map Instr.mask) s = .ok s' ∧
      s'.done = true ∧ s'.st.stack = rest ∧
      s'.st.reg.top = cf.returnBase + (adjust (evalList (env.toSEnv extra) loc es s.σ).1 cf.nret).length ∧
      s'.st.reg.window cf.returnBase (adjust (evalList (env.toSEnv extra) loc es s.σ).1 cf.nret).length =
        (adjust (evalList (env.toSEnv extra) loc es s.σ).1 cf.nret).map some ∧
      (∀ j, j < cf.returnBase → s'.st.reg.arr j = s.st.reg.arr j) ∧
      s'.σ = (evalList (env.toSEnv extra) loc es s.σ).2 := by
  obtain ⟨s', hrun, hret, hσ⟩ := compReturn_sound env hB hI K es cf rest rt loc extra s cs hsc hK hfits hinv htop
  exact ⟨s', hrun.masked hfits, hret.done, hret.stack, hret.top, hret.window, hret.below, hσ⟩

/-- **tailcall_passes_values** (run-time, value level; complements `tailcall_reuses_frame`) — OP_TAILCALL with the
    function value in `R[A]` and the argument values behind it, for a host callee and for a Lua callee (fixed or
    vararg: `initCallFrame` above the arguments, then the block move down onto the caller's base): the callee runs
    on `bind` of exactly these arguments, the running function's frame is gone, and ITS caller finds
    `adjust results cf.NRet` at `cf.ReturnBase`. -/
theorem tailcall_passes_values (env : MEnv W) (hB : BodiesOK env) (hI : InfoWF env) (extra : List OVal) (s : MS W)
    (cf : Frame) (rest : List Frame) (A B : Nat) (fv : OVal) (args : List OVal)
    (hst : s.st.stack = cf :: rest) (hroom : s.st.stack.length < s.st.maxSp)
    (hrbb : cf.returnBase ≤ cf.base) (hbl : cf.base < cf.localBase)
    (hf : s.st.reg.arr (cf.localBase + A) = some fv)
    (ha : ArgsAt s.st.reg (cf.localBase + A + 1) args)
    (hb : if B = 0 then s.st.reg.top = cf.localBase + A + 1 + args.length else args.length = B - 1) :
    ∃ s', execTailCall env s A B = .ok s' ∧ s'.done = true ∧ s'.st.stack = rest ∧ s'.heap = s.heap ∧
      s'.w = (callSem (env.toSEnv extra) fv args s.w).2 ∧
      s'.st.reg.top = cf.returnBase + (adjust (callSem (env.toSEnv extra) fv args s.w).1 cf.nret).length ∧
      s'.st.reg.window cf.returnBase (adjust (callSem (env.toSEnv extra) fv args s.w).1 cf.nret).length =
        (adjust (callSem (env.toSEnv extra) fv args s.w).1 cf.nret).map some ∧
      (∀ j, j < cf.returnBase → s'.st.reg.arr j = s.st.reg.arr j) :=
  execTailCall_spec env hB hI extra s cf rest A B fv args hst hroom hrbb hbl hf ha hb

/-- **paren_call_single** — `return (f(args))`: the call is compiled for exactly one result, the open `RETURN a 0`
    behind it returns exactly that ONE value (nil if `f` returns nothing), adjusted to the caller's `NRet`. -/
theorem paren_call_single (env : MEnv W) (hB : BodiesOK env) (hI : InfoWF env) (K : List Konst) (e : Ex)
    (hcall : e.isCall = true)
    (cf : Frame) (rest : List Frame) (rt : Nat) (loc : Nat → OVal) (extra : List OVal) (s : MS W) (cs : CState)
    (hsc : e.scoped rt = true) (hK : (compExpr rt e rt (ecnone 0) cs).cs.consts <+: K)
    (hfits : Fits ((compExpr rt e rt (ecnone 0) cs).code ++ [Instr.ret rt 0]))
    (hinv : Inv cf rest rt loc extra s) (htop : cf.localBase + rt ≤ s.st.reg.top) :
    ∃ s', exec env K (((compExpr rt e rt (ecnone 0) cs).code ++ [Instr.ret rt 0]).map Instr.mask) s = .ok s' ∧
      s'.done = true ∧ s'.st.stack = rest ∧
      s'.st.reg.window cf.returnBase (adjust [first (evalMulti (env.toSEnv extra) loc e s.σ).1] cf.nret).length =
        (adjust [first (evalMulti (env.toSEnv extra) loc e s.σ).1] cf.nret).map some ∧
      s'.st.reg.top = cf.returnBase + (adjust [first (evalMulti (env.toSEnv extra) loc e s.σ).1] cf.nret).length := by
  obtain ⟨s', hrun, hret, _⟩ := ret_paren_sound env hB hI K e hcall cf rest rt loc extra s cs hsc hK
    ((fits_append.mp hfits).1) hinv htop
  exact ⟨s', hrun.masked hfits, hret.done, hret.stack, hret.window, hret.top⟩

/-- **assignment_rhs_adjusted (local declarations)** — `local x1, …, xn = e1, …, em` for any `n`, `m`
    (`compileRegAssignment`): the `n` new locals' registers hold `adjust (evalList es) n` — one value per producer,
    the last producer expanded if it is a call or `...`, missing values nil (LOADNIL), surplus values dropped —, and
    ALL the expressions have been evaluated (also the surplus ones). -/
theorem assignment_rhs_adjusted (env : MEnv W) (hB : BodiesOK env) (hI : InfoWF env) (K : List Konst) (n : Nat)
    (es : List Ex) (rt : Nat) (cs : CState) (cf : Frame) (rest : List Frame) (loc : Nat → OVal) (extra : List OVal)
    (s : MS W)
    (hsc : scopedL rt es = true) (hK : (compRegAssignment rt n es rt n cs).2.consts <+: K)
    (hfits : Fits (compRegAssignment rt n es rt n cs).1)
    (hinv : Inv cf rest rt loc extra s) (htop : cf.localBase + rt ≤ s.st.reg.top) :
    ∃ s', exec env K ((compRegAssignment rt n es rt n cs).1.map Instr.mask) s = .ok s' ∧
      s'.st.stack = s.st.stack ∧ (∀ j, j < cf.localBase + rt → s'.st.reg.arr j = s.st.reg.arr j) ∧
      s'.σ = (evalList (env.toSEnv extra) loc es s.σ).2 ∧
      s'.st.reg.window (cf.localBase + rt) n = (adjust (evalList (env.toSEnv extra) loc es s.σ).1 (some n)).map some ∧
      cf.localBase + rt + n ≤ s'.st.reg.top := by
  rw [compRegAssignment_eq] at hK hfits ⊢
  obtain ⟨s', hrun, hstep, hσ, hv, ht⟩ := regAssign_sound env hB hI K n es rt 0 rt cs cf rest loc extra s hsc
    (Nat.le_refl _) (Nat.zero_le _) hK hfits hinv htop
  exact ⟨s', hrun.masked hfits, hstep.stack, hstep.below, hσ, (by simpa using hv.window), by simpa using ht⟩

/-- **constructor_positional_fields** (the theorem that was missing for `flushPlan`) — for EVERY field list (positional,
    keyed and an open-ended last field in any order and number; every SETLIST batch boundary; batch numbers beyond
    511 through the extra code word): the new table's positional store log is `posStores 0 vs` =
    `[(1, v₁), (2, v₂), …, (n, vₙ)]` — positional value number k is stored under index k, each index exactly once,
    in order — where `vs` are the positional values as the manual evaluates them (`evalFields`). -/
theorem constructor_positional_fields (env : MEnv W) (hB : BodiesOK env) (hI : InfoWF env) (K : List Konst)
    (keys : List (Option Key)) (vals : List Ex) (rt reg : Nat) (cs : CState) (cf : Frame) (rest : List Frame)
    (loc : Nat → OVal) (extra : List OVal) (s : MS W)
    (hsc : (Ex.tbl keys vals).scoped rt = true) (hreg : rt ≤ reg)
    (hK : (compExpr rt (.tbl keys vals) reg (ecnone 0) cs).cs.consts <+: K)
    (hfits : Fits (compExpr rt (.tbl keys vals) reg (ecnone 0) cs).code)
    (hinv : Inv cf rest rt loc extra s) (htop : cf.localBase + reg ≤ s.st.reg.top) :
    ∃ (s' : MS W) (vs : List OVal) (ks : List (OVal × OVal)),
      exec env K ((compExpr rt (.tbl keys vals) reg (ecnone 0) cs).code.map Instr.mask) s = .ok s' ∧
      s'.st.reg.arr (cf.localBase + reg) = some (some (.ref s.heap.length)) ∧
      s'.heap[s.heap.length]? = some { arr := posStores 0 vs, keyed := ks } ∧
      (∀ k, k < vs.length → (posStores 0 vs)[k]? = some (((k + 1 : Nat) : Int), (vs[k]?).getD none)) := by
  obtain ⟨s', hex, hreg', hheap, _⟩ := constructor_fields_stored env hB hI K keys vals rt reg cs cf rest loc extra s hsc
    hreg hK hfits hinv htop
  obtain ⟨vs, ks, hlog⟩ := tbl_log (env.toSEnv extra) loc keys vals s.σ
  refine ⟨s', vs, ks, hex, hreg', ?_, ?_⟩
  · rw [hheap]
    simp only [evalMulti] at hlog
    exact hlog
  · intro k hk
    simp [posStores, hk]

/-- **tailcall_emitted_iff** — a statement's code contains an OP_TAILCALL exactly when the statement is
    `return f(args)` / `return o:m(args)`: ONE producer, a call, not in parentheses; no other return list
    (`return (f())`, `return f(), g()`, `return x, f()`, `return ...`), no call statement, local declaration or
    assignment is compiled to a tail call.  (What the OP_TAILCALL then does — frame reuse, constant stack depth —
    is `tailcall_reuses_frame` / `tailcall_constant_space` above.) -/
theorem tailcall_emitted_iff (rt : Nat) (st : Stmt) (cs : CState) :
    (∃ i ∈ (compStmt rt st cs).1, i.isTail = true) ↔
    ∃ e, st = .ret [e] ∧ e.isCall = true ∧ e.paren = false := by
  have h := compStmt_tail_iff rt st cs
  simp only [HasTail, IsTailReturn] at h
  rw [h]
  constructor
  · rintro ⟨es, hst, e, hes, hc, hp⟩; exact ⟨e, by rw [hst, hes], hc, hp⟩
  · rintro ⟨e, hst, hc, hp⟩; exact ⟨[e], hst, e, rfl, hc, hp⟩

end CompileTime

/-! ### defects of the tree before today's repairs, as machine-checked witnesses -/

/-- a registry given by its first slots (Go nil beyond) -/
def regOf (l : List Slot) (top : Nat) : Reg := { arr := fun i => l.getD i goNil, top := top }

/-- caller at base 0 about to execute `return f(7)` where `f = function(a, ...) return arg end`
    (`np = 1`, vararg with `VarArgNeedsArg`, `NumUsedRegisters = 2`: the `arg` table is the highest register). -/
def tcCallee : FnInfo := { id := 2, np := 1, isVarArg := 7, nur := 2 }
def tcState : St :=
  { reg := regOf [some (some (.ref 1)), some (some (.ref 2)), some (some (.int 7))] 3,
    stack := [{ fn := { id := 1, nur := 2 }, base := 0, localBase := 1, returnBase := 0, nargs := 0, nret := none }] }

def argSlotAfter (dropLast : Bool) : Slot :=
  match opTailCallLuaGen dropLast tcState 0 2 tcCallee false 9 with
  | .ok (s', _) => s'.reg.arr 3          -- LocalBase (2) + np (1): the register of `arg`
  | .error _ => lnil

/-- the full statement "after a tail call the callee's window is what an ordinary call sets up" was FALSE of the
    tree before `fixes/C02-tailcall-last-register.diff`: the moved block was one value short and the compat `arg`
    table of this callee became a Go nil above `top` … -/
theorem tailcall_old_loses_arg_table : argSlotAfter true = goNil := by decide

/-- … and holds after the repair (the model of the code as it is to be merged). -/
theorem tailcall_keeps_arg_table : argSlotAfter false = some (some (.ref 9)) := by decide

/-- `compileTableExpr` before commit 416c915: after a full batch of 50 positional items a trailing multi-value
    field was flushed into batch 1 again (`{<50 items>, f()}` overwrote `t[1…]`), and every following keyed field
    re-flushed the stale registers; the current code numbers the batch `arraycount/50 + 1` and does not flush. -/
theorem flush_old_defects :
    flushStepOld 50 true .multi true = (50, some { b := 0, c := 1, extra := none }) ∧
    flushStep 50 true .multi = (50, some { b := 0, c := 2, extra := none }) ∧
    flushStepOld 50 false .keyed false = (50, some { b := 50, c := 1, extra := none }) ∧
    flushStep 50 false .keyed = (50, none) ∧
    flushStepOld 2 true .keyed true = (2, some { b := 0, c := 1, extra := none }) ∧
    flushStep 2 true .keyed = (2, some { b := 2, c := 1, extra := none }) ∧
    flushStepOld 25599 true .item false = (25600, some { b := 50, c := 0, extra := some 0 }) ∧
    flushStep 25599 true .item = (25600, some { b := 50, c := 0, extra := some 512 }) := by decide

/-! ### non-vacuity: the hypotheses of the theorems above are met by concrete, non-trivial states -/

def exReg : Reg :=
  regOf [some (some (.ref 1)), some (some (.int 10)), some none, some (some (.int 30)), some (some (.str "6a"))] 5

-- three arguments (one of them nil) above a function at slot 0; a stale value above them
example : ArgsAt exReg 1 [some (.int 10), none, some (.int 30)] := by unfold ArgsAt; decide

-- a vararg callee with 1 parameter called with these 3 arguments: parameters [10], extra [nil, 30], arg table
example :
    let cf : Frame := { fn := { np := 1, isVarArg := 7, nur := 3 }, base := 0, localBase := 1, nargs := 3 }
    let res := initCallFrame exReg cf 9
    res.2.1.localBase = 4 ∧ res.1.top = 7 ∧
    res.1.window 1 6 = [lnil, some none, some (some (.int 30)), some (some (.int 10)), some (some (.ref 9)), lnil] ∧
    (res.2.2.map (·.items)) = some [some none, some (some (.int 30))] := by decide

-- OP_RETURN with B = 3 (two values) into a caller that wants 4: padded; B = 0 into one that wants 1: truncated
example : (copyReturnValues exReg 0 1 4 3).window 0 5 =
    [some (some (.int 10)), some none, lnil, lnil, goNil] := by decide
example : (copyReturnValues exReg 0 1 1 0).window 0 5 = [some (some (.int 10)), goNil, goNil, goNil, goNil] := by decide
example : RetAvail exReg 1 3 [some (.int 10), none] ∧ RetAvail exReg 1 0 [some (.int 10), none, some (.int 30), some (.str "6a")] := by
  unfold RetAvail; decide

-- `select(-1, a, b, c)`, `select(2, a, b, c)`, `select(4, a)`, `select(0)`, `unpack(t, 2, 3)`
example : (baseSelectNum (-1) 4).toOption = some 1 ∧ (baseSelectNum 2 4).toOption = some 2 ∧
    (baseSelectNum 4 2).toOption = some 0 ∧ (baseSelectNum 0 1).toOption = none := by decide
example : (baseUnpack (fun i => some (.int i)) 2 3) = ([some (.int 2), some (.int 3)], 2) := by decide

/-! ### non-vacuity of the compile-time theorems: a concrete environment, activation and programs -/

section CompileTimeExamples
open GLua.CallCompile GLua.CallShapes

/-- callees of the examples: `f1` (hex 6631) a Lua function with one parameter, `f2` a Lua vararg function with one
    parameter, everything else a host function; each returns its parameters, its extra arguments and 7, and logs
    what it was called with. -/
def exInfo (fv : OVal) : FnInfo :=
  if fv = some (.str "6631") then { np := 1, nur := 3 }
  else if fv = some (.str "6632") then { np := 1, isVarArg := 3, nur := 3 }
  else { isG := true }

abbrev ExW := List (OVal × List OVal × List OVal)

def exEnv : MEnv ExW :=
  canonEnv (fun _ g => some (.str g)) (fun w _ _ => w) (fun _ m _ => some (.str m)) exInfo
    (fun fv params extra w => (params ++ extra ++ [some (.int 7)], w ++ [(fv, params, extra)]))

def exFrame : Frame := { fn := { np := 0, isVarArg := 3, nur := 8 }, base := 0, localBase := 3, returnBase := 0, nargs := 2 }

/-- the main chunk called with the extra arguments 10, 20: they sit below its `LocalBase`, its registers are nil -/
def exState : MS ExW :=
  { st := { reg := { arr := fun i => if i = 0 then some (some (.ref 0)) else if i = 1 then some (some (.int 10))
                                     else if i = 2 then some (some (.int 20)) else if i < 11 then lnil else goNil,
                     top := 11 },
            stack := [exFrame] },
    w := [], heap := [] }

-- the hypotheses about the abstract callees are satisfiable …
example : BodiesOK exEnv := canonEnv_bodiesOK _ _ _ _ _
example : InfoWF exEnv := by
  intro fv hG
  simp only [exEnv, canonEnv, exInfo] at hG ⊢
  by_cases h1 : fv = some (.str "6631")
  · simp only [h1, if_true]; decide
  · by_cases h2 : fv = some (.str "6632")
    · simp only [h2, if_true]; decide
    · simp only [h1, h2, if_false] at hG; cases hG

-- … and so is the activation invariant
example : Inv exFrame [] 0 (fun _ => none) [some (.int 10), some (.int 20)] exState :=
  ⟨rfl, by decide, rfl, fun r hr => by omega, by unfold VarargFrame; decide, by decide, by decide, by decide⟩

-- `local a, b, c = f1(1, ...)`: f1 (one parameter) sees exactly 1; its results 1, 7 are padded with nil
def exLocal : List Instr × CState :=
  compRegAssignment 0 3 [.call false (.atom (.glob "6631")) [.atom (.num 1), .dots false]] 0 3 {}
example : Fits exLocal.1 := by decide
example : exLocal.1 = [.getglobal 0 0, .loadk 1 1, .vararg 2 0, .call 0 0 4] := by decide
example : (exec exEnv exLocal.2.consts (exLocal.1.map Instr.mask) exState).toOption.map
      (fun s => s.st.reg.window 3 3) =
    some [some (some (.int 1)), some (some (.int 7)), some none] := by decide
example : (exec exEnv exLocal.2.consts (exLocal.1.map Instr.mask) exState).toOption.map (fun s => s.w) =
    some [(some (.str "6631"), [some (.int 1)], [])] := by decide

-- `local a, b = h(f2(...), (h()))`: f2 (vararg, one parameter) gets 10 / 20, contributes ONE value; `(h())` one value
def exNested : List Instr × CState :=
  compRegAssignment 0 2 [.call false (.atom (.glob "68")) [.call false (.atom (.glob "6632")) [.dots false],
    .call true (.atom (.glob "68")) []]] 0 2 {}
example : Fits exNested.1 := by decide
example : (exec exEnv exNested.2.consts (exNested.1.map Instr.mask) exState).toOption.map (fun s => s.w) =
    some [(some (.str "6632"), [some (.int 10)], [some (.int 20)]),
          (some (.str "68"), [], []),
          (some (.str "68"), [], [some (.int 10), some (.int 7)])] := by decide
example : (exec exEnv exNested.2.consts (exNested.1.map Instr.mask) exState).toOption.map
      (fun s => s.st.reg.window 3 2) = some [some (some (.int 10)), some (some (.int 7))] := by decide

-- `return {h(), 5, x = 6, ...}`: 7 at 1, 5 at 2, then the varargs 10, 20 at 3, 4; the keyed store aside
def exCtor : Res :=
  compExpr 0 (.tbl [none, none, some (.str "78"), none]
    [.call false (.atom (.glob "68")) [], .atom (.num 5), .atom (.num 6), .dots false]) 0 (ecnone 0) {}
example : Fits exCtor.code := by decide
example : (exec exEnv exCtor.cs.consts (exCtor.code.map Instr.mask) exState).toOption.map (fun s => s.heap) =
    some [{ arr := [(1, some (.int 7)), (2, some (.int 5)), (3, some (.int 10)), (4, some (.int 20))],
            keyed := [(some (.str "78"), some (.int 6))] }] := by decide

-- `return f2(1, ...)` (a tail call to a vararg Lua function): f2 sees 1 / 10, 20; the caller's caller (NRet = all)
-- finds 1, 10, 20, 7 at ReturnBase 0 and the frame is gone
def exTail : List Instr × CState :=
  compReturn 0 [.call false (.atom (.glob "6632")) [.atom (.num 1), .dots false]] {}
example : Fits exTail.1 := by decide
example : (exec exEnv exTail.2.consts (exTail.1.map Instr.mask) exState).toOption.map
      (fun s => (s.st.reg.window 0 s.st.reg.top, s.st.stack.length, s.done)) =
    some ([some (some (.int 1)), some (some (.int 10)), some (some (.int 20)), some (some (.int 7))], 0, true) := by decide
example : (exec exEnv exTail.2.consts (exTail.1.map Instr.mask) exState).toOption.map (fun s => s.w) =
    some [(some (.str "6632"), [some (.int 1)], [some (.int 10), some (.int 20)])] := by decide

-- `return h(1)` is a tail call, `return (h(1))` and `return 2, h(1)` are not
example : (compReturn 0 [.call false (.atom (.glob "68")) [.atom (.num 1)]] {}).1 =
    [.getglobal 0 0, .loadk 1 1, .tailcall 0 2 0, .ret 0 0] := by decide
example : (compReturn 0 [.call true (.atom (.glob "68")) [.atom (.num 1)]] {}).1 =
    [.getglobal 0 0, .loadk 1 1, .call 0 2 2, .ret 0 0] := by decide
example : (compReturn 0 [.atom (.num 2), .call false (.atom (.glob "68")) [.atom (.num 1)]] {}).1 =
    [.loadk 0 0, .getglobal 1 1, .loadk 2 2, .call 1 2 0, .ret 0 0] := by decide

end CompileTimeExamples

end GLua.Props.C02
