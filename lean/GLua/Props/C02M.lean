/-
  C02M — the mechanism check of C02 (`./check C02M`).  The property theorems live in GLua/Props/C02.lean; this
  module re-exports each of them under the namespace the audit of `./check C02M` enumerates.
-/
import GLua.Props.C02

namespace GLua.Props.C02M
theorem copyReturnValues_adjusts : type_of% @GLua.Props.C02.copyReturnValues_adjusts := @GLua.Props.C02.copyReturnValues_adjusts
theorem opReturn_delivers : type_of% @GLua.Props.C02.opReturn_delivers := @GLua.Props.C02.opReturn_delivers
theorem gfunction_returns_topmost : type_of% @GLua.Props.C02.gfunction_returns_topmost := @GLua.Props.C02.gfunction_returns_topmost
theorem vararg_spec : type_of% @GLua.Props.C02.vararg_spec := @GLua.Props.C02.vararg_spec
theorem self_inserts_receiver : type_of% @GLua.Props.C02.self_inserts_receiver := @GLua.Props.C02.self_inserts_receiver
theorem setlist_fills : type_of% @GLua.Props.C02.setlist_fills := @GLua.Props.C02.setlist_fills
theorem initCallFrame_binds_fixed : type_of% @GLua.Props.C02.initCallFrame_binds_fixed := @GLua.Props.C02.initCallFrame_binds_fixed
theorem initCallFrame_binds_vararg : type_of% @GLua.Props.C02.initCallFrame_binds_vararg := @GLua.Props.C02.initCallFrame_binds_vararg
theorem initCallFrame_binds_G : type_of% @GLua.Props.C02.initCallFrame_binds_G := @GLua.Props.C02.initCallFrame_binds_G
theorem initCallFrame_shape : type_of% @GLua.Props.C02.initCallFrame_shape := @GLua.Props.C02.initCallFrame_shape
theorem tailcall_reuses_frame : type_of% @GLua.Props.C02.tailcall_reuses_frame := @GLua.Props.C02.tailcall_reuses_frame
theorem tailcall_constant_space : type_of% @GLua.Props.C02.tailcall_constant_space := @GLua.Props.C02.tailcall_constant_space
theorem tailcall_host_pops_both : type_of% @GLua.Props.C02.tailcall_host_pops_both := @GLua.Props.C02.tailcall_host_pops_both
theorem select_spec : type_of% @GLua.Props.C02.select_spec := @GLua.Props.C02.select_spec
theorem select_count_spec : type_of% @GLua.Props.C02.select_count_spec := @GLua.Props.C02.select_count_spec
theorem unpack_spec : type_of% @GLua.Props.C02.unpack_spec := @GLua.Props.C02.unpack_spec
theorem tailcall_old_loses_arg_table : type_of% @GLua.Props.C02.tailcall_old_loses_arg_table := @GLua.Props.C02.tailcall_old_loses_arg_table
theorem tailcall_keeps_arg_table : type_of% @GLua.Props.C02.tailcall_keeps_arg_table := @GLua.Props.C02.tailcall_keeps_arg_table
theorem flush_old_defects : type_of% @GLua.Props.C02.flush_old_defects := @GLua.Props.C02.flush_old_defects
theorem results_adjusted : type_of% @GLua.Props.C02.results_adjusted := @GLua.Props.C02.results_adjusted
theorem call_site_delivers : type_of% @GLua.Props.C02.call_site_delivers := @GLua.Props.C02.call_site_delivers
theorem method_call_self : type_of% @GLua.Props.C02.method_call_self := @GLua.Props.C02.method_call_self
theorem explist_delivers : type_of% @GLua.Props.C02.explist_delivers := @GLua.Props.C02.explist_delivers
theorem constructor_fields_stored : type_of% @GLua.Props.C02.constructor_fields_stored := @GLua.Props.C02.constructor_fields_stored
theorem constructor_positional_fields : type_of% @GLua.Props.C02.constructor_positional_fields := @GLua.Props.C02.constructor_positional_fields
theorem return_list_delivers : type_of% @GLua.Props.C02.return_list_delivers := @GLua.Props.C02.return_list_delivers
theorem paren_call_single : type_of% @GLua.Props.C02.paren_call_single := @GLua.Props.C02.paren_call_single
theorem assignment_rhs_adjusted : type_of% @GLua.Props.C02.assignment_rhs_adjusted := @GLua.Props.C02.assignment_rhs_adjusted
theorem tailcall_emitted_iff : type_of% @GLua.Props.C02.tailcall_emitted_iff := @GLua.Props.C02.tailcall_emitted_iff
theorem tailcall_passes_values : type_of% @GLua.Props.C02.tailcall_passes_values := @GLua.Props.C02.tailcall_passes_values
end GLua.Props.C02M
