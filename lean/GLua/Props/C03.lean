/-
  C03 (mechanism part) — closures keep their captured variables on every exit path; globals follow fenv.
  Property theorems only.  Model: GLua/Model/Upvalue.lean (+ UpvalueOps.lean), a transcription of
  /repo/function.go `Upvalue`, /repo/state.go `findUpvalue / closeUpvalues / PCall` recover path, and the
  upvalue / environment opcodes of /repo/vm.go, tied to the code by the C03M correspondence check on every
  run.  Spec: GLua/Spec/Cells.lean (variables are heap cells, closures hold cell references).
  Lemmas: GLua/Proofs/Upvalue.lean, GLua/Proofs/UpvalueSim.lean.

  Compile side (§8): a structural model of where compile.go emits OP_CLOSE (Model/CloseCompile.lean, tied to the
  real compiler token by token by the `cc` requests of the C03M check), an abstract machine running that code
  (Model/CloseMachine.lean), a certificate checker `closeDiscipline` (Model/CloseCheck.lean) proved sound, and
  `compile_establishes_discipline`: false of compileBreakStmt as it was before b47a12e once labels and backward gotos
  are allowed (negation proved from the witness of finding C03-break-after-backward-goto), proved for every
  goto-free program (before and after that repair); composed with §4 into `closures_keep_variables`.
-/
import GLua.Proofs.UpvalueSim
import GLua.Proofs.CloseTop
import GLua.Engines.UpvalEng

namespace GLua.Props.C03
open GLua GLua.Upvalue GLua.Cells

/-! ## 1. the open list stays sorted, open and duplicate-free -/

/-- the operations that touch the open list or what it points to -/
inductive MOp where
  | find (idx : Nat)              -- findUpvalue (OP_CLOSURE capture)
  | close (k : Nat)               -- closeUpvalues (OP_CLOSE / OP_RETURN / OP_TAILCALL / PCall recovery / threadRun)
  | regSet (i : Nat) (v : OVal)   -- any register store
  | uvSet (h : Nat) (v : OVal)    -- Upvalue.SetValue (OP_SETUPVAL)

def applyM (s : St) : MOp → Except Err St
  | .find idx => (findUpvalue s idx).map (·.2)
  | .close k => closeUpvalues k s
  | .regSet i v => regSet s i v
  | .uvSet h v => uvSetValue s h v

def runM : St → List MOp → Except Err St
  | s, [] => .ok s
  | s, op :: rest => do let s1 ← applyM s op; runM s1 rest

theorem applyM_inv (s s' : St) (op : MOp) (hI : Inv s)
    (hb : ∀ idx, op = .find idx → idx < s.regs.length) (h : applyM s op = .ok s') :
    Inv s' ∧ s'.regs.length = s.regs.length := by
  cases op with
  | find idx =>
    obtain ⟨h1, s1, hf, hI1, _, _, hregs⟩ := findUpvalue_inv s idx hI (hb idx rfl)
    simp [applyM, hf, Except.map] at h
    subst h; exact ⟨hI1, by rw [hregs]⟩
  | close k =>
    obtain ⟨s1, hcl, hI1, hregs, _⟩ := closeUpvalues_inv k s hI
    simp [applyM, hcl] at h
    subst h; exact ⟨hI1, by rw [hregs]⟩
  | regSet i v =>
    simp only [applyM, regSet] at h
    split at h
    · cases h; exact ⟨inv_regs s _ (by simp) hI, by simp⟩
    · cases h
  | uvSet x v =>
    simp only [applyM, uvSetValue, getUv, bind, Except.bind] at h
    cases hu : s.uvs[x]? with
    | none => simp [hu] at h
    | some u =>
      simp only [hu] at h
      split at h
      · cases h; exact ⟨inv_setValue s x u v hu hI, rfl⟩
      · simp only [regSet] at h
        split at h
        · cases h; exact ⟨inv_regs s _ (by simp) hI, by simp⟩
        · cases h

/-- **uvcache_sorted_unique** — after *any* sequence of find / close / register store / SetValue on a fresh
    thread with `n` registers (captures address existing registers), the open list is strictly increasing in
    register index, holds only open upvalues, holds every open upvalue, has at most one upvalue per
    register, and every index is a valid register (so `Upvalue.Value` cannot panic). -/
theorem uvcache_sorted_unique (n : Nat) (ops : List MOp) (s : St)
    (hb : ∀ idx, MOp.find idx ∈ ops → idx < n) (h : runM (St.init n) ops = .ok s) :
    (s.openL.map (idxOf s)).Pairwise (· < ·) ∧
    (∀ x ∈ s.openL, ∀ u : UvObj, s.uvs[x]? = some u → u.closed = false) ∧
    (∀ (x : Nat) (u : UvObj), s.uvs[x]? = some u → u.closed = false → x ∈ s.openL ∧ u.index < n) ∧
    (∀ x ∈ s.openL, ∀ y ∈ s.openL, idxOf s x = idxOf s y → x = y) := by
  suffices H : ∀ (ops : List MOp) (s0 s : St), Inv s0 → s0.regs.length = n →
      (∀ idx, MOp.find idx ∈ ops → idx < n) → runM s0 ops = .ok s → Inv s ∧ s.regs.length = n by
    obtain ⟨hI, hlen⟩ := H ops (St.init n) s (inv_init n) (by simp [St.init]) hb h
    refine ⟨hI.sorted, hI.allOpen, fun x u hu hc => ⟨hI.complete x u hu hc, hlen ▸ hI.inRange x u hu hc⟩, ?_⟩
    intro x hx y hy hxy
    exact sorted_inj (idxOf s) s.openL hI.sorted x hx y hy hxy
  intro ops
  induction ops with
  | nil => intro s0 s hI hl _ hr; simp [runM] at hr; subst hr; exact ⟨hI, hl⟩
  | cons op rest ih =>
    intro s0 s hI hl hb hr
    simp only [runM, bind, Except.bind] at hr
    cases ha : applyM s0 op with
    | error e => simp [ha] at hr
    | ok s1 =>
      simp only [ha] at hr
      obtain ⟨hI1, hl1⟩ := applyM_inv s0 s1 op hI
        (fun idx e => by rw [hl]; exact hb idx (e ▸ List.mem_cons_self ..)) ha
      exact ih s1 s hI1 (by rw [hl1, hl]) (fun idx hm => hb idx (List.mem_cons_of_mem _ hm)) hr

/-- non-vacuity: a reachable state with three open upvalues, created out of order, after a partial close -/
example : (runM (St.init 8) [.find 5, .find 2, .find 7, .find 3, .close 6, .regSet 2 (some (.int 9)), .find 2]).map
    (fun s => (s.openL, s.openL.map (idxOf s))) = .ok ([1, 3, 0], [2, 3, 5]) := by decide

/-! ## 2. two captures of one register share one upvalue -/

/-- **find_shares** — capturing a register that already has an open upvalue returns that very object and
    changes nothing; in particular two captures of one register (with any number of captures of other
    registers, register stores and SetValues in between — they preserve `Inv` and the list) return the same
    upvalue. -/
theorem find_shares (s : St) (idx : Nat) (hI : Inv s) (hidx : idx < s.regs.length) :
    ∃ h s1, findUpvalue s idx = .ok (h, s1) ∧ findUpvalue s1 idx = .ok (h, s1) ∧
      h ∈ s1.openL ∧ idxOf s1 h = idx := by
  obtain ⟨h, s1, hf, hI1, hm, hi, _⟩ := findUpvalue_inv s idx hI hidx
  refine ⟨h, s1, hf, ?_, hm, hi⟩
  rcases findUpvalue_spec s1 idx hI1 with ⟨h', hm', hi', hf'⟩ | ⟨pre, post, hl, hpre, hpost, _⟩
  · -- one upvalue per register
    have : h' = h := sorted_inj (idxOf s1) s1.openL hI1.sorted h' hm' h hm (by rw [hi', hi])
    rw [← this]; exact hf'
  · rw [hl, List.mem_append] at hm
    rcases hm with hm | hm
    · have := hpre h hm; omega
    · have := hpost h hm; omega

example : ((findUpvalue (St.init 4) 2).toOption.bind fun p1 =>
    ((findUpvalue p1.2 1).toOption.bind fun p2 => (findUpvalue p2.2 2).toOption.map fun p3 => (p1.1, p2.1, p3.1)))
    = some (0, 1, 0) := by decide

/-! ## 3. closeUpvalues closes exactly the upvalues at or above the level -/

/-- **close_spec** — `closeUpvalues k` on a state satisfying the invariant succeeds; the list keeps exactly
    the upvalues with index `< k` (in order); every listed upvalue with index `≥ k` becomes closed holding the
    value its register has at that moment (so reading it gives the same value before and after); every other
    upvalue object and every register is untouched. -/
theorem close_spec (k : Nat) (s : St) (hI : Inv s) :
    ∃ s', closeUpvalues k s = .ok s' ∧ Inv s' ∧ s'.regs = s.regs ∧
      s'.openL = s.openL.filter (fun h => decide (idxOf s h < k)) ∧
      (∀ h ∈ s.openL, k ≤ idxOf s h →
          ∃ u v, s.uvs[h]? = some u ∧ s.regs[u.index]? = some v ∧
            s'.uvs[h]? = some { index := u.index, value := v, closed := true } ∧
            uvValue s h = .ok v ∧ uvValue s' h = .ok v) ∧
      (∀ h, ¬ (h ∈ s.openL ∧ k ≤ idxOf s h) → s'.uvs[h]? = s.uvs[h]?) := by
  obtain ⟨s', hcl, hI', hregs, hopen, _, hent, _⟩ := closeUpvalues_inv k s hI
  refine ⟨s', hcl, hI', hregs, hopen, ?_, ?_⟩
  · intro h hm hk
    have hlt := hI.valid h hm
    have hu : s.uvs[h]? = some s.uvs[h] := by simp [hlt]
    have hopenu := hI.allOpen h hm _ hu
    have hr := hI.inRange h _ hu hopenu
    have hv : s.regs[(s.uvs[h]).index]? = some s.regs[(s.uvs[h]).index] := by simp [hr]
    have he : s'.uvs[h]? = some { index := (s.uvs[h]).index, value := s.regs[(s.uvs[h]).index], closed := true } := by
      rw [hent h]; simp [closedEntry, hm, hk, hu, closedAt, hv]
    refine ⟨_, _, hu, hv, he, ?_, ?_⟩
    · simp [uvValue, getUv_of s h _ hu, hopenu, regGet, hv, bind, Except.bind]
    · simp [uvValue, getUv_of s' h _ he, bind, Except.bind]
  · intro h hn
    rw [hent h]; simp [closedEntry, hn]

/-- **closed_frame** — a closed upvalue is unaffected by any later register store, by any later capture and by
    any later `closeUpvalues`. -/
theorem closed_frame (s : St) (h : Nat) (u : UvObj) (hI : Inv s) (hu : s.uvs[h]? = some u) (hc : u.closed = true) :
    (∀ i v s', regSet s i v = .ok s' → uvValue s' h = uvValue s h) ∧
    (∀ idx h' s', findUpvalue s idx = .ok (h', s') → uvValue s' h = uvValue s h) ∧
    (∀ k s', closeUpvalues k s = .ok s' → uvValue s' h = uvValue s h) := by
  have hval : uvValue s h = .ok u.value := by simp [uvValue, getUv_of s h u hu, hc, bind, Except.bind]
  have hnot : h ∉ s.openL := fun hm => by have := hI.allOpen h hm u hu; rw [hc] at this; cases this
  refine ⟨?_, ?_, ?_⟩
  · intro i v s' hs
    simp only [regSet] at hs
    split at hs
    · cases hs; simp [uvValue, getUv, hu, hc, bind, Except.bind]
    · cases hs
  · intro idx h' s' hf
    rcases findUpvalue_spec s idx hI with ⟨h2, _, _, hf2⟩ | ⟨pre, post, _, _, _, hf2⟩
    · rw [hf2] at hf; cases hf; rfl
    · rw [hf2] at hf; cases hf
      have hlt : h < s.uvs.length := (List.getElem?_eq_some_iff.mp hu).1
      have : (findNew s idx pre post).uvs[h]? = some u := by
        simp only [findNew]; rw [List.getElem?_append_left hlt]; exact hu
      rw [hval]; simp [uvValue, getUv_of _ h u this, hc, bind, Except.bind]
  · intro k s' hcl
    obtain ⟨s2, hcl2, _, _, _, _, hent, _⟩ := closeUpvalues_inv k s hI
    have e : s' = s2 := by rw [hcl2] at hcl; cases hcl; rfl
    subst e
    have : s'.uvs[h]? = some u := by rw [hent h]; simp [closedEntry, hnot, hu]
    rw [hval]; simp [uvValue, getUv_of _ h u this, hc, bind, Except.bind]

def closeDemo : St :=
  { regs := [none, some (.int 10), none, some (.int 30), some (.int 40)]
    uvs := [{ index := 1 }, { index := 3 }, { index := 4 }]
    openL := [0, 1, 2] }

example : ((closeUpvalues 3 closeDemo).map fun s => (s.openL, s.uvs)) =
    .ok ([0], [{ index := 1 }, { index := 3, value := some (.int 30), closed := true },
               { index := 4, value := some (.int 40), closed := true }]) := by decide

/-! ## 4. registers + open list implement variable cells, provided the Discipline -/

/-- **upvalue_refines_cells** — for *every* interleaving of declare / read / write / capture / close ≥ k /
    read and write through a closure on which the cell semantics is defined — i.e. which respects the
    Discipline: a slot is re-declared only if its previous variable instance was never captured or its scope
    has been closed, and only live slots are accessed by name — the mechanism (registers, `findUpvalue`,
    `closeUpvalues`, `Upvalue.Value/SetValue`) never fails and observes exactly the values the cell semantics
    observes.  No bound on the length of the trace, the number of closures or the number of registers `n`. -/
theorem upvalue_refines_cells (n : Nat) (ops : List Op) (hb : ∀ op ∈ ops, opBounded n op)
    (c' : CSt) (outs : List OVal) (h : Cells.run CSt.init ops = some (c', outs)) :
    ∃ m', mrun (MSt.init n) ops = .ok (m', outs) ∧ Inv m'.st := by
  obtain ⟨s', mc', rep', hm, hS⟩ := sim_run ops (sim_init n) (by simpa [St.init] using hb) c' outs h
  exact ⟨_, hm, hS.inv⟩

/-- non-vacuity: a disciplined trace with sharing, scope exit, register reuse and writes through closures -/
def demoTrace : List Op :=
  [.declare 0 (some (.int 1)), .declare 1 (some (.int 2)), .capture 1, .capture 1, .capture 0,
   .write 1 (some (.int 3)), .uvread 0, .close 1, .declare 1 (some (.int 99)), .uvread 1,
   .uvwrite 0 (some (.int 4)), .uvread 1, .read 1, .write 0 (some (.int 5)), .uvread 2]

example : (Cells.run CSt.init demoTrace).map (·.2) =
    some [some (.int 3), some (.int 3), some (.int 4), some (.int 99), some (.int 5)] := by decide
example : (mrun (MSt.init 4) demoTrace).map (·.2) =
    .ok [some (.int 3), some (.int 3), some (.int 4), some (.int 99), some (.int 5)] := by decide

/-- the Discipline is necessary: re-declaring a captured live slot without closing it is undefined in the
    cell semantics, and on the mechanism the closure then observes the *new* variable. -/
example : (Cells.run CSt.init [.declare 0 (some (.int 1)), .capture 0, .declare 0 (some (.int 2)), .uvread 0]).isNone
    = true := by decide
example : (mrun (MSt.init 2) [.declare 0 (some (.int 1)), .capture 0, .declare 0 (some (.int 2)), .uvread 0]).map (·.2)
    = .ok [some (.int 2)] := by decide

/-! ## 5. the error path -/

/-- **pcall_closes** — after the model of a failed protected call (with or without handler, whatever the
    frames were) every open upvalue has an index below the call's base, the invariant holds again, and the
    upvalues below the base are exactly the ones that were open below it before. -/
theorem pcall_closes (s : St) (frames : List Frame) (base : Nat) (hasErrorFunc : Bool) (hI : Inv s) :
    ∃ s', failedPCall false hasErrorFunc frames base s = .ok s' ∧ Inv s' ∧
      (∀ h ∈ s'.openL, idxOf s' h < base) ∧
      s'.openL = s.openL.filter (fun h => decide (idxOf s h < base)) := by
  obtain ⟨s1, hcl, hI1, hregs, hopen, _, _, hidx⟩ := closeUpvalues_inv base s hI
  refine ⟨clearFrom base s1, ?_, ?_, ?_, hopen⟩
  · simp [failedPCall, raiseClose, pcallRecover, hcl, bind, Except.bind]
  · exact inv_regs s1 _ (by simp) hI1
  · intro h hm
    have hm' : h ∈ s1.openL := hm
    rw [hopen] at hm'
    have := (List.mem_filter.mp hm').2
    have e : idxOf (clearFrom base s1) h = idxOf s1 h := rfl
    rw [e, hidx h]; simpa using this

/-- the statement "a failed protected call leaves the upvalues of the frames that stay alive open" -/
def pcall_keeps_below_stmt (closesAll : Bool) : Prop :=
  ∀ (s s' : St) (frames : List Frame) (base : Nat) (hasErrorFunc : Bool), Inv s →
    failedPCall closesAll hasErrorFunc frames base s = .ok s' →
    ∀ h ∈ s.openL, idxOf s h < base → h ∈ s'.openL ∧ s'.uvs[h]? = s.uvs[h]?

/-- **pcall_keeps_below** — with fix C03-error-keeps-live-upvalues (the raiser closes nothing, the catcher
    closes what it releases) an upvalue of a register below the protected call's base stays open and
    untouched: the callers of `pcall` keep sharing their variables with their closures. -/
theorem pcall_keeps_below : pcall_keeps_below_stmt false := by
  intro s s' frames base hef hI hf h hm hlt
  obtain ⟨s1, hcl, _, _, hopen, _, hent, _⟩ := closeUpvalues_inv base s hI
  simp [failedPCall, raiseClose, pcallRecover, hcl, bind, Except.bind] at hf
  subst hf
  refine ⟨?_, ?_⟩
  · show h ∈ s1.openL
    rw [hopen]; exact List.mem_filter.mpr ⟨hm, by simpa using hlt⟩
  · show s1.uvs[h]? = _
    rw [hent h]
    have : ¬ (h ∈ s.openL ∧ base ≤ idxOf s h) := by omega
    simp [closedEntry, this]

/-- the tree before the fix (`raiseError` → `closeAllUpvalues` over *every* Lua frame of the thread): the
    upvalue of the main chunk's local (register 1) is closed by an error raised and caught two frames up
    (`local x = 1; local f = function() return x end; pcall(error); x = 2; f()` returns 1). -/
theorem pcall_keeps_below_before_fix_fails : ¬ pcall_keeps_below_stmt true := by
  intro H
  have hI : Inv { regs := List.replicate 8 none, uvs := [{ index := 1 }], openL := [0] } := by
    constructor
    · decide
    · decide
    · intro h hh u hu
      have : h = 0 := by simpa using hh
      subst this; simp at hu; subst hu; rfl
    · intro h u hu _
      have hlt := (List.getElem?_eq_some_iff.mp hu).1
      have : h = 0 := by simp at hlt; omega
      subst this; simp
    · intro h u hu _
      have hlt := (List.getElem?_eq_some_iff.mp hu).1
      have : h = 0 := by simp at hlt; omega
      subst this; simp at hu; subst hu; decide
  have := H { regs := List.replicate 8 none, uvs := [{ index := 1 }], openL := [0] }
    { regs := List.replicate 8 none, uvs := [{ index := 1, value := none, closed := true }], openL := [] }
    [⟨true, 6⟩, ⟨true, 4⟩, ⟨false, 1⟩] 5 false hI (by decide) 0 (by decide) (by decide)
  exact absurd this.1 (by decide)

/-- a coroutine that dies by an error leaves no open upvalue behind (`threadRun`, after the fix). -/
theorem thread_death_closes_all (s : St) (hI : Inv s) :
    ∃ s', threadDeath s = .ok s' ∧ s'.openL = [] ∧ Inv s' := by
  obtain ⟨s', hcl, hI', _, hopen, _⟩ := closeUpvalues_inv 0 s hI
  exact ⟨s', hcl, by rw [hopen]; simp, hI'⟩

/-- OP_RETURN / OP_TAILCALL: nothing at or above the frame's LocalBase stays open. -/
theorem return_closes_frame (s : St) (lbase : Nat) (hI : Inv s) :
    ∃ s', opReturnClose s lbase = .ok s' ∧ Inv s' ∧ ∀ h ∈ s'.openL, idxOf s' h < lbase := by
  obtain ⟨s', hcl, hI', _, hopen, _, _, hidx⟩ := closeUpvalues_inv lbase s hI
  refine ⟨s', hcl, hI', ?_⟩
  intro h hm
  rw [hopen] at hm
  rw [hidx h]; simpa using (List.mem_filter.mp hm).2

/-! ## 6. function environments -/

/-- **fenv_inherit** (a) — OP_CLOSURE gives the new closure its creator's environment. -/
theorem fenv_inherit (m m' : VM) (cur lbase a h : Nat) (caps : List Cap)
    (hc : opClosure m cur lbase a caps = .ok (h, m')) :
    ∃ f f', m.fns[cur]? = some f ∧ m'.fns[h]? = some f' ∧ f'.env = f.env ∧ h = m.fns.length ∧
      m'.envs = m.envs ∧ (∀ g, g < m.fns.length → m'.fns[g]? = m.fns[g]?) := by
  simp only [opClosure, getFn, bind, Except.bind] at hc
  cases hf : m.fns[cur]? with
  | none => simp [hf] at hc
  | some f =>
    simp only [hf] at hc
    cases hr : regSet m.st (lbase + a) (some (fnRef m.fns.length)) with
    | error e => simp [hr] at hc
    | ok s1 =>
      simp only [hr] at hc
      cases hl : captureLoop lbase f caps s1 with
      | error e => simp [hl] at hc
      | ok p =>
        simp [hl] at hc
        obtain ⟨rfl, rfl⟩ := hc
        refine ⟨f, { env := f.env, upvals := p.1 }, rfl, by simp, rfl, rfl, rfl, ?_⟩
        intro g hg
        simp [List.getElem?_append_left hg]

/-- (b) OP_GETGLOBAL reads, and OP_SETGLOBAL writes, the environment table of the *running closure*
    (`cf.Fn.Env`), and no other table. -/
theorem globals_use_fn_env (m m' : VM) (cur lbase a : Nat) (name : String) :
    (opGetGlobal m cur lbase a name = .ok m' →
      ∃ f t, m.fns[cur]? = some f ∧ m.envs[f.env]? = some t ∧
        m'.st.regs[lbase + a]? = some (envGet t name) ∧ m'.envs = m.envs) ∧
    (opSetGlobal m cur lbase a name = .ok m' →
      ∃ f t v, m.fns[cur]? = some f ∧ m.envs[f.env]? = some t ∧ m.st.regs[lbase + a]? = some v ∧
        m'.envs[f.env]? = some (envSet t name v) ∧ (∀ e, e ≠ f.env → m'.envs[e]? = m.envs[e]?)) := by
  constructor
  · intro hg
    simp only [opGetGlobal, getFn, getEnv, bind, Except.bind] at hg
    cases hf : m.fns[cur]? with
    | none => simp [hf] at hg
    | some f =>
      simp only [hf] at hg
      cases ht : m.envs[f.env]? with
      | none => simp [ht] at hg
      | some t =>
        simp only [ht] at hg
        cases hr : regSet m.st (lbase + a) (envGet t name) with
        | error e => simp [hr] at hg
        | ok s1 =>
          simp [hr] at hg
          subst hg
          simp only [regSet] at hr
          split at hr
          · rename_i hlt
            cases hr
            exact ⟨f, t, rfl, ht, by simp [List.getElem?_set_self hlt], rfl⟩
          · cases hr
  · intro hs
    simp only [opSetGlobal, getFn, getEnv, regGet, bind, Except.bind] at hs
    cases hf : m.fns[cur]? with
    | none => simp [hf] at hs
    | some f =>
      simp only [hf] at hs
      cases ht : m.envs[f.env]? with
      | none => simp [ht] at hs
      | some t =>
        simp only [ht] at hs
        cases hv : m.st.regs[lbase + a]? with
        | none => simp [hv] at hs
        | some v =>
          simp [hv] at hs
          subst hs
          have hlt : f.env < m.envs.length := (List.getElem?_eq_some_iff.mp ht).1
          refine ⟨f, t, v, rfl, ht, rfl, by simp [List.getElem?_set_self hlt], ?_⟩
          intro e he
          simp [List.getElem?_set_ne (Ne.symm he)]

/-- environment of a closure read back after `setfenv(f, e)`; other closures keep theirs. -/
theorem setfenv_sets (m m' : VM) (f e : Nat) (h : setFEnv m f e = .ok m') :
    (∃ fn, m'.fns[f]? = some fn ∧ fn.env = e) ∧ (∀ g, g ≠ f → m'.fns[g]? = m.fns[g]?) := by
  simp only [setFEnv, getFn, bind, Except.bind] at h
  cases hf : m.fns[f]? with
  | none => simp [hf] at h
  | some fn =>
    simp [hf] at h
    subst h
    have hlt : f < m.fns.length := (List.getElem?_eq_some_iff.mp hf).1
    exact ⟨⟨{ fn with env := e }, by simp [List.getElem?_set_self hlt], rfl⟩,
      fun g hg => by simp [List.getElem?_set_ne (Ne.symm hg)]⟩

/-- translation of the callers the manual speaks of into the frame list `baseGetFEnv` walks: the running host
    function (getfenv / setfenv itself) first. -/
def toFrames (callers : List Caller) : List FFrame :=
  .host :: callers.map fun | .lua e => .lua e | .host => .host

theorem walkFrames_toFrames (callers : List Caller) (n : Nat) :
    walkFrames (n + 1) (toFrames callers) = (callers[n]?).map fun | .lua e => .lua e | .host => .host := by
  simp only [toFrames, walkFrames]
  induction callers generalizing n with
  | nil => cases n <;> simp [walkFrames]
  | cons c r ih =>
    cases n with
    | zero => simp [walkFrames]
    | succ k => simp only [List.map_cons, walkFrames]; rw [ih k]; simp

def resOf : EnvRes → GetRes
  | .env e => .env e | .global => .global | .threadEnv => .threadEnv | .error => .error

/-- the level arithmetic of `getfenv(level)` agrees with the manual for every stack and every level that
    names an active function (or 0). -/
theorem getfenv_level_partial (level : Int) (callers : List Caller) (h0 : 0 ≤ level)
    (h1 : level.toNat ≤ callers.length) :
    resOf (getFEnvLevel level (toFrames callers)) = specGetFEnv level callers := by
  unfold getFEnvLevel specGetFEnv
  by_cases hz : level = 0
  · subst hz; simp [resOf]
  · have hpos : 0 < level := by omega
    have hn : ¬ level ≤ 0 := by omega
    have hn2 : ¬ level < 0 := by omega
    obtain ⟨k, hk⟩ : ∃ k, level.toNat = k + 1 := ⟨level.toNat - 1, by omega⟩
    simp only [hn, hn2, hz, if_false, hk, walkFrames_toFrames, Nat.add_sub_cancel]
    have hlt : k < callers.length := by omega
    have : callers[k]? = some callers[k] := by simp [hlt]
    rw [this]
    cases callers[k] <;> simp [resOf]

def getfenv_level_full : Prop :=
  ∀ (level : Int) (callers : List Caller), resOf (getFEnvLevel level (toFrames callers)) = specGetFEnv level callers

/-- outside that range gopher-lua answers instead of raising "invalid level": a negative level gives the
    thread environment, a level beyond the stack gives the global table. -/
theorem getfenv_level_full_fails : ¬ getfenv_level_full := by
  intro H
  have := H (-1) []
  revert this; decide

def setResOf : Upvalue.SetRes → Cells.SetRes
  | .thread => .thread | .frameFn d => .fn d | .error => .error

theorem setfenv_level_partial (level : Int) (callers : List Caller) (h0 : 0 ≤ level) :
    setResOf (setFEnvLevel level (toFrames callers)) = specSetFEnv level callers := by
  unfold setFEnvLevel specSetFEnv
  by_cases hz : level = 0
  · subst hz; simp [setResOf]
  · have hn : ¬ level ≤ 0 := by omega
    have hn2 : ¬ level < 0 := by omega
    obtain ⟨k, hk⟩ : ∃ k, level.toNat = k + 1 := ⟨level.toNat - 1, by omega⟩
    simp only [hn, hn2, hz, if_false, hk, walkFrames_toFrames, Nat.add_sub_cancel]
    cases hc : callers[k]? with
    | none => simp [setResOf]
    | some c => cases c <;> simp [setResOf]

def setfenv_level_full : Prop :=
  ∀ (level : Int) (callers : List Caller), setResOf (setFEnvLevel level (toFrames callers)) = specSetFEnv level callers

/-- a negative level changes the thread environment instead of raising an error. -/
theorem setfenv_level_full_fails : ¬ setfenv_level_full := by
  intro H
  have := H (-1) []
  revert this; decide

example : resOf (getFEnvLevel 2 (toFrames [.lua 7, .lua 3, .host])) = .env 3 := by decide

/-! ## 7. the monitor's check is the invariant -/

/-- the Boolean the driver evaluates on every snapshot of a real thread is the sortedness clause of `Inv`. -/
theorem strictlySorted_iff (l : List Nat) :
    GLua.Eng.UpvalEng.strictlySorted l = true ↔ l.Pairwise (· < ·) := by
  induction l with
  | nil => simp [GLua.Eng.UpvalEng.strictlySorted]
  | cons a r ih =>
    cases r with
    | nil => simp [GLua.Eng.UpvalEng.strictlySorted]
    | cons b r' =>
      simp only [GLua.Eng.UpvalEng.strictlySorted, Bool.and_eq_true, decide_eq_true_eq, ih,
        List.pairwise_cons]
      constructor
      · rintro ⟨hab, hb, hr⟩
        refine ⟨?_, hb, hr⟩
        intro x hx
        rcases List.mem_cons.mp hx with rfl | hx
        · exact hab
        · have := hb x hx; omega
      · rintro ⟨ha, hb, hr⟩
        exact ⟨ha b (List.mem_cons_self ..), hb, hr⟩

/-- a model state satisfying the invariant passes the monitor's check with `top` = size of the register
    file (what the theorems above guarantee for the model is what the monitor demands of the real thread). -/
theorem inv_passes_monitor (s : St) (hI : Inv s) :
    GLua.Eng.UpvalEng.strictlySorted (s.openL.map (idxOf s)) = true ∧
    ∀ i ∈ s.openL.map (idxOf s), i < s.regs.length := by
  refine ⟨(strictlySorted_iff _).mpr hI.sorted, ?_⟩
  intro i hi
  obtain ⟨h, hm, rfl⟩ := List.mem_map.mp hi
  have hlt := hI.valid h hm
  have hu : s.uvs[h]? = some s.uvs[h] := by simp [hlt]
  rw [idxOf_of s h _ hu]
  exact hI.inRange h _ hu (hI.allOpen h hm _ hu)

/-! ## 8. the compiler establishes the Discipline

  Model/CloseCompile.lean transcribes, for an abstract statement language that keeps only scoping (blocks, `local`,
  closure creation capturing chosen visible locals, uses, while / repeat / numeric for / generic for with their
  hidden control registers, break, labels and goto, return), where compile.go allocates registers and where it
  emits OP_CLOSE (with which operand) and jumps: EnterBlock / LeaveBlock / CloseUpvalues, the RefUpvalue marking of
  the FunctionExpr arm, the four loop statements, compileBreakStmt, compileGotoStmt / compileLabelStmt /
  FindLabel / ResolveGoto / ResolveCurrentBlockGotosWithParentBlock / ResolveForwardGoto, compileReturnStmt.
  Model/CloseMachine.lean runs the patched code of one activation and emits the trace alphabet of §4;
  a path is a list of choices, one per executed instruction (conditional jumps, FORLOOP, TFORLOOP consult it). -/

open GLua.CloseC in
/-- **closeDiscipline_sound** — the certificate checker is sound against the machine: on a compiled function it
    accepts, the trace of EVERY path (any length, any choice at every conditional jump, FORLOOP and TFORLOOP) is
    defined in the cell semantics — every access by name hits a live variable instance, no register is re-declared
    while the instance it holds is captured and not closed.  (No assumption on how the code was produced.) -/
theorem closeDiscipline_sound (nparams : Nat) (fc : FC) (h : closeDiscipline nparams fc = true) (path : List Bool) :
    (Cells.run CSt.init (traceOf nparams fc path)).isSome = true :=
  GLua.CloseC.closeDiscipline_sound nparams fc h path

open GLua.CloseC in
/-- the statement "the compiler establishes the Discipline": for every program of the statement language the
    compile model accepts, every execution path of the compiled code — fall-through, every break, goto, return and
    back edge, any number of iterations — yields a trace on which the cell semantics is defined, i.e. which
    satisfies the hypothesis of `upvalue_refines_cells`.  `labelBreak` selects compileBreakStmt after (true) / before
    (false) repair b47a12e. -/
def compile_establishes_discipline_stmt (labelBreak : Bool) : Prop :=
  ∀ (nparams : Nat) (s : Stmt) (fc : FC), compileFunctionWith labelBreak nparams s = .ok fc →
    ∀ path : List Bool, (Cells.run CSt.init (traceOf nparams fc path)).isSome = true

/-- the witness of finding C03-break-after-backward-goto:
    `while c() do local x; ::top:: if c() then break end; sink(function() … x … end); goto top end; local a; use(a)` -/
def breakWitness : GLua.CloseC.Stmt :=
  .seq (.whileLoop (.seq (.localDecl 0) (.seq (.label 1) (.seq (.ifThen .brk .skip) (.seq (.capture [0]) (.goto 1))))))
    (.seq (.localDecl 10) .use)

/-- the path: enter the loop, skip the break, create the closure, go back to `top`, break, declare `a` -/
def breakWitnessPath : List Bool := [false, false, false, false, true, false, false, false, false, false, false]

open GLua.CloseC in
/-- **compile_establishes_discipline_before_fix_fails** — compileBreakStmt before b47a12e does not establish the
    Discipline: `break` is compiled before the closure that captures `x`, so it emits no CLOSE; the backward goto
    brings control back to it with `x` captured; behind the loop the register of `x` is re-declared while the closure
    still refers to it (on the real interpreter the closure and the new local then shared the register: finding
    C03-break-after-backward-goto, reproduced on /repo d713e3e; repaired by b47a12e). -/
theorem compile_establishes_discipline_before_fix_fails : ¬ compile_establishes_discipline_stmt false := by
  intro H
  have h : (match compileFunctionWith false 0 breakWitness with
      | .ok fc => (Cells.run CSt.init (traceOf 0 fc breakWitnessPath)).isSome
      | .error _ => true) = false := by decide +kernel
  cases hc : compileFunctionWith false 0 breakWitness with
  | error e => rw [hc] at h; cases h
  | ok fc =>
    rw [hc] at h
    have := H 0 breakWitness fc hc breakWitnessPath
    simp only at h
    rw [h] at this
    cases this

open GLua.CloseC in
/-- after b47a12e the witness compiles to code the checker accepts (the break closes), and the same path is
    disciplined -/
example : (compileFunction 0 breakWitness).toOption.map (fun fc =>
    (closeDiscipline 0 fc, (Cells.run CSt.init (traceOf 0 fc (breakWitnessPath ++ [false, false, false]))).isSome)) =
    some (true, true) := by decide +kernel

open GLua.CloseC in
/-- **compile_establishes_discipline_partial** — for every program without labels and gotos (guard `NoGoto`;
    blocks, locals, closures capturing any visible locals from any depth, while / repeat with capturing until
    expression / numeric for / generic for, break from any depth, return; any nesting, any size) the compile model's
    output passes the checker, hence every execution path of the compiled code is disciplined. -/
theorem compile_establishes_discipline_partial (labelBreak : Bool) (nparams : Nat) (s : Stmt) (fc : FC)
    (hg : NoGoto s = true) (h : compileFunctionWith labelBreak nparams s = .ok fc) (path : List Bool) :
    closeDiscipline nparams fc = true ∧ (Cells.run CSt.init (traceOf nparams fc path)).isSome = true :=
  ⟨compile_accepts_nogoto_with labelBreak nparams s fc hg h,
   GLua.CloseC.closeDiscipline_sound nparams fc (compile_accepts_nogoto_with labelBreak nparams s fc hg h) path⟩

/-- non-vacuity: nested loops, a capturing until expression, a break out of a nested capturing block, a for loop
    whose variable is captured — compiled, accepted, and a path through two iterations -/
def discDemo : GLua.CloseC.Stmt :=
  .seq (.localDecl 1) (.seq (.whileLoop (.seq (.localDecl 2) (.seq (.doBlock (.seq (.localDecl 3)
    (.seq (.capture [0, 1, 2]) (.ifThen .brk .skip)))) .use)))
    (.seq (.repeatLoop (.seq (.localDecl 4) (.capture [1])) [0, 1]) (.seq (.numFor (.seq (.capture [4]) .use)) (.seq (.localDecl 5) .use))))

open GLua.CloseC in
example : NoGoto discDemo = true ∧ (compileFunction 0 discDemo).toOption.map (closeDiscipline 0) = some true := by decide +kernel

open GLua.CloseC in
example : (compileFunction 0 discDemo).toOption.map (fun fc =>
    let r := runPath (finalize fc) {} ([false, false, false, false, false, false, true, false, false, false, true] ++ List.replicate 60 false)
    (r.1.length, r.2)) = some (37, .returned) := by
  decide +kernel

open GLua.CloseC in
/-- **checked_code_refines_cells** — on code the checker accepts, the run-time mechanism (registers, `findUpvalue`,
    `closeUpvalues`, `Upvalue.Value/SetValue`) executes every path without failing and every read — through a name
    or through any closure created so far — observes exactly the value the cell semantics (one heap cell per
    variable instance) prescribes.  `n` = size of the register file (enough registers: Model/Registry). -/
theorem checked_code_refines_cells (nparams : Nat) (fc : FC) (hc : closeDiscipline nparams fc = true) (path : List Bool)
    (n : Nat) (hb : ∀ op ∈ traceOf nparams fc path, opBounded n op) :
    ∃ c' outs m', Cells.run CSt.init (traceOf nparams fc path) = some (c', outs) ∧
      mrun (MSt.init n) (traceOf nparams fc path) = .ok (m', outs) ∧ Inv m'.st := by
  have h1 := GLua.CloseC.closeDiscipline_sound nparams fc hc path
  cases hr : Cells.run CSt.init (traceOf nparams fc path) with
  | none => rw [hr] at h1; cases h1
  | some p =>
    obtain ⟨c', outs⟩ := p
    obtain ⟨m', hm, hI⟩ := upvalue_refines_cells n _ hb c' outs hr
    exact ⟨c', outs, m', rfl, hm, hI⟩

open GLua.CloseC in
/-- **closures_keep_variables** (guarded: goto-free programs) — the compiled code refines the cell semantics:
    for every program of the statement language without labels / gotos and every execution path of its compiled
    code, the register / open-upvalue-list mechanism never fails and all closures observe, at every `use`, the
    values of the variable instances they captured — each execution of a `local` is a fresh variable, closures
    capturing it share it and keep it after the block, the loop iteration (fall-through, break, back edge) or
    the function (return) has ended. -/
theorem closures_keep_variables (nparams : Nat) (s : Stmt) (fc : FC) (hg : NoGoto s = true)
    (h : compileFunction nparams s = .ok fc) (path : List Bool) (n : Nat)
    (hb : ∀ op ∈ traceOf nparams fc path, opBounded n op) :
    ∃ c' outs m', Cells.run CSt.init (traceOf nparams fc path) = some (c', outs) ∧
      mrun (MSt.init n) (traceOf nparams fc path) = .ok (m', outs) ∧ Inv m'.st :=
  checked_code_refines_cells nparams fc (compile_accepts_nogoto nparams s fc hg h) path n hb

/-- the full statement (every program, also with labels and gotos); `labelBreak` as above -/
def closures_keep_variables_stmt (labelBreak : Bool) : Prop :=
  ∀ (nparams : Nat) (s : GLua.CloseC.Stmt) (fc : GLua.CloseC.FC), GLua.CloseC.compileFunctionWith labelBreak nparams s = .ok fc →
    ∀ (path : List Bool) (n : Nat), (∀ op ∈ GLua.CloseC.traceOf nparams fc path, opBounded n op) →
      ∃ c' outs m', Cells.run CSt.init (GLua.CloseC.traceOf nparams fc path) = some (c', outs) ∧
        mrun (MSt.init n) (GLua.CloseC.traceOf nparams fc path) = .ok (m', outs)

open GLua.CloseC in
/-- **closures_keep_variables_before_fix_fails** — before b47a12e: on the witness the cell semantics is undefined (the
    Discipline is broken), and the mechanism then makes the closure observe the NEW local (next example). -/
theorem closures_keep_variables_before_fix_fails : ¬ closures_keep_variables_stmt false := by
  intro H
  have h : (match compileFunctionWith false 0 breakWitness with
      | .ok fc => (Cells.run CSt.init (traceOf 0 fc breakWitnessPath)).isSome ||
          !(traceOf 0 fc breakWitnessPath).all (fun op => decide (opBounded 4 op))
      | .error _ => true) = false := by decide +kernel
  cases hc : compileFunctionWith false 0 breakWitness with
  | error e => rw [hc] at h; cases h
  | ok fc =>
    rw [hc] at h
    simp only [Bool.or_eq_false_iff, Bool.not_eq_false', List.all_eq_true, decide_eq_true_eq] at h
    obtain ⟨c', outs, m', hr, _⟩ := H 0 breakWitness fc hc breakWitnessPath 4 h.2
    rw [hr] at h
    cases h.1

open GLua.CloseC in
/-- what the mechanism did on the witness before the repair, two steps further (`use(a)` calls the closure): it read
    10 through the upvalue that should hold x = 0; after the repair it reads 0 -/
example : (compileFunctionWith false 0 breakWitness).toOption.map (fun fc =>
    (mrun (MSt.init 4) (traceOf 0 fc (breakWitnessPath ++ [false, false]))).toOption.map (·.2)) =
    some (some [some (.int 10), some (.int 10)]) := by decide +kernel

open GLua.CloseC in
example : (compileFunction 0 breakWitness).toOption.map (fun fc =>
    (mrun (MSt.init 4) (traceOf 0 fc (breakWitnessPath ++ [false, false, false]))).toOption.map (·.2)) =
    some (some [some (.int 10), some (.int 0)]) := by decide +kernel

end GLua.Props.C03
