/-
  C03M — mechanism part of C03.  The theorems live in GLua/Props/C03.lean; this module restates each of them
  (same statement, via `type_of%`) in the namespace the audit of `./check C03M` counts.
-/
import GLua.Props.C03

namespace GLua.Props.C03M

theorem uvcache_sorted_unique : type_of% @GLua.Props.C03.uvcache_sorted_unique := @GLua.Props.C03.uvcache_sorted_unique
theorem find_shares : type_of% @GLua.Props.C03.find_shares := @GLua.Props.C03.find_shares
theorem close_spec : type_of% @GLua.Props.C03.close_spec := @GLua.Props.C03.close_spec
theorem closed_frame : type_of% @GLua.Props.C03.closed_frame := @GLua.Props.C03.closed_frame
theorem upvalue_refines_cells : type_of% @GLua.Props.C03.upvalue_refines_cells := @GLua.Props.C03.upvalue_refines_cells
theorem pcall_closes : type_of% @GLua.Props.C03.pcall_closes := @GLua.Props.C03.pcall_closes
theorem pcall_keeps_below : type_of% @GLua.Props.C03.pcall_keeps_below := @GLua.Props.C03.pcall_keeps_below
theorem pcall_keeps_below_before_fix_fails : type_of% @GLua.Props.C03.pcall_keeps_below_before_fix_fails := @GLua.Props.C03.pcall_keeps_below_before_fix_fails
theorem thread_death_closes_all : type_of% @GLua.Props.C03.thread_death_closes_all := @GLua.Props.C03.thread_death_closes_all
theorem return_closes_frame : type_of% @GLua.Props.C03.return_closes_frame := @GLua.Props.C03.return_closes_frame
theorem fenv_inherit : type_of% @GLua.Props.C03.fenv_inherit := @GLua.Props.C03.fenv_inherit
theorem globals_use_fn_env : type_of% @GLua.Props.C03.globals_use_fn_env := @GLua.Props.C03.globals_use_fn_env
theorem setfenv_sets : type_of% @GLua.Props.C03.setfenv_sets := @GLua.Props.C03.setfenv_sets
theorem getfenv_level_partial : type_of% @GLua.Props.C03.getfenv_level_partial := @GLua.Props.C03.getfenv_level_partial
theorem getfenv_level_full_fails : type_of% @GLua.Props.C03.getfenv_level_full_fails := @GLua.Props.C03.getfenv_level_full_fails
theorem setfenv_level_partial : type_of% @GLua.Props.C03.setfenv_level_partial := @GLua.Props.C03.setfenv_level_partial
theorem setfenv_level_full_fails : type_of% @GLua.Props.C03.setfenv_level_full_fails := @GLua.Props.C03.setfenv_level_full_fails
theorem strictlySorted_iff : type_of% @GLua.Props.C03.strictlySorted_iff := @GLua.Props.C03.strictlySorted_iff
theorem inv_passes_monitor : type_of% @GLua.Props.C03.inv_passes_monitor := @GLua.Props.C03.inv_passes_monitor

theorem closeDiscipline_sound : type_of% @GLua.Props.C03.closeDiscipline_sound := @GLua.Props.C03.closeDiscipline_sound
theorem compile_establishes_discipline_before_fix_fails : type_of% @GLua.Props.C03.compile_establishes_discipline_before_fix_fails := @GLua.Props.C03.compile_establishes_discipline_before_fix_fails
theorem compile_establishes_discipline_partial : type_of% @GLua.Props.C03.compile_establishes_discipline_partial := @GLua.Props.C03.compile_establishes_discipline_partial
theorem checked_code_refines_cells : type_of% @GLua.Props.C03.checked_code_refines_cells := @GLua.Props.C03.checked_code_refines_cells
theorem closures_keep_variables : type_of% @GLua.Props.C03.closures_keep_variables := @GLua.Props.C03.closures_keep_variables
theorem closures_keep_variables_before_fix_fails : type_of% @GLua.Props.C03.closures_keep_variables_before_fix_fails := @GLua.Props.C03.closures_keep_variables_before_fix_fails

end GLua.Props.C03M
