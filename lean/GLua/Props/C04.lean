/-
  C04 — metamethods are selected and applied by the Lua 5.1 rules  (MECHANISM part).

  Property theorems only (lemmas live in GLua/Proofs/Meta.lean).
    Spec  = GLua/Spec/MetaSpec.lean   the manual's §2.8 event functions and §5.1 library functions
    Model = GLua/Model/MetaModel.lean transcription of state.go / vm.go / baselib.go / auxlib.go dispatch code,
            tied to the real functions by the correspondence check `C04M` on every run.
  Every theorem quantifies over ALL number types `N`, all primitives `p : Prims N`, all heaps `h : Heap N`
  (arbitrary raw contents, metatables, per-type metatables) and all operands; nothing is bounded.

  Where the full statement `Model = Spec` is false of the unchanged code, the file has
      def  X_full : Prop            the full statement
      theorem X_full_fails          its negation, from a concrete witness
      theorem X_partial             the strongest guarded statement, guard explicit and decidable
  and says whether the excluded class is inside the property.
-/
import GLua.Proofs.Meta

namespace GLua.Props.C04
open GLua.Meta GLua.MetaModel GLua.MetaProofs

variable {N : Type}

/-! ## concrete instance used by negation witnesses and non-vacuity examples -/

def pInt : Prims Int where
  arith := fun op a b =>
    match op with
    | .add => a + b | .sub => a - b | .mul => a * b | .div => a / b | .mod => a % b | .pow => a ^ b.toNat
  neg := fun a => -a
  numEq := fun a b => a == b
  numLt := fun a b => decide (a < b)
  numLe := fun a b => decide (a ≤ b)
  strLt := fun a b => decide (a < b)
  strLe := fun a b => decide (a ≤ b)
  toNum := fun s => if s = "10" then some 10 else none
  numStr := fun _ => "#"
  strLen := fun s => s.length
  tostr := fun _ => "?"

/-- table 1 (and userdata 1) have metatable 2; every event slot of table 2 holds `slot`. -/
def heapWith (slot : V Int) : Heap Int where
  raw := fun _ _ => .nil
  field := fun m _ => if m = 2 then slot else .nil
  tmeta := fun id => if id = 1 then some 2 else none
  umeta := fun id => if id = 1 then some 2 else none
  tymeta := fun _ => none
  border := fun _ => 3

/-- like `heapWith`, and additionally the shared metatable of strings is table 2. -/
def heapStr (slot : V Int) : Heap Int := { heapWith slot with tymeta := fun t => if t = .str then some 2 else none }

/-- every table has metatable 2, whose only event is `__lt` = function 5. -/
def heapOnlyLt : Heap Int where
  raw := fun _ _ => .nil
  field := fun m ev => if m = 2 ∧ ev = .lt then .func 5 else .nil
  tmeta := fun _ => some 2
  umeta := fun _ => none
  tymeta := fun _ => none
  border := fun _ => 0

/-! ## A. metatable lookup -/

/-- `metaOp1` is the manual's `metatable(obj)[event]`: individual metatables for tables and userdata, the
    per-type metatable for every other value, raw access, nil without metatable. -/
theorem metaOp1_is_manual_lookup (h : Heap N) (v : V N) (ev : Event) : metaOp1 h v ev = mtEvent h v ev :=
  metaOp1_eq h v ev

/-- `metaOp2` tries the left operand, then the right. -/
theorem metaOp2_left_then_right (h : Heap N) (a b : V N) (ev : Event) :
    metaOp2 h a b ev = if (mtEvent h a ev).isNil then mtEvent h b ev else mtEvent h a ev :=
  metaOp2_eq h a b ev

/-! ## B. index / newindex -/

/-- one iteration of `getField`'s loop is one application of the manual's `gettable_event`
    (raw table first, then `__index`: function → call with `(table, key)`, other value → repeat on it,
    nil → nil for tables / error for non-tables). -/
theorem index_step_refines_manual (h : Heap N) (t k : V N) : getFieldStep h t k = gettable_event h t k :=
  index_step h t k

theorem newindex_step_refines_manual (h : Heap N) (t k v : V N) :
    setFieldStep h t k v = settable_event h t k v :=
  newindex_step h t k v

/-- **index_chain** — for every chain length: `fuel` iterations of the Go loop are `fuel` applications of the
    manual's event; beyond the fuel both raise the "loop" error. (Induction on the fuel.) -/
theorem index_chain (h : Heap N) (key : V N) (fuel : Nat) (t : V N) :
    getFieldLoop h key fuel t = gettable h fuel t key := by
  induction fuel generalizing t with
  | zero => rfl
  | succ n ih =>
    unfold getFieldLoop gettable
    rw [index_step]
    cases gettable_event h t key <;> simp [ih]

theorem newindex_chain (h : Heap N) (key value : V N) (fuel : Nat) (t : V N) :
    setFieldLoop h key value fuel t = settable h fuel t key value := by
  induction fuel generalizing t with
  | zero => rfl
  | succ n ih =>
    unfold setFieldLoop settable
    rw [newindex_step]
    cases settable_event h t key value <;> simp [ih]

/-- the loop bound extracted from the source is the documented depth. -/
theorem fuel_is_documented_depth : GLua.Generated.MaxTableGetLoop = MAXTAGLOOP := by decide

/-- **dispatch_refines_manual (index)** — `getField` (OP_GETTABLE, `LState.GetTable`) -/
theorem getField_refines_manual (h : Heap N) (obj key : V N) :
    getField h obj key = gettable h MAXTAGLOOP obj key := by
  unfold getField; rw [fuel_is_documented_depth]; exact index_chain h key _ obj

/-- `getFieldString` (OP_GETTABLEKS, OP_SELF, OP_GETGLOBAL, `LState.GetField`) -/
theorem getFieldString_refines_manual (h : Heap N) (obj : V N) (key : String) :
    getFieldString h obj key = gettable h MAXTAGLOOP obj (.str key) := by
  unfold getFieldString; rw [fuel_is_documented_depth]; exact index_chain h _ _ obj

/-- method-call syntax: `obj:name(…)` (OP_SELF) fetches the method exactly as `obj.name` (OP_GETTABLEKS) does, for
    every receiver (strings, numbers, … with per-type metatables included) and every `__index` shape … -/
theorem self_is_plain_index (h : Heap N) (obj : V N) (key : String) :
    opSelf h obj key = getFieldString h obj key := rfl

/-- … hence by the manual's `gettable_event` chain. -/
theorem self_refines_manual (h : Heap N) (obj : V N) (key : String) :
    opSelf h obj key = gettable h MAXTAGLOOP obj (.str key) :=
  getFieldString_refines_manual h obj key

/-- **dispatch_refines_manual (newindex)** — `setField` (OP_SETTABLE, `LState.SetTable`) -/
theorem setField_refines_manual (h : Heap N) (obj key value : V N) :
    setField h obj key value = settable h MAXTAGLOOP obj key value := by
  unfold setField; rw [fuel_is_documented_depth]; exact newindex_chain h key value _ obj

theorem setFieldString_refines_manual (h : Heap N) (obj : V N) (key : String) (value : V N) :
    setFieldString h obj key value = settable h MAXTAGLOOP obj (.str key) value := by
  unfold setFieldString; rw [fuel_is_documented_depth]; exact newindex_chain h _ value _ obj

/-- assignment consults `__newindex` only for absent keys: a present key is stored raw whatever the metatable. -/
theorem newindex_only_for_absent_keys (h : Heap N) (id : Nat) (key value : V N)
    (hp : (h.raw id key).isNil = false) : setField h (.table id) key value = .store id key value := by
  unfold setField
  have : GLua.Generated.MaxTableGetLoop = 99 + 1 := by decide
  rw [this]
  simp [setFieldLoop, setFieldStep, hp]

/-- indexing tries the raw table first. -/
theorem index_raw_first (h : Heap N) (id : Nat) (key : V N)
    (hp : (h.raw id key).isNil = false) : getField h (.table id) key = .raw (h.raw id key) := by
  unfold getField
  have : GLua.Generated.MaxTableGetLoop = 99 + 1 := by decide
  rw [this]
  simp [getFieldLoop, getFieldStep, hp]

-- non-vacuity: a two-link chain ending in a function handler
example : getField ({ heapWith (.table 1) with field := fun m _ => if m = 2 then .func 9 else .nil } : Heap Int)
    (.table 1) (.str "k") = .call (.func 9) [.table 1, .str "k"] .first := by decide
example : (heapWith (.func 9)).raw 1 (.str "k") = .nil := rfl

/-! ## C. arithmetic -/

/-- full statement: `opArith` (OP_ADD … OP_POW) is the manual's `arith_event`. -/
def arith_refines_manual_full : Prop :=
  ∀ (N : Type) (p : Prims N) (h : Heap N) (op : ArithOp) (a b : V N), opArith p h op a b = arith_event p h op a b

/-- it fails. Witness 1 (INSIDE the property, open finding `C04-nonfunction-handler`): the `__add` slot holds a
    callable table; Lua 5.1 calls it with `(a, b)`, gopher-lua ignores every handler that is not a function
    and raises "cannot perform add operation". -/
theorem arith_refines_manual_full_fails : ¬ arith_refines_manual_full := fun H => by
  have := H Int pInt (heapWith (.table 3)) .add (.table 1) (.num 1)
  revert this; decide

/-- Witness 2 (OUTSIDE the property's quantifier — needs arithmetic events on the *string* metatable):
    handler-before-coercion. `"10" + 1` with `__add` in the string metatable: the manual converts first (11),
    gopher-lua calls the handler. -/
theorem arith_handler_before_coercion :
    opArith pInt (heapStr (.func 7)) .add (.str "10") (.num 1) = .call (.func 7) [.str "10", .num 1] .first ∧
    arith_event pInt (heapStr (.func 7)) .add (.str "10") (.num 1) = .raw (.num 11) := by decide

/-- **dispatch_refines_manual (arithmetic)** — under the guard (both handler slots hold a function or nil; no
    handler-before-coercion) the selected handler, its arguments `(a, b)` in source order and the use of its
    first result are exactly the manual's; without handler the numeric coercion and the error coincide. -/
theorem arith_refines_manual_partial (p : Prims N) (h : Heap N) (op : ArithOp) (a b : V N)
    (g : ArithGuard p h op.event a b) : opArith p h op a b = arith_event p h op a b :=
  opArith_partial p h op a b g

-- the guard is satisfiable by a non-trivial state (left operand a table with a function handler)
example : ArithGuard pInt (heapWith (.func 7)) ArithOp.add.event (.table 1) (.num 1) := by decide
example : opArith pInt (heapWith (.func 7)) .add (.num 1) (.table 1) = .call (.func 7) [.num 1, .table 1] .first := by
  decide

/-- whatever the heap: when `opArith` calls a handler, the arguments are the original operands in source
    order, the result is the first result, and the handler comes from the left operand unless that has none. -/
theorem arith_call_shape (p : Prims N) (h : Heap N) (op : ArithOp) (a b hd : V N) (args : List (V N)) (post : Post)
    (hc : opArith p h op a b = .call hd args post) :
    args = [a, b] ∧ post = .first ∧
    hd = (if (mtEvent h a op.event).isNil then mtEvent h b op.event else mtEvent h a op.event) := by
  unfold opArith at hc
  split at hc
  · cases hc
  · unfold objectArith at hc
    by_cases hf : (metaOp2 h a b op.event).isFunc = true
    · simp only [hf, if_true] at hc
      cases hc
      rw [metaOp2_eq]
      exact ⟨rfl, rfl, rfl⟩
    · simp only [hf] at hc
      revert hc
      cases coerceStr p a <;> cases coerceStr p b <;> simp

/-! ## D. unary minus and length -/

def unm_refines_manual_full : Prop :=
  ∀ (N : Type) (p : Prims N) (h : Heap N) (a : V N), opUnm p h a = unm_event p h a

/-- fails: `__unm` on the string metatable is called before the coercion of `-"10"` (OUTSIDE the property's
    quantifier, same class as `arith_handler_before_coercion`); and a callable-table handler is ignored (inside,
    finding `C04-nonfunction-handler`). -/
theorem unm_refines_manual_full_fails : ¬ unm_refines_manual_full := fun H => by
  have := H Int pInt (heapStr (.func 7)) (.str "10")
  revert this; decide

theorem unm_nonfunction_handler_ignored :
    opUnm pInt (heapWith (.table 3)) (.table 1) = .error .unm ∧
    unm_event pInt (heapWith (.table 3)) (.table 1) = .call (.table 3) [.table 1] .first := by decide

/-- **dispatch_refines_manual (unm)** -/
theorem unm_refines_manual_partial (p : Prims N) (h : Heap N) (a : V N) (g : UnmGuard p h a) :
    opUnm p h a = unm_event p h a :=
  opUnm_partial p h a g

example : UnmGuard pInt (heapWith (.func 7)) (.table 1) := by decide

def len_refines_manual_full : Prop :=
  ∀ (N : Type) (p : Prims N) (h : Heap N) (a : V N), opLen p h a = len_event p h a

/-- fails (INSIDE the property's general clause, open finding `C04-len-handler-on-tables`): `#t` honours `__len`
    of a *table* (Lua 5.2 behaviour; 5.1 takes the primitive length of every table). -/
theorem len_refines_manual_full_fails : ¬ len_refines_manual_full := fun H => by
  have := H Int pInt (heapWith (.func 7)) (.table 1)
  revert this; decide

/-- **dispatch_refines_manual (len)** — guard: function-or-nil handler, and no `__len` on a table operand. -/
theorem len_refines_manual_partial (p : Prims N) (h : Heap N) (a : V N) (g : LenGuard h a) :
    opLen p h a = len_event p h a :=
  opLen_partial p h a g

example : LenGuard (heapWith (.func 7)) (.udata 1) := by decide
example : opLen pInt (heapWith (.func 7)) (.udata 1) = .call (.func 7) [.udata 1] .first := by decide

/-! ## E. concatenation -/

def concat_fold_full : Prop :=
  ∀ (N : Type) (p : Prims N) (h : Heap N) (ret : V N → List (V N) → V N) (ops : List (V N)),
    stringConcat p h ret ops = Meta.concat_fold p h ret ops

/-- fails only through the non-function-handler class (finding `C04-nonfunction-handler`). -/
theorem concat_fold_full_fails : ¬ concat_fold_full := fun H => by
  have := H Int pInt (heapWith (.table 3)) (fun _ _ => .str "r") [.table 1, .str "x"]
  revert this; decide

/-- **concat_fold** — for every number of operands and every handler behaviour `ret`: `stringConcat`
    (right-to-left loop, maximal runs of strings/numbers joined at once) performs exactly the handler calls,
    in the same order, with the same arguments `(lhs, running result)`, and yields the same result or error as
    the right-associated fold `e1 .. (e2 .. (… .. en))` of the manual's binary `concat_event`.
    Guard: every `__concat` slot of the heap holds a function or nil. -/
theorem concat_fold (p : Prims N) (h : Heap N) (ret : V N → List (V N) → V N) (g : ConcatGuard h)
    (ops : List (V N)) : stringConcat p h ret ops = Meta.concat_fold p h ret ops :=
  stringConcat_eq_fold p h ret g ops

example : ConcatGuard (heapWith (.func 7)) := by
  intro m; unfold heapWith; by_cases hm : m = 2 <;> simp [hm, FnOrNil, V.isFunc, V.isNil]
-- `"a" .. obj .. "b" .. "c"`: one run "bc", then handler(obj, "bc"), then "a" .. result
example : stringConcat pInt (heapWith (.func 7)) (fun _ _ => .str "R") [.str "a", .table 1, .str "b", .str "c"] =
    ([⟨.func 7, [.table 1, .str "bc"]⟩], .ok (.str "aR")) := by decide

/-! ## F. comparison -/

def eq_refines_manual_full : Prop :=
  ∀ (N : Type) (p : Prims N) (h : Heap N) (a b : V N), equals p h a b false = eq_event p h a b

/-- fails only through the non-function-handler class (two tables sharing a callable-table `__eq`). -/
theorem eq_refines_manual_full_fails : ¬ eq_refines_manual_full := fun H => by
  have := H Int pInt ({ heapWith (.table 3) with tmeta := fun _ => some 2 }) (.table 1) (.table 4)
  revert this; decide

/-- **dispatch_refines_manual (eq)** — `equals` (OP_EQ, `LState.Equal`): different types → false without any
    handler; primitively equal → true; otherwise `__eq` only for two tables or two userdata whose handlers
    are the identical function, called with `(a, b)`, result = truth value. -/
theorem eq_refines_manual_partial (p : Prims N) (h : Heap N) (a b : V N) (g : CompGuard h .eq a b) :
    equals p h a b false = eq_event p h a b :=
  equals_partial p h a b g

example : CompGuard (heapWith (.func 7)) .eq (.table 1) (.udata 1) := by decide

/-- mixed table/userdata operands never reach a handler (no divergence here, for every heap). -/
theorem eq_mixed_table_userdata (p : Prims N) (h : Heap N) (i j : Nat) (raw : Bool) :
    equals p h (.table i) (.udata j) raw = .raw (.bool false) ∧
    equals p h (.udata i) (.table j) raw = .raw (.bool false) := by
  simp [equals, V.ty]

def lt_refines_manual_full : Prop :=
  ∀ (N : Type) (p : Prims N) (h : Heap N) (a b : V N), lessThan p h a b = lt_event p h a b

theorem lt_refines_manual_full_fails : ¬ lt_refines_manual_full := fun H => by
  have := H Int pInt ({ heapWith (.table 3) with tmeta := fun _ => some 2 }) (.table 1) (.table 4)
  revert this; decide

/-- **dispatch_refines_manual (lt)** — `lessThan` (OP_LT, `LState.LessThan`) -/
theorem lt_refines_manual_partial (p : Prims N) (h : Heap N) (a b : V N) (g : CompGuard h .lt a b) :
    lessThan p h a b = lt_event p h a b :=
  lessThan_partial p h a b g

def le_refines_manual_full : Prop :=
  ∀ (N : Type) (p : Prims N) (h : Heap N) (a b : V N), opLE p h a b = le_event p h a b

theorem le_refines_manual_full_fails : ¬ le_refines_manual_full := fun H => by
  have := H Int pInt ({ heapWith (.table 3) with tmeta := fun _ => some 2 }) (.table 1) (.table 4)
  revert this; decide

/-- **dispatch_refines_manual (le)** — the OP_LE body: `__le` with `(a, b)`; in its absence `__lt` with the
    operands swapped `(b, a)` and the truth value negated (`not (b < a)`). -/
theorem le_refines_manual_partial (p : Prims N) (h : Heap N) (a b : V N)
    (gle : CompGuard h .le a b) (glt : CompGuard h .lt a b) : opLE p h a b = le_event p h a b :=
  opLE_partial p h a b gle glt

-- `a <= b` with only `__lt`: handler called with (b, a), result negated
example : opLE pInt heapOnlyLt (.table 1) (.table 4) = .call (.func 5) [.table 4, .table 1] .nottruth := by decide

/-! ## G. calls -/

/-- OP_CALL, OP_TAILCALL and `callR` (Go API `Call/PCall`, the generic-`for` iterator call of OP_TFORLOOP, every
    handler call) select the callable identically, for every heap. -/
theorem call_sites_agree (h : Heap N) (f : V N) (args : List (V N)) :
    opCall h f args = callR h f args ∧ opTailCall h f args = callR h f args :=
  ⟨opCall_eq_callR h f args, opTailCall_eq_callR h f args⟩

def call_refines_manual_full : Prop :=
  ∀ (N : Type) (h : Heap N) (f : V N) (args : List (V N)), callR h f args = call_event h f args

/-- fails when `__call` holds a non-function: the manual's pseudo-code would call it (recursively through its
    own `__call`), gopher-lua — like PUC-Lua 5.1's `luaD_tryfuncTM` — raises "attempt to call".
    OUTSIDE the property (the reference implementation behaves like the model). -/
theorem call_refines_manual_full_fails : ¬ call_refines_manual_full := fun H => by
  have := H Int (heapWith (.table 3)) (.table 1) [.num 1]
  revert this; decide

/-- **dispatch_refines_manual (call)** — a function is called with the arguments as they are; any other value
    with a function `__call` handler is called as `handler(value, args…)` (original value first), all results
    returned; otherwise the "call" error.  Holds for calls in tail position and loop iterators by
    `call_sites_agree`. -/
theorem call_refines_manual_partial (h : Heap N) (f : V N) (args : List (V N))
    (g : FnOrNil (mtEvent h f .call)) : callR h f args = call_event h f args :=
  callR_partial h f args g

example : opTailCall (heapWith (.func 7)) (.table 1) [.num 1, .num 2] =
    .call (.func 7) [.table 1, .num 1, .num 2] .all := by decide

/-! ## H. tostring, getmetatable, setmetatable -/

def tostring_refines_manual_full : Prop :=
  ∀ (N : Type) (p : Prims N) (h : Heap N) (e : V N), toStringMeta p h e = tostring_fn p h e

theorem tostring_refines_manual_full_fails : ¬ tostring_refines_manual_full := fun H => by
  have := H Int pInt (heapWith (.table 3)) (.table 1)
  revert this; decide

theorem tostring_refines_manual_partial (p : Prims N) (h : Heap N) (e : V N)
    (g : FnOrNil (mtEvent h e .tostring)) : toStringMeta p h e = tostring_fn p h e :=
  toStringMeta_partial p h e g

/-- **getmetatable** honours `__metatable`, for every value and heap (full). -/
theorem getmetatable_refines_manual (h : Heap N) (o : V N) : getMetatable h o = getmetatable_fn h o :=
  getMetatable_full h o

def setmetatable_refines_manual_full : Prop :=
  ∀ (N : Type) (h : Heap N) (t mt : V N), baseSetMetatable h t mt = setmetatable_fn h t mt

/-- fails: `setmetatable(5, {})` is accepted and replaces the metatable shared by all numbers (Lua 5.1: "bad
    argument #1, table expected"). The `__metatable` guard itself is honoured (next theorem); the missing type
    check is OUTSIDE the property's statement but recorded as open finding `C04-setmetatable-nontable`,
    because it makes the string/number metatable classes above reachable from plain Lua. -/
theorem setmetatable_refines_manual_full_fails : ¬ setmetatable_refines_manual_full := fun H => by
  have := H Int (heapWith .nil) (.num 5) (.table 3)
  revert this; decide

/-- **setmetatable**: for table (or nil) first arguments — type check of the second argument, refusal when the
    current metatable has a `__metatable` field (any non-nil value, also `false`), replacement otherwise. -/
theorem setmetatable_refines_manual_partial (h : Heap N) (t mt : V N) (g : t.ty = .table ∨ t.ty = .nil) :
    baseSetMetatable h t mt = setmetatable_fn h t mt :=
  baseSetMetatable_partial h t mt g

example : baseSetMetatable (heapWith (.bool false)) (.table 1) .nil = .error .protectedMt := by decide

/-! ## I. raw access never invokes handlers -/

/-- **raw_never_calls** — `rawget`, `rawset`, `rawequal` (and the Go API `RawEqual`) are the primitive
    operations of the manual and never produce a handler call, whatever the metatables contain. -/
theorem raw_refines_manual (p : Prims N) (h : Heap N) (a b c : V N) :
    baseRawGet h a b = rawget_fn h a b ∧ baseRawSet a b c = rawset_fn a b c ∧
    baseRawEqual p a b = rawequal_fn p a b ∧ equals p h a b true = rawequal_fn p a b := by
  refine ⟨?_, ?_, ?_, ?_⟩
  · cases a <;> rfl
  · cases a <;> rfl
  · simp [baseRawEqual, rawequal_fn, goEq_eq_rawEq]
  · exact equals_raw p h a b

theorem raw_never_calls (p : Prims N) (h : Heap N) (a b c hd : V N) (args : List (V N)) (post : Post) :
    baseRawGet h a b ≠ .call hd args post ∧ baseRawSet a b c ≠ .call hd args post ∧
    baseRawEqual p a b ≠ .call hd args post ∧ equals p h a b true ≠ .call hd args post := by
  refine ⟨?_, ?_, ?_, ?_⟩
  · cases a <;> simp [baseRawGet]
  · cases a <;> simp [baseRawSet]
  · simp [baseRawEqual]
  · rw [equals_raw]; simp

example : baseRawGet (heapWith (.func 7)) (.table 1) (.str "k") = .raw .nil := by decide

end GLua.Props.C04
