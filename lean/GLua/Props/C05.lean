/-
  C05 (mechanism part) — errors at any point are contained by protected calls and leave state intact.

  Property theorems only; lemmas live in GLua/Proofs/PCall.lean (invariant + simulation) and
  GLua/Proofs/PCallStep.lean (single-step facts, negation witnesses).  The Model is GLua/Model/PCall.lean: the
  protected-call protocol of /repo/state.go (PCall and its two deferred closures, raiseError, Error, where/GetStack,
  closeUpvalues/findUpvalue), baselib's result shaping and vm.go's threadRun recover, tied to the real functions by
  the `C05M` correspondence (harness/c05_mech.go) on every run.

  The model describes /repo as of commit 3fb4659 PLUS fixes/C05-handler-push-under-recover.diff (proposed with this
  model).  `legacyRaise` (the tree before commit ae08bde) and `legacyPush` (the tree without the proposed fix) are
  the code before the repairs; the statements that are false of that code are refuted below.

  Quantification: `s` is ANY well-formed interpreter state (`Inv`: what NewState establishes and every operation
  preserves), `ops` is ANY list of inner operations — pushes, register and upvalue stores, frames pushed and
  popped, upvalues opened and closed, nested protected calls (complete or still open when the error strikes),
  errors of every kind — and `last` is ANY way a protected call can fail: an error without handler, the handler
  returning, the handler itself failing, the registry overflowing when the handler is to be called.
-/
import GLua.Proofs.PCall
import GLua.Proofs.PCallStep

namespace GLua.Props.C05
open GLua.PCall

/-- **pcall_restores** — after a failed protected call the call stack (hence `Sp`) and `currentFrame` equal
    their pre-call values, `top = base`, `Panic` is restored, the open upvalues are EXACTLY the caller's
    (those below `base`: none at or above it stays open, none of the caller's is closed), the activation stack
    is the caller's, the registers below `base` are what inner activity left there (the recovery itself writes
    none of them), and the state is well-formed again.  `hasErrorFunc` is `false` — reset, NOT restored. -/
theorem pcall_restores (s s0 s1 s2 : St) (hinv : Inv s) (nargs : Nat) (h : Option (V × Bool)) (e : Op)
    (ops : List Op) (last : Op) (he : IsEntry nargs h e)
    (h0 : step fixedCfg s e = .ok s0) (hd0 : s0.pstack.length = s.pstack.length + 1)
    (h1 : runAbove fixedCfg (s.pstack.length + 1) s0 ops = some s1)
    (h2 : step fixedCfg s1 last = .ok s2) (hfail : isSuccessExit last = false)
    (hout : s2.pstack.length ≤ s.pstack.length) :
    s2.frames = s.frames ∧ s2.cur = s.cur ∧ s2.top = s.top - nargs - 1 ∧ s2.panicFn = s.panicFn ∧
    s2.hasErrorFunc = false ∧ s2.uvs = s.uvs.takeWhile (· < s.top - nargs - 1) ∧
    s2.pstack = s.pstack ∧ (∀ i, i < s.top - nargs - 1 → s2.regs i = s1.regs i) ∧ Inv s2 :=
  pcall_restores_main s s0 s1 s2 hinv nargs h e ops last he h0 hd0 h1 h2 hfail hout

/-- no upvalue at or above the released registers survives a failed protected call (today's fix, as a corollary) -/
theorem pcall_closes_released_upvalues (s s0 s1 s2 : St) (hinv : Inv s) (nargs : Nat) (h : Option (V × Bool))
    (e : Op) (ops : List Op) (last : Op) (he : IsEntry nargs h e)
    (h0 : step fixedCfg s e = .ok s0) (hd0 : s0.pstack.length = s.pstack.length + 1)
    (h1 : runAbove fixedCfg (s.pstack.length + 1) s0 ops = some s1)
    (h2 : step fixedCfg s1 last = .ok s2) (hfail : isSuccessExit last = false)
    (hout : s2.pstack.length ≤ s.pstack.length) : ∀ u ∈ s2.uvs, u < s2.top := by
  obtain ⟨_, _, ht, _, _, hu, _⟩ := pcall_restores s s0 s1 s2 hinv nargs h e ops last he h0 hd0 h1 h2 hfail hout
  intro u hu'
  rw [hu] at hu'
  have hall : ∀ (l : List Nat) (b : Nat), ∀ x ∈ l.takeWhile (· < b), x < b := by
    intro l b
    induction l with
    | nil => intro x hx; simp at hx
    | cons y ys ih =>
      intro x hx
      by_cases hy : y < b
      · simp only [List.takeWhile_cons, hy, decide_true, ↓reduceIte, List.mem_cons] at hx
        rcases hx with rfl | hx
        · exact hy
        · exact ih x hx
      · simp [List.takeWhile_cons, hy] at hx
  rw [ht]; exact hall _ _ u hu'

/-- the protected call fails before its body frame exists (callee not callable, call stack full), no handler -/
theorem pcall_restores_before_body (s s2 : St) (hinv : Inv s) (nargs : Nat) (k : RaiseKind)
    (h0 : step fixedCfg s (.enterFail nargs none k) = .ok s2) :
    s2.frames = s.frames ∧ s2.cur = s.cur ∧ s2.top = s.top - nargs - 1 ∧ s2.panicFn = s.panicFn ∧
    s2.hasErrorFunc = false ∧ s2.uvs = s.uvs.takeWhile (· < s.top - nargs - 1) ∧
    s2.pstack = s.pstack ∧ (∀ i, i < s.top - nargs - 1 → s2.regs i = s.regs i) :=
  pcall_restores_immediate s s2 hinv nargs k h0

/-- the successful exit restores the same bookkeeping -/
theorem pcall_success_restores (s s0 s1 s2 : St) (hinv : Inv s) (nargs n : Nat) (h : Option (V × Bool)) (e : Op)
    (ops : List Op) (he : IsEntry nargs h e)
    (h0 : step fixedCfg s e = .ok s0) (hd0 : s0.pstack.length = s.pstack.length + 1)
    (h1 : runAbove fixedCfg (s.pstack.length + 1) s0 ops = some s1)
    (h2 : step fixedCfg s1 (.retLeave n) = .ok s2)
    (hout : s2.pstack.length ≤ s.pstack.length) :
    s2.frames = s.frames ∧ s2.cur = s.cur ∧ s2.panicFn = s.panicFn ∧ s2.hasErrorFunc = false ∧
    s2.uvs.takeWhile (· < s.top - nargs - 1) = s.uvs.takeWhile (· < s.top - nargs - 1) ∧
    s2.pstack = s.pstack :=
  pcall_success_main s s0 s1 s2 hinv nargs n h e ops he h0 hd0 h1 h2 hout

/-- the recovery writes no register of the caller, and inner activity writes them only through open upvalues:
    without an upvalue store, every register below `base` holds after the inner activity what it held before
    the protected call (combined with `pcall_restores`: also after the failed call) -/
theorem caller_registers_only_via_upvalues (s s0 s1 : St) (hinv : Inv s) (nargs : Nat) (h : Option (V × Bool))
    (e : Op) (ops : List Op) (he : IsEntry nargs h e)
    (h0 : step fixedCfg s e = .ok s0) (hd0 : s0.pstack.length = s.pstack.length + 1)
    (h1 : runAbove fixedCfg (s.pstack.length + 1) s0 ops = some s1)
    (hno : ∀ o ∈ ops, noUpvalStore o = true) :
    ∀ i, i < s.top - nargs - 1 → s1.regs i = s.regs i :=
  caller_registers_main s s0 s1 hinv nargs h e ops he h0 hd0 h1 hno

/-- **error_delivered_once / xpcall_handler_once** (whole run): in a failed protected call — whatever happens
    inside, nested protected calls, handlers and failing handlers included — the error is delivered to it
    EXACTLY once, its handler is started AT MOST once, and never when it has none.  (Exactly once when it has one
    and the registry has room for the handler's two arguments: `xpcall_handler_before_unwinding`; at the registry
    limit the handler cannot be called and the overflow error is what is delivered.) -/
theorem error_delivered_once (s s0 s1 s2 : St) (hinv : Inv s) (nargs : Nat) (h : Option (V × Bool)) (e : Op)
    (ops : List Op) (last : Op) (he : IsEntry nargs h e)
    (h0 : step fixedCfg s e = .ok s0) (hd0 : s0.pstack.length = s.pstack.length + 1)
    (h1 : runAbove fixedCfg (s.pstack.length + 1) s0 ops = some s1)
    (h2 : step fixedCfg s1 last = .ok s2) (hfail : isSuccessExit last = false)
    (hout : s2.pstack.length ≤ s.pstack.length) :
    deliveries s.pstack.length s2.log = deliveries s.pstack.length s.log + 1 ∧
    handlerStarts s.pstack.length s2.log ≤ handlerStarts s.pstack.length s.log + 1 ∧
    (h = none → handlerStarts s.pstack.length s2.log = handlerStarts s.pstack.length s.log) :=
  delivered_once_main s s0 s1 s2 hinv nargs h e ops last he h0 hd0 h1 h2 hfail hout

/-- the invariant the theorems assume is established by a new state and kept by every operation -/
theorem invariant_holds (ops : List Op) (s : St) (h : run fixedCfg {} ops = .ok s) : Inv s := by
  suffices H : ∀ (ops : List Op) (s0 : St), Inv s0 → run fixedCfg s0 ops = .ok s → Inv s from H ops {} inv_init h
  intro ops
  induction ops with
  | nil => intro s0 h0 hr; simp only [run] at hr; cases hr; exact h0
  | cons o os ih =>
    intro s0 h0 hr
    simp only [run] at hr
    cases hs : step fixedCfg s0 o with
    | ok s1 => rw [hs] at hr; exact ih s1 (step_inv s0 s1 o h0 hs) hr
    | escaped t s' => rw [hs] at hr; cases hr
    | disabled => rw [hs] at hr; cases hr

/-- `hasErrorFunc` is reset, not restored: inside xpcall a nested protected call clears the flag although the
    outer handler is still installed — harmless only because (after the fix) raising never reads it -/
theorem hasErrorFunc_reset_not_restored :
    ∃ s s' : St, s.hasErrorFunc = true ∧ s.pstack.length = 1 ∧
      run fixedCfg s [.enter 0 none true, .raise (.raiseError 1 "e")] = .ok s' ∧
      s'.pstack.length = 1 ∧ s'.hasErrorFunc = false :=
  PCall.hasErrorFunc_reset_not_restored

theorem hasErrorFunc_unread (s : St) (k : RaiseKind) (b : Bool) :
    (throwOf fixedCfg { s with hasErrorFunc := b } k).2 = (throwOf fixedCfg s k).2 ∧
    (throwOf fixedCfg { s with hasErrorFunc := b } k).1.uvs = (throwOf fixedCfg s k).1.uvs :=
  PCall.hasErrorFunc_unread s k b

/-- the statement "the caller's open upvalues survive an error caught by a protected call" is FALSE of the code
    before /repo commit ae08bde (`raiseError` closed the upvalues of every frame):
    `local x = 1; local function get() return x end; pcall(error, "boom"); x = 2; print(get())` printed 1 -/
def caller_upvalues_survive_full : Prop := CallerUpvaluesSurvive legacyRaise

theorem caller_upvalues_survive_full_fails : ¬ caller_upvalues_survive_full :=
  caller_upvalues_survive_legacy_fails

/-- … and true of the code after it -/
theorem caller_upvalues_survive : CallerUpvaluesSurvive fixedCfg := by
  intro s s0 s2 nargs k hcur h0 h2
  -- the statement needs no invariant beyond `cur = Last`: a direct computation
  simp only [step] at h0
  split at h0
  · cases h0
    simp only [step] at h2
    obtain ⟨s3, h3, ho⟩ := raiseIn_out (pushFrame (prologue s nargs none) true nargs)
      { sp := s.sp, base := s.top - nargs - 1, oldPanic := s.panicFn, errfunc := none } s.pstack k rfl
    rw [h3] at h2; cases h2
    cases ho with
    | exit hfr hcur' htop huv hps hpf hhef hregs hlog => rw [huv]; rfl
    | handler f hfr hcur' hbase htop huv hps hhef hni hsome hregs hlog => simp at hsome
  · cases h0

/-- **foreign_panic_contained** — while a protected call is active NO operation, whatever it raises (error values
    of any type, runtime faults, Go panics that are not *ApiError, registry overflow, a failing handler), lets a
    Go panic out of PCall / DoString … -/
theorem foreign_panic_contained (s : St) (o : Op) (h : s.pstack ≠ []) : (step fixedCfg s o).isEscaped = false :=
  step_never_escapes s o h

/-- … not even when the protected call fails before its body runs … -/
theorem failing_entry_contained (s : St) (nargs : Nat) (h : Option (V × Bool)) (k : RaiseKind) :
    (step fixedCfg s (.enterFail nargs h k)).isEscaped = false :=
  enterFail_never_escapes s nargs h k

/-- … nor after any inner activity -/
theorem contained_after_any_activity (s : St) (pre : List Op) (o : Op) (s1 : St) (h : s.pstack ≠ [])
    (hrun : runAbove fixedCfg 1 s pre = some s1) : (step fixedCfg s1 o).isEscaped = false :=
  run_never_escapes s pre o s1 h hrun

/-- a foreign Go panic is delivered to the innermost activation as `ApiErrorPanic` carrying its text -/
theorem foreign_panic_becomes_api_error (s : St) (r : PRec) (rest : List PRec) (text : String)
    (hp : s.pstack = r :: rest) (hh : r.errfunc = none) (hi : r.inHandler = false) :
    ∃ s', step fixedCfg s (.raise (.foreign text)) = .ok s' ∧ s'.pstack = rest ∧
      s'.log = s.log ++ [.delivered rest.length ⟨.panic, .str text⟩] :=
  PCall.foreign_panic_becomes_api_error s r rest text hp hh hi

/-- from a coroutine, any panic value reaching the bottom of the thread comes out of `resume` as `(false, msg)`;
    from a wrapped coroutine it is raised in the parent as an ordinary Lua error (then contained by the above) -/
theorem coroutine_error_is_false_msg (t : Thrown) :
    threadRecover true false t = .resumeReturns [.bool false, (toApiErr t).obj] :=
  PCall.coroutine_error_is_false_msg t

theorem wrapped_coroutine_error_is_lua_error (t : Thrown) :
    threadRecover true true t = .raisedInParent (.api ⟨.run, (toApiErr t).obj⟩) :=
  PCall.wrapped_coroutine_error_is_lua_error t

/-- the containment statement is FALSE of the code before fixes/C05-handler-push-under-recover.diff: with the
    registry full when the handler is to be called, the panic of `ls.Push(errfunc)` left PCall
    (`L.PCall(0, MultRet, handler)` on `function() local t = {} for i=1,1e5 do t[i]=i end return unpack(t) end`) -/
def foreign_panic_contained_full : Prop :=
  ∀ (s : St) (o : Op), s.pstack ≠ [] → (step legacyPush s o).isEscaped = false

theorem foreign_panic_contained_full_fails : ¬ foreign_panic_contained_full :=
  step_never_escapes_legacy_fails

/-- **xpcall_handler_once** (protocol): the handler is called with the error value while NOTHING has been unwound
    (call stack, open upvalues, every register below the old top intact), and only then is the activation
    marked as handling — so a second error goes to the inner closure and the handler is never called again … -/
theorem xpcall_handler_before_unwinding (s : St) (r : PRec) (rest : List PRec) (k : RaiseKind) (hf : V) (hIsG : Bool)
    (hp : s.pstack = r :: rest) (hh : r.errfunc = some (hf, hIsG)) (hi : r.inHandler = false)
    (hroom : s.top + 3 ≤ s.cap) :
    ∃ s' f, step fixedCfg s (.raise k) = .ok s' ∧ s'.frames = s.frames ++ [f] ∧ f.isG = hIsG ∧
      s'.uvs = s.uvs ∧ (∀ i, i < s.top → s'.regs i = s.regs i) ∧
      s'.regs (s'.top - 1) = (toApiErr (throwOf fixedCfg s k).2).obj ∧ s'.regs (s'.top - 2) = hf ∧
      s'.pstack = { r with inHandler := true, hsp := s.sp } :: rest ∧
      s'.log = s.log ++ [.handlerStart rest.length (toApiErr (throwOf fixedCfg s k).2).obj] :=
  handler_called_before_unwinding s r rest k hf hIsG hp hh hi hroom

/-- … an error while the activation is handling ends it without calling the handler again … -/
theorem xpcall_failing_handler_not_recalled (s : St) (r : PRec) (rest : List PRec) (k : RaiseKind)
    (hp : s.pstack = r :: rest) (hi : r.inHandler = true) :
    ∃ s', step fixedCfg s (.raise k) = .ok s' ∧ s'.pstack = rest ∧
      ∃ e, s'.log = s.log ++ [.delivered rest.length e] := by
  obtain ⟨s', h1, ho⟩ := raiseIn_out s r rest k hp
  refine ⟨s', h1, ?_⟩
  cases ho with
  | exit hfr hcur htop huv hps hpf hhef hregs hlog => exact ⟨hps, hlog⟩
  | handler f hfr hcur hbase htop huv hps hhef hni hsome hregs hlog => rw [hi] at hni; cases hni

/-- … and what xpcall's caller receives is what the handler returned -/
theorem xpcall_result_is_handler_result (s s' : St) (r : PRec) (rest : List PRec)
    (hp : s.pstack = r :: rest) (h : step fixedCfg s .retHandler = .ok s') :
    s'.log = s.log ++ [.delivered rest.length ⟨.error, s.regs (s.top - 1)⟩] ∧ s'.pstack = rest :=
  handler_result_is_delivered s s' r rest hp h

/-- without a handler the value delivered is the value raised (delivered to the INNERMOST activation: `rest` is untouched) -/
theorem raised_value_is_delivered (s : St) (r : PRec) (rest : List PRec) (k : RaiseKind)
    (hp : s.pstack = r :: rest) (hh : r.errfunc = none) (hi : r.inHandler = false) :
    ∃ s', step fixedCfg s (.raise k) = .ok s' ∧ s'.pstack = rest ∧
      s'.log = s.log ++ [.delivered rest.length (toApiErr (throwOf fixedCfg s k).2)] :=
  PCall.raised_value_is_delivered s r rest k hp hh hi

/-- **error_position_prefix** — level arithmetic of `raiseError` / `where` / `GetStack`:
    level 0 adds nothing; a non-string value is never touched; a string raised at level ≥ 1 becomes
    `where ++ " " ++ msg`; … -/
theorem error_level0_no_prefix (s : St) (msg : String) : raiseMessage s 0 msg = msg := level0_no_prefix s msg

theorem error_non_string_unchanged (s : St) (v : V) (level : Nat) (hv : v.isStr = false) (hroom : s.top + 1 ≤ s.cap) :
    (throwOf fixedCfg s (.errorObj v level)).2 = .api ⟨.run, v⟩ := non_string_unchanged s v level hv hroom

theorem error_string_gets_where (s : St) (m : String) (level : Nat) (hl : level > 0) :
    (throwOf fixedCfg s (.errorObj (.str m) level)).2 = .api ⟨.run, .str (raiseMessage s level m)⟩ :=
  string_gets_where s m level hl

/-- … a runtime fault / cancellation / RaiseError while a Lua frame is current: that frame's line; … -/
theorem error_position_lua_frame (s : St) (i : Nat) (f : Frame) (msg : String)
    (hc : s.cur = some i) (hf : s.frames[i]? = some f) (hl : f.isG = false) :
    raiseMessage s 1 msg = f.src ++ ":" ++ toString f.line ++ ":" ++ " " ++ msg :=
  level1_in_lua_frame s i f msg hc hf hl

/-- … `error(msg)` in a host function called from Lua: the running host function is not a level (today's fix),
    level 1 is the calling Lua frame; … -/
theorem error_position_level1 (s : St) (i : Nat) (g f : Frame) (msg : String)
    (hc : s.cur = some (i + 1)) (hg : s.frames[i + 1]? = some g) (hgG : g.isG = true)
    (hf : s.frames[i]? = some f) (hl : f.isG = false) :
    raiseMessage s 1 msg = f.src ++ ":" ++ toString f.line ++ ":" ++ " " ++ msg :=
  level1_from_host_function s i g f msg hc hg hgG hf hl

/-- … `error(msg, 2)`: the caller of the function that called `error`; … -/
theorem error_position_level2 (s : St) (i : Nat) (g f1 f2 : Frame) (msg : String)
    (hc : s.cur = some (i + 2)) (hg : s.frames[i + 2]? = some g) (hgG : g.isG = true)
    (h1 : s.frames[i + 1]? = some f1) (hl1 : f1.isG = false) (ht1 : f1.tailCall = 0)
    (h2 : s.frames[i]? = some f2) (hl2 : f2.isG = false) :
    raiseMessage s 2 msg = f2.src ++ ":" ++ toString f2.line ++ ":" ++ " " ++ msg :=
  level2_from_host_function s i g f1 f2 msg hc hg hgG h1 hl1 ht1 h2 hl2

/-- … and no Lua frame at all (host function called from Go): empty position, the separator stays -/
theorem error_position_no_lua_frame (s : St) (g : Frame) (msg : String)
    (hfr : s.frames = [g]) (hc : s.cur = some 0) (hgG : g.isG = true) :
    raiseMessage s 1 msg = " " ++ msg :=
  level1_no_lua_frame s g msg hfr hc hgG

/-! ### non-vacuity: the hypotheses are satisfiable by concrete non-trivial runs -/

/-- a Lua frame with a captured local calls pcall; the body pushes, opens an upvalue of its own, starts a nested
    protected call that fails, then fails itself: every hypothesis of `pcall_restores` holds and the caller's
    upvalue (register 1) is still open afterwards while the body's (register 4) is gone -/
def demoPre : St := { frames := [{ isG := false, base := 0 }], cur := some 0, top := 3, uvs := [1] }

def demoOps : List Op :=
  [.push (.num 1), .call false 0, .setTop 3, .openUpval 1, .push (.ref 1), .enter 0 none true,
   .raise (.errorObj (.num 42) 1), .push .nil]

example : Inv demoPre := by
  refine ⟨rfl, ?_, ?_, ?_, ?_, ?_⟩
  · intro i j bi bj hij hi hj
    have : j = 0 := by
      cases j with
      | zero => rfl
      | succ j => simp [demoPre, St.bases] at hj
    omega
  · intro b hb; simp [demoPre, St.bases] at hb; subst hb; simp [demoPre]
  · intro r hr; simp [demoPre] at hr
  · simp [demoPre]
  · intro r rest hp; simp [demoPre] at hp

example :
    ((step fixedCfg demoPre (.enter 0 none true)).bind fun s0 =>
      match runAbove fixedCfg 1 s0 demoOps with
      | some s1 => step fixedCfg s1 (.raise (.foreign "boom"))
      | none => .disabled).uvs? = some [1] := by rfl

example : ((step fixedCfg demoPre (.enter 0 none true)).bind fun s0 =>
      match runAbove fixedCfg 1 s0 demoOps with
      | some s1 => .ok s1
      | none => .disabled).uvs? = some [1, 5] := by rfl

end GLua.Props.C05
