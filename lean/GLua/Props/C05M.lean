/-
  C05M = the MECHANISM check of property C05 (`./check C05M`).  The property theorems live in GLua/Props/C05.lean;
  the audit counts the theorems of this namespace, so each is re-exported here under its own name.
-/
import GLua.Props.C05

namespace GLua.Props.C05M

theorem pcall_restores : type_of% @GLua.Props.C05.pcall_restores := @GLua.Props.C05.pcall_restores
theorem pcall_closes_released_upvalues : type_of% @GLua.Props.C05.pcall_closes_released_upvalues := @GLua.Props.C05.pcall_closes_released_upvalues
theorem pcall_restores_before_body : type_of% @GLua.Props.C05.pcall_restores_before_body := @GLua.Props.C05.pcall_restores_before_body
theorem pcall_success_restores : type_of% @GLua.Props.C05.pcall_success_restores := @GLua.Props.C05.pcall_success_restores
theorem caller_registers_only_via_upvalues : type_of% @GLua.Props.C05.caller_registers_only_via_upvalues := @GLua.Props.C05.caller_registers_only_via_upvalues
theorem error_delivered_once : type_of% @GLua.Props.C05.error_delivered_once := @GLua.Props.C05.error_delivered_once
theorem invariant_holds : type_of% @GLua.Props.C05.invariant_holds := @GLua.Props.C05.invariant_holds
theorem hasErrorFunc_reset_not_restored : type_of% @GLua.Props.C05.hasErrorFunc_reset_not_restored := @GLua.Props.C05.hasErrorFunc_reset_not_restored
theorem hasErrorFunc_unread : type_of% @GLua.Props.C05.hasErrorFunc_unread := @GLua.Props.C05.hasErrorFunc_unread
theorem caller_upvalues_survive : type_of% @GLua.Props.C05.caller_upvalues_survive := @GLua.Props.C05.caller_upvalues_survive
theorem caller_upvalues_survive_full_fails : type_of% @GLua.Props.C05.caller_upvalues_survive_full_fails := @GLua.Props.C05.caller_upvalues_survive_full_fails
theorem foreign_panic_contained : type_of% @GLua.Props.C05.foreign_panic_contained := @GLua.Props.C05.foreign_panic_contained
theorem failing_entry_contained : type_of% @GLua.Props.C05.failing_entry_contained := @GLua.Props.C05.failing_entry_contained
theorem contained_after_any_activity : type_of% @GLua.Props.C05.contained_after_any_activity := @GLua.Props.C05.contained_after_any_activity
theorem foreign_panic_becomes_api_error : type_of% @GLua.Props.C05.foreign_panic_becomes_api_error := @GLua.Props.C05.foreign_panic_becomes_api_error
theorem foreign_panic_contained_full_fails : type_of% @GLua.Props.C05.foreign_panic_contained_full_fails := @GLua.Props.C05.foreign_panic_contained_full_fails
theorem coroutine_error_is_false_msg : type_of% @GLua.Props.C05.coroutine_error_is_false_msg := @GLua.Props.C05.coroutine_error_is_false_msg
theorem wrapped_coroutine_error_is_lua_error : type_of% @GLua.Props.C05.wrapped_coroutine_error_is_lua_error := @GLua.Props.C05.wrapped_coroutine_error_is_lua_error
theorem xpcall_handler_before_unwinding : type_of% @GLua.Props.C05.xpcall_handler_before_unwinding := @GLua.Props.C05.xpcall_handler_before_unwinding
theorem xpcall_failing_handler_not_recalled : type_of% @GLua.Props.C05.xpcall_failing_handler_not_recalled := @GLua.Props.C05.xpcall_failing_handler_not_recalled
theorem xpcall_result_is_handler_result : type_of% @GLua.Props.C05.xpcall_result_is_handler_result := @GLua.Props.C05.xpcall_result_is_handler_result
theorem raised_value_is_delivered : type_of% @GLua.Props.C05.raised_value_is_delivered := @GLua.Props.C05.raised_value_is_delivered
theorem error_level0_no_prefix : type_of% @GLua.Props.C05.error_level0_no_prefix := @GLua.Props.C05.error_level0_no_prefix
theorem error_non_string_unchanged : type_of% @GLua.Props.C05.error_non_string_unchanged := @GLua.Props.C05.error_non_string_unchanged
theorem error_string_gets_where : type_of% @GLua.Props.C05.error_string_gets_where := @GLua.Props.C05.error_string_gets_where
theorem error_position_lua_frame : type_of% @GLua.Props.C05.error_position_lua_frame := @GLua.Props.C05.error_position_lua_frame
theorem error_position_level1 : type_of% @GLua.Props.C05.error_position_level1 := @GLua.Props.C05.error_position_level1
theorem error_position_level2 : type_of% @GLua.Props.C05.error_position_level2 := @GLua.Props.C05.error_position_level2
theorem error_position_no_lua_frame : type_of% @GLua.Props.C05.error_position_no_lua_frame := @GLua.Props.C05.error_position_no_lua_frame

end GLua.Props.C05M
