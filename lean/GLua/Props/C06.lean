/-
  C06 (mechanism) — coroutines transfer values and control exactly as Lua 5.1 coroutines.
  Property theorems about the Model GLua/Model/Coroutine.lean (transcription of coroutinelib.go, state.go
  Resume/Yield/XMoveTo/Status, vm.go switchToParentThread/callGFunction/OP_RETURN/threadRun; tied to the code by
  the C06M correspondence on every run).  Lemmas live in GLua/Proofs/Coroutine.lean.  The Model describes
  /repo HEAD + fixes/C06-*.diff (`Cfg.fixed`); the `_prefix_fails` theorems are the machine-checked defects of the
  code before each repair (`Cfg` field = false).
-/
import GLua.Proofs.Coroutine
import GLua.Spec.CoSpec

namespace GLua.Props.C06
open GLua GLua.Co GLua.CoScript

/-! ## 1. XMoveTo -/

/-- **xmove_order** — `XMoveTo(other, n)` delivers the last `min n top` values of this thread's current frame to
    the other thread *in order*, removes exactly them here, and touches nothing else — for every pair of distinct
    threads, every stack content and every n. -/
theorem xmove_order (w : World) (src dst n : Nat) (hne : src ≠ dst) (hs : src < w.threads.length)
    (hd : dst < w.threads.length) (hb : (w.th src).lbase ≤ (w.th src).reg.length) :
    let k := min n (w.th src).getTop
    let w' := xMoveTo w src dst n
    (w'.th dst).reg = (w.th dst).reg ++ (w.th src).reg.drop ((w.th src).reg.length - k) ∧
    (w'.th src).reg = (w.th src).reg.take ((w.th src).reg.length - k) ∧
    (∀ t, t ≠ src → t ≠ dst → w'.th t = w.th t) ∧ w'.current = w.current ∧
    w'.threads.length = w.threads.length :=
  xMoveTo_spec w src dst n hne hs hd hb

example : ((xMoveTo { threads := [{ reg := [some (.int 1), some (.int 2), some (.int 3)] }, { reg := [none] }] } 0 1 2).th 1).reg
    = [none, some (.int 2), some (.int 3)] := by decide

/-! ## 2. status automaton -/

/-- **status_automaton** — along *every* history of resume / switch-back events (any number of threads, any
    interleaving, refused events included), the status `Status` reports for each thread moves only along the arrows
    suspended → running → normal → running → suspended | dead (or stays). -/
theorem status_automaton (s : Flags) (th : Nat) (evs : List Ev) : Chain edge (s.statusTrace th evs) :=
  statusTrace_chain s th evs

/-- the decision logic of `coResume` / `Resume`: a thread is resumed iff its status is "suspended"
    (dead, running and normal threads are refused). -/
theorem resume_only_suspended (w : World) (th : Nat) :
    (resumeCheck Cfg.fixed w th = none) ↔ (w.flags.status th = .suspended) :=
  resumeCheck_flags w th

/-- `Status` of the Model is the status of the flag automaton. -/
theorem status_is_flag_status (w : World) (l th : Nat) : status Cfg.fixed w l th = (w.flags.status th).name :=
  status_eq_flags w l th

/-- the Model's `coResume` performs the automaton's `resume` event (thread already started). -/
theorem resume_refines_flags (w : World) (l th : Nat) (body : Option (Nat × Bool × Nat))
    (hl : l < w.threads.length) (hth : th < w.threads.length) (hne : l ≠ th) (hrun : w.current = l)
    (hcur : (w.th th).cur = true) (hlb : (w.th l).lbase + 1 ≤ (w.th l).reg.length)
    (hok : resumeCheck Cfg.fixed w th = none) :
    ∃ w' s', coResumeEnter Cfg.fixed w l th body = .ok (w', 1) ∧ w.flags.step (.resume th) = some s' ∧
      ∀ x, w'.flags.status x = s'.status x := by
  obtain ⟨w', h1, hc, hp, _, _, hd, _, _, hlp, hld, hoth⟩ :=
    coResumeEnter_started Cfg.fixed w l th body hl hth hne hcur hlb rfl
  have hs := (resumeCheck_flags w th).mp hok
  have hne' : ¬ w.current = th := by rw [hrun]; exact hne
  have hdead : (w.th th).dead = false := by
    cases h : (w.th th).dead
    · rfl
    · simp [Flags.status, World.flags, h] at hs
  have hpar : (w.th th).parent.isSome = false := by
    cases h : (w.th th).parent.isSome
    · rfl
    · simp [Flags.status, World.flags, h, hne', hdead] at hs
  refine ⟨w', { w.flags with current := th, parent := upd w.flags.parent th (some w.flags.current) }, h1, ?_, ?_⟩
  · simp [Flags.step, World.flags, hne', hdead, hpar]
  · intro x
    simp only [Flags.status, World.flags, upd, hc]
    by_cases e1 : x = th
    · subst e1; simp [hd, hp, hdead]
    · by_cases e2 : x = l
      · subst e2; simp [hld, hlp, e1, Ne.symm e1]
      · rw [hoth x e2 e1]; simp [e1]

/-- the Model's `switchToParentThread` performs the automaton's `back` event. -/
theorem switch_refines_flags (w : World) (l p nargs : Nat) (haserror kill : Bool) (g : Frame) (ks : List Frame)
    (hl : l < w.threads.length) (hp : p < w.threads.length) (hne : l ≠ p) (hrun : w.current = l)
    (hpar : (w.th l).parent = some p) (hcur : (w.th l).cur = true) (hfr : (w.th l).frames = g :: ks)
    (hrb : g.returnBase ≤ g.localBase) (hlb : g.localBase ≤ (w.th l).reg.length)
    (hoff : g.localBase - g.returnBase ≤ (w.th l).reg.length - min nargs (w.th l).getTop) :
    ∃ w' s', switchToParentThread w l nargs haserror kill = .ok w' ∧ w.flags.step (.back kill) = some s' ∧
      ∀ x, w'.flags.status x = s'.status x := by
  obtain ⟨w', h1, hc, _, _, _, hlp, hld, _, _, _, _, _, _, hpp, hpd, _, _, hoth⟩ :=
    switch_spec w l p nargs haserror kill g ks hl hp hne hpar hcur hfr hrb hlb hoff
  refine ⟨w', { current := p, parent := upd w.flags.parent w.flags.current none,
                 dead := upd w.flags.dead w.flags.current (w.flags.dead w.flags.current || kill) }, h1, ?_, ?_⟩
  · simp only [Flags.step, World.flags, hrun, hpar]
  · intro x
    simp only [Flags.status, World.flags, upd, hc, hrun]
    by_cases e1 : x = l
    · subst e1; simp [hld, hlp, Ne.symm hne]
    · by_cases e2 : x = p
      · subst e2; simp [hpd, hpp, e1]
      · rw [hoth x e1 e2]; simp [e1]

/-- non-vacuity: main resumes 1, 1 resumes 2, 2 yields, 1 returns — thread 1 goes suspended, running, normal,
    running, dead. -/
example : (Flags.statusTrace ⟨0, fun _ => none, fun _ => false⟩ 1
    [.resume 1, .resume 2, .back false, .back true]) = [.suspended, .running, .normal, .running, .dead] := by decide

/-- before fixes/C06-normal-status-resume the decision logic accepted a *normal* coroutine (A resumed B, B resumes
    A: unbounded Go recursion on the real code) … -/
theorem resume_only_suspended_prefix_fails :
    ¬ (∀ w th, (resumeCheck { normalFix := false } w th = none) → (w.flags.status th = .suspended)) := by
  intro h
  have := h { threads := [{}, { parent := some 0, cur := true }, { parent := some 1, cur := true }], current := 2 } 1
  revert this; decide

/-- … and `Status` called it "suspended" unless it was the caller's direct resumer. -/
theorem status_prefix_fails :
    ¬ (∀ w l th, status { normalFix := false } w l th = (w.flags.status th).name) := by
  intro h
  have := h { threads := [{}, { parent := some 0, cur := true }, { parent := some 1, cur := true },
                          { parent := some 2, cur := true }], current := 3 } 3 1
  revert this; decide

/-! ## 3. first resume -/

/-- **resume_first_binds** (fixed-arity bodies; the vararg relocation is exercised by the tie and the example
    below, its general statement is C02's `initCallFrame_binds`) — the first `coResume` of a fresh thread moves the
    arguments above the thread object into the new thread so that the body's parameter registers hold them
    adjusted to the number of parameters (missing → nil, surplus dropped), for every argument list, np, layout. -/
theorem resume_first_binds_partial (cfg : Cfg) (w : World) (l th np nused fid : Nat) (wr : Bool) (code : List Act)
    (hl : l < w.threads.length) (hth : th < w.threads.length) (hne : l ≠ th)
    (hT : w.th th = newThread wr false fid code) (hlb : (w.th l).lbase + 1 ≤ (w.th l).reg.length) (hu : np ≤ nused) :
    ∃ w' f, coResumeEnter cfg w l th (some (np, false, nused)) = .ok (w', 1) ∧ w'.current = th ∧
      (w'.th th).parent = some l ∧ (w'.th th).frames = [f] ∧
      readRegs (w'.th th).reg f.localBase np = .ok (adjust ((w.th l).reg.drop ((w.th l).lbase + 1)) (some np)) ∧
      (w'.th l).reg = (w.th l).reg.take ((w.th l).lbase + 1) := by
  obtain ⟨w', f, h1, h2, h3, _, h5, h6, h7, h8, _⟩ :=
    coResumeEnter_first cfg w l th np nused fid wr code hl hth hne hT hlb hu
  refine ⟨w', f, h1, h2, h3, h5, ?_, h8⟩
  rw [h7, h6]
  have := readRegs_mid [none] (adjust ((w.th l).reg.drop ((w.th l).lbase + 1)) (some np))
    (List.replicate (nused - np) none)
  rw [adjust_length] at this
  exact this

/-- vararg body (np = 1, three arguments): parameter and extras are where OP_VARARG and the body read them. -/
def exVararg := initCallFrameLua [none, some (.int 1), some (.int 2), some (.int 3)] { nargs := 3 } 1 true 4

example : (readRegs exVararg.1 exVararg.2.localBase 1).toOption = some [some (.int 1)] ∧
    varargVals exVararg.1 exVararg.2 1 = [some (.int 2), some (.int 3)] := by decide

/-! ## 4. yield → resume -/

/-- **yield_results_adjusted** — when the coroutine `t` yields from a call frame `g` (any ReturnBase ≤ LocalBase
    layout, i.e. also a tail-called yield) and is later resumed by any thread `l` with values `vs`, then
      * the resumer of the yield received (true and) the yielded values in order (`switch` part),
      * the registers from `g.ReturnBase` on hold exactly `vs` adjusted to the number of results the yield call
        wanted — readable without touching a Go-nil slot —, all of `vs` for an open-ended call,
      * every register below `g.ReturnBase` (the coroutine's locals and its callers' frames) is unchanged, and the
        rest of its call stack is the one it had.
    True since 4525290 (`adjustResumedValues`); see the negation below for the code before it. -/
theorem yield_results_adjusted (w : World) (t p : Nat) (g : Frame) (ks : List Frame)
    (ht : t < w.threads.length) (hp : p < w.threads.length) (hne : t ≠ p)
    (hpar : (w.th t).parent = some p) (hcur : (w.th t).cur = true) (hfr : (w.th t).frames = g :: ks)
    (hks : ks ≠ []) (hrb : g.returnBase ≤ g.localBase) (hlb : g.localBase ≤ (w.th t).reg.length) :
    ∃ w1, switchToParentThread w t (w.th t).getTop false false = .ok w1 ∧ w1.current = p ∧
      (w1.th p).reg = (w.th p).reg ++ (if (w.th t).wrapped then [] else [some (.bool true)]) ++
                        (w.th t).reg.drop g.localBase ∧
      ∀ (l : Nat) (body : Option (Nat × Bool × Nat)), l < w.threads.length → l ≠ t →
        (w1.th l).lbase + 1 ≤ (w1.th l).reg.length →
        ∃ w2, coResumeEnter Cfg.fixed w1 l t body = .ok (w2, 1) ∧ w2.current = t ∧
          (w2.th t).frames = ks ∧
          (w2.th t).reg.take g.returnBase = (w.th t).reg.take g.returnBase ∧
          (w2.th t).reg.drop g.returnBase = adjust ((w1.th l).reg.drop ((w1.th l).lbase + 1)) g.nret ∧
          (∀ k, g.nret = some k → readRegs (w2.th t).reg g.returnBase k =
              .ok (adjust ((w1.th l).reg.drop ((w1.th l).lbase + 1)) (some k))) := by
  have hlbT := (lbase_of_cur (w.th t) g ks hcur hfr).1
  have htop : (w.th t).getTop = (w.th t).reg.length - g.localBase := by simp only [Thread.getTop, hlbT]
  have hmin : min (w.th t).getTop (w.th t).getTop = (w.th t).getTop := Nat.min_self _
  obtain ⟨w1, h1, hc, hlen, hpreg, htreg, _, _, hy, hfr1, hcur1, _, _, _, _, _, _, _, _⟩ :=
    switch_spec w t p (w.th t).getTop false false g ks ht hp hne hpar hcur hfr hrb hlb (by rw [hmin, htop]; omega)
  rw [hmin] at hpreg htreg
  have e1 : (w.th t).reg.length - (w.th t).getTop = g.localBase := by rw [htop]; omega
  have e2 : (w.th t).reg.length - (w.th t).getTop - (g.localBase - g.returnBase) = g.returnBase := by
    rw [e1]; omega
  rw [e1] at hpreg
  rw [e2] at htreg
  refine ⟨w1, h1, hc, by simpa using hpreg, ?_⟩
  intro l body hl hlt hlb1
  have hcur1' : (w1.th t).cur = true := by
    rw [hcur1]; cases ks with
    | nil => exact absurd rfl hks
    | cons a r => rfl
  obtain ⟨w2, h2, hc2, _, hreg2, hfr2, _, _, _, _, _, _⟩ :=
    coResumeEnter_started Cfg.fixed w1 l t body (by rw [hlen]; exact hl) (by rw [hlen]; exact ht) hlt hcur1' hlb1 rfl
  rw [htreg, hy] at hreg2
  have hlen' : ((w.th t).reg.take g.returnBase).length = g.returnBase := by
    rw [List.length_take]; exact Nat.min_eq_left (by omega)
  refine ⟨w2, h2, hc2, by rw [hfr2, hfr1], ?_, ?_, ?_⟩
  · rw [hreg2, List.take_append_of_le_length (by rw [hlen']; omega), List.take_take, Nat.min_self]
  · rw [hreg2, List.drop_append_of_le_length (by rw [hlen']; omega), List.drop_of_length_le (by rw [hlen']; omega),
      List.nil_append]
  · intro k hk
    rw [hreg2, hk]
    have := readRegs_mid ((w.th t).reg.take g.returnBase)
      (adjust ((w1.th l).reg.drop ((w1.th l).lbase + 1)) (some k)) []
    rw [adjust_length, hlen', List.append_nil] at this
    exact this

/-- a coroutine with `local a, b, c = coroutine.yield()` … -/
def exProg : Prog :=
  { fns := [(0, { acts := [.resume 1 false 0 [] (some 0), .resume 1 false 0 [some (.int 7)] (some 2)] }),
            (1, { acts := [.yield false 2 [some (.int 5)] (some 3), .ret 0 []] })],
    cos := [(1, { body := some 1 })] }

/-- … resumed with one value sees `7 nil nil` on the repaired tree (and the Spec says the same) … -/
example : runProg Cfg.fixed exProg 100 = ["P0:", "P1:", "L0.0:", "L1.0:i7,nil,nil", "L0.1:T,nil", "R:"] ∧
    CoSpec.runProg exProg 100 = runProg Cfg.fixed exProg 100 := by decide

/-- … but before 4525290 the two missing result registers were Go nil: the full statement was false. -/
theorem yield_results_adjusted_prefix_fails :
    runProg { adjustFix := false } exProg 100 =
      ["P0:", "P1:", "L0.0:", "gopanic:register above top is Go nil"] := by decide

/-- a tail-called yield in the body itself (`function(a) return coroutine.yield(a) end`): with
    fixes/C06-tailcall-yield the second resume's values become the body's results and the coroutine dies … -/
def exTail : Prog :=
  { fns := [(0, { acts := [.resume 1 false 0 [some (.int 1)] none, .resume 1 false 0 [some (.int 2), some (.int 3)] none,
                           .status 1] }),
            (1, { np := 1, acts := [.yield true 1 [some (.int 1)] none] })],
    cos := [(1, { body := some 1 })] }

example : runProg Cfg.fixed exTail 100 =
      ["P0:", "P1:i1", "L0.0:T,i1", "L0.1:T,i2,i3", "L0.2:s!dead", "R:"] ∧
    CoSpec.runProg exTail 100 = runProg Cfg.fixed exTail 100 := by decide

/-- … before it, `RemoveCallerFrame` left the thread with an empty stack and `coResume` dereferenced a nil frame. -/
theorem tail_yield_prefix_fails :
    runProg { tailFix := false } exTail 100 =
      ["P0:", "P1:i1", "L0.0:T,i1", "gopanic:coResume: th.stack.Last() is nil"] := by decide

/-! ## 5. errors -/

/-- **error_kills_only_thread** (plain coroutine) — an error that no `pcall` inside the coroutine catches kills
    that coroutine only: its resumer receives exactly (false, value) on top of its untouched stack; the resumer's
    frames, flags and every other thread are unchanged; control is back in the resumer's `coResume`. -/
theorem error_kills_only_thread (cfg : Cfg) (w : World) (t p : Nat) (v : OVal) (g : Frame) (ks : List Frame)
    (ht : t < w.threads.length) (hp : p < w.threads.length) (hne : t ≠ p)
    (hpar : (w.th t).parent = some p) (hw : (w.th t).wrapped = false)
    (hcur : (w.th t).cur = true) (hfr : (w.th t).frames = g :: ks)
    (hnp : ∀ f ∈ (w.th t).frames, f.gk ≠ .pcall)
    (hrb : g.returnBase ≤ g.localBase) (hlb : g.localBase ≤ (w.th t).reg.length) :
    ∃ w', doRaise cfg w t v = afterThreadRun w' p ∧ w'.current = p ∧
      (w'.th t).dead = true ∧ (w'.th t).parent = none ∧
      (w'.th p).reg = (w.th p).reg ++ [some (.bool false), v] ∧ (w'.th p).frames = (w.th p).frames ∧
      (w'.th p).cur = (w.th p).cur ∧ (w'.th p).parent = (w.th p).parent ∧ (w'.th p).dead = (w.th p).dead ∧
      (∀ x, x ≠ t → x ≠ p → w'.th x = w.th x) :=
  doRaise_plain cfg w t p v g ks ht hp hne hpar hw hcur hfr hnp hrb hlb

/-- wrapped coroutine (with fixes/C06-wrap-error-kills): the thread dies, `CurrentThread` is the resumer again,
    the resumer's thread state is *identical*, and the same error value is raised in the resumer. -/
theorem error_kills_only_thread_wrapped (w : World) (t p : Nat) (v : OVal)
    (ht : t < w.threads.length) (hne : t ≠ p)
    (hpar : (w.th t).parent = some p) (hw : (w.th t).wrapped = true)
    (hnp : ∀ f ∈ (w.th t).frames, f.gk ≠ .pcall) :
    ∃ w', doRaise Cfg.fixed w t v = (w', .raise p v) ∧ w'.current = p ∧ (w'.th t).dead = true ∧
      (w'.th t).parent = none ∧ (∀ x, x ≠ t → w'.th x = w.th x) := by
  have htw : (w.th t).frames.takeWhile (fun f => decide (f.gk ≠ .pcall)) = (w.th t).frames :=
    takeWhile_all _ _ (fun f hf => by simpa using hnp f hf)
  refine ⟨{ (w.setTh t { (w.th t).push v with parent := none, dead := true }) with current := p }, ?_, rfl, ?_, ?_, ?_⟩
  · unfold doRaise
    show (match (w.th t).frames.drop ((w.th t).frames.takeWhile (fun f => decide (f.gk ≠ .pcall))).length with
      | h :: rest => _ | [] => _) = _
    rw [htw, List.drop_length]
    show (match (w.th t).parent with | none => _ | some p => _) = _
    rw [hpar]
    show (if (w.th t).wrapped = true then _ else _) = _
    rw [if_pos hw]
    rfl
  · show ((w.setTh t _).th t).dead = true
    rw [th_setTh_eq _ _ _ ht]
  · show ((w.setTh t _).th t).parent = none
    rw [th_setTh_eq _ _ _ ht]
  · intro x hx
    show (w.setTh t _).th x = _
    exact th_setTh_ne _ _ _ _ (Ne.symm hx)

/-- a wrapped coroutine that fails under `pcall`, then is probed and called again … -/
def exWrapErr : Prog :=
  { fns := [(0, { acts := [.resume 1 true 0 [] none, .status 1, .running, .resume 1 true 0 [] none] }),
            (1, { acts := [.err (some (.int 9))] })],
    cos := [(1, { wrapped := true, body := some 1 })] }

example : runProg Cfg.fixed exWrapErr 100 =
      ["P0:", "P1:", "L0.0:F,i9", "L0.1:s!dead", "L0.2:nil", "L0.3:F,s!dead", "R:"] ∧
    CoSpec.runProg exWrapErr 100 = runProg Cfg.fixed exWrapErr 100 := by decide

/-- … before fixes/C06-wrap-error-kills stayed "running" for ever (CurrentThread was never restored). -/
theorem error_kills_wrapped_prefix_fails :
    runProg { wrapKill := false } exWrapErr 100 =
      ["P0:", "P1:", "L0.0:F,i9", "L0.1:s!running", "L0.2:nil", "L0.3:F,s!running", "R:"] := by decide

/-- a Go function as coroutine body (`coroutine.create(hostid)`): fixes/C06-gfunction-body. -/
def exGBody : Prog :=
  { fns := [(0, { acts := [.resume 1 false 0 [some (.int 1), some (.int 2)] none, .status 1] })],
    cos := [(1, { body := none })] }

example : runProg Cfg.fixed exGBody 100 = ["P0:", "L0.0:T,i1,i2", "L0.1:s!dead", "R:"] ∧
    CoSpec.runProg exGBody 100 = runProg Cfg.fixed exGBody 100 := by decide

theorem gbody_prefix_fails :
    runProg { gbodyFix := false } exGBody 100 = ["P0:", "L0.0:", "L0.1:s!running", "R:"] := by decide

end GLua.Props.C06
