/-
  C06 (mechanism) — coroutines transfer values and control exactly as Lua 5.1 coroutines.
  Property theorems about the Model GLua/Model/Coroutine.lean (transcription of coroutinelib.go, state.go
  Resume/Yield/XMoveTo/Status, vm.go switchToParentThread/callGFunction/OP_RETURN/threadRun; tied to the code by
  the C06M correspondence on every run).  Lemmas live in GLua/Proofs/Coroutine.lean.  The Model describes
  /repo HEAD + fixes/C06-*.diff (`Cfg.fixed`); the `_prefix_fails` theorems are the machine-checked defects of the
  code before each repair (`Cfg` field = false).
-/
import GLua.Proofs.Coroutine
import GLua.Proofs.CoBasics
import GLua.Proofs.CoFrame
import GLua.Proofs.CoSim
import GLua.Spec.CoSpec

namespace GLua.Props.C06
open GLua GLua.Co GLua.CoScript GLua.CoSim

/-! ## 1. XMoveTo -/

/-- **xmove_order** — `XMoveTo(other, n)` delivers the last `min n top` values of this thread's current frame to
    the other thread *in order*, removes exactly them here, and touches nothing else — for every pair of distinct
    threads, every stack content and every n. -/
theorem xmove_order (w : World) (src dst n : Nat) (hne : src ≠ dst) (hs : src < w.threads.length)
    (hd : dst < w.threads.length) (hb : (w.th src).lbase ≤ (w.th src).reg.length) :
    let k := min n (w.th src).getTop
    let w' := xMoveTo w src dst n
    (w'.th dst).reg = (w.th dst).reg ++ (w.th src).reg.drop ((w.th src).reg.length - k) ∧
    (w'.th src).reg = (w.th src).reg.take ((w.th src).reg.length - k) ∧
    (∀ t, t ≠ src → t ≠ dst → w'.th t = w.th t) ∧ w'.current = w.current ∧
    w'.threads.length = w.threads.length :=
  xMoveTo_spec w src dst n hne hs hd hb

example : ((xMoveTo { threads := [{ reg := [some (.int 1), some (.int 2), some (.int 3)] }, { reg := [none] }] } 0 1 2).th 1).reg
    = [none, some (.int 2), some (.int 3)] := by decide

/-! ## 2. status automaton -/

/-- **status_automaton** — along *every* history of resume / switch-back events (any number of threads, any
    interleaving, refused events included), the status `Status` reports for each thread moves only along the arrows
    suspended → running → normal → running → suspended | dead (or stays). -/
theorem status_automaton (s : Flags) (th : Nat) (evs : List Ev) : Chain edge (s.statusTrace th evs) :=
  statusTrace_chain s th evs

/-- the decision logic of `coResume` / `Resume`: a thread is resumed iff its status is "suspended"
    (dead, running and normal threads are refused). -/
theorem resume_only_suspended (w : World) (th : Nat) :
    (resumeCheck Cfg.fixed w th = none) ↔ (w.flags.status th = .suspended) :=
  resumeCheck_flags w th

/-- `Status` of the Model is the status of the flag automaton. -/
theorem status_is_flag_status (w : World) (l th : Nat) : status Cfg.fixed w l th = (w.flags.status th).name :=
  status_eq_flags w l th

/-- the Model's `coResume` performs the automaton's `resume` event (thread already started). -/
theorem resume_refines_flags (w : World) (l th : Nat) (body : Option (Nat × Bool × Nat))
    (hl : l < w.threads.length) (hth : th < w.threads.length) (hne : l ≠ th) (hrun : w.current = l)
    (hcur : (w.th th).cur = true) (hlb : (w.th l).lbase + 1 ≤ (w.th l).reg.length)
    (hok : resumeCheck Cfg.fixed w th = none) :
    ∃ w' s', coResumeEnter Cfg.fixed w l th body = .ok (w', 1) ∧ w.flags.step (.resume th) = some s' ∧
      ∀ x, w'.flags.status x = s'.status x := by
  obtain ⟨w', h1, hc, hp, _, _, hd, _, _, hlp, hld, hoth⟩ :=
    coResumeEnter_started Cfg.fixed w l th body hl hth hne hcur hlb rfl
  have hs := (resumeCheck_flags w th).mp hok
  have hne' : ¬ w.current = th := by rw [hrun]; exact hne
  have hdead : (w.th th).dead = false := by
    cases h : (w.th th).dead
    · rfl
    · simp [Flags.status, World.flags, h] at hs
  have hpar : (w.th th).parent.isSome = false := by
    cases h : (w.th th).parent.isSome
    · rfl
    · simp [Flags.status, World.flags, h, hne', hdead] at hs
  refine ⟨w', { w.flags with current := th, parent := upd w.flags.parent th (some w.flags.current) }, h1, ?_, ?_⟩
  · simp [Flags.step, World.flags, hne', hdead, hpar]
  · intro x
    simp only [Flags.status, World.flags, upd, hc]
    by_cases e1 : x = th
    · subst e1; simp [hd, hp, hdead]
    · by_cases e2 : x = l
      · subst e2; simp [hld, hlp, e1, Ne.symm e1]
      · rw [hoth x e2 e1]; simp [e1]

/-- the Model's `switchToParentThread` performs the automaton's `back` event. -/
theorem switch_refines_flags (w : World) (l p nargs : Nat) (haserror kill : Bool) (g : Frame) (ks : List Frame)
    (hl : l < w.threads.length) (hp : p < w.threads.length) (hne : l ≠ p) (hrun : w.current = l)
    (hpar : (w.th l).parent = some p) (hcur : (w.th l).cur = true) (hfr : (w.th l).frames = g :: ks)
    (hrb : g.returnBase ≤ g.localBase) (hlb : g.localBase ≤ (w.th l).reg.length)
    (hoff : g.localBase - g.returnBase ≤ (w.th l).reg.length - min nargs (w.th l).getTop) :
    ∃ w' s', switchToParentThread w l nargs haserror kill = .ok w' ∧ w.flags.step (.back kill) = some s' ∧
      ∀ x, w'.flags.status x = s'.status x := by
  obtain ⟨w', h1, hc, _, _, _, hlp, hld, _, _, _, _, _, _, hpp, hpd, _, _, hoth⟩ :=
    switch_spec w l p nargs haserror kill g ks hl hp hne hpar hcur hfr hrb hlb hoff
  refine ⟨w', { current := p, parent := upd w.flags.parent w.flags.current none,
                 dead := upd w.flags.dead w.flags.current (w.flags.dead w.flags.current || kill) }, h1, ?_, ?_⟩
  · simp only [Flags.step, World.flags, hrun, hpar]
  · intro x
    simp only [Flags.status, World.flags, upd, hc, hrun]
    by_cases e1 : x = l
    · subst e1; simp [hld, hlp, Ne.symm hne]
    · by_cases e2 : x = p
      · subst e2; simp [hpd, hpp, e1]
      · rw [hoth x e1 e2]; simp [e1]

/-- non-vacuity: main resumes 1, 1 resumes 2, 2 yields, 1 returns — thread 1 goes suspended, running, normal,
    running, dead. -/
example : (Flags.statusTrace ⟨0, fun _ => none, fun _ => false⟩ 1
    [.resume 1, .resume 2, .back false, .back true]) = [.suspended, .running, .normal, .running, .dead] := by decide

/-- before fixes/C06-normal-status-resume the decision logic accepted a *normal* coroutine (A resumed B, B resumes
    A: unbounded Go recursion on the real code) … -/
theorem resume_only_suspended_prefix_fails :
    ¬ (∀ w th, (resumeCheck { normalFix := false } w th = none) → (w.flags.status th = .suspended)) := by
  intro h
  have := h { threads := [{}, { parent := some 0, cur := true }, { parent := some 1, cur := true }], current := 2 } 1
  revert this; decide

/-- … and `Status` called it "suspended" unless it was the caller's direct resumer. -/
theorem status_prefix_fails :
    ¬ (∀ w l th, status { normalFix := false } w l th = (w.flags.status th).name) := by
  intro h
  have := h { threads := [{}, { parent := some 0, cur := true }, { parent := some 1, cur := true },
                          { parent := some 2, cur := true }], current := 3 } 3 1
  revert this; decide

/-! ## 3. first resume -/

/-- **resume_first_binds** (fixed-arity bodies; the vararg relocation is exercised by the tie and the example
    below, its general statement is C02's `initCallFrame_binds`) — the first `coResume` of a fresh thread moves the
    arguments above the thread object into the new thread so that the body's parameter registers hold them
    adjusted to the number of parameters (missing → nil, surplus dropped), for every argument list, np, layout. -/
theorem resume_first_binds_partial (cfg : Cfg) (w : World) (l th np nused fid : Nat) (wr : Bool) (code : List Act)
    (hl : l < w.threads.length) (hth : th < w.threads.length) (hne : l ≠ th)
    (hT : w.th th = newThread wr false fid code) (hlb : (w.th l).lbase + 1 ≤ (w.th l).reg.length) (hu : np ≤ nused) :
    ∃ w' f, coResumeEnter cfg w l th (some (np, false, nused)) = .ok (w', 1) ∧ w'.current = th ∧
      (w'.th th).parent = some l ∧ (w'.th th).frames = [f] ∧
      readRegs (w'.th th).reg f.localBase np = .ok (adjust ((w.th l).reg.drop ((w.th l).lbase + 1)) (some np)) ∧
      (w'.th l).reg = (w.th l).reg.take ((w.th l).lbase + 1) := by
  obtain ⟨w', f, h1, h2, h3, _, h5, h6, h7, h8, _⟩ :=
    coResumeEnter_first cfg w l th np nused fid wr code hl hth hne hT hlb hu
  refine ⟨w', f, h1, h2, h3, h5, ?_, h8⟩
  rw [h7, h6]
  have := readRegs_mid [none] (adjust ((w.th l).reg.drop ((w.th l).lbase + 1)) (some np))
    (List.replicate (nused - np) none)
  rw [adjust_length] at this
  exact this

/-- vararg body (np = 1, three arguments): parameter and extras are where OP_VARARG and the body read them. -/
def exVararg := initCallFrameLua [none, some (.int 1), some (.int 2), some (.int 3)] { nargs := 3 } 1 true 4

example : (readRegs exVararg.1 exVararg.2.localBase 1).toOption = some [some (.int 1)] ∧
    varargVals exVararg.1 exVararg.2 1 = [some (.int 2), some (.int 3)] := by decide

/-- **resume_first_binds** — FULL statement (fixed-arity *and* vararg bodies, every argument list, every `np`, every
    layout of the resumer): the first `coResume` of a fresh thread moves the arguments above the thread object into
    the new thread and runs `initCallFrame` there, so that
      * the body's parameter registers (at the frame's — for `...` bodies relocated — `LocalBase`) hold the arguments
        adjusted to the number of named parameters (missing → nil, surplus dropped), readable without a Go-nil slot;
      * for a `...` body the surplus arguments are exactly what OP_VARARG copies (`varargVals`), in order;
      * the resumer's stack loses exactly the arguments, every third thread is untouched. -/
theorem resume_first_binds (cfg : Cfg) (w : World) (l th np nused fid : Nat) (va wr : Bool) (code : List Act)
    (hl : l < w.threads.length) (hth : th < w.threads.length) (hne : l ≠ th)
    (hT : w.th th = newThread wr false fid code) (hlb : (w.th l).lbase + 1 ≤ (w.th l).reg.length) (hu : np ≤ nused) :
    ∃ w' f, coResumeEnter cfg w l th (some (np, va, nused)) = .ok (w', 1) ∧ w'.current = th ∧
      (w'.th th).parent = some l ∧ (w'.th th).frames = [f] ∧ (w'.th th).cur = true ∧
      readRegs (w'.th th).reg f.localBase np = .ok (adjust ((w.th l).reg.drop ((w.th l).lbase + 1)) (some np)) ∧
      (va = true → varargVals (w'.th th).reg f np = ((w.th l).reg.drop ((w.th l).lbase + 1)).drop np) ∧
      (w'.th l).reg = (w.th l).reg.take ((w.th l).lbase + 1) ∧ (w'.th l).frames = (w.th l).frames ∧
      (∀ t, t ≠ l → t ≠ th → w'.th t = w.th t) := by
  obtain ⟨w', h1, h2, _, _, h5, h6, h7⟩ := coResumeEnter_first_full cfg w l th np nused fid va wr code hl hth hne hT hlb
  have hb := initCallFrameLua_binds [none] ((w.th l).reg.drop ((w.th l).lbase + 1))
    { fid := fid, code := code, nargs := ((w.th l).reg.drop ((w.th l).lbase + 1)).length } np nused va rfl rfl rfl hu
  simp only at hb
  refine ⟨w', _, h1, h2, by rw [h5], by rw [h5], by rw [h5], ?_, ?_, by rw [h6], by rw [h6], h7⟩
  · rw [h5]; exact hb.1
  · rw [h5]; exact hb.2.1

/-- the same on the level of the interpreter: entering the body after the first resume emits the manual's parameter
    binding of the resume arguments (`entryVals`: named parameters adjusted, then — for `...` — count and surplus). -/
theorem resume_first_entry (cfg : Cfg) (p : Prog) (w : World) (l th fid : Nat) (wr : Bool)
    (hl : l < w.threads.length) (hth : th < w.threads.length) (hne : l ≠ th)
    (hT : w.th th = newThread wr false fid (p.fn fid).acts) (hlb : (w.th l).lbase + 1 ≤ (w.th l).reg.length)
    (hu : (p.fn fid).np ≤ (p.fn fid).nused) :
    ∃ w', coResumeEnter cfg w l th (some ((p.fn fid).np, (p.fn fid).vararg, (p.fn fid).nused)) = .ok (w', 1) ∧
      enterLua p w' th =
        (w'.emit ("P" ++ toString fid) (entryVals (p.fn fid) ((w.th l).reg.drop ((w.th l).lbase + 1))), .run th) := by
  obtain ⟨w', h1, _, _, _, h5, _, _⟩ := coResumeEnter_first_full cfg w l th (p.fn fid).np (p.fn fid).nused fid
    (p.fn fid).vararg wr (p.fn fid).acts hl hth hne hT hlb
  refine ⟨w', h1, ?_⟩
  exact enterLua_after_init p w' th [none] ((w.th l).reg.drop ((w.th l).lbase + 1))
    { fid := fid, code := (p.fn fid).acts, nargs := ((w.th l).reg.drop ((w.th l).lbase + 1)).length } []
    rfl rfl rfl hu (by rw [h5]) (by rw [h5])

/-- non-vacuity: `function(a, ...)` resumed with (1, 2, 3) from a `coroutine.resume` frame holding [fn | co, 1, 2, 3]. -/
def exFirstW : World :=
  { threads := [{ reg := [none, some (.ref 1), some (.int 1), some (.int 2), some (.int 3)], cur := true,
                  frames := [{ isG := true, base := 0, localBase := 1, returnBase := 0, gk := .resume 0 }] },
                newThread false false 1 []] }

example : (coResumeEnter Cfg.fixed exFirstW 0 1 (some (1, true, 4))).toOption.map
      (fun r => ((r.1.th 1).reg, (r.1.th 1).frames.map (·.localBase), (r.1.th 0).reg))
    = some ([none, none, some (.int 2), some (.int 3), some (.int 1), none, none, none], [4],
            [none, some (.ref 1)]) := by decide

/-! ## 4. yield → resume -/

/-- **yield_results_adjusted** — when the coroutine `t` yields from a call frame `g` (any ReturnBase ≤ LocalBase
    layout, i.e. also a tail-called yield) and is later resumed by any thread `l` with values `vs`, then
      * the resumer of the yield received (true and) the yielded values in order (`switch` part),
      * the registers from `g.ReturnBase` on hold exactly `vs` adjusted to the number of results the yield call
        wanted — readable without touching a Go-nil slot —, all of `vs` for an open-ended call,
      * every register below `g.ReturnBase` (the coroutine's locals and its callers' frames) is unchanged, and the
        rest of its call stack is the one it had.
    True since 4525290 (`adjustResumedValues`); see the negation below for the code before it. -/
theorem yield_results_adjusted (w : World) (t p : Nat) (g : Frame) (ks : List Frame)
    (ht : t < w.threads.length) (hp : p < w.threads.length) (hne : t ≠ p)
    (hpar : (w.th t).parent = some p) (hcur : (w.th t).cur = true) (hfr : (w.th t).frames = g :: ks)
    (hks : ks ≠ []) (hrb : g.returnBase ≤ g.localBase) (hlb : g.localBase ≤ (w.th t).reg.length) :
    ∃ w1, switchToParentThread w t (w.th t).getTop false false = .ok w1 ∧ w1.current = p ∧
      (w1.th p).reg = (w.th p).reg ++ (if (w.th t).wrapped then [] else [some (.bool true)]) ++
                        (w.th t).reg.drop g.localBase ∧
      ∀ (l : Nat) (body : Option (Nat × Bool × Nat)), l < w.threads.length → l ≠ t →
        (w1.th l).lbase + 1 ≤ (w1.th l).reg.length →
        ∃ w2, coResumeEnter Cfg.fixed w1 l t body = .ok (w2, 1) ∧ w2.current = t ∧
          (w2.th t).frames = ks ∧
          (w2.th t).reg.take g.returnBase = (w.th t).reg.take g.returnBase ∧
          (w2.th t).reg.drop g.returnBase = adjust ((w1.th l).reg.drop ((w1.th l).lbase + 1)) g.nret ∧
          (∀ k, g.nret = some k → readRegs (w2.th t).reg g.returnBase k =
              .ok (adjust ((w1.th l).reg.drop ((w1.th l).lbase + 1)) (some k))) := by
  have hlbT := (lbase_of_cur (w.th t) g ks hcur hfr).1
  have htop : (w.th t).getTop = (w.th t).reg.length - g.localBase := by simp only [Thread.getTop, hlbT]
  have hmin : min (w.th t).getTop (w.th t).getTop = (w.th t).getTop := Nat.min_self _
  obtain ⟨w1, h1, hc, hlen, hpreg, htreg, _, _, hy, hfr1, hcur1, _, _, _, _, _, _, _, _⟩ :=
    switch_spec w t p (w.th t).getTop false false g ks ht hp hne hpar hcur hfr hrb hlb (by rw [hmin, htop]; omega)
  rw [hmin] at hpreg htreg
  have e1 : (w.th t).reg.length - (w.th t).getTop = g.localBase := by rw [htop]; omega
  have e2 : (w.th t).reg.length - (w.th t).getTop - (g.localBase - g.returnBase) = g.returnBase := by
    rw [e1]; omega
  rw [e1] at hpreg
  rw [e2] at htreg
  refine ⟨w1, h1, hc, by simpa using hpreg, ?_⟩
  intro l body hl hlt hlb1
  have hcur1' : (w1.th t).cur = true := by
    rw [hcur1]; cases ks with
    | nil => exact absurd rfl hks
    | cons a r => rfl
  obtain ⟨w2, h2, hc2, _, hreg2, hfr2, _, _, _, _, _, _⟩ :=
    coResumeEnter_started Cfg.fixed w1 l t body (by rw [hlen]; exact hl) (by rw [hlen]; exact ht) hlt hcur1' hlb1 rfl
  rw [htreg, hy] at hreg2
  have hlen' : ((w.th t).reg.take g.returnBase).length = g.returnBase := by
    rw [List.length_take]; exact Nat.min_eq_left (by omega)
  refine ⟨w2, h2, hc2, by rw [hfr2, hfr1], ?_, ?_, ?_⟩
  · rw [hreg2, List.take_append_of_le_length (by rw [hlen']; omega), List.take_take, Nat.min_self]
  · rw [hreg2, List.drop_append_of_le_length (by rw [hlen']; omega), List.drop_of_length_le (by rw [hlen']; omega),
      List.nil_append]
  · intro k hk
    rw [hreg2, hk]
    have := readRegs_mid ((w.th t).reg.take g.returnBase)
      (adjust ((w1.th l).reg.drop ((w1.th l).lbase + 1)) (some k)) []
    rw [adjust_length, hlen', List.append_nil] at this
    exact this

/-- a coroutine with `local a, b, c = coroutine.yield()` … -/
def exProg : Prog :=
  { fns := [(0, { acts := [.resume 1 false 0 [] (some 0), .resume 1 false 0 [some (.int 7)] (some 2)] }),
            (1, { acts := [.yield false 2 [some (.int 5)] (some 3), .ret 0 []] })],
    cos := [(1, { body := some 1 })] }

/-- … resumed with one value sees `7 nil nil` on the repaired tree (and the Spec says the same) … -/
example : runProg Cfg.fixed exProg 100 = ["P0:", "P1:", "L0.0:", "L1.0:i7,nil,nil", "L0.1:T,nil", "R:"] ∧
    CoSpec.runProg exProg 100 = runProg Cfg.fixed exProg 100 := by decide

/-- … but before 4525290 the two missing result registers were Go nil: the full statement was false. -/
theorem yield_results_adjusted_prefix_fails :
    runProg { adjustFix := false } exProg 100 =
      ["P0:", "P1:", "L0.0:", "gopanic:register above top is Go nil"] := by decide

/-- a tail-called yield in the body itself (`function(a) return coroutine.yield(a) end`): with
    fixes/C06-tailcall-yield the second resume's values become the body's results and the coroutine dies … -/
def exTail : Prog :=
  { fns := [(0, { acts := [.resume 1 false 0 [some (.int 1)] none, .resume 1 false 0 [some (.int 2), some (.int 3)] none,
                           .status 1] }),
            (1, { np := 1, acts := [.yield true 1 [some (.int 1)] none] })],
    cos := [(1, { body := some 1 })] }

example : runProg Cfg.fixed exTail 100 =
      ["P0:", "P1:i1", "L0.0:T,i1", "L0.1:T,i2,i3", "L0.2:s!dead", "R:"] ∧
    CoSpec.runProg exTail 100 = runProg Cfg.fixed exTail 100 := by decide

/-- … before it, `RemoveCallerFrame` left the thread with an empty stack and `coResume` dereferenced a nil frame. -/
theorem tail_yield_prefix_fails :
    runProg { tailFix := false } exTail 100 =
      ["P0:", "P1:i1", "L0.0:T,i1", "gopanic:coResume: th.stack.Last() is nil"] := by decide

/-! ## 5. errors -/

/-- **error_kills_only_thread** (plain coroutine) — an error that no `pcall` inside the coroutine catches kills
    that coroutine only: its resumer receives exactly (false, value) on top of its untouched stack; the resumer's
    frames, flags and every other thread are unchanged; control is back in the resumer's `coResume`. -/
theorem error_kills_only_thread (cfg : Cfg) (w : World) (t p : Nat) (v : OVal) (g : Frame) (ks : List Frame)
    (ht : t < w.threads.length) (hp : p < w.threads.length) (hne : t ≠ p)
    (hpar : (w.th t).parent = some p) (hw : (w.th t).wrapped = false)
    (hcur : (w.th t).cur = true) (hfr : (w.th t).frames = g :: ks)
    (hnp : ∀ f ∈ (w.th t).frames, f.gk ≠ .pcall)
    (hrb : g.returnBase ≤ g.localBase) (hlb : g.localBase ≤ (w.th t).reg.length) :
    ∃ w', doRaise cfg w t v = afterThreadRun w' p ∧ w'.current = p ∧
      (w'.th t).dead = true ∧ (w'.th t).parent = none ∧
      (w'.th p).reg = (w.th p).reg ++ [some (.bool false), v] ∧ (w'.th p).frames = (w.th p).frames ∧
      (w'.th p).cur = (w.th p).cur ∧ (w'.th p).parent = (w.th p).parent ∧ (w'.th p).dead = (w.th p).dead ∧
      (∀ x, x ≠ t → x ≠ p → w'.th x = w.th x) :=
  doRaise_plain cfg w t p v g ks ht hp hne hpar hw hcur hfr hnp hrb hlb

/-- wrapped coroutine (with fixes/C06-wrap-error-kills): the thread dies, `CurrentThread` is the resumer again,
    the resumer's thread state is *identical*, and the same error value is raised in the resumer. -/
theorem error_kills_only_thread_wrapped (w : World) (t p : Nat) (v : OVal)
    (ht : t < w.threads.length) (hne : t ≠ p)
    (hpar : (w.th t).parent = some p) (hw : (w.th t).wrapped = true)
    (hnp : ∀ f ∈ (w.th t).frames, f.gk ≠ .pcall) :
    ∃ w', doRaise Cfg.fixed w t v = (w', .raise p v) ∧ w'.current = p ∧ (w'.th t).dead = true ∧
      (w'.th t).parent = none ∧ (∀ x, x ≠ t → w'.th x = w.th x) := by
  have htw : (w.th t).frames.takeWhile (fun f => decide (f.gk ≠ .pcall)) = (w.th t).frames :=
    takeWhile_all _ _ (fun f hf => by simpa using hnp f hf)
  refine ⟨{ (w.setTh t { (w.th t).push v with parent := none, dead := true }) with current := p }, ?_, rfl, ?_, ?_, ?_⟩
  · unfold doRaise
    show (match (w.th t).frames.drop ((w.th t).frames.takeWhile (fun f => decide (f.gk ≠ .pcall))).length with
      | h :: rest => _ | [] => _) = _
    rw [htw, List.drop_length]
    show (match (w.th t).parent with | none => _ | some p => _) = _
    rw [hpar]
    show (if (w.th t).wrapped = true then _ else _) = _
    rw [if_pos hw]
    rfl
  · show ((w.setTh t _).th t).dead = true
    rw [th_setTh_eq _ _ _ ht]
  · show ((w.setTh t _).th t).parent = none
    rw [th_setTh_eq _ _ _ ht]
  · intro x hx
    show (w.setTh t _).th x = _
    exact th_setTh_ne _ _ _ _ (Ne.symm hx)

/-- a wrapped coroutine that fails under `pcall`, then is probed and called again … -/
def exWrapErr : Prog :=
  { fns := [(0, { acts := [.resume 1 true 0 [] none, .status 1, .running, .resume 1 true 0 [] none] }),
            (1, { acts := [.err (some (.int 9))] })],
    cos := [(1, { wrapped := true, body := some 1 })] }

example : runProg Cfg.fixed exWrapErr 100 =
      ["P0:", "P1:", "L0.0:F,i9", "L0.1:s!dead", "L0.2:nil", "L0.3:F,s!dead", "R:"] ∧
    CoSpec.runProg exWrapErr 100 = runProg Cfg.fixed exWrapErr 100 := by decide

/-- … before fixes/C06-wrap-error-kills stayed "running" for ever (CurrentThread was never restored). -/
theorem error_kills_wrapped_prefix_fails :
    runProg { wrapKill := false } exWrapErr 100 =
      ["P0:", "P1:", "L0.0:F,i9", "L0.1:s!running", "L0.2:nil", "L0.3:F,s!running", "R:"] := by decide

/-- a Go function as coroutine body (`coroutine.create(hostid)`): fixes/C06-gfunction-body. -/
def exGBody : Prog :=
  { fns := [(0, { acts := [.resume 1 false 0 [some (.int 1), some (.int 2)] none, .status 1] })],
    cos := [(1, { body := none })] }

example : runProg Cfg.fixed exGBody 100 = ["P0:", "L0.0:T,i1,i2", "L0.1:s!dead", "R:"] ∧
    CoSpec.runProg exGBody 100 = runProg Cfg.fixed exGBody 100 := by decide

theorem gbody_prefix_fails :
    runProg { gbodyFix := false } exGBody 100 = ["P0:", "L0.0:", "L0.1:s!running", "R:"] := by decide

/-! ## 6. history-level simulation: Model machine ⊑ Spec machine over every event history

  Model machine = the interpreter `Co.step` over worlds (Parent links, Dead flags, CurrentThread, register stacks,
  frame stacks) — the machine the C06M tie compares with the real interpreter token by token.  Spec machine =
  `CoSpec.step` (per coroutine: status, started?, stack of pending activations; the resume chain as a stack).
  Abstraction relation = `CoSim.Sim` / `CoSim.Live` (GLua/Proofs/CoSimDefs.lean): equal traces; the Spec's resume
  chain is the Model's Parent chain from CurrentThread to the main thread, without repetition; threads on it below
  the head are blocked in `coResume` ("normal"); threads off it are fresh | dead | suspended in a yield that wanted
  `yieldNRet` results where the stack now ends; the running thread holds exactly the values the Spec is delivering.

  Guard (`okProg`, decidable): acts = create/resume/wrapped call — also through pcall —, yield (also tail-called),
  return, error, status, running, ordinary Lua calls, for-in over a wrapped coroutine (generator); coroutine ids 1..4
  with Lua bodies (fixed or vararg); np ≤ NumUsedRegisters.  Outside the guard (host-function yields of the Go-API
  histories, Go-function bodies) the comparison stays a run-time one (C06M tie). -/

/-- **history_step_simulation** — EVERY step of the Model machine (resume enter — first and later —, refused resume,
    yield, tail-called yield, yield outside a coroutine, body return, return to a caller, body error — plain and
    wrapped —, wrapped call, the same under pcall incl. PCall's recovery, the iterator calls and the loop test of a
    for-in over a wrapped coroutine, status, running, Lua call, delivery of results) from ANY state related to a Spec
    state
    leads to a state related to the Spec state after 0, 1 or several Spec steps: same trace so far (values delivered
    in order and number, status strings, refusals), related continuation.  The Spec stands still (m = 0) only while a
    Go frame (`coResume`, `pcall`) is popped or `PCall` recovers from an error, and then the measure `stut` (≤ 2)
    decreases: between two Spec steps the Model makes at most three steps. -/
theorem history_step_simulation {p : Prog} (hp : okProg p = true) {w : World} {mc : Co.Ctl} {s : CoSpec.St}
    {sc : CoSpec.Ctl} (hL : Live p w mc s sc) :
    ∃ m, Sim p (step Cfg.fixed p w mc).1 (step Cfg.fixed p w mc).2 (CoSpec.run p m s sc).1 (CoSpec.run p m s sc).2 ∧
      (m = 0 → stut (step Cfg.fixed p w mc).1 (step Cfg.fixed p w mc).2 < stut w mc) :=
  sim_step hp hL

/-- **history_simulation** (`_partial`: guard `okProg`) — by induction over ANY number of steps, i.e. over any event
    history a script produces with any number ≤ 4 of coroutines in any interleaving: the Model state after `n` steps
    is related to the Spec state after some `m` steps. -/
theorem history_simulation_partial (p : Prog) (hp : okProg p = true) (n : Nat) :
    ∃ m, Sim p (Co.run Cfg.fixed p n (initWorld p) (.run 0)).1 (Co.run Cfg.fixed p n (initWorld p) (.run 0)).2
      (CoSpec.run p m (CoSpec.initSt p) .exec).1 (CoSpec.run p m (CoSpec.initSt p) .exec).2 :=
  sim_run p hp n

/-- **history_traces_agree** — the observable consequence: at every point of a Model run its trace is the trace of
    a Spec run, and a Model run that finishes does so regularly (`FinTok`: the chunk returned `R:…` or failed with an
    error value `X:…` — never a Go panic such as a Go-nil register, a nil call frame or a negative top, never a stuck
    state) and is a finished Spec run with exactly the same tokens: every value list delivered by every resume and yield
    (order and number), every status string, every refusal, the final results / error value. -/
theorem history_traces_agree (p : Prog) (hp : okProg p = true) (n : Nat) :
    (∃ m, (Co.run Cfg.fixed p n (initWorld p) (.run 0)).1.trace = (CoSpec.run p m (CoSpec.initSt p) .exec).1.trace) ∧
    (∀ w tok, Co.run Cfg.fixed p n (initWorld p) (.run 0) = (w, .fin tok) →
      FinTok tok ∧ ∃ m, CoSpec.runProg p m = Co.runProg Cfg.fixed p n) := by
  constructor
  · obtain ⟨m, htr, _⟩ := sim_run p hp n
    exact ⟨m, htr⟩
  · intro w tok h
    obtain ⟨hft, m, s, hs, htr⟩ := sim_fin p hp n w tok h
    refine ⟨hft, m, ?_⟩
    simp only [CoSpec.runProg, Co.runProg, hs, h, htr]

/-- **history_trace_equivalence** — both directions, for whole finished runs: a token list is the outcome of a finished
    Model run iff it is the outcome of a finished Spec run.  The new direction (Spec ⇒ Model) is a progress statement:
    wherever the manual's coroutines terminate, gopher-lua's mechanism terminates too — it cannot hang in the
    switching code, stop in a Go panic or lose a value on the way — and the Model stutters at most once in a row
    (`sim_progress`). -/
theorem history_trace_equivalence (p : Prog) (hp : okProg p = true) (toks : List String) :
    (∃ n w tok, Co.run Cfg.fixed p n (initWorld p) (.run 0) = (w, .fin tok) ∧ Co.runProg Cfg.fixed p n = toks) ↔
    (∃ m s tok, CoSpec.run p m (CoSpec.initSt p) .exec = (s, .fin tok) ∧ CoSpec.runProg p m = toks) := by
  constructor
  · rintro ⟨n, w, tok, h, ht⟩
    obtain ⟨_, m, s, hs, htr⟩ := sim_fin p hp n w tok h
    refine ⟨m, s, tok, hs, ?_⟩
    rw [← ht]
    simp only [CoSpec.runProg, Co.runProg, hs, h, htr]
  · rintro ⟨m, s, tok, h, ht⟩
    obtain ⟨n, w, hw, htr⟩ := sim_fin_conv p hp m s tok h
    refine ⟨n, w, tok, hw, ?_⟩
    rw [← ht]
    simp only [CoSpec.runProg, Co.runProg, hw, h, htr]

/-- **history_parent_chain** — in every reachable unfinished state the Parent links form a chain that starts at
    CurrentThread, has no repetition (acyclic), ends in the main thread (the only thread on it without Parent);
    threads off the chain have no Parent; and — for the coroutines a script can name — exactly the head of the chain
    has status "running" and exactly the other threads on it have status "normal". -/
theorem history_parent_chain (p : Prog) (hp : okProg p = true) (n : Nat) :
    (∃ tok, (Co.run Cfg.fixed p n (initWorld p) (.run 0)).2 = .fin tok) ∨
    ∃ chain : List Nat, chain.Nodup ∧
      chain.head? = some (Co.run Cfg.fixed p n (initWorld p) (.run 0)).1.current ∧
      ParentChain (Co.run Cfg.fixed p n (initWorld p) (.run 0)).1 chain ∧
      (∀ t, t < 5 → t ∉ chain → ((Co.run Cfg.fixed p n (initWorld p) (.run 0)).1.th t).parent = none) ∧
      (∀ t l, 1 ≤ t → t ≤ 4 →
        (status Cfg.fixed (Co.run Cfg.fixed p n (initWorld p) (.run 0)).1 l t = "running" ↔
            t = (Co.run Cfg.fixed p n (initWorld p) (.run 0)).1.current) ∧
        (status Cfg.fixed (Co.run Cfg.fixed p n (initWorld p) (.run 0)).1 l t = "normal" ↔ t ∈ chain.tail)) :=
  chain_run p hp n

/-- non-vacuity: three coroutines — a plain one with a `...` body that yields from a nested call; a plain one that
    probes and resumes the first (nested resume), tries to resume itself (refused: running) and ends with a tail-called
    yield; a wrapped one that yields and then fails (the error ends the main chunk) — with statuses and refusals. -/
def exHist : Prog :=
  { fns := [(0, { acts := [.resume 1 false 0 [some (.int 1), some (.int 2)] none,
                           .resume 2 false 0 [some (.int 5)] (some 1),
                           .resume 1 false 0 [] (some 2), .status 1,
                           .resume 2 false 1 [] none, .status 2, .resume 3 false 0 [] (some 1),
                           .resume 1 false 0 [] none, .running, .resume 3 false 0 [] none] }),
            (1, { np := 1, vararg := true, acts := [.yield false 2 [some (.int 7)] (some 3),
                                                    .call 3 0 [some (.int 8)] (some 1), .ret 0 [some (.int 9)]] }),
            (2, { np := 2, acts := [.status 1, .running, .resume 1 false 3 [some (.int 6)] (some 2),
                                    .resume 2 false 0 [] none, .yield true 1 [some (.int 3)] none] }),
            (3, { np := 1, acts := [.yield false 0 [] (some 0), .ret 0 [some (.int 4), some (.int 4)]] }),
            (4, { acts := [.status 2, .yield false 0 [some (.int 1), some (.int 2)] none, .err (some (.int 9))] })],
    cos := [(1, { body := some 1 }), (2, { body := some 2 }), (3, { wrapped := true, body := some 4 })] }

example : okProg exHist = true := by decide

/-- a generator: `for a, b in f_1 do … end` over a wrapped coroutine that yields (1,2), (3) and then returns nothing. -/
def exGen : Prog :=
  { fns := [(0, { acts := [.forin 1 2, .status 1] }),
            (1, { acts := [.yield false 0 [some (.int 1), some (.int 2)] (some 0), .yield false 0 [some (.int 3)] none] })],
    cos := [(1, { wrapped := true, body := some 1 })] }

example : okProg exGen = true ∧
    runProg Cfg.fixed exGen 100 =
      ["P0:", "P1:", "L0.0:i1,i2", "L1.0:", "L0.0:i3,nil", "L1.1:nil,i3", "L0.1:s!dead", "R:"] ∧
    CoSpec.runProg exGen 100 = runProg Cfg.fixed exGen 100 := by decide

/-- … and the scripts with `pcall` around resume / wrapped calls of §4–§5 lie in the fragment as well
    (`exWrapErr`: a wrapped coroutine fails under pcall, is probed and called again under pcall). -/
example : okProg exWrapErr = true ∧ okProg exProg = true ∧ okProg exTail = true := by decide

example : runProg Cfg.fixed exHist 200 =
    ["P0:", "P1:i1,i1,i2", "L0.0:T,i7", "P2:i5,nil", "L2.0:s!suspended", "L2.1:i2", "L1.0:i6,nil,nil", "P3:i8",
     "L2.2:T,nil", "L2.3:F,s!running", "L0.1:T", "L3.0:", "L1.1:i4", "L0.2:T,i9", "L0.3:s!dead", "L0.4:T",
     "L0.5:s!dead", "P4:", "L4.0:s!dead", "L0.6:i1", "L0.7:F,s!dead", "L0.8:nil", "L4.1:", "X:i9"] ∧
    CoSpec.runProg exHist 200 = runProg Cfg.fixed exHist 200 := by decide

/-- the statement without the guard: every finished Model run is a Spec run. -/
def history_simulation_full : Prop :=
  ∀ (p : Prog) (n : Nat) (w : World) (tok : String), Co.run Cfg.fixed p n (initWorld p) (.run 0) = (w, .fin tok) →
    ∃ m, CoSpec.runProg p m = Co.runProg Cfg.fixed p n

/-- a script outside the guard: a coroutine asks for the status of thread 0, the MAIN thread (no Lua 5.1 script can
    obtain that object — `coroutine.running()` is nil there —, only the Go API can). -/
def exMainStatus : Prog :=
  { fns := [(0, { acts := [.resume 1 false 0 [] none] }), (1, { acts := [.status 0] })],
    cos := [(1, { body := some 1 })] }

/-- **history_simulation_full_fails** — without the guard the statement is false of the code: the main thread has no
    Parent link, so `Status` calls it "suspended" while it waits in a resume, where the manual's automaton says
    "normal" (the caveat of `status_automaton`; the guard `1 ≤ j` of `okProg` excludes exactly this). -/
theorem history_simulation_full_fails : ¬ history_simulation_full := by
  intro h
  obtain ⟨m, hm⟩ := h exMainStatus 10 (Co.run Cfg.fixed exMainStatus 10 (initWorld exMainStatus) (.run 0)).1 "R:" (by
    apply Prod.ext
    · rfl
    · rfl)
  have hM : Co.runProg Cfg.fixed exMainStatus 10 = ["P0:", "P1:", "L1.0:s!suspended", "L0.0:T", "R:"] := by decide
  rw [hM] at hm
  by_cases hlt : m < 10
  · have : ∀ m < 10, CoSpec.runProg exMainStatus m ≠ ["P0:", "P1:", "L1.0:s!suspended", "L0.0:T", "R:"] := by decide
    exact this m hlt hm
  · obtain ⟨k, rfl⟩ : ∃ k, m = 10 + k := ⟨m - 10, by omega⟩
    have hfin : CoSpec.run exMainStatus 10 (CoSpec.initSt exMainStatus) .exec =
        ((CoSpec.run exMainStatus 10 (CoSpec.initSt exMainStatus) .exec).1, .fin "R:") := by
      apply Prod.ext
      · rfl
      · rfl
    have hst := srun_stable exMainStatus 10 k _ _ _ _ hfin
    have h10 : (CoSpec.run exMainStatus 10 (CoSpec.initSt exMainStatus) .exec).1.trace.toks "R:" =
        ["P0:", "P1:", "L1.0:s!normal", "L0.0:T", "R:"] := by decide
    simp only [CoSpec.runProg, hst, h10] at hm
    revert hm; decide

/-! ## 7. wrap on the history level -/

/-- **wrap_error_reraised** — in every reachable state in which an error value `v` unwinds a *wrapped* coroutine `c`
    and no `pcall` inside `c` catches it: the next step leaves `c` dead and without Parent, makes its resumer `pp` the current thread
    again and raises the SAME value `v` in `pp` (`threadRun`'s wrapped branch with fixes/C06-wrap-error-kills). -/
theorem wrap_error_reraised (p : Prog) (hp : okProg p = true) (n c : Nat) (v : OVal)
    (hst : (Co.run Cfg.fixed p n (initWorld p) (.run 0)).2 = .raise c v) (hw : (p.co c).wrapped = true) (hc0 : c ≠ 0)
    (hnp : ∀ f ∈ ((Co.run Cfg.fixed p n (initWorld p) (.run 0)).1.th c).frames, f.gk ≠ .pcall) :
    ∃ pp, ((Co.run Cfg.fixed p n (initWorld p) (.run 0)).1.th c).parent = some pp ∧
      ∃ w', Co.run Cfg.fixed p (n + 1) (initWorld p) (.run 0) = (w', .raise pp v) ∧ w'.current = pp ∧
        (w'.th c).dead = true ∧ (w'.th c).parent = none ∧ (∀ l, status Cfg.fixed w' l c = "dead") := by
  obtain ⟨m, _, hs⟩ := sim_run p hp n
  rcases hs with ⟨tok, h1, _, _⟩ | hL
  · rw [hst] at h1; cases h1
  · rw [hst] at hL
    have hcw := live_raise_lt hL
    obtain ⟨pp, hpar, hstep⟩ := wrap_error_of_live hL hw hc0 hnp
    have hdead : ((World.setTh (Co.run Cfg.fixed p n (initWorld p) (.run 0)).1 c
        { ((Co.run Cfg.fixed p n (initWorld p) (.run 0)).1.th c).push v with parent := none, dead := true }).th c)
        = { ((Co.run Cfg.fixed p n (initWorld p) (.run 0)).1.th c).push v with parent := none, dead := true } :=
      th_setTh_eq _ _ _ hcw
    refine ⟨pp, hpar, { (World.setTh (Co.run Cfg.fixed p n (initWorld p) (.run 0)).1 c
        { ((Co.run Cfg.fixed p n (initWorld p) (.run 0)).1.th c).push v with parent := none, dead := true }) with
          current := pp }, ?_, rfl, ?_, ?_, ?_⟩
    · rw [mrun_succ, hst, hstep]
    · show ((World.setTh _ c _).th c).dead = true
      rw [hdead]
    · show ((World.setTh _ c _).th c).parent = none
      rw [hdead]
    · intro l
      simp only [status]
      rw [show ∀ (x : World) (k : Nat), ({ x with current := k } : World).th c = x.th c from fun _ _ => rfl, hdead]
      rfl

/-- **wrap_dead_call_refused** — in every reachable state: calling a wrapped coroutine that is dead does not run
    anything: the error "cannot resume dead coroutine" is raised in the caller. -/
theorem wrap_dead_call_refused (p : Prog) (hp : okProg p = true) (n c : Nat) (f : Frame) (fs : List Frame)
    (j a : Nat) (vals : List OVal) (want : Want) (rest : List Act)
    (hst : (Co.run Cfg.fixed p n (initWorld p) (.run 0)).2 = .run c)
    (hfr : ((Co.run Cfg.fixed p n (initWorld p) (.run 0)).1.th c).frames = f :: fs) (hr : f.recv = .none)
    (hcode : f.code = .resume j false a vals want :: rest) (h1 : 1 ≤ j) (h4 : j ≤ 4)
    (hd : ((Co.run Cfg.fixed p n (initWorld p) (.run 0)).1.th j).dead = true) (hw : (p.co j).wrapped = true) :
    (Co.run Cfg.fixed p (n + 1) (initWorld p) (.run 0)).2 = .raise c (sym "dead") := by
  obtain ⟨m, _, hs⟩ := sim_run p hp n
  rcases hs with ⟨tok, h1', _, _⟩ | hL
  · rw [hst] at h1'; cases h1'
  · rw [hst] at hL
    rw [mrun_succ, hst]
    exact wrap_dead_call_of_live hL f fs j a vals want rest hfr hr hcode h1 h4 hd hw

/-- non-vacuity: a wrapped coroutine fails; the error kills the calling (plain) coroutine too, whose resumer gets
    (false, 9); afterwards the wrapped coroutine is dead and calling it again is refused in the main chunk. -/
def exWrapHist : Prog :=
  { fns := [(0, { acts := [.resume 2 false 0 [] none, .status 1, .status 2, .resume 1 false 0 [] none] }),
            (1, { acts := [.err (some (.int 9))] }),
            (2, { acts := [.resume 1 false 0 [some (.int 1)] (some 1), .ret 0 []] })],
    cos := [(1, { wrapped := true, body := some 1 }), (2, { body := some 2 })] }

example : okProg exWrapHist = true ∧
    runProg Cfg.fixed exWrapHist 100 = ["P0:", "P2:", "P1:", "L0.0:F,i9", "L0.1:s!dead", "L0.2:s!dead", "X:s!dead"] ∧
    CoSpec.runProg exWrapHist 100 = runProg Cfg.fixed exWrapHist 100 := by decide

/-! ## 8. isolation: each coroutine keeps its own registers, frames and flags across the steps of the others -/

/-- **isolation_step** — frame condition of the interpreter step, for EVERY world, control state, program and
    configuration (no invariant needed): a thread that is neither the running one, nor its resumer (Parent), nor the
    coroutine being resumed is left exactly as it was — every register, every call frame, every flag. -/
theorem isolation_step (cfg : Cfg) (p : Prog) (w : World) (c : Ctl) (x : Nat) (h : ¬ touched w c x) :
    ((step cfg p w c).1).th x = w.th x :=
  step_same cfg p w c x h

/-- **isolation_switch** — yield / return / error (`switchToParentThread`) as whole-thread equalities: the resumer
    changes ONLY by receiving, on top of its untouched stack, the flag and the moved values (its frames, flags and
    every register below stay); the switching thread loses exactly the moved values and the window of the popped
    frame; every third thread is identical. -/
theorem isolation_switch (w : World) (l p nargs : Nat) (haserror kill : Bool) (g : Frame) (ks : List Frame)
    (hl : l < w.threads.length) (hp : p < w.threads.length) (hne : l ≠ p)
    (hpar : (w.th l).parent = some p) (hcur : (w.th l).cur = true) (hfr : (w.th l).frames = g :: ks)
    (hlb : g.localBase ≤ (w.th l).reg.length)
    (hoff : g.localBase - g.returnBase ≤ (w.th l).reg.length - min nargs (w.th l).getTop) :
    ∃ w', switchToParentThread w l nargs haserror kill = .ok w' ∧
      w'.th p = { w.th p with reg := (w.th p).reg ++ (if (w.th l).wrapped then [] else [some (.bool !haserror)]) ++
                        (w.th l).reg.drop ((w.th l).reg.length - min nargs (w.th l).getTop) } ∧
      w'.th l = { w.th l with
                  parent := none, yieldNRet := g.nret, frames := ks, cur := !ks.isEmpty,
                  reg := (w.th l).reg.take ((w.th l).reg.length - min nargs (w.th l).getTop - (g.localBase - g.returnBase)),
                  dead := (w.th l).dead || kill } ∧
      (∀ t, t ≠ l → t ≠ p → w'.th t = w.th t) := by
  obtain ⟨w', h1, _, _, _, h5, h6, h7⟩ := switch_full w l p nargs haserror kill g ks hl hp hne hpar hcur hfr hlb hoff
  exact ⟨w', h1, h5, h6, h7⟩

/-- **isolation_resume** — a later resume (`coResume` on a started thread): the resumed thread changes ONLY by its
    Parent link and by receiving the adjusted values on top of its stack (locals, loop state and call stack — all its
    registers and frames — are the ones it was suspended with); the resumer loses exactly the arguments. -/
theorem isolation_resume (w : World) (l th : Nat) (body : Option (Nat × Bool × Nat))
    (hl : l < w.threads.length) (hth : th < w.threads.length) (hne : l ≠ th)
    (hcur : (w.th th).cur = true) (hlb : (w.th l).lbase + 1 ≤ (w.th l).reg.length) :
    ∃ w', coResumeEnter Cfg.fixed w l th body = .ok (w', 1) ∧
      w'.th th = { w.th th with
                   parent := some l
                   reg := (w.th th).reg ++ adjust ((w.th l).reg.drop ((w.th l).lbase + 1)) (w.th th).yieldNRet } ∧
      w'.th l = { w.th l with reg := (w.th l).reg.take ((w.th l).lbase + 1) } ∧
      (∀ t, t ≠ l → t ≠ th → w'.th t = w.th t) := by
  obtain ⟨w', h1, _, _, _, h5, h6, h7⟩ := coResumeEnter_started_full Cfg.fixed w l th body hl hth hne hcur hlb rfl
  exact ⟨w', h1, h5, h6, h7⟩

/-- non-vacuity of `isolation_step`: while coroutine 1 (resumed by main) runs, coroutine 2 is not touched. -/
example : ¬ touched { threads := [{ cur := true }, { parent := some 0, cur := true, frames := [{}] }, { reg := [none] }],
                      current := 1 } (.run 1) 2 := by decide

end GLua.Props.C06
