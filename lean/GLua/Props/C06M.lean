/-
  C06M — the mechanism check of property C06.  The theorems are stated and proved in GLua/Props/C06.lean; this
  module re-exports each of them under the namespace the audit of `./check C06M` counts (same statement:
  `type_of%` of the original; same proof term).
-/
import GLua.Props.C06

namespace GLua.Props.C06M

theorem xmove_order : type_of% @GLua.Props.C06.xmove_order := @GLua.Props.C06.xmove_order
theorem status_automaton : type_of% @GLua.Props.C06.status_automaton := @GLua.Props.C06.status_automaton
theorem resume_only_suspended : type_of% @GLua.Props.C06.resume_only_suspended := @GLua.Props.C06.resume_only_suspended
theorem status_is_flag_status : type_of% @GLua.Props.C06.status_is_flag_status := @GLua.Props.C06.status_is_flag_status
theorem resume_refines_flags : type_of% @GLua.Props.C06.resume_refines_flags := @GLua.Props.C06.resume_refines_flags
theorem switch_refines_flags : type_of% @GLua.Props.C06.switch_refines_flags := @GLua.Props.C06.switch_refines_flags
theorem resume_only_suspended_prefix_fails : type_of% @GLua.Props.C06.resume_only_suspended_prefix_fails := @GLua.Props.C06.resume_only_suspended_prefix_fails
theorem status_prefix_fails : type_of% @GLua.Props.C06.status_prefix_fails := @GLua.Props.C06.status_prefix_fails
theorem resume_first_binds_partial : type_of% @GLua.Props.C06.resume_first_binds_partial := @GLua.Props.C06.resume_first_binds_partial
theorem resume_first_binds : type_of% @GLua.Props.C06.resume_first_binds := @GLua.Props.C06.resume_first_binds
theorem resume_first_entry : type_of% @GLua.Props.C06.resume_first_entry := @GLua.Props.C06.resume_first_entry
theorem yield_results_adjusted : type_of% @GLua.Props.C06.yield_results_adjusted := @GLua.Props.C06.yield_results_adjusted
theorem yield_results_adjusted_prefix_fails : type_of% @GLua.Props.C06.yield_results_adjusted_prefix_fails := @GLua.Props.C06.yield_results_adjusted_prefix_fails
theorem tail_yield_prefix_fails : type_of% @GLua.Props.C06.tail_yield_prefix_fails := @GLua.Props.C06.tail_yield_prefix_fails
theorem error_kills_only_thread : type_of% @GLua.Props.C06.error_kills_only_thread := @GLua.Props.C06.error_kills_only_thread
theorem error_kills_only_thread_wrapped : type_of% @GLua.Props.C06.error_kills_only_thread_wrapped := @GLua.Props.C06.error_kills_only_thread_wrapped
theorem error_kills_wrapped_prefix_fails : type_of% @GLua.Props.C06.error_kills_wrapped_prefix_fails := @GLua.Props.C06.error_kills_wrapped_prefix_fails
theorem gbody_prefix_fails : type_of% @GLua.Props.C06.gbody_prefix_fails := @GLua.Props.C06.gbody_prefix_fails
theorem history_step_simulation : type_of% @GLua.Props.C06.history_step_simulation := @GLua.Props.C06.history_step_simulation
theorem history_simulation_partial : type_of% @GLua.Props.C06.history_simulation_partial := @GLua.Props.C06.history_simulation_partial
theorem history_traces_agree : type_of% @GLua.Props.C06.history_traces_agree := @GLua.Props.C06.history_traces_agree
theorem history_parent_chain : type_of% @GLua.Props.C06.history_parent_chain := @GLua.Props.C06.history_parent_chain
theorem wrap_error_reraised : type_of% @GLua.Props.C06.wrap_error_reraised := @GLua.Props.C06.wrap_error_reraised
theorem wrap_dead_call_refused : type_of% @GLua.Props.C06.wrap_dead_call_refused := @GLua.Props.C06.wrap_dead_call_refused
theorem isolation_step : type_of% @GLua.Props.C06.isolation_step := @GLua.Props.C06.isolation_step
theorem isolation_switch : type_of% @GLua.Props.C06.isolation_switch := @GLua.Props.C06.isolation_switch
theorem isolation_resume : type_of% @GLua.Props.C06.isolation_resume := @GLua.Props.C06.isolation_resume
theorem history_simulation_full_fails : type_of% @GLua.Props.C06.history_simulation_full_fails := @GLua.Props.C06.history_simulation_full_fails
theorem history_trace_equivalence : type_of% @GLua.Props.C06.history_trace_equivalence := @GLua.Props.C06.history_trace_equivalence

end GLua.Props.C06M
