/-
  C07 — every compiled function is well-formed bytecode the VM can run without faulting.

  Property theorems only.  Three layers:
  (1) `opcode_*`     : the instruction encoders/decoders of /repo/opcode.go (REGENERATED into
                       GLua/Generated/Opcode.lean on every run) are inverse field-wise — re-checked against the
                       source each time.
  (2) `wf_sound*`    : the verifier `wf` (GLua/Model/Verifier.lean) is a safety invariant of the abstract VM `step`
                       (the model of what /repo/_vm.go indexes): from any instruction start of a `wf` prototype a step
                       never takes a `.goPanic` branch and every possible next pc is again an instruction start;
                       lifted to all runs by induction over `Reach`.
  (3) `wf_*`         : what `wf` says in the property's own words (register ceiling, jump targets never inside a
                       capture list / extended SETLIST, string-keyed instructions, ends in RETURN, line table).
  The tie to the real compiler is translation validation: the harness runs `wf` on every FunctionProto the real
  front-end produces (harness/c07.go); a `false` is a property violation with the source as replay.
  (4) `compile_fragment_*` : for the FRAGMENT of the compiler that is modelled function by function (Model/Compile.lean,
                       Model/CompileStmt.lean: conditions, logical / relational operators, local / global assignment,
                       if / while / repeat / return / local, patchCode with jump threading and MOVEN merging, the word
                       encoder; tied word for word to the real compiler by harness/c01_mech.go and, through `fragProto`,
                       by harness/c07_frag.go) the half that (1)–(3) leave to translation validation is PROVED:
                       every program the model compiler accepts is compiled to a prototype that `wf` accepts
                       (`compile_fragment_wf`), hence never faults in the abstract VM (`compile_fragment_never_faults`).
                       Proof: an invariant of the compile state preserved by every compile function (induction over
                       the program, Proofs/CompileWf{Defs,Expr,Stmt}.lean), an index invariant of patchCode's loop
                       (Proofs/CompileWfPatch.lean), encoder ∘ regenerated decoders (Proofs/CompileWfEncode.lean), and
                       a certificate ⇒ wf lemma (Proofs/CompileWf{Verifier,Cert,Main}.lean).
-/
import GLua.Proofs.OpcodeRT
import GLua.Proofs.Verifier
import GLua.Proofs.CompileWfMain

namespace GLua.Props.C07
open GLua GLua.Verifier GLua.Generated GLua.Proofs.OpcodeRT GLua.Proofs.Verifier

/-! ## (1) instruction encoding (regenerated) -/

/-- the opcode numbering `step`/`hyg` dispatch on is the one of the current source -/
theorem opcode_numbering :
    [OP_MOVE, OP_MOVEN, OP_LOADK, OP_LOADBOOL, OP_LOADNIL, OP_GETUPVAL, OP_GETGLOBAL, OP_GETTABLE, OP_GETTABLEKS,
     OP_SETGLOBAL, OP_SETUPVAL, OP_SETTABLE, OP_SETTABLEKS, OP_NEWTABLE, OP_SELF, OP_ADD, OP_SUB, OP_MUL, OP_DIV,
     OP_MOD, OP_POW, OP_UNM, OP_NOT, OP_LEN, OP_CONCAT, OP_JMP, OP_EQ, OP_LT, OP_LE, OP_TEST, OP_TESTSET, OP_CALL,
     OP_TAILCALL, OP_RETURN, OP_FORLOOP, OP_FORPREP, OP_TFORLOOP, OP_SETLIST, OP_CLOSE, OP_CLOSURE, OP_VARARG, OP_NOP]
      = List.range 42 ∧ opCodeMax = 41 ∧ opProps.length = 42 := by decide

/-- field widths / limits the verifier and the theorems below rely on -/
theorem opcode_limits :
    opSizeCode = 6 ∧ opSizeA = 8 ∧ opSizeB = 9 ∧ opSizeC = 9 ∧ opSizeBx = 18 ∧
    opMaxArgsA = 255 ∧ opMaxArgsB = 511 ∧ opMaxArgsC = 511 ∧ opMaxArgBx = 262143 ∧ opMaxArgSbx = 131071 ∧
    opBitRk = 256 ∧ opMaxIndexRk = 255 ∧ maxRegisters = 200 ∧ FieldsPerFlush = 50 := by decide

/-- `opCreateABC`: every field reads back (mod its width), fields are independent, the word fits 32 bits -/
theorem opcode_roundtrip_ABC (op a b c : Int) :
    opGetOpCode (opCreateABC op a b c) = (op % 64).toNat ∧
    opGetArgA (opCreateABC op a b c) = (a % 256).toNat ∧
    opGetArgB (opCreateABC op a b c) = (b % 512).toNat ∧
    opGetArgC (opCreateABC op a b c) = (c % 512).toNat ∧
    opCreateABC op a b c < 4294967296 := by
  simp only [opCreateABC, opSetOpCode, opSetArgA, opSetArgB, opSetArgC, opGetOpCode, opGetArgA, opGetArgB, opGetArgC]
  omega

theorem opcode_roundtrip_ABx (op a bx : Int) :
    opGetOpCode (opCreateABx op a bx) = (op % 64).toNat ∧
    opGetArgA (opCreateABx op a bx) = (a % 256).toNat ∧
    opGetArgBx (opCreateABx op a bx) = (bx % 262144).toNat ∧
    opCreateABx op a bx < 4294967296 := by
  simp only [opCreateABx, opSetOpCode, opSetArgA, opSetArgBx, opGetOpCode, opGetArgA, opGetArgBx]
  omega

/-- the signed operand survives exactly on the representable range −131071 … 131072 -/
theorem opcode_roundtrip_ASbx (op a s : Int) (h : -131071 ≤ s ∧ s ≤ 131072) :
    opGetOpCode (opCreateASbx op a s) = (op % 64).toNat ∧
    opGetArgA (opCreateASbx op a s) = (a % 256).toNat ∧
    opGetArgSbx (opCreateASbx op a s) = s ∧
    opCreateASbx op a s < 4294967296 := by
  simp only [opCreateASbx, opSetOpCode, opSetArgA, opSetArgSbx, opSetArgBx, opGetOpCode, opGetArgA, opGetArgSbx, opGetArgBx]
  omega

/-- outside that range the operand silently wraps (why the compiler must range-check jumps and label ids) -/
theorem opcode_sbx_wraps : opGetArgSbx (opCreateASbx 25 0 (-131072)) = 131072 ∧
    opGetArgSbx (opCreateASbx 25 0 131073) = -131071 := by decide

/-- in-place setters on any 32-bit word: the field is replaced, every other field is untouched -/
theorem opcode_setters (i : Nat) (x : Int) (h : i < 4294967296) :
    (opGetArgA (opSetArgA i x) = (x % 256).toNat ∧ opGetOpCode (opSetArgA i x) = opGetOpCode i ∧
      opGetArgB (opSetArgA i x) = opGetArgB i ∧ opGetArgC (opSetArgA i x) = opGetArgC i) ∧
    (opGetArgB (opSetArgB i x) = (x % 512).toNat ∧ opGetOpCode (opSetArgB i x) = opGetOpCode i ∧
      opGetArgA (opSetArgB i x) = opGetArgA i ∧ opGetArgC (opSetArgB i x) = opGetArgC i) ∧
    (opGetArgC (opSetArgC i x) = (x % 512).toNat ∧ opGetOpCode (opSetArgC i x) = opGetOpCode i ∧
      opGetArgA (opSetArgC i x) = opGetArgA i ∧ opGetArgB (opSetArgC i x) = opGetArgB i) ∧
    (opGetArgBx (opSetArgBx i x) = (x % 262144).toNat ∧ opGetOpCode (opSetArgBx i x) = opGetOpCode i ∧
      opGetArgA (opSetArgBx i x) = opGetArgA i) ∧
    (opGetOpCode (opSetOpCode i x) = (x % 64).toNat ∧ opGetArgA (opSetOpCode i x) = opGetArgA i ∧
      opGetArgBx (opSetOpCode i x) = opGetArgBx i) ∧
    opSetArgA i x < 4294967296 ∧ opSetArgB i x < 4294967296 ∧ opSetArgC i x < 4294967296 ∧
    opSetArgBx i x < 4294967296 ∧ opSetOpCode i x < 4294967296 := by
  have a := setA_fields i x h; have b := setB_fields i x h; have c := setC_fields i x h
  have d := setBx_fields i x h; have e := setOp_fields i x
  exact ⟨⟨a.1, a.2.1, a.2.2.1, a.2.2.2.1⟩, b, c, d, ⟨e.1, e.2.1, e.2.2.2.2⟩,
    setA_lt i x h, setB_lt i x, setC_lt i x h, setBx_lt i x, setOp_lt i x⟩

/-- Bx and (B, C) are two views of the same 18 bits; sBx is Bx shifted by opMaxArgSbx -/
theorem opcode_views (i : Nat) :
    opGetArgBx i = opGetArgC i * 512 + opGetArgB i ∧ opGetArgSbx i = (opGetArgBx i : Int) - 131071 := by
  simp only [opGetArgBx, opGetArgB, opGetArgC, opGetArgSbx]; omega

/-- RK operands: `opRkAsk` marks a constant index, `opIsK` recognises it, `opIndexK` recovers it -/
theorem opcode_rk (v : Int) (h : 0 ≤ v ∧ v ≤ 255) :
    opIsK (opRkAsk v) = true ∧ opIndexK (opRkAsk v) = v ∧ opIsK v = false ∧ 256 ≤ opRkAsk v ∧ opRkAsk v ≤ 511 := by
  refine ⟨?_, ?_, ?_, ?_, ?_⟩
  · unfold opIsK opRkAsk; exact decide_eq_true (by omega)
  · unfold opIndexK opRkAsk; omega
  · unfold opIsK; exact decide_eq_false (by omega)
  · unfold opRkAsk; omega
  · unfold opRkAsk; omega

theorem opcode_isK_iff (v : Nat) (h : v ≤ 511) : isK v = true ↔ 256 ≤ v := by
  simp only [isK, opIsK, decide_eq_true_eq]; omega

theorem opcode_idxK (v : Nat) (h : 256 ≤ v ∧ v ≤ 511) : idxK v = v - 256 := by
  simp only [idxK, opIndexK]; omega

/-! ## (2) soundness of the verifier -/

/-- pcs reachable in the abstract VM from the entry point, with nondeterministic branching -/
inductive Reach (p : Proto) : Nat → Prop
  | entry : Reach p 0
  | next {pc s : Nat} {succs : List Nat} : Reach p pc → step p pc = .ok succs → s ∈ succs → Reach p s

/-- **wf_sound_step** — one-step safety invariant: at an instruction start of a well-formed prototype the VM step
    indexes nothing out of range (Code, Constants, stringConstants, FunctionPrototypes, Upvalues, jumpTable, frame
    registers) and every possible next pc is again an instruction start inside the function. -/
theorem wf_sound_step {p : Proto} (h : wf p = true) {pc : Nat} (hs : isStart p pc = true) :
    ∃ succs, step p pc = .ok succs ∧ ∀ s ∈ succs, isStart p s = true ∧ s < p.code.size := by
  have hat := wfWith_at h hs
  obtain ⟨succs, h1, h2⟩ := stepOk_elim hat.2.1
  refine ⟨succs, h1, fun s hsm => ⟨h2 s hsm, ?_⟩⟩
  have := isSt_lt (h2 s hsm)
  rwa [headerOk_size (wfWith_header h)] at this

theorem wf_entry {p : Proto} (h : wf p = true) : isStart p 0 = true := by
  have hh := wfWith_header h
  unfold headerOk at hh
  simp only [Bool.and_eq_true] at hh
  exact hh.1.1.1.2

/-- **wf_sound** — lifted to all runs: every reachable pc is an instruction start and its step does not fault. -/
theorem wf_sound {p : Proto} (h : wf p = true) {pc : Nat} (hr : Reach p pc) :
    isStart p pc = true ∧ ∃ succs, step p pc = .ok succs := by
  have inv : isStart p pc = true := by
    induction hr with
    | entry => exact wf_entry h
    | next _ hstep hmem ih =>
      obtain ⟨succs', h1, h2⟩ := wf_sound_step h ih
      rw [hstep] at h1
      cases h1
      exact (h2 _ hmem).1
  obtain ⟨succs, h1, _⟩ := wf_sound_step h inv
  exact ⟨inv, succs, h1⟩

/-- no run of a well-formed prototype ever takes a Go-panic branch of the VM model -/
theorem wf_never_panics {p : Proto} (h : wf p = true) {pc : Nat} (hr : Reach p pc) (site : String) :
    step p pc ≠ .error (.goPanic site) := by
  obtain ⟨_, succs, h1⟩ := wf_sound h hr
  rw [h1]; intro hc; cases hc

/-- the pc of every run stays inside the code -/
theorem wf_pc_in_code {p : Proto} (h : wf p = true) {pc : Nat} (hr : Reach p pc) : pc < p.code.size := by
  have := isSt_lt (wf_sound h hr).1
  rwa [headerOk_size (wfWith_header h)] at this

/-! ## (3) what `wf` says, in the property's words -/

/-- jumps, skips and fall-through never land inside a multi-word group: the capture list after a CLOSURE and the
    extra word of an extended SETLIST are never reached as instructions. -/
theorem wf_no_entry_into_group {p : Proto} (h : wf p = true) {pc s k : Nat} (hs : isStart p pc = true)
    (hk : 0 < k) (hk' : k < groupLen p pc) (hr : Reach p s) : s ≠ pc + k := by
  intro e
  have h1 := (wf_sound h hr).1
  have h2 := startsOkAt_interior (wfWith_at h hs).1 hk hk'
  rw [e] at h1
  unfold isStart at h1
  rw [h2] at h1
  cases h1

/-- a group never crosses the end of the code -/
theorem wf_group_inside {p : Proto} (h : wf p = true) {pc : Nat} (hs : isStart p pc = true) :
    pc + groupLen p pc ≤ p.code.size :=
  startsOkAt_bound (wfWith_at h hs).1

/-- register count within the VM frame limit, code ends in a RETURN that is an instruction, line table as long
    as the code, as many upvalues as captured names, parameters inside the frame. -/
theorem wf_header {p : Proto} (h : wf p = true) :
    p.numRegs ≤ 200 ∧ p.numRegs ≤ 256 ∧ p.numParams < p.numRegs ∧ p.numUpvalues = p.nDbgUpvalues ∧
    p.nLines = p.code.size ∧ 0 < p.code.size ∧ p.strConsts.size = p.consts.size ∧
    isStart p (p.code.size - 1) = true ∧ isOp p (p.code.size - 1) 33 = true := by
  have hh := wfWith_header h
  unfold headerOk at hh
  simp only [Bool.and_eq_true, decide_eq_true_eq] at hh
  have hm : maxRegisters = 200 := by decide
  have hr := hh.1.1.1.1.1.1.1.1.1.1.1.1.1
  rw [hm] at hr
  exact ⟨hr, by omega, hh.1.1.1.1.1.1.1.1.1.1.1.2, hh.1.1.1.1.1.1.1.1.1.1.2, hh.1.1.1.1.1.1.1.1.1.2,
    hh.1.1.2, hh.1.1.1.1.1.1.2, hh.1.2, hh.2⟩

/-- every explicit operand condition of `hyg` holds at every instruction start -/
theorem wf_operands {p : Proto} (h : wf p = true) {pc : Nat} (hs : isStart p pc = true) : hyg p pc = true :=
  (wfWith_at h hs).2.2

/-- instances of `wf_operands` spelled out: MOVE and LOADK -/
theorem wf_move_loadk {p : Proto} (h : wf p = true) {pc w : Nat} (hs : isStart p pc = true) (hw : p.code[pc]? = some w) :
    ((decode w).op = 0 → (decode w).a < p.numRegs ∧ (decode w).b < p.numRegs) ∧
    ((decode w).op = 2 → (decode w).a < p.numRegs ∧ (decode w).bx < p.consts.size) := by
  have := wf_operands h hs
  unfold hyg at this
  rw [hw] at this
  constructor
  · intro hop; simp only [hop, decide_eq_true_eq] at this; exact this
  · intro hop; simp only [hop, decide_eq_true_eq] at this; exact this

/-- string-keyed global access names a string constant, and `stringConstants` holds exactly that string -/
theorem wf_global_name_is_string {p : Proto} (h : wf p = true) {pc w : Nat} (hs : isStart p pc = true)
    (hw : p.code[pc]? = some w) (hop : (decode w).op = 6 ∨ (decode w).op = 9) :
    ∃ s, p.consts[(decode w).bx]? = some (some s) ∧ p.strConsts[(decode w).bx]? = some s := by
  have hy := wf_operands h hs
  unfold hyg at hy
  rw [hw] at hy
  have hstr : isStrConst p (decode w).bx = true := by
    rcases hop with hop | hop <;> simp only [hop, Bool.and_eq_true] at hy <;> exact hy.2
  unfold isStrConst at hstr
  cases hc : p.consts[(decode w).bx]? with
  | none => rw [hc] at hstr; cases hstr
  | some o =>
    cases o with
    | none => rw [hc] at hstr; cases hstr
    | some s =>
      refine ⟨s, rfl, ?_⟩
      have hlt : (decode w).bx < p.consts.size := by
        by_cases hlt : (decode w).bx < p.consts.size
        · exact hlt
        · have : p.consts[(decode w).bx]? = none := by simp; omega
          rw [this] at hc; cases hc
      have hh := wfWith_header h
      unfold headerOk at hh
      simp only [Bool.and_eq_true, List.all_eq_true, List.mem_range] at hh
      have hag := hh.1.1.1.1.1.2 (decode w).bx hlt
      rw [hc] at hag
      cases hs2 : p.strConsts[(decode w).bx]? with
      | none => rw [hs2] at hag; cases hag
      | some s' =>
        rw [hs2] at hag
        simp only [beq_iff_eq] at hag
        rw [hag]

/-- successors / fault site of one step, as plain data (for the concrete witnesses below) -/
def succsOf (p : Proto) (pc : Nat) : Option (List Nat) :=
  match step p pc with
  | .ok s => some s
  | .error _ => none
def faultOf (p : Proto) (pc : Nat) : Option String :=
  match step p pc with
  | .ok _ => none
  | .error e => some e.show

/-! ## non-vacuity and negative witnesses (real compiler outputs, re-compiled from corpus/C07 on every run) -/

/-- output of the real compiler (with the proposed fixes) for
    `local n = 0  for i = 1, 3 do local f = function() return i + n end n = f() end  return n`:
    numeric for, CLOSURE with a two-entry capture list, CLOSE, call, two RETURNs. -/
def sampleProto : Proto :=
  { code := #[134217728, 134479873, 134742018, 135004161, 2349203462, 2618556416, 4, 0, 1572869, 2081948673, 6, 2550398976, 2282094583, 2214592514, 2214592513],
    consts := #[none, none, none], strConsts := #["", "", ""], protoNups := #[2],
    numUpvalues := 0, nDbgUpvalues := 0, numParams := 0, isVarArg := 7, numRegs := 7, nLines := 15 }
/-- its nested function `function() return i + n end` (two upvalues) -/
def sampleProto_0 : Proto :=
  { code := #[335544320, 335806465, 1006633472, 2214592514, 2214592513],
    consts := #[], strConsts := #[], protoNups := #[],
    numUpvalues := 2, nDbgUpvalues := 2, numParams := 0, isVarArg := 0, numRegs := 2, nLines := 5 }

/-- the hypotheses of `wf_sound` are satisfiable by non-trivial real outputs -/
theorem sample_wf : wf sampleProto = true ∧ wf sampleProto_0 = true := by decide +kernel

/-- … and the capture list is really protected: pc 6 and 7 (the two capture words) are not instruction starts,
    pc 5 (CLOSURE) and pc 8 are; the loop's back edge and exit are reachable. -/
theorem sample_starts : isStart sampleProto 5 = true ∧ isStart sampleProto 6 = false ∧ isStart sampleProto 7 = false ∧
    isStart sampleProto 8 = true ∧ groupLen sampleProto 5 = 3 ∧
    succsOf sampleProto 12 = some [5, 13] ∧ succsOf sampleProto 4 = some [12] := by decide +kernel

/-- the verifier is not vacuous the other way either: corrupting one operand of the sample is detected
    (jump into the capture list / register past the frame / constant index out of range / truncated capture list). -/
theorem sample_mutants_rejected :
    wf { sampleProto with code := sampleProto.code.set! 4 (opCreateASbx 35 1 1) } = false ∧
    wf { sampleProto with code := sampleProto.code.set! 8 (opCreateABC 0 7 5 0) } = false ∧
    wf { sampleProto with code := sampleProto.code.set! 0 (opCreateABx 2 0 3) } = false ∧
    wf { sampleProto with protoNups := #[4] } = false ∧
    wf { sampleProto with protoNups := #[] } = false ∧
    wf { sampleProto with numRegs := 6 } = false ∧
    wf { sampleProto with nLines := 14 } = false ∧
    wf { sampleProto with code := sampleProto.code.pop } = false := by decide +kernel

/-- outputs of EARLIER trees (/repo @ c769cb9, before the repairs) for four tiny sources, each rejected:
    `function u.a() end` (CLOSURE writes R2 with NumUsedRegisters = 2; fixes/C07-register-count),
    `for k in next, t do end` (the control register R2 is never initialised and lies outside the frame; 5922fa6),
    `for a, b, c in pairs(h) do return c end` (RETURN reads R5 with NumUsedRegisters = 3; fixes/C07-register-count),
    `local v1 = 1  v1, v1, v1[5] = {}, (...), 3` (`MOVE 0 511`: register −1 wrapped into the 9-bit field, running it
    dereferences a Go nil; repaired by 7d630d9 — the driver still recognises the class as C07-assign-negative-register).
    The same sources are in corpus/C07 and are re-compiled and verified on every run. -/
def kfAssignProto : Proto :=
  { code := #[134217728, 134479873, 872939520, 2, 2684354562, 738329601, 67109376, 511, 2214592513],
    consts := #[none, none, none], strConsts := #["", "", ""], protoNups := #[],
    numUpvalues := 0, nDbgUpvalues := 0, numParams := 0, isVarArg := 3, numRegs := 3, nLines := 9 }
def unfixedClosureProto : Proto :=
  { code := #[402653184, 134479873, 2617769984, 805307393, 2214592513],
    consts := #[some "75", some "61"], strConsts := #["75", "61"], protoNups := #[0],
    numUpvalues := 0, nDbgUpvalues := 0, numParams := 0, isVarArg := 7, numRegs := 2, nLines := 5 }
def unfixedGenforProto : Proto :=
  { code := #[402653184, 402915329, 2751594498, 2415919616, 1677852669, 2214592513],
    consts := #[some "6e657874", some "74"], strConsts := #["6e657874", "74"], protoNups := #[],
    numUpvalues := 0, nDbgUpvalues := 0, numParams := 0, isVarArg := 7, numRegs := 2, nLines := 6 }
def unfixedLoopRegProto : Proto :=
  { code := #[402653184, 402915329, 2080376834, 1677852672, 2215903234, 2415920640, 1677852668, 2214592513],
    consts := #[some "7061697273", some "68"], strConsts := #["7061697273", "68"], protoNups := #[],
    numUpvalues := 0, nDbgUpvalues := 0, numParams := 0, isVarArg := 7, numRegs := 3, nLines := 8 }

theorem unfixed_outputs_rejected :
    wf unfixedClosureProto = false ∧ wf unfixedGenforProto = false ∧ wf unfixedLoopRegProto = false ∧
    wf kfAssignProto = false ∧ faultOf kfAssignProto 7 = some "gopanic:register read outside the frame" ∧
    faultOf unfixedGenforProto 3 = some "gopanic:register read outside the frame" := by decide +kernel

/-! ## (4) compile ⇒ wf, proved for the modelled compiler fragment -/

section fragment
open GLua.Compile GLua.MiniVM GLua.CompileWf

-- every theorem of this section holds for EVERY number structure (the carrier and operations constant folding computes
-- with are uninterpreted, Spec/CondAst.lean); the kernel-evaluated witnesses use the integer structure `intNS`.
variable [NumStruct]

/-- **compile_fragment_wf** — every program of the modelled fragment that satisfies the explicit guards `FragOK`
    (well scoped: every local it mentions is below the register top the compiler has at that point; accepted by the
    model compiler, i.e. patchCode raises neither "too long to jump." nor "register overflow"; at most 2^18 constants)
    is compiled — compileFunctionExpr → patchCode → encoder → FunctionProto — to a
    prototype that the verifier accepts. -/
theorem compile_fragment_wf (nlocals : Nat) (body : Block) (h : FragOK nlocals body = true) :
    ∃ p, fragProto nlocals body = .ok p ∧ wf p = true :=
  fragOK_wf nlocals body h

/-- … and therefore no run of the compiled prototype takes a Go-panic branch of the VM model, every reachable pc is an
    instruction start inside the code (`wf_sound` composed with `compile_fragment_wf`). -/
theorem compile_fragment_never_faults (nlocals : Nat) (body : Block) (h : FragOK nlocals body = true) (p : Proto)
    (hp : fragProto nlocals body = .ok p) {pc : Nat} (hr : Reach p pc) :
    pc < p.code.size ∧ isStart p pc = true ∧ (∃ succs, step p pc = .ok succs) ∧ ∀ site, step p pc ≠ .error (.goPanic site) := by
  obtain ⟨p', hp', hwf⟩ := compile_fragment_wf nlocals body h
  rw [hp] at hp'; cases hp'
  exact ⟨wf_pc_in_code hwf hr, (wf_sound hwf hr).1, (wf_sound hwf hr).2, wf_never_panics hwf hr⟩

/-- the guards are satisfiable by a non-trivial program: `local l0, l1 = ...` then a while loop with a compound
    condition (arithmetic with a folded constant, unary minus, length) and a swapping multiple assignment with a
    concatenation chain, if/else with return and a global store, repeat with a body local used by the until-condition
    (more than 25 words, at least 4 registers). -/
def fragSample : Block := Block.ofList [
  .whileS (.and (.rel .lt (.arith .add (.loc 0) (.arith .mul (.num 2) (.num 3))) (.unm (.len (.ev 0)))) (.not (.ev 0)))
    (Block.ofList [.assign [.loc 0, .loc 1]
      [.concat (.loc 1) (.concat (.str "x") (.arith .mod (.loc 0) (.num 2))), .or (.loc 0) (.num 1)]]),
  .ifS (.rel .eq (.loc 0) (.loc 1)) (Block.ofList [.ret [.arith .pow (.loc 0) (.loc 1)]]) (Block.ofList [.assign [.glob 1] [.nil]]),
  .repeatS (Block.ofList [.localDef (.rel .le (.loc 0) (.ev 0))]) (.loc 2)]

omit [NumStruct] in
theorem fragSample_ok : @FragOK intNS 2 fragSample = true ∧
    (@fragProto intNS 2 fragSample).toOption.map (fun p => (decide (25 < p.code.size), decide (4 ≤ p.numRegs))) = some (true, true) := by
  decide +kernel
example : ∃ p, @fragProto intNS 2 fragSample = .ok p ∧ wf p = true :=
  @compile_fragment_wf intNS 2 fragSample fragSample_ok.1

omit [NumStruct] in
/-- the scoping guard is necessary: `return l5` with two chunk locals is compiled by the model (the real compiler never
    sees such a tree: name resolution would make `l5` a global) to `RETURN 5 2` with NumUsedRegisters = 3, which the
    verifier rejects — so `FragOK` cannot be weakened to "the model compiler succeeds". -/
theorem compile_fragment_needs_scoping :
    scopeOK 2 (Block.ofList [.ret [.loc 5]]) = false ∧
    (@fragProto intNS 2 (Block.ofList [.ret [.loc 5]])).toOption.map (fun p => (wf p, p.numRegs)) = some (false, 3) := by
  decide +kernel

/-! ### the sub-properties, in the property's words (all corollaries of `compile_fragment_wf`; (1)–(4) of the task) -/

/-- in a prototype of the fragment every word is an instruction start (there is no CLOSURE capture list and no
    extended SETLIST; MOVEN tails are complete MOVE instructions, see calibration 1 in notes/C07.md). -/
theorem compile_fragment_all_starts (nlocals : Nat) (body : Block) (h : FragOK nlocals body = true) (p : Proto)
    (hp : fragProto nlocals body = .ok p) {pc : Nat} (hpc : pc < p.code.size) : isStart p pc = true := by
  unfold FragOK at h
  rw [Bool.and_eq_true] at h
  obtain ⟨hs, hg⟩ := h
  unfold fragProto at hg hp
  simp only [] at hg hp
  cases hpat : patchCode (compileMain nlocals body) with
  | error e => simp [hpat] at hp
  | ok r =>
    obtain ⟨code, nregs⟩ := r
    simp only [hpat, decide_eq_true_eq, Except.ok.injEq] at hg hp
    subst hp
    have hc := fragOK_cert nlocals body hs code nregs hpat (by rwa [toProto_consts_size] at hg)
    have hgl : ∀ j, j < (toProto nlocals (compileMain nlocals body).consts code nregs).code.size →
        groupLen (toProto nlocals (compileMain nlocals body).consts code nregs) j = 1 := by
      intro j hj
      rw [toProto_code_size] at hj
      have hx : code[j]? = some code[j] := by simp [hj]
      obtain ⟨h1, h2, h3⟩ := xi_op (hc.xi j _ hx)
      exact groupLen_one (w := encode (compileMain nlocals body).consts code[j]) (by rw [toProto_code_get, hx]; rfl)
        (by rw [dec_op _ _ h1]; exact h2) (by rw [dec_op _ _ h1]; exact h3)
    exact (startMap_all _ hgl).2 pc hpc

/-- (1) jump targets: whatever a JMP / conditional skip / LOADBOOL skip / fall-through at any pc of the compiled
    prototype can continue with (all successors of the abstract VM step, after label resolution, jump threading and
    MOVEN merging) is inside the code and an instruction start. -/
theorem compile_fragment_jump_targets (nlocals : Nat) (body : Block) (h : FragOK nlocals body = true) (p : Proto)
    (hp : fragProto nlocals body = .ok p) {pc : Nat} (hpc : pc < p.code.size) :
    ∃ succs, step p pc = .ok succs ∧ ∀ s ∈ succs, s < p.code.size ∧ isStart p s = true := by
  obtain ⟨p', hp', hwf⟩ := compile_fragment_wf nlocals body h
  rw [hp] at hp'; cases hp'
  obtain ⟨succs, h1, h2⟩ := wf_sound_step hwf (compile_fragment_all_starts nlocals body h p hp hpc)
  exact ⟨succs, h1, fun s hs => ⟨(h2 s hs).2, (h2 s hs).1⟩⟩

/-- (2)+(3) registers and constants: `NumUsedRegisters` (patchCode's count) is within the frame limit and every
    explicit operand condition of the verifier (`hyg`: register operands below NumUsedRegisters, constant indices inside
    the pool, RK operands well formed, global names are string constants, …) holds at EVERY word. -/
theorem compile_fragment_operands (nlocals : Nat) (body : Block) (h : FragOK nlocals body = true) (p : Proto)
    (hp : fragProto nlocals body = .ok p) :
    p.numRegs ≤ 200 ∧ p.numParams < p.numRegs ∧ ∀ pc, pc < p.code.size → hyg p pc = true := by
  obtain ⟨p', hp', hwf⟩ := compile_fragment_wf nlocals body h
  rw [hp] at hp'; cases hp'
  have hh := wf_header hwf
  exact ⟨hh.1, hh.2.2.1, fun pc hpc => wf_operands hwf (compile_fragment_all_starts nlocals body h p hp hpc)⟩

/-- (4) the code is not empty, ends in RETURN, and the header counts agree (line table as long as the code — by
    construction of `toProto`, tied by the harness —, stringConstants as long as Constants). -/
theorem compile_fragment_ends_in_return (nlocals : Nat) (body : Block) (h : FragOK nlocals body = true) (p : Proto)
    (hp : fragProto nlocals body = .ok p) :
    0 < p.code.size ∧ isOp p (p.code.size - 1) 33 = true ∧ p.nLines = p.code.size ∧ p.strConsts.size = p.consts.size := by
  obtain ⟨p', hp', hwf⟩ := compile_fragment_wf nlocals body h
  rw [hp] at hp'; cases hp'
  have hh := wf_header hwf
  exact ⟨hh.2.2.2.2.2.1, hh.2.2.2.2.2.2.2.2, hh.2.2.2.2.1, hh.2.2.2.2.2.2.1⟩

/-- the literal reading of (1) "a jump never lands inside a MOVEN group" is FALSE of the compiler: patchCode merges
    MOVE runs across jump targets.  Witness (model compiler = real compiler, word for word):
    `local l0, l1 = ...  if g0 then l0 = l1 end  l1 = l0` — the JMP at pc 3 lands on pc 5, the tail of the
    MOVEN at pc 4.  This is why `wf` treats MOVEN tails as instruction starts and demands that they are MOVEs. -/
def jump_never_into_moven_full : Prop :=
  ∀ (nlocals : Nat) (body : Block), FragOK nlocals body = true →
    ∀ code nregs, patchCode (compileMain nlocals body) = .ok (code, nregs) →
      ∀ (pc : Nat) (d : Int) (j a b c : Nat), code[pc]? = some (.jmp d) → code[j]? = some (.moven a b c) →
        ¬ ((j : Int) < (pc : Int) + 1 + d ∧ (pc : Int) + 1 + d ≤ (j : Int) + c)

def movenWitness : Block := Block.ofList [
  .ifS (.ev 0) (Block.ofList [.assign [.loc 0] [.loc 1]]) .nil,
  .assign [.loc 1] [.loc 0]]

omit [NumStruct] in
theorem jump_never_into_moven_full_fails : ¬ @jump_never_into_moven_full intNS := by
  letI := intNS
  intro hall
  have hok : FragOK 2 movenWitness = true := by decide +kernel
  have hpat' : (patchCode (compileMain 2 movenWitness)).toOption =
      some ([.abc 40 0 3 0, .eval 2 0, .test 2 0 0, .jmp 1, .moven 0 1 1, .move 1 0, .ret 0 1], 3) := by decide +kernel
  have hpat : patchCode (compileMain 2 movenWitness) =
      .ok ([.abc 40 0 3 0, .eval 2 0, .test 2 0 0, .jmp 1, .moven 0 1 1, .move 1 0, .ret 0 1], 3) := by
    cases hx : patchCode (compileMain 2 movenWitness) with
    | error e => rw [hx] at hpat'; cases hpat'
    | ok v => rw [hx] at hpat'; simp only [Except.toOption, Option.some.injEq] at hpat'; rw [hpat']
  exact hall 2 movenWitness hok _ _ hpat 3 1 4 0 1 1 rfl rfl ⟨by decide, by decide⟩

/-! ### the compile-state invariant and patchCode, as statements of their own -/

/-- the invariant behind the proof, for every well-scoped program (no size guard): scanning the UNPATCHED code with
    patchCode's register high-water mark, every instruction only reads registers counted before it, constant / RK /
    global-name operands are inside the pool; every label is bound inside the code; the code is `c ++ [RETURN 0 1]`
    and `c` does not end in an instruction that can skip. -/
theorem compile_fragment_invariant (nlocals : Nat) (body : Block) (hs : scopeOK nlocals body = true) :
    Inv (compileMain nlocals body) ∧
    (∀ p ∈ (compileMain nlocals body).labelPc, -1 ≤ p.2 ∧ p.2 + 1 < ((compileMain nlocals body).code.length : Int)) ∧
    ∃ c, (compileMain nlocals body).code = c ++ [.ret 0 1] ∧ (∀ i, c.getLast? = some i → isSkip i = false) :=
  main_post nlocals body hs

/-- patchCode, index by index (ANY compile state): the length is kept, NumUsedRegisters is the fold of `maxregOf`
    plus one and within maxRegisters, and at every index the patched instruction is related to the unpatched one by
    `Fin`: JMP ↦ JMP distance-of-threadJmp / NOP (distance 0 and not behind a TFORLOOP), the first MOVE of a maximal run of ≥ 2 MOVEs that is followed by
    another instruction ↦ MOVEN with C = min(run − 1, 511), everything else unchanged. -/
theorem patchCode_index_invariant (st : CState) (code : List Instr) (nregs : Nat) (h : patchCode st = .ok (code, nregs)) :
    code.length = st.code.length ∧ nregs = mr st.code + 1 ∧ nregs ≤ maxRegisters ∧
    ∀ j, j < st.code.length → ∃ x, code[j]? = some x ∧ Fin st.code st.labelPc j x :=
  patchCode_spec st code nregs h

/-- patchCode itself never faults, on ANY compile state: its only failures are the two compile errors (like HEAD's
    patchCode the model's jump-to-jump loop stops at a target outside the code instead of indexing `orig` with it). -/
theorem compile_fragment_errors (st : CState) (e : String) (h : patchCode st = .error e) :
    e = "too long to jump." ∨ e = "register overflow(too many local variables)" := by
  unfold patchCode at h
  simp only [bind, Except.bind, pure, Except.pure] at h
  cases hl : patchLoop st.code st.labelPc st.code.length 0 { code := st.code, maxreg := 1, moven := 0 } with
  | error e' =>
    simp only [hl, Except.error.injEq] at h
    subst h
    exact Or.inl (patchLoop_errors _ _ _ _ _ _ hl)
  | ok ps =>
    simp only [hl] at h
    split at h
    · simp only [Except.error.injEq] at h; exact Or.inr h.symm
    · cases h

/-- … and on a well-scoped program every hop of the jump-to-jump loop lands INSIDE the code (the stop-at-the-end
    branch is never taken): every label a JMP refers to is bound inside the code. -/
theorem compile_fragment_labels_inside (nlocals : Nat) (body : Block) (hs : scopeOK nlocals body = true) :
    LG (compileMain nlocals body).code (compileMain nlocals body).labelPc :=
  (origOK_main nlocals body hs).lg

/-- both errors occur (so `FragOK`'s "accepted by the compiler" is a real guard): 200 chunk locals overflow the frame. -/
example : (match @fragProto intNS 200 .nil with
    | .error e => e == "register overflow(too many local variables)"
    | .ok _ => false) = true := by decide +kernel

end fragment

end GLua.Props.C07
