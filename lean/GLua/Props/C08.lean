/-
  C08 — loading arbitrary bytes ends in a function or a syntax error, never a crash; layout is irrelevant.

  Property theorems over the scanner model GLua/Model/Lexer.lean (a transcription of /repo/parse/lexer.go, tied to
  the code by the token-stream correspondence on every run: real `Scanner.Scan` vs `Lexer.lex`, exact including
  line, column, PNewLine and the error value).  The reference is GLua/Spec/LexSpec.lean (Lua 5.1 manual §2.1).
  Lemmas live in GLua/Proofs/Lexer.lean and GLua/Proofs/LexerLit.lean.

  What is NOT a theorem here (observed on the real code only, see notes/C08.md): the goyacc driver, the compiler's
  diagnostics, layout invariance of the compiled prototype.
-/
import GLua.Proofs.Lexer
import GLua.Proofs.LexerLit
import GLua.Proofs.LexerBlank

namespace GLua.Props.C08
open GLua GLua.Lexer
open GLua.LexSpec (lineMap)

/-! ## never hangs -/

/-- **lexer_total_progress** — the scanner model is a total function (every loop of lexer.go is defined by
    well-founded recursion on the unread input), and every `Scan` call that returns a token other than EOF has
    consumed at least one byte: a parser that keeps asking for tokens reaches EOF or an error. -/
theorem lexer_total_progress (prev : Int) (s : Sc) (t : Token) (pnl : Bool) (s' : Sc)
    (h : scan prev s = .tok t pnl s') (ht : 0 ≤ t.type) : s'.rest.length < s.rest.length :=
  scan_progress prev s t pnl s' h ht

/-- no sub-scanner ever "un-reads": whatever `Scan` returns, the unread input has not grown. -/
theorem scan_never_grows (prev : Int) (s : Sc) (t : Token) (pnl : Bool) (s' : Sc)
    (h : scan prev s = .tok t pnl s') : s'.rest.length ≤ s.rest.length := by
  by_cases ht : 0 ≤ t.type
  · exact Nat.le_of_lt (scan_progress prev s t pnl s' h ht)
  · -- EOF token: the state is reachable by `Next` calls, which never add input
    have : ∀ a b : Sc, Reach a b → b.rest.length ≤ a.rest.length := by
      intro a b r
      induction r with
      | refl => exact Nat.le_refl _
      | step _ ih => exact Nat.le_trans ih (next_rest_le _)
    -- the state after `Scan` is reachable by `Next` calls
    have hr : Reach s s' := by
      clear this ht
      fun_induction scan prev s
      · simp at h
      · rename_i s hc s'' hsc ih
        exact (((skipBlanks_reach s).trans (Reach.next _)).trans (skipComments_reach _ _ _ hsc)).trans (ih h)
      · simp at h
      · rename_i s hc t' s'' hst
        simp only [ScanRes.tok.injEq] at h
        obtain ⟨_, _, h3⟩ := h
        subst h3
        exact (skipBlanks_reach s).trans (scanToken_reach _ _ _ _ hst).1
    exact this s s' hr

/-- the whole token stream of an input has at most one token per byte, plus EOF. -/
theorem lex_token_count_bounded (input : List UInt8) : (lex input).toks.length ≤ input.length + 1 :=
  lexAll_length 0 (initSc input)

/-! ## line numbers -/

/-- **lex_line_count** — for every input and every token of its stream other than EOF, the token's `Pos.Line` is
    the Spec's line of the token's first byte: 1 + the number of line terminators (\n, \r, \r\n, \n\r; a pair
    counts once) before it — also after comments, strings with escaped line ends and long brackets spanning lines,
    and after rejected or accepted numerals. -/
theorem lex_line_count (input : List UInt8) :
    ∀ p ∈ (lex input).toks, 0 ≤ p.1.type → (lineMap 1 input)[p.1.off]? = some p.1.line :=
  lexAll_line input 0 (initSc input) rfl

/-- the Spec's line map on a text with all four kinds of line terminators (non-vacuity of the reference). -/
example : lineMap 1 [97, 13, 10, 98, 10, 13, 10, 99, 13, 13] = [1, 1, 1, 2, 2, 2, 3, 4, 4, 5] := by
  simp [GLua.LexSpec.lineMap]

/-! ## literal denotation -/

/-- **escape_denotes** — each escape sequence of the manual's table is accepted, denotes the byte the manual gives
    it and consumes exactly the escape character. -/
theorem escape_denotes (c v : UInt8) (hm : (c, v) ∈ escapeTable) (buf : Buf) (r : List UInt8)
    (line col : Int) (off : Nat) :
    scanEscape buf { rest := c :: r, line := line, col := col, off := off } =
      .ok (buf ++ [v], { rest := r, line := line, col := col + 1, off := off + 1 }) :=
  GLua.Lexer.escape_denotes c v hm buf r line col off

example : ((110 : UInt8), (10 : UInt8)) ∈ escapeTable ∧ escapeTable.length = 10 := by decide

/-- **decimal_escape_denotes** — a three-digit decimal escape with value ≤ 255 is accepted, appends exactly the
    byte with that value and consumes exactly the three digits. -/
theorem decimal_escape_denotes (d1 d2 d3 : UInt8) (h1 : IsDig d1) (h2 : IsDig d2) (h3 : IsDig d3)
    (hv : (d1.toNat - 48) * 100 + (d2.toNat - 48) * 10 + (d3.toNat - 48) ≤ 255)
    (buf : Buf) (r : List UInt8) (line col : Int) (off : Nat) :
    scanEscape buf { rest := d1 :: d2 :: d3 :: r, line := line, col := col, off := off } =
      .ok (buf ++ [UInt8.ofNat ((d1.toNat - 48) * 100 + (d2.toNat - 48) * 10 + (d3.toNat - 48))],
           { rest := r, line := line, col := col + 1 + 1 + 1, off := off + 1 + 1 + 1 }) := by
  have ht := escTooLarge3 d1 d2 d3 h1 h2 h3 r line col off
  have hn : ¬ ((d1.toNat - 48) * 100 + (d2.toNat - 48) * 10 + (d3.toNat - 48) > 255) := by omega
  unfold scanEscape
  rw [ht]
  simp only [hn, decide_false, Bool.false_eq_true, if_false]
  rw [decimal_escape3 d1 d2 d3 h1 h2 h3]
  simp only [byteOf]
  congr 5
  omega

/-- **decimal_escape_overflow_rejected** — a decimal escape above 255 is a lexical error
    ("escape sequence too large"), as in Lua 5.1 (since repo commit 459c17c). -/
theorem decimal_escape_overflow_rejected (d1 d2 d3 : UInt8) (h1 : IsDig d1) (h2 : IsDig d2) (h3 : IsDig d3)
    (hv : (d1.toNat - 48) * 100 + (d2.toNat - 48) * 10 + (d3.toNat - 48) > 255)
    (buf : Buf) (r : List UInt8) (line col : Int) (off : Nat) :
    ∃ e, scanEscape buf { rest := d1 :: d2 :: d3 :: r, line := line, col := col, off := off } = .error e ∧
      e.msg = "escape sequence too large" ∧ e.tok = buf := by
  have ht := escTooLarge3 d1 d2 d3 h1 h2 h3 r line col off
  unfold scanEscape
  rw [ht]
  simp only [hv, decide_true, if_true]
  exact ⟨_, rfl, rfl, rfl⟩

/-- **decimal_escape_exact** (full statement, formerly false of the code with witness `\256`): whenever the scanner
    accepts `\d1d2d3` and appends a byte, that byte has the value d1d2d3. -/
theorem decimal_escape_exact (d1 d2 d3 : UInt8) (h1 : IsDig d1) (h2 : IsDig d2) (h3 : IsDig d3)
    (buf : Buf) (r : List UInt8) (line col : Int) (off : Nat) (b : UInt8) (s' : Sc)
    (h : scanEscape buf { rest := d1 :: d2 :: d3 :: r, line := line, col := col, off := off } = .ok (buf ++ [b], s')) :
    b.toNat = (d1.toNat - 48) * 100 + (d2.toNat - 48) * 10 + (d3.toNat - 48) := by
  by_cases hv : (d1.toNat - 48) * 100 + (d2.toNat - 48) * 10 + (d3.toNat - 48) ≤ 255
  · rw [decimal_escape_denotes d1 d2 d3 h1 h2 h3 hv] at h
    simp only [Except.ok.injEq, Prod.mk.injEq, List.append_cancel_left_eq, List.cons.injEq, and_true] at h
    rw [← h.1]
    simp only [UInt8.toNat_ofNat']
    exact Nat.mod_eq_of_lt (by omega)
  · obtain ⟨e, he, _⟩ := decimal_escape_overflow_rejected d1 d2 d3 h1 h2 h3 (by omega) buf r line col off
    rw [he] at h; simp at h

example : IsDig 48 ∧ IsDig 54 ∧ IsDig 53 ∧ (48 - 48) * 100 + (54 - 48) * 10 + (53 - 48) ≤ 255 ∧
    IsDig 50 ∧ (50 - 48) * 100 + (53 - 48) * 10 + (54 - 48) > 255 := by
  unfold IsDig; decide

/-- **long_bracket_denotes_partial** — long brackets of *any* level: with the scanner just past the first `[`, the
    text `=ⁿ[content]=ⁿ]` is read as the string `content` and scanning stops right behind the closing bracket.
    Guard: the content contains no `]` and no line terminator (line terminators are normalised and a first one is
    skipped; a `]` may start a closing bracket of another level — both are exercised by the correspondence, not
    proved). -/
theorem long_bracket_denotes_partial (n : Nat) (content r : List UInt8)
    (hall : ∀ b ∈ content, Plain b ∧ b ≠ 93) (s : Sc)
    (hs : s.rest = List.replicate n 61 ++ 91 :: (content ++ 93 :: (List.replicate n 61 ++ 93 :: r))) :
    ∃ s', scanMultilineString (next s).1 [] (next s).2 = .ok (content, s') ∧ s'.rest = r :=
  long_bracket_scan n content r hall s hs

example : (∀ b ∈ ([97, 61, 91, 91] : List UInt8), Plain b ∧ b ≠ 93) ∧
    ({ rest := List.replicate 2 61 ++ 91 :: ([97, 61, 91, 91] ++ 93 :: (List.replicate 2 61 ++ 93 :: [32])) } : Sc).rest.length = 12 := by
  refine ⟨?_, by decide⟩
  intro b hb
  simp only [List.mem_cons, List.mem_nil_iff, or_false] at hb
  rcases hb with rfl | rfl | rfl | rfl <;> (unfold Plain; decide)

/-! ## layout: blanks

  `lex_render_roundtrip` (for every token list and every choice of separators, lexing the rendering gives back the
  tokens) is NOT proved; what is proved is its blank-skipping core, for runs of blanks of any length and any mix of
  space, tab, form feed, vertical tab, LF, CR (hence CRLF and LFCR).  Comments, token fusion and the token scanners'
  independence of positions are covered by the correspondence and the Impl-vs-Impl layout check only. -/

/-- **blank_run_skipped** — whatever run of blanks precedes a token's first byte `c`, the prologue of `Scan` hands
    exactly `c` to the token switch with the unread input right behind it: blanks never eat token bytes and never
    stop early (with the masks as regenerated from the source, i.e. including `\f` and `\v` after the proposed fix). -/
theorem blank_run_skipped (bs : List UInt8) (hall : ∀ b ∈ bs, IsBlank b) (c : UInt8) (r : List UInt8)
    (hc : Plain c)
    (hc1 : wsBit Generated.Lexer.whitespace1 (c.toNat : Int) = false)
    (hc2 : wsBit Generated.Lexer.whitespace2 (c.toNat : Int) = false)
    (s : Sc) (hs : s.rest = bs ++ c :: r) :
    (skipBlanks s).1 = (c.toNat : Int) ∧ (skipBlanks s).2.1.rest = r :=
  skipBlanks_run bs hall c r hc hc1 hc2 s hs

/-- **blank_run_irrelevant** — two texts that differ only in the run of blanks in front of a token reach the token
    switch with the same character and the same unread input. -/
theorem blank_run_irrelevant (bs₁ bs₂ : List UInt8) (h₁ : ∀ b ∈ bs₁, IsBlank b) (h₂ : ∀ b ∈ bs₂, IsBlank b)
    (c : UInt8) (r : List UInt8) (hc : Plain c)
    (hc1 : wsBit Generated.Lexer.whitespace1 (c.toNat : Int) = false)
    (hc2 : wsBit Generated.Lexer.whitespace2 (c.toNat : Int) = false)
    (s₁ s₂ : Sc) (hs₁ : s₁.rest = bs₁ ++ c :: r) (hs₂ : s₂.rest = bs₂ ++ c :: r) :
    (skipBlanks s₁).1 = (skipBlanks s₂).1 ∧ (skipBlanks s₁).2.1.rest = (skipBlanks s₂).2.1.rest := by
  obtain ⟨a1, a2⟩ := skipBlanks_run bs₁ h₁ c r hc hc1 hc2 s₁ hs₁
  obtain ⟨b1, b2⟩ := skipBlanks_run bs₂ h₂ c r hc hc1 hc2 s₂ hs₂
  exact ⟨by rw [a1, b1], by rw [a2, b2]⟩

example : (∀ b ∈ ([32, 13, 10, 9, 10, 13, 12, 11, 13] : List UInt8), IsBlank b) ∧ Plain 120 ∧
    wsBit Generated.Lexer.whitespace1 ((120 : UInt8).toNat : Int) = false ∧
    wsBit Generated.Lexer.whitespace2 ((120 : UInt8).toNat : Int) = false := by
  refine ⟨?_, by unfold Plain; decide, by decide, by decide⟩
  intro b hb
  simp only [List.mem_cons, List.mem_nil_iff, or_false] at hb
  rcases hb with rfl | rfl | rfl | rfl | rfl | rfl | rfl | rfl | rfl <;> (unfold IsBlank; decide)

end GLua.Props.C08
