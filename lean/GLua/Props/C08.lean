/-
  C08 — loading arbitrary bytes ends in a function or a syntax error, never a crash; layout is irrelevant.

  Property theorems over the scanner model GLua/Model/Lexer.lean (a transcription of /repo/parse/lexer.go, tied to
  the code by the token-stream correspondence on every run: real `Scanner.Scan` vs `Lexer.lex`, exact including
  line, column, PNewLine and the error value).  The reference is GLua/Spec/LexSpec.lean (Lua 5.1 manual §2.1).
  The rendering side of the round trip (tokens in a chosen spelling, separators, layouts, well-formedness) is
  GLua/Spec/LexRender.lean.  Lemmas live in GLua/Proofs/Lexer*.lean.

  What is NOT a theorem here (observed on the real code only, see notes/C08.md): the goyacc driver, the compiler's
  diagnostics, layout invariance of the compiled prototype (the round trip below is layout irrelevance at the level of
  the token stream the parser receives).
-/
import GLua.Proofs.Lexer
import GLua.Proofs.LexerLit
import GLua.Proofs.LexerBlank
import GLua.Proofs.LexerRT
import GLua.Proofs.LexerRTLong
import GLua.Proofs.LexerLineEnds
import GLua.Proofs.LexerCol
import GLua.Proofs.LexerRTSep
import GLua.Proofs.LexerRTPnl
import GLua.Proofs.LexerParserInput
import GLua.Proofs.LexModelSpec

namespace GLua.Props.C08
open GLua GLua.Lexer
open GLua.LexSpec (lineMap)
open GLua.LexRender

/-! ## never hangs -/

/-- **lexer_total_progress** — the scanner model is a total function (every loop of lexer.go is defined by
    well-founded recursion on the unread input), and every `Scan` call that returns a token other than EOF has
    consumed at least one byte: a parser that keeps asking for tokens reaches EOF or an error. -/
theorem lexer_total_progress (prev : Prev) (s : Sc) (t : Token) (pnl : Bool) (s' : Sc)
    (h : scan prev s = .tok t pnl s') (ht : 0 ≤ t.type) : s'.rest.length < s.rest.length :=
  scan_progress prev s t pnl s' h ht

/-- no sub-scanner ever "un-reads": whatever `Scan` returns, the unread input has not grown. -/
theorem scan_never_grows (prev : Prev) (s : Sc) (t : Token) (pnl : Bool) (s' : Sc)
    (h : scan prev s = .tok t pnl s') : s'.rest.length ≤ s.rest.length := by
  by_cases ht : 0 ≤ t.type
  · exact Nat.le_of_lt (scan_progress prev s t pnl s' h ht)
  · -- EOF token: the state is reachable by `Next` calls, which never add input
    have : ∀ a b : Sc, Reach a b → b.rest.length ≤ a.rest.length := by
      intro a b r
      induction r with
      | refl => exact Nat.le_refl _
      | step _ ih => exact Nat.le_trans ih (next_rest_le _)
    -- the state after `Scan` is reachable by `Next` calls
    have hr : Reach s s' := by
      clear this ht
      fun_induction scan prev s
      · simp at h
      · rename_i s hc s'' hsc ih
        exact (((skipBlanks_reach s).trans (Reach.next _)).trans (skipComments_reach _ _ _ hsc)).trans (ih h)
      · simp at h
      · rename_i s hc t' s'' hst
        simp only [ScanRes.tok.injEq] at h
        obtain ⟨_, _, h3⟩ := h
        subst h3
        exact (skipBlanks_reach s).trans (scanToken_reach _ _ _ _ hst).1
    exact this s s' hr

/-- the whole token stream of an input has at most one token per byte, plus EOF. -/
theorem lex_token_count_bounded (input : List UInt8) : (lex input).toks.length ≤ input.length + 1 :=
  lexAll_length {} (initSc input)

/-! ## line numbers -/

/-- **lex_line_count** — for every input and every token of its stream other than EOF, the token's `Pos.Line` is
    the Spec's line of the token's first byte: 1 + the number of line terminators (\n, \r, \r\n, \n\r; a pair
    counts once) before it — also after comments, strings with escaped line ends and long brackets spanning lines,
    and after rejected or accepted numerals. -/
theorem lex_line_count (input : List UInt8) :
    ∀ p ∈ (lex input).toks, 0 ≤ p.1.type → (lineMap 1 input)[p.1.off]? = some p.1.line :=
  lexAll_line input {} (initSc input) rfl

/-- the Spec's line map on a text with all four kinds of line terminators (non-vacuity of the reference). -/
example : lineMap 1 [97, 13, 10, 98, 10, 13, 10, 99, 13, 13] = [1, 1, 1, 2, 2, 2, 3, 4, 4, 5] := by
  simp [GLua.LexSpec.lineMap]

/-! ## literal denotation -/

/-- **escape_denotes** — each escape sequence of the manual's table is accepted, denotes the byte the manual gives
    it and consumes exactly the escape character. -/
theorem escape_denotes (c v : UInt8) (hm : (c, v) ∈ escapeTable) (buf : Buf) (r : List UInt8)
    (line col : Int) (off : Nat) :
    scanEscape buf { rest := c :: r, line := line, col := col, off := off } =
      .ok (buf ++ [v], { rest := r, line := line, col := col + 1, off := off + 1 }) :=
  GLua.Lexer.escape_denotes c v hm buf r line col off

example : ((110 : UInt8), (10 : UInt8)) ∈ escapeTable ∧ escapeTable.length = 10 := by decide

/-- **decimal_escape_denotes** — a three-digit decimal escape with value ≤ 255 is accepted, appends exactly the
    byte with that value and consumes exactly the three digits. -/
theorem decimal_escape_denotes (d1 d2 d3 : UInt8) (h1 : IsDig d1) (h2 : IsDig d2) (h3 : IsDig d3)
    (hv : (d1.toNat - 48) * 100 + (d2.toNat - 48) * 10 + (d3.toNat - 48) ≤ 255)
    (buf : Buf) (r : List UInt8) (line col : Int) (off : Nat) :
    scanEscape buf { rest := d1 :: d2 :: d3 :: r, line := line, col := col, off := off } =
      .ok (buf ++ [UInt8.ofNat ((d1.toNat - 48) * 100 + (d2.toNat - 48) * 10 + (d3.toNat - 48))],
           { rest := r, line := line, col := col + 1 + 1 + 1, off := off + 1 + 1 + 1 }) := by
  have ht := escTooLarge3 d1 d2 d3 h1 h2 h3 r line col off
  have hn : ¬ ((d1.toNat - 48) * 100 + (d2.toNat - 48) * 10 + (d3.toNat - 48) > 255) := by omega
  unfold scanEscape
  rw [ht]
  simp only [hn, decide_false, Bool.false_eq_true, if_false]
  rw [decimal_escape3 d1 d2 d3 h1 h2 h3]
  simp only [byteOf]
  congr 5
  omega

/-- **decimal_escape_overflow_rejected** — a decimal escape above 255 is a lexical error
    ("escape sequence too large"), as in Lua 5.1 (since repo commit 459c17c). -/
theorem decimal_escape_overflow_rejected (d1 d2 d3 : UInt8) (h1 : IsDig d1) (h2 : IsDig d2) (h3 : IsDig d3)
    (hv : (d1.toNat - 48) * 100 + (d2.toNat - 48) * 10 + (d3.toNat - 48) > 255)
    (buf : Buf) (r : List UInt8) (line col : Int) (off : Nat) :
    ∃ e, scanEscape buf { rest := d1 :: d2 :: d3 :: r, line := line, col := col, off := off } = .error e ∧
      e.msg = "escape sequence too large" ∧ e.tok = buf := by
  have ht := escTooLarge3 d1 d2 d3 h1 h2 h3 r line col off
  unfold scanEscape
  rw [ht]
  simp only [hv, decide_true, if_true]
  exact ⟨_, rfl, rfl, rfl⟩

/-- **decimal_escape_exact** (full statement, formerly false of the code with witness `\256`): whenever the scanner
    accepts `\d1d2d3` and appends a byte, that byte has the value d1d2d3. -/
theorem decimal_escape_exact (d1 d2 d3 : UInt8) (h1 : IsDig d1) (h2 : IsDig d2) (h3 : IsDig d3)
    (buf : Buf) (r : List UInt8) (line col : Int) (off : Nat) (b : UInt8) (s' : Sc)
    (h : scanEscape buf { rest := d1 :: d2 :: d3 :: r, line := line, col := col, off := off } = .ok (buf ++ [b], s')) :
    b.toNat = (d1.toNat - 48) * 100 + (d2.toNat - 48) * 10 + (d3.toNat - 48) := by
  by_cases hv : (d1.toNat - 48) * 100 + (d2.toNat - 48) * 10 + (d3.toNat - 48) ≤ 255
  · rw [decimal_escape_denotes d1 d2 d3 h1 h2 h3 hv] at h
    simp only [Except.ok.injEq, Prod.mk.injEq, List.append_cancel_left_eq, List.cons.injEq, and_true] at h
    rw [← h.1]
    simp only [UInt8.toNat_ofNat']
    exact Nat.mod_eq_of_lt (by omega)
  · obtain ⟨e, he, _⟩ := decimal_escape_overflow_rejected d1 d2 d3 h1 h2 h3 (by omega) buf r line col off
    rw [he] at h; simp at h

example : IsDig 48 ∧ IsDig 54 ∧ IsDig 53 ∧ (48 - 48) * 100 + (54 - 48) * 10 + (53 - 48) ≤ 255 ∧
    IsDig 50 ∧ (50 - 48) * 100 + (53 - 48) * 10 + (54 - 48) > 255 := by
  unfold IsDig; decide

/-- **long_bracket_denotes_partial** — long brackets of *any* level: with the scanner just past the first `[`, the
    text `=ⁿ[content]=ⁿ]` is read as the string `content` and scanning stops right behind the closing bracket.
    Guard: the content contains no `]` and no line terminator (line terminators are normalised and a first one is
    skipped; a `]` may start a closing bracket of another level — both are exercised by the correspondence, not
    proved). -/
theorem long_bracket_denotes_partial (n : Nat) (content r : List UInt8)
    (hall : ∀ b ∈ content, Plain b ∧ b ≠ 93) (s : Sc)
    (hs : s.rest = List.replicate n 61 ++ 91 :: (content ++ 93 :: (List.replicate n 61 ++ 93 :: r))) :
    ∃ s', scanMultilineString (next s).1 [] (next s).2 = .ok (content, s') ∧ s'.rest = r :=
  long_bracket_scan n content r hall s hs

example : (∀ b ∈ ([97, 61, 91, 91] : List UInt8), Plain b ∧ b ≠ 93) ∧
    ({ rest := List.replicate 2 61 ++ 91 :: ([97, 61, 91, 91] ++ 93 :: (List.replicate 2 61 ++ 93 :: [32])) } : Sc).rest.length = 12 := by
  refine ⟨?_, by decide⟩
  intro b hb
  simp only [List.mem_cons, List.mem_nil_iff, or_false] at hb
  rcases hb with rfl | rfl | rfl | rfl <;> (unfold Plain; decide)

/-! ## layout: blanks

  The blank-skipping core of the round trip (the round trip itself follows below): runs of blanks of any length and
  any mix of space, tab, form feed, vertical tab, LF, CR (hence CRLF and LFCR). -/

/-- **blank_run_skipped** — whatever run of blanks precedes a token's first byte `c`, the prologue of `Scan` hands
    exactly `c` to the token switch with the unread input right behind it: blanks never eat token bytes and never
    stop early (with the masks as regenerated from the source, i.e. including `\f` and `\v` after the proposed fix). -/
theorem blank_run_skipped (bs : List UInt8) (hall : ∀ b ∈ bs, IsBlank b) (c : UInt8) (r : List UInt8)
    (hc : Plain c)
    (hc1 : wsBit Generated.Lexer.whitespace1 (c.toNat : Int) = false)
    (hc2 : wsBit Generated.Lexer.whitespace2 (c.toNat : Int) = false)
    (s : Sc) (hs : s.rest = bs ++ c :: r) :
    (skipBlanks s).1 = (c.toNat : Int) ∧ (skipBlanks s).2.1.rest = r :=
  skipBlanks_run bs hall c r hc hc1 hc2 s hs

/-- **blank_run_irrelevant** — two texts that differ only in the run of blanks in front of a token reach the token
    switch with the same character and the same unread input. -/
theorem blank_run_irrelevant (bs₁ bs₂ : List UInt8) (h₁ : ∀ b ∈ bs₁, IsBlank b) (h₂ : ∀ b ∈ bs₂, IsBlank b)
    (c : UInt8) (r : List UInt8) (hc : Plain c)
    (hc1 : wsBit Generated.Lexer.whitespace1 (c.toNat : Int) = false)
    (hc2 : wsBit Generated.Lexer.whitespace2 (c.toNat : Int) = false)
    (s₁ s₂ : Sc) (hs₁ : s₁.rest = bs₁ ++ c :: r) (hs₂ : s₂.rest = bs₂ ++ c :: r) :
    (skipBlanks s₁).1 = (skipBlanks s₂).1 ∧ (skipBlanks s₁).2.1.rest = (skipBlanks s₂).2.1.rest := by
  obtain ⟨a1, a2⟩ := skipBlanks_run bs₁ h₁ c r hc hc1 hc2 s₁ hs₁
  obtain ⟨b1, b2⟩ := skipBlanks_run bs₂ h₂ c r hc hc1 hc2 s₂ hs₂
  exact ⟨by rw [a1, b1], by rw [a2, b2]⟩

example : (∀ b ∈ ([32, 13, 10, 9, 10, 13, 12, 11, 13] : List UInt8), IsBlank b) ∧ Plain 120 ∧
    wsBit Generated.Lexer.whitespace1 ((120 : UInt8).toNat : Int) = false ∧
    wsBit Generated.Lexer.whitespace2 ((120 : UInt8).toNat : Int) = false := by
  refine ⟨?_, by unfold Plain; decide, by decide, by decide⟩
  intro b hb
  simp only [List.mem_cons, List.mem_nil_iff, or_false] at hb
  rcases hb with rfl | rfl | rfl | rfl | rfl | rfl | rfl | rfl | rfl <;> (unfold IsBlank; decide)

/-! ## layout: the round trip `lex (render toks layout) = toks`

  `render` (GLua/Spec/LexRender.lean, written from the manual) spells a token list — names, keywords, every operator,
  numerals (decimal, fraction, exponent, hexadecimal), quoted strings character by character (raw bytes, escapes, `\ddd`,
  backslash-line end), long strings of any level — with arbitrary separators between the tokens: blanks, line ends,
  short comments, long comments of any level.  `WF` is the decidable well-formedness predicate: tokens of the grammar,
  separators of the grammar, and at least one separator wherever two adjacent tokens would otherwise merge
  (`needSep`, the reference lexer's maximal munch).

  The expected stream gives, token by token, the scanner's token type (`tokType`: goyacc number or character), the
  token value (`tokStr` = `ast.Token.Str`: spelling, or the denoted bytes of a string; the single dot has an empty
  `Str` in lexer.go) and the number of bytes rendered before the token; `expectLines` gives the line: 1 + the number
  of line ends (CR, LF, CRLF, LFCR each once) in the text rendered before the token. -/

/-- the token stream `Lexer.Lex` has to produce for `render toks lay`: (type, value, offset), EOF last. -/
def expect (toks : List RTok) (lay : Layout) : List (Int × List UInt8 × Nat) := expectFrom lay 0 0 toks

/-- the lines of that stream: 1 + number of line ends rendered before the token; the EOF token has `Line = EOF`. -/
def expectLines (toks : List RTok) (lay : Layout) : List Int := linesFrom lay 0 [] toks

/-- the columns of that stream: 1 + number of bytes rendered between the last line terminator byte and the token
    (`Pos.Column` counts bytes and is taken behind the token's first byte); the EOF token has column 0. -/
def expectCols (toks : List RTok) (lay : Layout) : List Int := colsFrom lay 0 [] toks

/-- lexing the rendering gives back the token list: no lexical error, the expected (type, value, offset) stream,
    the expected lines, the expected columns. -/
def RoundTrip (toks : List RTok) (lay : Layout) : Prop :=
  (lex (render toks lay)).err = none ∧
  (lex (render toks lay)).toks.map view = expect toks lay ∧
  (lex (render toks lay)).toks.map (fun p => p.1.line) = expectLines toks lay ∧
  (lex (render toks lay)).toks.map (fun p => p.1.col) = expectCols toks lay

/-- **lex_render_roundtrip** — the round trip at full strength: for every token list and every layout that are
    well-formed by the Lua 5.1 lexical grammar (`WF`), lexing the rendering gives back the token list — no lexical
    error, the expected (type, value, offset) stream followed by EOF, lines = 1 + line ends rendered before the token,
    columns.  Unbounded in the number and length of tokens and separators.  (Before the repair
    `fixes/C08-short-comment-bracket-eq.diff` this was false: `lex_render_roundtrip_full_fails`, witness `--[=` LF.) -/
theorem lex_render_roundtrip (toks : List RTok) (lay : Layout) (hwf : WF toks lay = true) : RoundTrip toks lay := by
  have hw := wfFrom_wf lay toks 0 none hwf
  have hT : ∀ t ∈ toks, ∀ r, follow t r = true → TokScan t r :=
    fun t ht r hf => tokScan_all t (hw t ht) r hf
  have hG : ∀ j, 0 ≤ j → j ≤ 0 + toks.length → GapScan (lay j) :=
    fun j _ _ x _ hxw hc r hr => commentScan_all x hxw hc r hr
  obtain ⟨h1, h2, h3⟩ := lexAll_render (render toks lay) lay toks 0 none {} (initSc (render toks lay)) hT hG hwf
    (restInv_init _) rfl
  refine ⟨h1, h2, ?_, ?_⟩
  · exact lines_of_view lay (render toks lay) toks 0 [] (lex (render toks lay)).toks rfl h2
      (lex_line_ends (render toks lay)) (fun p hp ht => (h3 p hp ht).1)
  · exact cols_of_view lay (render toks lay) toks 0 [] (lex (render toks lay)).toks rfl h2
      (lex_col (render toks lay)) (fun p hp ht => (h3 p hp ht).2)

/-- the layout of the former witness: the short comment `--[=` ended by a line feed, in front of the end of the text. -/
def bracketEqLayout : Layout := fun _ => [.short [91, 61] (some 10)]

/-- **bracket_eq_is_short_comment** — `--[=` + line feed (no second `[`) is a short comment: the text lexes without
    error to the EOF token alone (the former counterexample; known finding `C08-short-comment-bracket-eq`, repaired). -/
theorem bracket_eq_is_short_comment :
    (lex [45, 45, 91, 61, 10]).err = none ∧ lexTV [45, 45, 91, 61, 10] = [(-1, [])] := by
  obtain ⟨h1, h2, _, _⟩ := lex_render_roundtrip [] bracketEqLayout (by decide +kernel)
  have hr : render [] bracketEqLayout = [45, 45, 91, 61, 10] := by decide +kernel
  rw [hr] at h1 h2
  refine ⟨h1, ?_⟩
  have := congrArg (List.map (fun e : Int × List UInt8 × Nat => (e.1, e.2.1))) h2
  simp only [List.map_map] at this
  simpa [lexTV, view, expect, expectFrom] using this

/-- non-vacuity: a token list with every kind of token and a layout with every kind of separator, CR LF / LF CR
    pairs split over a comment's line end and a blank, a `-` token followed by a blank and a comment, an unterminated
    comment at the end:

        --[[x]]<LF>local x=1-<CR>--h<LF><CR>"a\n\255\7x\65\<CR><LF>"[=[<LF><LF>]]]=] 1.5e-3 0xF--      -/
def exToks : List RTok := [.kw "local", .name [120], .sym [61], .num (.dec [49]), .sym [45],
  .str 34 [.raw 97, .esc 110, .dec 255, .dec1 7, .raw 120, .dec2 65, .nl [13, 10]], .lstr 1 [10] [10, 93, 93],
  .num (.flt [49] (some [53]) (some ⟨101, some 45, [51]⟩)), .num (.hex 120 [70])]

def exLay : Layout := fun i =>
  if i = 0 then [.long 0 [120], .blank 10] else if i = 1 then [.blank 32] else if i = 2 then []
  else if i = 5 then [.blank 13, .short [104] (some 10), .blank 13] else if i = 9 then [.short [] none]
  else if i ≥ 7 then [.blank 32] else []

example : WF exToks exLay = true := by decide +kernel

/-- … and what the theorem then says about it: the lines (CR, LF CR, CR LF each count once), the values of the two
    strings, the offsets. -/
example : expectLines exToks exLay = [2, 2, 2, 2, 2, 4, 5, 7, 7, -1] ∧
    expectCols exToks exLay = [1, 7, 8, 9, 10, 1, 2, 7, 14, 0] ∧
    (expect exToks exLay).map (fun e => e.2.2) = [8, 14, 15, 16, 17, 24, 42, 53, 60, 65] ∧
    ((expect exToks exLay).map (fun e => e.2.1)).drop 5 =
      [[97, 10, 255, 7, 120, 65, 10], [10, 93, 93], [49, 46, 53, 101, 45, 51], [48, 120, 70], []] := by
  decide +kernel

/-- the Spec's own reference lexer (GLua/Spec/LexSpec.lean) reads the same values on the same lines from that
    rendering (a sample that `render` / `WF` describe texts of the grammar, not a theorem). -/
example : (match LexSpec.lex (render exToks exLay) with
    | .ok l => some (l.map (fun (t : LexSpec.STok) => (t.text, (t.line : Int))))
    | _ => none) = some ((exToks.map tokStr).zip ((expectLines exToks exLay).take 9)) := by decide +kernel

/-- **lex_line_ends** — for every input (not only renderings) and every token other than EOF: the token's line is
    1 + the number of line terminators (\n, \r, \r\n, \n\r — each counts once) in the text before its first byte. -/
theorem lex_line_ends (input : List UInt8) :
    ∀ p ∈ (lex input).toks, 0 ≤ p.1.type → p.1.line = 1 + (lineEnds (input.take p.1.off) : Int) :=
  GLua.Lexer.lex_line_ends input

example : lineEnds [97, 13, 10, 98, 10, 13, 10, 99, 13, 13] = 5 := by decide +kernel

/-- **lex_col** — for every input and every token other than EOF: the token's column is 1 + the number of bytes between
    the last line terminator byte before the token and the token's first byte (`Pos.Column` is taken after the first
    byte has been read; every byte counts 1, also a tab). -/
theorem lex_col (input : List UInt8) :
    ∀ p ∈ (lex input).toks, 0 ≤ p.1.type → p.1.col = 1 + (lineCol (input.take p.1.off) : Int) :=
  GLua.Lexer.lex_col input

example : lineCol [97, 13, 10, 98, 9, 32] = 3 ∧ lineCol [97, 10] = 0 := by decide +kernel

/-- **string_contents_arbitrary** — string contents are arbitrary bytes: every byte string has a well-formed quoted
    spelling (`canonChar`: raw where the grammar allows, `\\ddd` otherwise) whose token value is that byte string, and
    every byte string without CR (long brackets normalise CR away) has a well-formed long-bracket spelling; by the
    round trip they lex back to exactly these bytes, in any layout. -/
theorem string_contents_arbitrary (content : List UInt8) :
    ((RTok.str 34 (content.map (canonChar 34))).wf = true ∧
      tokStr (RTok.str 34 (content.map (canonChar 34))) = content) ∧
    (content.all (fun b => b != 13) = true →
      (RTok.lstr (content.length + 1) (if content.head? = some 10 then [10] else []) content).wf = true ∧
      tokStr (RTok.lstr (content.length + 1) (if content.head? = some 10 then [10] else []) content) = content) :=
  ⟨canonStr_wf 34 (Or.inl rfl) content, canonLstr_wf content⟩

/-! ### layout irrelevance -/

/- `lexTV input` (Proofs/LexerRTSep.lean) is the layout-independent part of the token stream of `input`: the list of
   (type, value) pairs. -/

/-- **layout_irrelevant** — layout is irrelevant at the token level: whatever blanks, line ends and comments
    separate the tokens (two well-formed layouts of one token list), the scanner delivers the same types and values
    (namely those of the token list), without error. -/
theorem layout_irrelevant (toks : List RTok) (lay₁ lay₂ : Layout)
    (hw₁ : WF toks lay₁ = true) (hw₂ : WF toks lay₂ = true) :
    (lex (render toks lay₁)).err = none ∧ (lex (render toks lay₂)).err = none ∧
    lexTV (render toks lay₁) = lexTV (render toks lay₂) ∧
    lexTV (render toks lay₁) = toks.map (fun t => (tokType t, tokStr t)) ++ [(-1, [])] := by
  obtain ⟨a1, a2, _, _⟩ := lex_render_roundtrip toks lay₁ hw₁
  obtain ⟨b1, b2, _, _⟩ := lex_render_roundtrip toks lay₂ hw₂
  have key : ∀ lay, (lex (render toks lay)).toks.map view = expect toks lay →
      lexTV (render toks lay) = toks.map (fun t => (tokType t, tokStr t)) ++ [(-1, [])] := by
    intro lay hv
    have := congrArg (List.map (fun e : Int × List UInt8 × Nat => (e.1, e.2.1))) hv
    rw [expect, expectFrom_types] at this
    rw [← this]
    simp [lexTV, view]
  exact ⟨a1, b1, by rw [key lay₁ a2, key lay₂ b2], key lay₁ a2⟩

/-! ### the separators `WF` demands are necessary -/

/-- **needSep_necessary** — where the grammar's maximal munch demands a separator (`needSep a b`), writing the two
    tokens without one does not read as the two tokens: the scanner never finds `a`, `b` in `a.render ++ b.render`
    (a name, keyword or numeral swallows what follows or the text is a malformed number; `=` `<` `>` `:` `.` `..`
    combine with what follows; `--` starts a comment; `[[` / `[=` start a long bracket).  At full strength since the
    repair `fixes/C08-numeral-followed-by-letter.diff` (before: false behind numerals, witness `3b`). -/
theorem needSep_necessary (a b : RTok) (ha : a.wf = true) (hb : b.wf = true) (hn : needSep a b = true) :
    ¬ ((lex (a.render ++ b.render)).err = none ∧ lexTV (a.render ++ b.render) = twoTokens a b) :=
  GLua.Lexer.needSep_necessary a b ha hb hn

/-- **numeral_letter_rejected** — `3b` is one malformed number, a lexical error, as in Lua 5.1 (the former
    counterexample; known finding `C08-numeral-followed-by-letter`, repaired). -/
theorem numeral_letter_rejected : (lex [51, 98]).err ≠ none := lex_3b_rejected

example : (RTok.name [105, 102]).wf = false ∧ (RTok.kw "if").wf = true ∧ (RTok.sym [61]).wf = true ∧
    needSep (.kw "if") (.name [120]) = true ∧ needSep (.sym [61]) (.sym [61, 61]) = true ∧
    needSep (.sym [91]) (.lstr 0 [] [120]) = true ∧ needSep (.sym [46, 46]) (.num (.flt [] (some [53]) none)) = true ∧
    needSep (.num (.dec [51])) (.name [98]) = true ∧ needSep (.num (.dec [51])) (.sym [46, 46]) = true ∧
    needSep (.num (.hex 120 [49])) (.sym [46, 46]) = false ∧
    needSep (.name [120]) (.sym [61]) = false := by decide +kernel

/-! ### the `PNewLine` flag -/

/-- the expected flags of `render toks lay`: `Lexer.PNewLine` is true exactly at a `(` token that directly follows a
    `)` token when a line terminator stands between them — in a blank, inside a comment, or as the end of a short
    comment (the reference parser's "ambiguous syntax (function call x new statement)" test looks at just that). -/
def expectPnl (toks : List RTok) (lay : Layout) : List Bool := pnlFrom lay 0 0 toks

/-- **lex_pnl** — for every input: the `PNewLine` flag of a token is a function of the token stream itself: it is
    set exactly at a `(` behind a `)` whose line differs from the line of the `(`. -/
theorem lex_pnl (input : List UInt8) : PnlOK {} (lex input).toks := lexAll_pnl {} (initSc input)

/-- **pnewline** — at full strength (since the repair `fixes/C08-pnewline-through-comments.diff`; before: false,
    witness `)` LF `--c` LF `(`, known finding `C08-comment-hides-newline-before-paren`): for every well-formed token
    list and layout the scanner's `PNewLine` flags are the expected ones — whether a line end separates the `)` from
    the `(`, whatever blanks and comments are used. -/
theorem pnewline (toks : List RTok) (lay : Layout) (hwf : WF toks lay = true) :
    (lex (render toks lay)).toks.map (fun p => p.2) = expectPnl toks lay := by
  obtain ⟨_, h2, h3, _⟩ := lex_render_roundtrip toks lay hwf
  exact pnl_of_view lay toks 0 0 [] {} _ (wfFrom_wf lay toks 0 none hwf) h2 h3 (lex_pnl _)
    (by intro h; exact absurd h (by decide))

/-- the former witness: in `)` LF `--c` LF `(` the `(` carries the flag. -/
example : expectPnl [.sym [41], .sym [40]] (fun j => if j = 1 then [.blank 10, .short [99] (some 10)] else []) =
    [false, true, false] ∧
    WF [.sym [41], .sym [40]] (fun j => if j = 1 then [.blank 10, .short [99] (some 10)] else []) = true := by
  decide +kernel

/-- non-vacuity: `f ( x )` CR LF `( g )` with a comment elsewhere, and `)` `--c` LF `(`. -/
example :
    let toks : List RTok := [.name [102], .sym [40], .name [120], .sym [41], .sym [40], .name [103], .sym [41], .sym [40]]
    let lay : Layout := fun j => if j = 4 then [.blank 13, .blank 10] else if j = 2 then [.long 1 [10]]
      else if j = 7 then [.short [99] (some 10)] else []
    WF toks lay = true ∧
      expectPnl toks lay = [false, false, false, false, true, false, false, true, false] := by
  decide +kernel

/-! ### the Spec's own reference lexer, and Model = Spec on renderings -/

/-- what the reference lexer `LexSpec.lex` (GLua/Spec/LexSpec.lean, written from the manual) has to read from
    `render toks lay`: kind, text (spelling; denoted bytes of a string) and line of every token. -/
def specExpect (toks : List RTok) (lay : Layout) : List LexSpec.STok := specExpectFrom lay 0 [] toks

/-- **spec_render_roundtrip** — the round trip holds for the Spec's reference lexer, at full strength (no guard: for
    the reference lexer `--[=…` is a short comment): for every well-formed token list and layout,
    `LexSpec.lex (render toks lay)` is exactly the token list, each token on line 1 + the number of line ends
    rendered before it.  So `render` / `WF` describe texts of the Lua 5.1 lexical grammar as the Spec states it, and
    `WF` is not more permissive than that grammar. -/
theorem spec_render_roundtrip (toks : List RTok) (lay : Layout) (hwf : WF toks lay = true) :
    LexSpec.lex (render toks lay) = .ok (specExpect toks lay) :=
  LexSpec.lex_render toks lay hwf

example : specExpect exToks exLay =
    (exToks.zip [2, 2, 2, 2, 2, 4, 5, 7, 7]).map (fun p => { kind := p.1.kind, text := p.1.specText, line := p.2 }) := by
  decide +kernel

/-- the Spec reads `--[=` LF as the empty token list (one short comment), like the scanner (`bracket_eq_is_short_comment`). -/
example : LexSpec.lex (render [] bracketEqLayout) = .ok [] :=
  spec_render_roundtrip [] bracketEqLayout (by decide +kernel)

/-- **model_eq_spec_on_renderings** — corollary: on every well-formed rendering Model = Spec: the scanner model lexes without error, the reference lexer accepts, and the scanner's tokens (without the
    final EOF) realise the reference lexer's tokens one by one (`realises`: same line; name ↔ TIdent with the same
    spelling; keyword ↔ its reserved token with the same spelling; string ↔ TString with the same bytes; numeral ↔
    TNumber with the same text; one-character operator ↔ the character as type; longer operator ↔ same spelling,
    goyacc number) — the comparison the driver makes on sampled inputs, here for all of them. -/
theorem model_eq_spec_on_renderings (toks : List RTok) (lay : Layout) (hwf : WF toks lay = true) :
    (lex (render toks lay)).err = none ∧
    ∃ S, LexSpec.lex (render toks lay) = .ok S ∧
      AllRealise S ((lex (render toks lay)).toks.dropLast.map (fun p => p.1)) := by
  obtain ⟨h1, h2, h3, _⟩ := lex_render_roundtrip toks lay hwf
  refine ⟨h1, specExpect toks lay, spec_render_roundtrip toks lay hwf, ?_⟩
  exact forall2_realises lay toks 0 0 [] _ (wfFrom_wf lay toks 0 none hwf) h2 h3

/-! ### the boundary to the parser

  `parserInput input` (Model/Lexer.lean) is the sequence of results of the `Lexer.Lex` calls the goyacc driver makes:
  per call the returned int, the token stored in `lval.token` (type, `Str`, line, column) and the `PNewLine` field the
  grammar actions read; it ends with the call that returns 0, or with the lexical error `Lex` panics with.  Nothing
  else flows from the text to the parser. -/

/-- **parser_input_is_token_stream** — the `Lex` calls deliver exactly the scanner's token stream (`lex`, the object of
    the theorems above), token by token, and panic with exactly its lexical error. -/
theorem parser_input_is_token_stream (input : List UInt8) :
    parserInput input = ((lex input).toks.map toPRead, (lex input).err) := parserInput_eq input

/-- **parser_input_positions_only** — two texts with the same (type, value) streams (and the same error status) hand
    the parser sequences that differ at most in positions and in the `PNewLine` flag: the returned ints and the
    (type, `Str`) of every `lval.token` coincide, and so does the panic / no panic status. -/
theorem parser_input_positions_only (a b : List UInt8) (h : lexTV a = lexTV b)
    (he : (lex a).err.isSome = (lex b).err.isSome) :
    (parserInput a).1.map PRead.noPos = (parserInput b).1.map PRead.noPos ∧
    (parserInput a).2.isSome = (parserInput b).2.isSome := by
  refine ⟨by rw [parserInput_noPos, parserInput_noPos, h], ?_⟩
  rw [parserInput_eq, parserInput_eq]; exact he

/-- what the parser reads for the token list `toks`, without positions: (type, (type, value)) per token, then 0. -/
def expectReads (toks : List RTok) : List (Int × Option (Int × List UInt8)) :=
  toks.map (fun t => (tokType t, some (tokType t, tokStr t))) ++ [(0, none)]

/-- **parser_input_layout_irrelevant** — what reaches the parser is layout-independent up to positions: for two
    well-formed layouts of one token list no `Lex` call panics, the returned ints and the
    (type, value) of the stored tokens are those of the token list in both cases, and the `PNewLine` flags are
    the expected ones, hence equal whenever the two layouts break the line between the same `)` `(` pairs.  Lines and columns are `expectLines` / `expectCols`
    (`lex_render_roundtrip`): they are the only other thing that differs. -/
theorem parser_input_layout_irrelevant (toks : List RTok) (lay₁ lay₂ : Layout)
    (hw₁ : WF toks lay₁ = true) (hw₂ : WF toks lay₂ = true) :
    (parserInput (render toks lay₁)).2 = none ∧ (parserInput (render toks lay₂)).2 = none ∧
    (parserInput (render toks lay₁)).1.map PRead.noPos = expectReads toks ∧
    (parserInput (render toks lay₂)).1.map PRead.noPos = expectReads toks ∧
    (parserInput (render toks lay₁)).1.map (fun r => r.pnl) = expectPnl toks lay₁ ∧
    (parserInput (render toks lay₂)).1.map (fun r => r.pnl) = expectPnl toks lay₂ ∧
    (expectPnl toks lay₁ = expectPnl toks lay₂ →
      (parserInput (render toks lay₁)).1.map (fun r => (r.noPos, r.pnl)) =
        (parserInput (render toks lay₂)).1.map (fun r => (r.noPos, r.pnl))) := by
  obtain ⟨e1, e2, _, tv⟩ := layout_irrelevant toks lay₁ lay₂ hw₁ hw₂
  have tv2 : lexTV (render toks lay₂) = toks.map (fun t => (tokType t, tokStr t)) ++ [(-1, [])] :=
    (layout_irrelevant toks lay₂ lay₁ hw₂ hw₁).2.2.2
  have hreads : ∀ input, lexTV input = toks.map (fun t => (tokType t, tokStr t)) ++ [(-1, [])] →
      (parserInput input).1.map PRead.noPos = expectReads toks := by
    intro input h
    rw [parserInput_noPos, h]
    simp only [List.map_append, List.map_map, List.map_cons, List.map_nil, expectReads]
    congr 1
    apply List.map_congr_left
    intro t _
    have := tokType_nonneg t
    simp only [Function.comp, readOfTV]
    rw [if_neg (by omega)]
  have p1 := pnewline toks lay₁ hw₁
  have p2 := pnewline toks lay₂ hw₂
  have r1 := hreads _ tv
  have r2 := hreads _ tv2
  have q1 : (parserInput (render toks lay₁)).1.map (fun r => r.pnl) = expectPnl toks lay₁ := by
    rw [parserInput_pnl]; exact p1
  have q2 : (parserInput (render toks lay₂)).1.map (fun r => r.pnl) = expectPnl toks lay₂ := by
    rw [parserInput_pnl]; exact p2
  refine ⟨by rw [parserInput_eq]; exact e1, by rw [parserInput_eq]; exact e2, r1, r2, q1, q2, ?_⟩
  intro hpe
  have hz : ∀ (l : List PRead), l.map (fun r => (r.noPos, r.pnl)) = (l.map PRead.noPos).zip (l.map (fun r => r.pnl)) := by
    intro l
    induction l with
    | nil => rfl
    | cons x l ih => simp only [List.map_cons, List.zip_cons_cons, ih]
  rw [hz, hz, r1, r2, q1, q2, hpe]

/-- non-vacuity: `f(x)` and `f  (  x -- c <LF> )` hand the parser the same reads; the second one's positions differ. -/
example :
    let toks : List RTok := [.name [102], .sym [40], .name [120], .sym [41]]
    let lay₂ : Layout := fun j => if j = 1 then [.blank 32, .blank 32] else if j = 2 then [.blank 32]
      else if j = 3 then [.blank 32, .short [32, 99] (some 10)] else []
    WF toks (fun _ => []) = true ∧ WF toks lay₂ = true ∧
      expectPnl toks lay₂ = expectPnl toks (fun _ => []) := by
  decide +kernel

/-! ### long brackets, full -/

/-- **long_bracket_denotes** — long brackets of any level and *any* content (this is `long_bracket_denotes_partial`
    without its guard): with the scanner just past the first `[`, the text `=ⁿ[ body ]=ⁿ]` — where no closing bracket
    of level n starts inside the body (`noClose`, i.e. the bracket really ends there) — is read as the body without
    its first line terminator and with every other line terminator normalised to LF, and scanning stops right
    behind the closing bracket. -/
theorem long_bracket_denotes (n : Nat) (body r : List UInt8) (hnc : noClose n body = true) (s : Sc)
    (hs : s.rest = List.replicate n 61 ++ 91 :: (body ++ (closer n ++ r))) :
    ∃ s', scanMultilineString (next s).1 [] (next s).2 = .ok (normNL (dropFirstNL body), s') ∧ s'.rest = r := by
  obtain ⟨s', h1, h2⟩ := long_bracket_full n body r hnc [] s hs
  exact ⟨s', by simpa using h1, h2⟩

example : noClose 1 [13, 10, 93, 93, 61, 13, 93] = true ∧
    normNL (dropFirstNL [13, 10, 93, 93, 61, 13, 93]) = [93, 93, 61, 10, 93] := by
  constructor
  · decide +kernel
  · simp [dropFirstNL, nlRest, normNL]

end GLua.Props.C08
