/-
  C09 — a table is a finite map with a valid length border and complete traversal.
  Property theorems only (lemmas live in GLua/Proofs/Table.lean).  The Model is GLua/Model/Table.lean
  (a transcription of /repo/table.go, tied to the code by the correspondence check on every run);
  the Spec is GLua/Spec/TableSpec.lean (finite map, border).
-/
import GLua.Proofs.Table
import GLua.Proofs.TableNext
import GLua.Proofs.TableChain
import GLua.Proofs.TableOps
import GLua.Proofs.TableIpairs
import GLua.Proofs.TableKeys
import GLua.Proofs.TableChainFixed

namespace GLua.Props.C09
open GLua GLua.Table GLua.TableSpec

/-- one store through any of the accessors of the Go table API / the Lua operations. -/
inductive StoreOp where
  | set    (k : Val) (v : OVal)     -- RawSet, `t[k] = v`, rawset
  | setInt (i : Int) (v : OVal)     -- RawSetInt
  | setStr (k : Val) (v : OVal)     -- RawSetString
  | setH   (k : Val) (v : OVal)     -- RawSetH

/-- the property's proviso: string accessor with string keys, hash accessor with hash-part keys. -/
def StoreOp.wf (mai : Nat) : StoreOp → Prop
  | .set _ _ => True
  | .setInt _ _ => True
  | .setStr k _ => isStr k = true
  | .setH k _ => arrIdx mai k = none

def StoreOp.key : StoreOp → Val
  | .set k _ => k | .setInt i _ => .int i | .setStr k _ => k | .setH k _ => k
def StoreOp.val : StoreOp → OVal
  | .set _ v => v | .setInt _ v => v | .setStr _ v => v | .setH _ v => v

def applyOp (t : Tbl) : StoreOp → Tbl
  | .set k v => rawSet t k v
  | .setInt i v => rawSetInt t i v
  | .setStr k v => rawSetString t k v
  | .setH k v => rawSetH t k v

def specOp (m : SMap) (o : StoreOp) : SMap := m.set o.key o.val

theorem applyOp_mai (t : Tbl) (o : StoreOp) : (applyOp t o).mai = t.mai := by
  cases o <;> simp [applyOp, rawSetInt_eq_rawSet]

theorem applyOp_refines (t : Tbl) (o : StoreOp) (h : o.wf t.mai) (k' : Val) :
    rawGet (applyOp t o) k' = specOp (rawGet t) o k' := by
  cases o with
  | set k v => simp only [applyOp, specOp, SMap.set, StoreOp.key, StoreOp.val, rawGet_rawSet]; rfl
  | setInt i v =>
    simp only [applyOp, specOp, SMap.set, StoreOp.key, StoreOp.val, rawSetInt_eq_rawSet, rawGet_rawSet]; rfl
  | setStr k v =>
    simp only [StoreOp.wf] at h
    simp only [applyOp, specOp, SMap.set, StoreOp.key, StoreOp.val, rawSetString_eq_rawSet t k v h, rawGet_rawSet]; rfl
  | setH k v =>
    simp only [StoreOp.wf] at h
    simp only [applyOp, specOp, SMap.set, StoreOp.key, StoreOp.val, rawSetH_eq_rawSet t k v h, rawGet_rawSet]; rfl

/-- **table_refines_map** — for *every* history of stores through any mix of accessors, starting from a
    fresh table (any `MaxArrayIndex`), every key reads back the value most recently stored under a key
    equal to it (nil if deleted or never stored): the four-structure table is a finite map. -/
theorem table_refines_map (mai : Nat) (ops : List StoreOp) (h : ∀ o ∈ ops, o.wf mai) (k : Val) :
    rawGet (ops.foldl applyOp { mai := mai }) k = (ops.foldl specOp SMap.empty) k := by
  suffices H : ∀ (t : Tbl) (m : SMap), t.mai = mai → (∀ k, rawGet t k = m k) →
      rawGet (ops.foldl applyOp t) k = (ops.foldl specOp m) k by
    exact H _ _ rfl (fun k => by simp [rawGet_empty, SMap.empty])
  induction ops with
  | nil => intro t m _ hm; simpa using hm k
  | cons o r ih =>
    intro t m ht hm
    simp only [List.foldl_cons]
    apply ih (fun o' ho' => h o' (List.mem_cons_of_mem _ ho'))
    · rw [applyOp_mai, ht]
    · intro k'
      rw [applyOp_refines t o (by rw [ht]; exact h o (List.mem_cons_self ..))]
      simp only [specOp, SMap.set, hm]

/-- every read accessor returns the abstract map's value (hash/string accessors under the proviso). -/
theorem reads_agree (t : Tbl) (k : Val) (i : Int) :
    rawGetInt t i = rawGet t (.int i) ∧
    (arrIdx t.mai k = none → rawGetH t k = rawGet t k) ∧
    (isStr k = true → rawGetString t k = rawGet t k) :=
  ⟨rawGetInt_eq_rawGet t i, rawGetH_eq_rawGet t k, rawGetString_eq_rawGet t k⟩

/-- 1 and 1.0 are the same key; a string and a number never are (canonical keys: an integral float64 is
    its integer, whatever its spelling — the canonicalisation is the harness's `encNum`, validated there). -/
theorem string_and_number_keys_differ (h : String) (i : Int) : (Val.str h) ≠ (Val.int i) := by simp

/-- **len_is_border** (see `Table.len_is_border`): `#t` is a border of the abstract map. -/
theorem len_is_border (t : Tbl) (h : t.array.length + 1 < t.mai) : isBorder (rawGet t) (len t) :=
  Table.len_is_border t h

/-- the full statement without the guard is *false* of the unchanged code: the recorded finding
    `C09-border-at-maxarrayindex`, witness from the correspondence run (MaxArrayIndex lowered to 6). -/
def len_is_border_full : Prop := ∀ t : Tbl, isBorder (rawGet t) (len t)

theorem len_is_border_full_fails : ¬ len_is_border_full := by
  intro h
  have := h (rawSet (rawSet { mai := 6 } (.int 6) (some (.bool false))) (.int 5) (some (.int 44)))
  revert this; decide

/-- a Lua-level store under nil or NaN is an error and leaves the table unchanged. -/
theorem lua_store_nil_nan_is_error (t : Tbl) (v : OVal) (k : OVal) :
    (∃ e, luaSet t none false v = .error e) ∧ (∃ e, luaSet t k true v = .error e) := by
  constructor <;> simp [luaSet]

/-- **next_complete** — iterating `Next` from nil on any table satisfying the representation
    invariant never panics, terminates, and visits exactly the present keys, each once, with its value. -/
theorem next_complete (t : Tbl) (h : Inv t) (hm : 0 < t.mai) :
    ∃ l : List (Val × Val), traverse t = .ok l ∧ (l.map (·.1)).Nodup ∧
      ∀ k v, (k, v) ∈ l ↔ rawGet t k = some v :=
  Table.traverse_complete t h hm

/-- without `0 < MaxArrayIndex` the statement is false (with `MaxArrayIndex = 0` the initial `Next(nil)`
    skips `keys[0]`); a degenerate configuration, recorded here as a machine-checked negation. -/
theorem next_complete_fails_mai_zero :
    ¬ (∀ t : Tbl, Table.Inv t → ∃ l : List (Val × Val), traverse t = .ok l ∧ (l.map (·.1)).Nodup ∧
      ∀ k v, (k, v) ∈ l ↔ rawGet t k = some v) :=
  Table.traverse_complete_fails_mai_zero

/-- the representation invariant holds for every table built by any history of stores and list helpers. -/
theorem inv_reachable (mai : Nat) (ops : List StoreOp) (h : ∀ o ∈ ops, o.wf mai) :
    Inv (ops.foldl applyOp { mai := mai }) := by
  suffices H : ∀ t : Tbl, t.mai = mai → Inv t → Inv (ops.foldl applyOp t) from H _ rfl Table.inv_empty
  induction ops with
  | nil => intro t _ hi; simpa using hi
  | cons o r ih =>
    intro t ht hi
    simp only [List.foldl_cons]
    apply ih (fun o' ho' => h o' (List.mem_cons_of_mem _ ho'))
    · rw [applyOp_mai, ht]
    · have hw := h o (List.mem_cons_self ..)
      cases o with
      | set k v => exact Table.inv_rawSet t k v hi
      | setInt i v => simp only [applyOp, rawSetInt_eq_rawSet]; exact Table.inv_rawSet t _ v hi
      | setStr k v =>
        simp only [StoreOp.wf] at hw
        simp only [applyOp, rawSetString_eq_rawSet t k v hw]; exact Table.inv_rawSet t k v hi
      | setH k v =>
        simp only [StoreOp.wf] at hw; rw [← ht] at hw
        simp only [applyOp, rawSetH_eq_rawSet t k v hw]; exact Table.inv_rawSet t k v hi

/-! non-vacuity: a concrete non-trivial history (array growth with a hole, string and float keys,
    deletion and re-insertion) meets the hypotheses and exercises every structure. -/
def exampleOps : List StoreOp :=
  [.set (.int 1) (some (.int 10)), .setInt 3 (some (.int 30)), .setStr (.str "61") (some (.bool true)),
   .setH (.flt 4609434218613702656) (some (.int 5)), .setStr (.str "61") none, .setStr (.str "61") (some (.int 7)),
   .set (.int 3) none]

example : (∀ o ∈ exampleOps, o.wf 100) ∧ len (exampleOps.foldl applyOp { mai := 100 }) = 1 ∧
      rawGet (exampleOps.foldl applyOp { mai := 100 }) (.str "61") = some (.int 7) := by
  refine ⟨?_, by decide, by decide⟩
  intro o ho
  simp only [exampleOps, List.mem_cons, List.mem_nil_iff, or_false] at ho
  rcases ho with rfl | rfl | rfl | rfl | rfl | rfl | rfl <;> simp [StoreOp.wf, isStr, arrIdx]

/-! ## the whole mutating API: RawSet, RawSetInt, RawSetString, RawSetH, Append, Insert, Remove

  (The read entry points `RawGet*`, `Len`, `MaxN`, `Next`, `ForEach` are pure functions of the table in the Model
  — they cannot break the invariant; what they return is characterised by `reads_agree`, `len_is_border`,
  `next_complete`, `foreach_complete`.) -/

/-- one call of a mutating entry point of the Go table API. -/
inductive ApiOp where
  | store  (o : StoreOp)            -- RawSet / RawSetInt / RawSetString / RawSetH / `t[k] = v`
  | append (v : OVal)               -- Append
  | insert (i : Int) (v : OVal)     -- Insert
  | remove (pos : Int)              -- Remove

/-- the guard, evaluated on the table the call is made on: hash-part accessors with hash-part keys (the property's
    proviso), and `Append`/`Insert` do not push the array part to the `MaxArrayIndex` boundary (the excluded
    corner is the recorded finding `C09-array-past-maxarrayindex`). -/
def ApiOp.ok (t : Tbl) : ApiOp → Prop
  | .store o => o.wf t.mai
  | .append v => v = none ∨ len t + 1 < t.mai
  | .insert _ _ => t.array.length + 1 < t.mai
  | .remove _ => True

instance (mai : Nat) (o : StoreOp) : Decidable (o.wf mai) := by
  cases o <;> simp only [StoreOp.wf] <;> infer_instance

instance (t : Tbl) (o : ApiOp) : Decidable (o.ok t) := by
  cases o <;> simp only [ApiOp.ok] <;> infer_instance

def applyApi (t : Tbl) : ApiOp → Tbl
  | .store o => applyOp t o
  | .append v => append t v
  | .insert i v => insert t i v
  | .remove pos => (remove t pos).1

/-- the same call on the abstract finite map.  The list helpers work on a *window*: `Append` stores at
    `Len()+1`, `Insert`/`Remove` shift within `1 … len(array)`; the window is read off the table the call is made on. -/
def specApi (t : Tbl) (m : SMap) : ApiOp → SMap
  | .store o => specOp m o
  | .append none => m
  | .append (some x) => m.set (.int ((len t + 1 : Nat) : Int)) (some x)
  | .insert i v => m.insertAt t.array.length i v
  | .remove pos =>
    if t.array.length = 0 ∨ pos > t.array.length then m
    else m.removeAt t.array.length (if pos < 1 then (t.array.length : Int) else pos)

/-- the guard along a history (decidable, evaluated call by call). -/
def histOK (t : Tbl) : List ApiOp → Prop
  | [] => True
  | o :: r => o.ok t ∧ histOK (applyApi t o) r

def histOK.dec : (t : Tbl) → (l : List ApiOp) → Decidable (histOK t l)
  | _, [] => isTrue trivial
  | t, o :: r => by unfold histOK; exact @instDecidableAnd _ _ _ (histOK.dec (applyApi t o) r)

instance (t : Tbl) (l : List ApiOp) : Decidable (histOK t l) := histOK.dec t l

/-- Model and abstract map side by side. -/
def stepApi (p : Tbl × SMap) (o : ApiOp) : Tbl × SMap := (applyApi p.1 o, specApi p.1 p.2 o)

theorem applyApi_mai (t : Tbl) (o : ApiOp) : (applyApi t o).mai = t.mai := by
  cases o with
  | store o => exact applyOp_mai t o
  | append v => exact append_mai t v
  | insert i v => exact insert_mai t i v
  | remove pos => exact remove_mai t pos

/-- **every mutating entry point keeps the representation invariant** (all five structures: array below
    `MaxArrayIndex`; `strdict` only strings, `dict` no string and no array key; `keys` lists every key ever put
    into a map, once; `k2i` is its inverse; each map holds a key once). -/
theorem applyApi_inv (t : Tbl) (o : ApiOp) (hI : Inv t ∧ InvAL t) (hw : o.ok t) :
    Inv (applyApi t o) ∧ InvAL (applyApi t o) := by
  obtain ⟨hi, ha⟩ := hI
  cases o with
  | store o =>
    cases o with
    | set k v => exact ⟨inv_rawSet t k v hi, invAL_rawSet t k v ha⟩
    | setInt i v =>
      exact ⟨by simp only [applyApi, applyOp, rawSetInt_eq_rawSet]; exact inv_rawSet t _ v hi, invAL_rawSetInt t i v ha⟩
    | setStr k v =>
      simp only [ApiOp.ok, StoreOp.wf] at hw
      exact ⟨by simp only [applyApi, applyOp, rawSetString_eq_rawSet t k v hw]; exact inv_rawSet t k v hi,
        invAL_rawSetString t k v ha⟩
    | setH k v =>
      simp only [ApiOp.ok, StoreOp.wf] at hw
      exact ⟨by simp only [applyApi, applyOp, rawSetH_eq_rawSet t k v hw]; exact inv_rawSet t k v hi,
        invAL_rawSetH t k v ha⟩
  | append v => exact ⟨inv_append t hi v hw, invAL_append t v ha⟩
  | insert i v => exact ⟨inv_insert t hi i v hw, invAL_insert t i v ha⟩
  | remove pos => exact ⟨inv_remove t hi pos, invAL_remove t pos ha⟩

/-- **every mutating entry point is the corresponding transformer of the finite map** `Key → Option Val`. -/
theorem applyApi_refines (t : Tbl) (o : ApiOp) (hi : Inv t) (hm : 0 < t.mai) (hw : o.ok t) (k : Val) :
    rawGet (applyApi t o) k = specApi t (rawGet t) o k := by
  cases o with
  | store o => exact applyOp_refines t o hw k
  | append v =>
    cases v with
    | none => rfl
    | some x =>
      have hg : len t + 1 < t.mai := by
        rcases hw with hw | hw
        · cases hw
        · exact hw
      simp only [applyApi, specApi, append_eq_rawSet t x hg, rawGet_rawSet]; rfl
  | insert i v => exact rawGet_insert t hi i v hw k
  | remove pos =>
    obtain ⟨h1, h2⟩ := rawGet_remove t hi hm pos
    simp only [applyApi, specApi]
    by_cases hc : t.array.length = 0 ∨ pos > t.array.length
    · rw [if_pos hc, (h1 hc).1]
    · rw [if_neg hc]; exact (h2 hc).2 k

/-- `Remove` returns the old value of the position it removes. -/
theorem remove_returns_old (t : Tbl) (hi : Inv t) (hm : 0 < t.mai) (pos : Int) :
    (remove t pos).2 =
      if t.array.length = 0 ∨ pos > t.array.length then none
      else rawGet t (.int (if pos < 1 then (t.array.length : Int) else pos)) := by
  obtain ⟨h1, h2⟩ := rawGet_remove t hi hm pos
  by_cases hc : t.array.length = 0 ∨ pos > t.array.length
  · rw [if_pos hc, (h1 hc).2]
  · rw [if_neg hc]; exact (h2 hc).1

/-- **api_history_from** — from *any* table satisfying the invariant that agrees with an abstract map `m`, *every* history
    of calls of the mutating API that meets the guard call by call leads to a table that satisfies the invariant over
    all five structures and reads, for every key, what the abstract finite map holds after the same history. -/
theorem api_history_from (ops : List ApiOp) :
    ∀ (p : Tbl × SMap), 0 < p.1.mai → Inv p.1 → InvAL p.1 → (∀ k, rawGet p.1 k = p.2 k) → histOK p.1 ops →
      Inv (ops.foldl stepApi p).1 ∧ InvAL (ops.foldl stepApi p).1 ∧
        ∀ k, rawGet (ops.foldl stepApi p).1 k = (ops.foldl stepApi p).2 k := by
  induction ops with
  | nil => intro p _ h1 h2 h3 _; exact ⟨h1, h2, h3⟩
  | cons o r ih =>
    intro p hp h1 h2 h3 hh
    simp only [List.foldl_cons]
    obtain ⟨hw, hr⟩ := hh
    obtain ⟨i1, i2⟩ := applyApi_inv p.1 o ⟨h1, h2⟩ hw
    apply ih (stepApi p o) (by simp only [stepApi, applyApi_mai]; exact hp) i1 i2 ?_ hr
    intro k
    simp only [stepApi]
    rw [applyApi_refines p.1 o h1 hp hw k]
    have : rawGet p.1 = p.2 := funext h3
    rw [this]

/-- **api_history** — the same from a fresh table (`newLTable`, any `MaxArrayIndex ≥ 1`, array part allocated or not). -/
theorem api_history (mai : Nat) (hm : 0 < mai) (alloc : Bool) (ops : List ApiOp)
    (h : histOK { mai := mai, alloc := alloc } ops) :
    let r := ops.foldl stepApi ({ mai := mai, alloc := alloc }, SMap.empty)
    Inv r.1 ∧ InvAL r.1 ∧ ∀ k, rawGet r.1 k = r.2 k :=
  api_history_from ops _ hm (Table.inv_alloc _ Table.inv_empty alloc) ⟨by simp [alKeys], by simp [alKeys]⟩
    (fun k => by
      show rawGet { mai := mai, alloc := alloc } k = SMap.empty k
      unfold rawGet SMap.empty
      split
      · simp
      · split <;> rfl) h

/-- **foreach_complete** — `ForEach` hands the callback exactly the present pairs, each key once. -/
theorem foreach_complete (t : Tbl) (h : Inv t) (ha : InvAL t) (hm : 0 < t.mai) :
    ((forEach t).map (·.1)).Nodup ∧ ∀ k v, (k, v) ∈ forEach t ↔ rawGet t k = some v :=
  Table.forEach_complete t h ha hm

/-- **foreach_delivery_is_current** — `ForEach` whose callback stores into the table (Model: `feStep`, Go's `range` over the
    live array slice and maps): every admissible delivery `(k, v)` hands the callback a field that is present *now* with
    exactly the value it has *now*, and a hash-part key is never delivered twice (`seenH` = the keys delivered out of the
    maps; array keys are delivered in strictly increasing index order by construction of `feStep`).  (A snapshot taken before the first callback — seeded change
    C09-m10 — violates this as soon as a callback clears or overwrites a field not yet delivered.) -/
theorem foreach_delivery_is_current (t : Tbl) (h : Inv t) (hm : 0 < t.mai) (s s' : FEState) (k v : Val)
    (hal : s.alen ≤ t.array.length) (hs : feStep t s k v = some s') :
    rawGet t k = some v ∧ s'.seen = s.seen ++ [k] ∧ s'.alen = s.alen ∧
      (arrIdx t.mai k = none → k ∉ s.seenH ∧ s'.seenH = s.seenH ++ [k]) :=
  Table.feStep_current t h hm s s' k v hal hs

/-- non-vacuity: on `{10, 20, a=1}` after the callback of key 1 has cleared key 2, delivering `a` is admissible, delivering
    the stale `(2, 20)` is not, and the iteration may end after `a` but not before. -/
def feExample : Bool :=
  let t0 : Tbl := [StoreOp.set (.int 1) (some (.int 10)), .set (.int 2) (some (.int 20)), .set (.str "61") (some (.int 1))].foldl
    applyOp { mai := 100 }
  let t1 := rawSet t0 (.int 2) none
  match feStep t0 (feBegin t0) (.int 1) (.int 10) with
  | some s1 =>
    (feStep t1 s1 (.int 2) (.int 20)).isNone &&
      (match feStep t1 s1 (.str "61") (.int 1) with
       | some s2 => feEnd t1 s2 && !feEnd t1 s1
       | none => false)
  | none => false

example : feExample = true := by decide

/-- `Append(v)` stores at `Len()+1`, and `Len()` is a border: `Append` extends the list by one. -/
theorem append_extends_border (t : Tbl) (x : Val) (h : t.array.length + 1 < t.mai) :
    isBorder (rawGet t) (len t) ∧
      ∀ k, rawGet (append t (some x)) k = if k = .int ((len t + 1 : Nat) : Int) then some x else rawGet t k := by
  refine ⟨Table.len_is_border t h, fun k => ?_⟩
  have := lastNonNil_le t.array
  rw [append_eq_rawSet t x (by unfold len; omega), rawGet_rawSet]

/-! non-vacuity: a history through every mutating entry point (growth, hole, Insert in the middle, Remove from
    the middle and of the last element, Append after a trailing nil) meets the guard; the Model reads what the
    abstract map holds. -/
def apiExample : List ApiOp :=
  [.store (.set (.int 1) (some (.int 10))), .append (some (.int 20)), .store (.setInt 4 (some (.int 40))),
   .insert 2 (some (.int 15)), .store (.setStr (.str "61") (some (.bool true))), .remove 1,
   .store (.setH (.flt 4602678819172646912) (some (.int 5))), .store (.set (.int 4) none), .append (some (.int 99)),
   .remove 0, .insert 0 (some (.int 7)), .insert 9 (some (.int 8))]

example : histOK { mai := 100 } apiExample ∧
    (let r := apiExample.foldl stepApi ({ mai := 100 }, SMap.empty)
     [1, 2, 3, 4, 5, 9, 0].map (fun i => r.2 (.int i)) =
       [some (.int 15), some (.int 20), some (.int 99), none, none, some (.int 8), some (.int 7)]
     ∧ len r.1 = 9 ∧ r.1.array.length = 9) := by
  decide

/-! ## ipairs and the border -/

/-- **ipairs_visits_prefix** — on every table satisfying the invariant the `ipairs` loop (iterating `ipairsaux`, i.e.
    `RawGetInt(i+1)`, from control value 0) terminates after at most `len(array) + len(dict) + 1` calls and visits
    exactly `1 … n` in order, each with its value, where `n+1` is the first nil; that `n` is a border. -/
theorem ipairs_visits_prefix (t : Tbl) (h : Inv t) (hm : 0 < t.mai) :
    ∃ (n : Nat) (l : List (Int × Val)), ipairsRun t (t.array.length + t.dict.length + 2) 0 = some l ∧
      l.length = n ∧
      (∀ j < n, ∃ v, rawGet t (.int ((j + 1 : Nat) : Int)) = some v ∧ l[j]? = some (((j + 1 : Nat) : Int), v)) ∧
      rawGet t (.int ((n + 1 : Nat) : Int)) = none ∧ isBorder (rawGet t) n := by
  obtain ⟨n, hn, hpres, hnil⟩ := first_nil_exists t h hm
  obtain ⟨l, hl, hlen, hall⟩ := ipairsRun_from t n hpres hnil n 0 (t.array.length + t.dict.length + 2) (by omega) (by omega)
  refine ⟨n, l, by simpa using hl, hlen, ?_, hnil, ?_⟩
  · intro j hj
    obtain ⟨v, h1, h2⟩ := hall j hj
    have e : 0 + j + 1 = j + 1 := by omega
    rw [e] at h1 h2
    exact ⟨v, h1, h2⟩
  · unfold isBorder
    by_cases h0 : n = 0
    · left; subst h0; exact ⟨rfl, hnil⟩
    · right
      refine ⟨by omega, hpres n (by omega) (by omega), ?_⟩
      have e : ((n : Int) + 1) = ((n + 1 : Nat) : Int) := by omega
      rw [e]; exact hnil

/-- **len_is_border_exact** — under the invariant `#t` is a border *if and only if* it is not the case that the
    array part is full up to `MaxArrayIndex-1` and `t[MaxArrayIndex]` (a hash-part key) is present: the guard of
    `len_is_border` weakened to the exact complement of the finding class `C09-border-at-maxarrayindex`. -/
theorem len_is_border_exact (t : Tbl) (h : Inv t) (hm : 0 < t.mai) :
    isBorder (rawGet t) (len t) ↔ ¬ (len t + 1 = t.mai ∧ rawGet t (.int (t.mai : Int)) ≠ none) :=
  Table.len_is_border_iff t h hm

/-- `MaxN` (table.maxn over the array part) and `Len` are the same function of the table. -/
theorem maxn_eq_len (t : Tbl) : maxN t = len t := rfl

example : ∃ t : Tbl, Inv t ∧ 0 < t.mai ∧ (len t + 1 = t.mai ∧ rawGet t (.int (t.mai : Int)) ≠ none) :=
  ⟨rawSet (rawSet { mai := 6 } (.int 6) (some (.bool false))) (.int 5) (some (.int 44)),
    inv_rawSet _ _ _ (inv_rawSet _ _ _ inv_empty), by decide, by decide, by decide⟩

example : ipairsRun (apiExample.foldl stepApi ({ mai := 100 }, SMap.empty)).1 20 0
    = some [(1, .int 15), (2, .int 20), (3, .int 99)] := by decide

/-! ## key normalisation

  `numKey bits` (Model/Table.lean) is the canonical key of the float64 with that bit pattern — `.int z` for a finite
  integral value, `.flt bits` for a non-integral one or ±Inf, nothing for NaN — and `goIsArrayKey mai bits` is
  `utils.go: isArrayKey` computed as the Go code does (through `int64(v)`).  `f64scaled bits` is the exact value of a
  finite double times `2^1074`, an integer.  Both are tied to the real code by the `numkey` correspondence pass. -/

/-- **number_keys_compare_by_value** — two finite numbers are the same table key iff they have the same value
    (`1` and `1.0` — any two spellings — and `+0`/`-0` are one key; different values are different keys). -/
theorem number_keys_compare_by_value (b1 b2 : Nat) (hb1 : b1 < 2 ^ 64) (hb2 : b2 < 2 ^ 64)
    (h1 : f64exp b1 ≠ 2047) (h2 : f64exp b2 ≠ 2047) :
    numKey b1 = numKey b2 ↔ f64scaled b1 = f64scaled b2 :=
  numKey_eq_iff_value b1 b2 hb1 hb2 h1 h2

/-- a number is keyed by the integer `z` exactly when it is finite and its value is `z`. -/
theorem integral_number_key (bits : Nat) (z : Int) :
    numKey bits = some (.int z) ↔ f64exp bits ≠ 2047 ∧ f64scaled bits = z * ((2 ^ 1074 : Nat) : Int) := by
  constructor
  · intro h
    unfold numKey at h
    split at h
    · cases h
    · cases hz : f64int? bits with
      | none => rw [hz] at h; simp at h
      | some w =>
        rw [hz] at h
        simp only [Option.some.injEq, Val.int.injEq] at h
        subst h
        exact ⟨f64int?_finite bits w hz, f64int?_value bits w hz⟩
  · rintro ⟨hf, hv⟩
    unfold numKey
    rw [notNaN_of_finite bits hf, f64int?_complete bits z hf hv]; rfl

/-- **array_routing_matches_go** — a number takes the array path of the Go code (`isArrayKey`) exactly when its
    canonical key is an array index of the Model: integral value `0 < v < MaxArrayIndex`. -/
theorem array_routing_matches_go (mai : Nat) (hmai : (mai : Int) ≤ 2 ^ 63) (bits : Nat) :
    goIsArrayKey mai bits = true ↔ ∃ k n, numKey bits = some k ∧ arrIdx mai k = some n :=
  goIsArrayKey_iff mai hmai bits

/-- a number is never the same key as a string (nor a boolean, nor a table). -/
theorem number_key_never_string (bits : Nat) (k : Val) (h : numKey bits = some k) :
    isStr k = false ∧ (∀ s, k ≠ .str s) ∧ (∀ b, k ≠ .bool b) ∧ (∀ n, k ≠ .ref n) := by
  rcases numKey_is_number bits k h with ⟨z, rfl⟩ | rfl <;> simp [isStr]

/-- a Lua-level store under a NaN key (any of the 2^53-2 NaN bit patterns) is an error; under any other number it is
    the raw store under the canonical key. -/
theorem lua_store_number_key (t : Tbl) (bits : Nat) (v : OVal) :
    (isNaNBits bits = true → ∃ e, luaSetNum t bits v = .error e) ∧
    (isNaNBits bits = false → ∃ k, numKey bits = some k ∧ luaSetNum t bits v = .ok (rawSet t k v)) := by
  unfold luaSetNum numKey
  constructor
  · intro h; rw [h]; exact ⟨_, rfl⟩
  · intro h; rw [h]
    cases f64int? bits with
    | none => exact ⟨_, rfl, rfl⟩
    | some z => exact ⟨_, rfl, rfl⟩

/-! non-vacuity: 1.0, -0.0 / +0.0, 0.5, 2^53, 2^63, -2^63, the smallest subnormal, +Inf, a quiet and a signalling NaN;
    routing at the default `MaxArrayIndex`. -/
example : numKey 4607182418800017408 = some (.int 1) ∧ numKey (2 ^ 63) = some (.int 0) ∧ numKey 0 = some (.int 0) ∧
    numKey 4602678819172646912 = some (.flt 4602678819172646912) ∧
    numKey 4845873199050653696 = some (.int 9007199254740992) ∧
    numKey 4890909195324358656 = some (.int 9223372036854775808) ∧
    numKey 14114281232179134464 = some (.int (-9223372036854775808)) ∧
    numKey 1 = some (.flt 1) ∧ numKey 9218868437227405312 = some (.flt 9218868437227405312) ∧
    numKey 9221120237041090560 = none ∧ numKey 9218868437227405313 = none := by decide +kernel

example : goIsArrayKey 67108864 4607182418800017408 = true ∧ goIsArrayKey 67108864 0 = false ∧
    goIsArrayKey 67108864 4602678819172646912 = false ∧ goIsArrayKey 67108864 4890909195324358656 = false ∧
    goIsArrayKey 67108864 4724276008977432576 = true ∧ goIsArrayKey 67108864 4724276009111650304 = false := by
  decide +kernel

/-! ## traversal under modification

  `chain sched t` (Proofs/TableChain.lean) is the `Next` chain from nil on `t` in which, after the `i`-th call
  has returned key `k` on the table `t'`, the stores `sched i k t'` are performed before `Next(k)` is called
  again (the schedule is adaptive: it sees the step number, the key just returned and the whole table).
  A `Visit` records the table at the moment of the call and the pair returned.  `storesExisting t' l` is the
  property's proviso, checked store by store: each store of `l` clears (`none`) or overwrites (`some _`) a
  field that exists at that moment. -/

/-- **next_chain_under_modification** — for *every* table satisfying the representation invariant and *every*
    (adaptive) interleaving of the `Next` chain from nil with stores that clear or overwrite existing fields:
    (a) the chain terminates without panic after at most `len(array) + len(keys)` visits;
    (c) no key is returned twice;
    (d) every key is returned with the value it has at the moment of that `Next` call, and was a key of the
        table the traversal started on;
    (b) every key still present when the chain ends has been returned (since stores only hit existing
        fields, "present at the end" = "present throughout"). -/
theorem next_chain_under_modification (sched : Nat → Val → Tbl → List Store)
    (hs : ∀ i k t', storesExisting t' (sched i k t') = true) (t : Tbl) (h : Inv t) (hm : 0 < t.mai) :
    ∃ vs tf, chain sched t = .ok (vs, tf) ∧
      vs.length ≤ t.array.length + t.keys.length ∧
      (vs.map (·.k)).Nodup ∧
      (∀ x ∈ vs, rawGet x.t x.k = some x.v ∧ rawGet t x.k ≠ none) ∧
      (∀ k, rawGet tf k ≠ none → k ∈ vs.map (·.k)) := by
  obtain ⟨vs, tf, hc, hlen, hnd, hval, hall⟩ :=
    chain_complete sched (fun i k t' hI => storesExisting_OK t' hI _ (hs i k t')) t h hm
  obtain ⟨_, hmono⟩ := chainAux_mono sched hs _ _ _ _ _ _ hc
  refine ⟨vs, tf, hc, hlen, hnd, ?_, ?_⟩
  · intro x hx
    refine ⟨hval x hx, (hmono x hx x.k).2 ?_⟩
    rw [hval x hx]; simp
  · intro k hk
    exact hall k hk (fun x hx => (hmono x hx k).1 hk)

/-- the same for the weaker proviso "the key has a slot" (`storesOK`: a positive integer within the current
    array part, or a key that has been in the hash part at some time — i.e. clearing, overwriting **and
    re-inserting a cleared field**): termination, no repetition, current values, and every key that is present
    at each `Next` call of the chain (the last one included) is returned. -/
theorem next_chain_slot_stores (sched : Nat → Val → Tbl → List Store)
    (hs : ∀ i k (t' : Tbl), Table.Inv t' → storesOK t' (sched i k t') = true) (t : Tbl) (h : Inv t) (hm : 0 < t.mai) :
    ∃ vs tf, chain sched t = .ok (vs, tf) ∧
      vs.length ≤ t.array.length + t.keys.length ∧
      (vs.map (·.k)).Nodup ∧
      (∀ x ∈ vs, rawGet x.t x.k = some x.v) ∧
      (∀ k, rawGet tf k ≠ none → (∀ x ∈ vs, rawGet x.t k ≠ none) → k ∈ vs.map (·.k)) :=
  chain_complete sched hs t h hm

/-- with re-insertion allowed, "(b) every key present at the end has been returned" is *false*: a field cleared
    before the chain reaches its slot and stored again after the chain has passed it is present at the end
    and was never returned (Lua leaves assignment to a non-existent field during a traversal undefined; the
    property text only claims clear/overwrite of existing fields).  Witness: `{a=1,b=2,c=3}`; after `a` clear
    `b`; after `c` store `b=5`. -/
def next_chain_slot_stores_end_full : Prop :=
  ∀ (sched : Nat → Val → Tbl → List Store), (∀ i k (t' : Tbl), Table.Inv t' → storesOK t' (sched i k t') = true) →
    ∀ t : Tbl, Inv t → 0 < t.mai → ∀ vs tf, chain sched t = .ok (vs, tf) →
      ∀ k, rawGet tf k ≠ none → k ∈ vs.map (·.k)

def reinsertTbl : Tbl :=
  [StoreOp.set (.str "61") (some (.int 1)), .set (.str "62") (some (.int 2)), .set (.str "63") (some (.int 3))].foldl
    applyOp { mai := 100 }

def reinsertSched : Nat → Val → Tbl → List Store := fun i _ t =>
  keepSlot t (if i = 0 then [(.str "62", none)] else if i = 1 then [(.str "62", some (.int 5))] else [])

theorem next_chain_slot_stores_end_full_fails : ¬ next_chain_slot_stores_end_full := by
  intro H
  have hI : Inv reinsertTbl := inv_reachable 100 _ (by intro o ho; cases o <;> trivial)
  have := H reinsertSched (fun i k t' _ => storesOK_keepSlot t' _) reinsertTbl hI (by decide)
  obtain ⟨vs, tf, hc, -⟩ := next_chain_slot_stores reinsertSched (fun i k t' _ => storesOK_keepSlot t' _)
    reinsertTbl hI (by decide)
  have h1 := this vs tf hc (.str "62")
  have e : chain reinsertSched reinsertTbl = .ok (vs, tf) → rawGet tf (.str "62") ≠ none ∧ Val.str "62" ∉ vs.map (·.k) := by
    intro hc
    have hv : (match chain reinsertSched reinsertTbl with
        | .ok (vs, tf) => (vs.map (·.k), rawGet tf (.str "62"))
        | .error _ => ([], none)) = ([.str "61", .str "63"], some (.int 5)) := by decide
    rw [hc] at hv
    simp only [Prod.mk.injEq] at hv
    rw [hv.1, hv.2]; simp
  exact (e hc).2 (h1 (e hc).1)

/-! ### the list helper `Remove` during a traversal (finding `C09-next-after-array-shrink`)

  `table.remove(t)` / `LTable.Remove` only clear or overwrite existing fields as far as the finite map is
  concerned (manual §5.5: the last element is erased, the others shift down), so by the manual a traversal may
  go on after it.  But `Remove` *shrinks* the array part, and `Next(k)` for an integer `k > len(array)` fails
  the test `index == len(tb.array)`, falls through to `for i := tb.k2i[key] + 1 …` with `k2i[key]` = 0 (absent
  from the map) and so starts at `keys[1]`: the first key of the hash part is skipped. -/

/-- the full statement: after the first `Next` and one `Remove(pos)`, continuing the chain returns every other
    key that is still present. -/
def next_chain_with_remove_full : Prop :=
  ∀ (t : Tbl), Table.Inv t → 0 < t.mai → ∀ (pos : Int) (k v : Val), next t none = .ok (some (k, v)) →
    ∀ l, traverseAux (remove t pos).1 (t.array.length + t.keys.length + 2) (some k) = .ok l →
      ∀ k', k' ≠ k → rawGet (remove t pos).1 k' ≠ none → k' ∈ l.map (·.1)

def removeTbl : Tbl :=
  [StoreOp.set (.int 1) (some (.int 10)), .set (.str "61") (some (.int 1)), .set (.str "62") (some (.int 2))].foldl
    applyOp { mai := 100 }

/-- witness `t = {10, a=1, b=2}; k = next(t); table.remove(t); next(t,k) …` never returns `a`
    (checked on the real code: `for k in pairs(t) do if k==1 then table.remove(t) end end` visits 1, b). -/
theorem next_chain_with_remove_full_fails : ¬ next_chain_with_remove_full := by
  intro H
  have hI : Inv removeTbl := inv_reachable 100 _ (by intro o ho; cases o <;> trivial)
  have := H removeTbl hI (by decide) 1 (.int 1) (.int 10) rfl [(.str "62", .int 2)] rfl
    (.str "61") (by decide) (by decide)
  revert this; decide

/-- **with the proposed one-token repair of `Next`** (`fixes/C09-next-after-array-shrink.diff`, Model: `nextFixed`) the
    traversal theorem extends to `Remove`: for every table satisfying the invariant and every (adaptive) interleaving of
    the chain from nil with stores to slot keys **and `Remove(pos)` calls**, the chain terminates without panic, returns
    no key twice, returns each key with its value at that moment, and returns every key that is present at each call
    of the chain. -/
theorem next_fixed_chain_with_remove (sched : Nat → Val → Tbl → List Mod)
    (hs : ∀ i k (t' : Tbl), Table.Inv t' → modsOK t' (sched i k t') = true) (t : Tbl) (h : Inv t) (hm : 0 < t.mai) :
    ∃ vs tf, chainFixed sched t = .ok (vs, tf) ∧
      vs.length ≤ t.array.length + t.keys.length ∧
      (vs.map (·.k)).Nodup ∧
      (∀ x ∈ vs, rawGet x.t x.k = some x.v) ∧
      (∀ k, rawGet tf k ≠ none → (∀ x ∈ vs, rawGet x.t k ≠ none) → k ∈ vs.map (·.k)) :=
  chainFixed_complete sched hs t h hm

/-- the repair changes nothing where the unchanged `Next` is right: from nil and from any key that has a slot. -/
theorem next_fixed_agrees (t : Tbl) (h : Inv t) (hm : 0 < t.mai) (cur : OVal)
    (hc : cur = none ∨ ∃ (i : Nat) (k : Val), (slots t)[i]? = some k ∧ cur = some k) : nextFixed t cur = next t cur :=
  nextFixed_eq_next t h hm cur hc

/-- on the witness of the finding the repaired `Next` returns `a` after `table.remove(t)`. -/
example : nextFixed (remove removeTbl 1).1 (some (.int 1)) = .ok (some (.str "61", .int 1)) ∧
    next (remove removeTbl 1).1 (some (.int 1)) = .ok (some (.str "62", .int 2)) := ⟨rfl, rfl⟩

/-! non-vacuity of the traversal theorems: a table with an array hole, string and float keys; the schedule
    clears a field the chain has not reached yet, overwrites another one, and clears the field just returned. -/
def chainTbl : Tbl :=
  [StoreOp.set (.int 1) (some (.int 10)), .setInt 3 (some (.int 30)), .setStr (.str "61") (some (.bool true)),
   .setStr (.str "62") (some (.int 7)), .setH (.flt 4602678819172646912) (some (.int 5))].foldl applyOp { mai := 100 }

def chainSched : Nat → Val → Tbl → List Store := fun i _ t =>
  keepExisting t (if i = 0 then [(.str "62", none), (.int 3, some (.int 99)), (.int 1, none), (.str "7a", some (.int 0))] else [])

example : (∀ i k t', storesExisting t' (chainSched i k t') = true) ∧ Inv chainTbl ∧
    (match chain chainSched chainTbl with
      | .ok (vs, tf) => (vs.map (fun x => (x.k, x.v)), rawGet tf (.str "7a"))
      | .error _ => ([], none)) =
      ([(.int 1, .int 10), (.int 3, .int 99), (.str "61", .bool true), (.flt 4602678819172646912, .int 5)], none) := by
  refine ⟨fun i k t' => storesExisting_keepExisting t' _, ?_, by decide⟩
  exact inv_reachable 100 _ (by
    intro o ho
    simp only [List.mem_cons, List.mem_nil_iff, or_false] at ho
    rcases ho with rfl | rfl | rfl | rfl | rfl <;> simp [StoreOp.wf, isStr, arrIdx])

end GLua.Props.C09
