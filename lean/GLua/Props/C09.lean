/-
  C09 — a table is a finite map with a valid length border and complete traversal.
  Property theorems only (lemmas live in GLua/Proofs/Table.lean).  The Model is GLua/Model/Table.lean
  (a transcription of /repo/table.go, tied to the code by the correspondence check on every run);
  the Spec is GLua/Spec/TableSpec.lean (finite map, border).
-/
import GLua.Proofs.Table
import GLua.Proofs.TableNext

namespace GLua.Props.C09
open GLua GLua.Table GLua.TableSpec

/-- one store through any of the accessors of the Go table API / the Lua operations. -/
inductive StoreOp where
  | set    (k : Val) (v : OVal)     -- RawSet, `t[k] = v`, rawset
  | setInt (i : Int) (v : OVal)     -- RawSetInt
  | setStr (k : Val) (v : OVal)     -- RawSetString
  | setH   (k : Val) (v : OVal)     -- RawSetH

/-- the property's proviso: string accessor with string keys, hash accessor with hash-part keys. -/
def StoreOp.wf (mai : Nat) : StoreOp → Prop
  | .set _ _ => True
  | .setInt _ _ => True
  | .setStr k _ => isStr k = true
  | .setH k _ => arrIdx mai k = none

def StoreOp.key : StoreOp → Val
  | .set k _ => k | .setInt i _ => .int i | .setStr k _ => k | .setH k _ => k
def StoreOp.val : StoreOp → OVal
  | .set _ v => v | .setInt _ v => v | .setStr _ v => v | .setH _ v => v

def applyOp (t : Tbl) : StoreOp → Tbl
  | .set k v => rawSet t k v
  | .setInt i v => rawSetInt t i v
  | .setStr k v => rawSetString t k v
  | .setH k v => rawSetH t k v

def specOp (m : SMap) (o : StoreOp) : SMap := m.set o.key o.val

theorem applyOp_mai (t : Tbl) (o : StoreOp) : (applyOp t o).mai = t.mai := by
  cases o <;> simp [applyOp, rawSetInt_eq_rawSet]

theorem applyOp_refines (t : Tbl) (o : StoreOp) (h : o.wf t.mai) (k' : Val) :
    rawGet (applyOp t o) k' = specOp (rawGet t) o k' := by
  cases o with
  | set k v => simp only [applyOp, specOp, SMap.set, StoreOp.key, StoreOp.val, rawGet_rawSet]; rfl
  | setInt i v =>
    simp only [applyOp, specOp, SMap.set, StoreOp.key, StoreOp.val, rawSetInt_eq_rawSet, rawGet_rawSet]; rfl
  | setStr k v =>
    simp only [StoreOp.wf] at h
    simp only [applyOp, specOp, SMap.set, StoreOp.key, StoreOp.val, rawSetString_eq_rawSet t k v h, rawGet_rawSet]; rfl
  | setH k v =>
    simp only [StoreOp.wf] at h
    simp only [applyOp, specOp, SMap.set, StoreOp.key, StoreOp.val, rawSetH_eq_rawSet t k v h, rawGet_rawSet]; rfl

/-- **table_refines_map** — for *every* history of stores through any mix of accessors, starting from a
    fresh table (any `MaxArrayIndex`), every key reads back the value most recently stored under a key
    equal to it (nil if deleted or never stored): the four-structure table is a finite map. -/
theorem table_refines_map (mai : Nat) (ops : List StoreOp) (h : ∀ o ∈ ops, o.wf mai) (k : Val) :
    rawGet (ops.foldl applyOp { mai := mai }) k = (ops.foldl specOp SMap.empty) k := by
  suffices H : ∀ (t : Tbl) (m : SMap), t.mai = mai → (∀ k, rawGet t k = m k) →
      rawGet (ops.foldl applyOp t) k = (ops.foldl specOp m) k by
    exact H _ _ rfl (fun k => by simp [rawGet_empty, SMap.empty])
  induction ops with
  | nil => intro t m _ hm; simpa using hm k
  | cons o r ih =>
    intro t m ht hm
    simp only [List.foldl_cons]
    apply ih (fun o' ho' => h o' (List.mem_cons_of_mem _ ho'))
    · rw [applyOp_mai, ht]
    · intro k'
      rw [applyOp_refines t o (by rw [ht]; exact h o (List.mem_cons_self ..))]
      simp only [specOp, SMap.set, hm]

/-- every read accessor returns the abstract map's value (hash/string accessors under the proviso). -/
theorem reads_agree (t : Tbl) (k : Val) (i : Int) :
    rawGetInt t i = rawGet t (.int i) ∧
    (arrIdx t.mai k = none → rawGetH t k = rawGet t k) ∧
    (isStr k = true → rawGetString t k = rawGet t k) :=
  ⟨rawGetInt_eq_rawGet t i, rawGetH_eq_rawGet t k, rawGetString_eq_rawGet t k⟩

/-- 1 and 1.0 are the same key; a string and a number never are (canonical keys: an integral float64 is
    its integer, whatever its spelling — the canonicalisation is the harness's `encNum`, validated there). -/
theorem string_and_number_keys_differ (h : String) (i : Int) : (Val.str h) ≠ (Val.int i) := by simp

/-- **len_is_border** (see `Table.len_is_border`): `#t` is a border of the abstract map. -/
theorem len_is_border (t : Tbl) (h : t.array.length + 1 < t.mai) : isBorder (rawGet t) (len t) :=
  Table.len_is_border t h

/-- the full statement without the guard is *false* of the unchanged code: the recorded finding
    `C09-border-at-maxarrayindex`, witness from the correspondence run (MaxArrayIndex lowered to 6). -/
def len_is_border_full : Prop := ∀ t : Tbl, isBorder (rawGet t) (len t)

theorem len_is_border_full_fails : ¬ len_is_border_full := by
  intro h
  have := h (rawSet (rawSet { mai := 6 } (.int 6) (some (.bool false))) (.int 5) (some (.int 44)))
  revert this; decide

/-- a Lua-level store under nil or NaN is an error and leaves the table unchanged. -/
theorem lua_store_nil_nan_is_error (t : Tbl) (v : OVal) (k : OVal) :
    (∃ e, luaSet t none false v = .error e) ∧ (∃ e, luaSet t k true v = .error e) := by
  constructor <;> simp [luaSet]

/-- **next_complete** — iterating `Next` from nil on any table satisfying the representation
    invariant never panics, terminates, and visits exactly the present keys, each once, with its value. -/
theorem next_complete (t : Tbl) (h : Inv t) (hm : 0 < t.mai) :
    ∃ l : List (Val × Val), traverse t = .ok l ∧ (l.map (·.1)).Nodup ∧
      ∀ k v, (k, v) ∈ l ↔ rawGet t k = some v :=
  Table.traverse_complete t h hm

/-- without `0 < MaxArrayIndex` the statement is false (with `MaxArrayIndex = 0` the initial `Next(nil)`
    skips `keys[0]`); a degenerate configuration, recorded here as a machine-checked negation. -/
theorem next_complete_fails_mai_zero :
    ¬ (∀ t : Tbl, Table.Inv t → ∃ l : List (Val × Val), traverse t = .ok l ∧ (l.map (·.1)).Nodup ∧
      ∀ k v, (k, v) ∈ l ↔ rawGet t k = some v) :=
  Table.traverse_complete_fails_mai_zero

/-- the representation invariant holds for every table built by any history of stores and list helpers. -/
theorem inv_reachable (mai : Nat) (ops : List StoreOp) (h : ∀ o ∈ ops, o.wf mai) :
    Inv (ops.foldl applyOp { mai := mai }) := by
  suffices H : ∀ t : Tbl, t.mai = mai → Inv t → Inv (ops.foldl applyOp t) from H _ rfl Table.inv_empty
  induction ops with
  | nil => intro t _ hi; simpa using hi
  | cons o r ih =>
    intro t ht hi
    simp only [List.foldl_cons]
    apply ih (fun o' ho' => h o' (List.mem_cons_of_mem _ ho'))
    · rw [applyOp_mai, ht]
    · have hw := h o (List.mem_cons_self ..)
      cases o with
      | set k v => exact Table.inv_rawSet t k v hi
      | setInt i v => simp only [applyOp, rawSetInt_eq_rawSet]; exact Table.inv_rawSet t _ v hi
      | setStr k v =>
        simp only [StoreOp.wf] at hw
        simp only [applyOp, rawSetString_eq_rawSet t k v hw]; exact Table.inv_rawSet t k v hi
      | setH k v =>
        simp only [StoreOp.wf] at hw; rw [← ht] at hw
        simp only [applyOp, rawSetH_eq_rawSet t k v hw]; exact Table.inv_rawSet t k v hi

/-! non-vacuity: a concrete non-trivial history (array growth with a hole, string and float keys,
    deletion and re-insertion) meets the hypotheses and exercises every structure. -/
def exampleOps : List StoreOp :=
  [.set (.int 1) (some (.int 10)), .setInt 3 (some (.int 30)), .setStr (.str "61") (some (.bool true)),
   .setH (.flt 4609434218613702656) (some (.int 5)), .setStr (.str "61") none, .setStr (.str "61") (some (.int 7)),
   .set (.int 3) none]

example : (∀ o ∈ exampleOps, o.wf 100) ∧ len (exampleOps.foldl applyOp { mai := 100 }) = 1 ∧
      rawGet (exampleOps.foldl applyOp { mai := 100 }) (.str "61") = some (.int 7) := by
  refine ⟨?_, by decide, by decide⟩
  intro o ho
  simp only [exampleOps, List.mem_cons, List.mem_nil_iff, or_false] at ho
  rcases ho with rfl | rfl | rfl | rfl | rfl | rfl | rfl <;> simp [StoreOp.wf, isStr, arrIdx]

end GLua.Props.C09
