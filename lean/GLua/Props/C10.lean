/-
  C10 — Go API: faithful value stack, exact call contract, object ops equal Lua ops.
  Property theorems only (lemmas: GLua/Proofs/ApiStack.lean, ApiStackRefine.lean, ApiCall.lean).
  Model: GLua/Model/ApiStack.lean (transcription of /repo/state.go's registry + stack API + return paths,
  tied to the code by the correspondence run on every check); Spec: GLua/Spec/StackSpec.lean (a List
  indexed 1..top / -1..-top); regenerated facts: GLua/Generated/ApiDelegates.lean.
-/
import GLua.Proofs.ApiStackRefine
import GLua.Proofs.ApiCall
import GLua.Generated.ApiDelegates

namespace GLua.Props.C10
open GLua GLua.ApiStack

/-- one stack operation of the public API (pseudo-indices excluded by `wf`). -/
inductive StackOp where
  | push (v : OVal)
  | pop (n : Nat)
  | setTop (idx : Int)
  | insert (v : OVal) (idx : Int)
  | remove (idx : Int)
  | replace (idx : Int) (v : OVal)

def applyOp (s : St) : StackOp → Except Err St
  | .push v => push s v
  | .pop n => pop s n
  | .setTop i => setTop s i
  | .insert v i => insert s v i
  | .remove i => remove s i
  | .replace i v => replace s i v

/-- the list operation the Spec prescribes; `none` where the Spec prescribes no list (Pop of more than
    there is = error; Insert at an index that names no position; Replace through a pseudo-index). -/
def specOp (l : List OVal) : StackOp → Option (List OVal)
  | .push v => some (StackSpec.push l v)
  | .pop n => StackSpec.pop l n
  | .setTop i => some (StackSpec.setTop l i)
  | .insert v i => StackSpec.insert l v i
  | .remove i => some (StackSpec.remove l i)
  | .replace i v => if Generated.RegistryIndex < i then some (StackSpec.replace l i v) else none

def run (s : St) : List StackOp → Except Err St
  | [] => .ok s
  | o :: r => applyOp s o >>= fun s' => run s' r

def specRun (l : List OVal) : List StackOp → Option (List OVal)
  | [] => some l
  | o :: r => specOp l o >>= fun l' => specRun l' r

/-- **api_refines_list**, one operation: for every base, every caller prefix, every registry capacity /
    growth setting, every list content and every index (valid, 0, ±(top+1), beyond) at which the Spec
    prescribes a list, the operation (i) succeeds with exactly that list, (ii) leaves every slot below the
    base — everything that belongs to callers — unchanged, (iii) keeps the state well-formed with the same
    base; or it ends in the `registry overflow` Lua error.  It never ends in a Go panic. -/
theorem api_refines_list_step {s : St} (hw : WF s) (o : StackOp) (l' : List OVal)
    (hs : specOp (abs s) o = some l') : Refines s (applyOp s o) l' := by
  cases o with
  | push v =>
    simp only [specOp, Option.some.injEq] at hs; subst hs
    obtain ⟨h1, h2⟩ := push_refines hw v
    exact ⟨h1, h2⟩
  | pop n =>
    simp only [specOp, StackSpec.pop] at hs
    split at hs
    · cases hs; exact ((pop_refines n hw).1 (by assumption)).1
    · cases hs
  | setTop i =>
    simp only [specOp, Option.some.injEq] at hs; subst hs
    exact setTop_refines hw i
  | insert v i =>
    simp only [specOp] at hs
    have hi : i ≤ (abs s).length + 1 := by
      unfold StackSpec.insert StackSpec.resolve at hs
      split at hs
      · rename_i p hp
        split at hp
        · omega
        · split at hp
          · omega
          · cases hp
      · split at hs
        · omega
        · cases hs
    have := insert_refines hw v i hi
    unfold insertModelList at this
    rw [hs] at this
    exact this
  | remove i =>
    simp only [specOp, Option.some.injEq] at hs; subst hs
    exact remove_refines hw i
  | replace i v =>
    simp only [specOp] at hs
    split at hs
    · cases hs; exact replace_refines hw i v (by assumption)
    · cases hs

/-- **api_refines_list**, lifted to every history by induction: the whole run refines the Spec run,
    the caller prefix after any number of operations is the one on entry, and no history ends in a Go panic
    or in any error other than `registry overflow`. -/
theorem api_refines_list : ∀ (ops : List StackOp) {s : St}, WF s → ∀ l', specRun (abs s) ops = some l' →
    Refines s (run s ops) l'
  | [], s, hw, l', hs => by
    simp only [specRun, Option.some.injEq] at hs; subst hs
    exact refines_ok_self hw
  | o :: r, s, hw, l', hs => by
    simp only [specRun] at hs
    cases h1 : specOp (abs s) o with
    | none => rw [h1] at hs; cases hs
    | some l1 =>
      rw [h1] at hs
      have hs' : specRun l1 r = some l' := hs
      obtain ⟨hok, herr⟩ := api_refines_list_step hw o l1 h1
      simp only [run]
      cases h2 : applyOp s o with
      | error e =>
        rw [bind_err]
        exact ⟨fun s' e' => (by cases e'), fun e' he' => (by cases he'; exact herr _ h2)⟩
      | ok s1 =>
        rw [bind_ok]
        obtain ⟨ha, hp, hw1, hb⟩ := hok s1 h2
        obtain ⟨ihok, iherr⟩ := api_refines_list r hw1 l' (by rw [ha]; exact hs')
        refine ⟨fun s' e' => ?_, iherr⟩
        obtain ⟨a, b, c, d⟩ := ihok s' e'
        exact ⟨a, by rw [b, hp], c, by rw [d, hb]⟩

/-- Pop of more than the activation holds is the `register underflow` Lua error (it never reaches into
    the caller's values). -/
theorem pop_underflow {s : St} (hw : WF s) (n : Nat) (h : (abs s).length < n) : pop s n = .error underflow :=
  (pop_refines n hw).2 h

/-- reads: `Get` at any non-pseudo index returns the list element, and nil outside the list
    (0, beyond ±top); `GetTop` is the length. -/
theorem get_is_list_read {s : St} (hw : WF s) (idx : Int) (hidx : Generated.RegistryIndex < idx) :
    get s idx = .ok (.val (StackSpec.get (abs s) idx)) ∧ getTop s = StackSpec.getTop (abs s) := by
  refine ⟨get_refines hw idx hidx, ?_⟩
  have := abs_length s hw.top_le
  have := hw.base_le
  unfold getTop currentLocalBase StackSpec.getTop
  omega

theorem get_outside_is_nil {s : St} (hw : WF s) (idx : Int) (hidx : Generated.RegistryIndex < idx)
    (h : idx = 0 ∨ idx > (abs s).length ∨ idx < -((abs s).length : Int)) : get s idx = .ok (.val none) := by
  rw [get_refines hw idx hidx]
  unfold StackSpec.get
  rw [resolve_none h]

/-- Insert at the indices below the list (0 and idx < -top), where the Spec prescribes nothing: the value
    goes to the bottom of the *own* list; the caller prefix is still untouched. -/
theorem insert_below_clamps {s : St} (hw : WF s) (v : OVal) (idx : Int)
    (h : idx = 0 ∨ idx < -((abs s).length : Int)) :
    Refines s (insert s v idx) ((abs s).insertIdx 0 v) := by
  have := insert_refines hw v idx (by omega)
  unfold insertModelList StackSpec.insert at this
  rw [resolve_none (by omega)] at this
  simp only at this
  rw [if_neg (by omega)] at this
  exact this

/-- the full statement "every Insert leaves a list of LValues" is false of the unchanged code for indices
    beyond top+1 (recorded finding C10-insert-beyond-top-gap): the skipped slots hold Go nil. -/
def insert_keeps_wf_full : Prop := ∀ (s : St) (v : OVal) (idx : Int) (s' : St), WF s → insert s v idx = .ok s' → WF s'

def gapWitness : St := { reg := { array := List.replicate 8 .goNil, top := 0, growBy := 0, maxSize := 0 }, base := 0 }

theorem gapWitness_wf : WF gapWitness :=
  ⟨Nat.le_refl _, by decide, fun j h1 h2 => by simp [gapWitness] at h2⟩

theorem insert_keeps_wf_full_fails : ¬ insert_keeps_wf_full := by
  intro h
  have hw := h gapWitness (some (.int 54)) 3
    { reg := { array := [.goNil, .goNil, .val (some (.int 54)), .goNil, .goNil, .goNil, .goNil, .goNil],
               top := 3, growBy := 0, maxSize := 0 }, base := 0 } gapWitness_wf rfl
  obtain ⟨v, hv⟩ := hw.vals 0 (Nat.le_refl _) (by decide)
  simp at hv

/-- **call_contract** (host callee): a host function that returns `gfnret ≤ top` hands its caller exactly
    `adjust (its gfnret top-most values) NRet` (all of them for MultRet, nil-padded / truncated otherwise),
    placed from the return base on, with nothing above them; slots below the return base are unchanged. -/
theorem call_contract_return {s : St} (hw : WF s) (retBase : Nat) (hrb : retBase ≤ s.base) (nRet : Int)
    (hn : -1 ≤ nRet) (gfnret : Nat) (hg : gfnret ≤ (abs s).length) (callerBase : Nat) :
    (∀ s', callGFunctionRet s retBase nRet gfnret callerBase = .ok s' →
      s'.reg.top = retBase + (StackSpec.adjust (StackSpec.topMost (abs s) gfnret) nRet).length ∧
      (∀ j v, (StackSpec.adjust (StackSpec.topMost (abs s) gfnret) nRet)[j]? = some v →
         s'.reg.array[retBase + j]? = some (.val v)) ∧
      (∀ j, j < retBase → s'.reg.array[j]? = s.reg.array[j]?) ∧ s'.reg.top ≤ s'.reg.array.length) ∧
    (∀ e, callGFunctionRet s retBase nRet gfnret callerBase = .error e → e = overflow) :=
  callGFunctionRet_contract hw retBase hrb nRet hn gfnret hg callerBase

/-- **call_contract** (failed protected call): whatever the failed callee left in the registry (any top,
    any content above the call base, growth included), the recovery `SetTop(base)` leaves the caller's list
    without function, arguments or partial results, and the caller prefix untouched. -/
theorem call_contract_failed {s : St} (hw : WF s) (nargs : Nat) (hna : nargs + 1 ≤ (abs s).length)
    (atFailure : Reg) (hcap : atFailure.top ≤ atFailure.array.length)
    (hkeep : ∀ j, j < s.reg.top - nargs - 1 → atFailure.array[j]? = s.reg.array[j]?)
    (htop : s.reg.top - nargs - 1 ≤ atFailure.top) :
    Refines s (pcallRecover s nargs atFailure) (StackSpec.callFailed (abs s) nargs) :=
  pcallRecover_contract hw nargs hna atFailure hcap hkeep htop

/-- **call_contract** (failed protected call, every exit path of `PCall`'s deferred function): with no handler, with a
    handler that returned, and with a handler that itself failed (Lua error, Go value, overflow) — from whatever frame
    was current when the path was taken (`atExit.base`) — the function that made the protected call gets its own list
    back: same base, function / arguments / partial results gone, everything below the call window and the caller
    prefix untouched. -/
theorem call_contract_failed_every_path {s : St} (hw : WF s) (nargs : Nat) (hna : nargs + 1 ≤ (abs s).length)
    (path : RecoverPath) (atExit : St) (hcap : atExit.reg.top ≤ atExit.reg.array.length)
    (hkeep : ∀ j, j < s.reg.top - nargs - 1 → atExit.reg.array[j]? = s.reg.array[j]?)
    (htop : s.reg.top - nargs - 1 ≤ atExit.reg.top) :
    Refines s (pcallDeferred s nargs path atExit) (StackSpec.callFailed (abs s) nargs) := by
  rw [pcallDeferred_eq_recover]
  exact pcallRecover_contract hw nargs hna atExit.reg hcap hkeep htop

/-- what the list contract says about the caller's indices after ANY call (Spec level): the values below the call
    window are read through the same positive indices as before, `top = before − nargs − 1 + results left`, and the
    results sit directly above, in order. -/
theorem call_view (l : List OVal) (nargs : Nat) (nret : Int) (results : List OVal) (hna : nargs + 1 ≤ l.length) :
    StackSpec.getTop (StackSpec.call l nargs nret results)
        = l.length - nargs - 1 + (StackSpec.adjust results nret).length ∧
    (∀ i : Nat, 1 ≤ i → i ≤ l.length - nargs - 1 →
        StackSpec.get (StackSpec.call l nargs nret results) i = StackSpec.get l i) ∧
    (∀ k : Nat, k < (StackSpec.adjust results nret).length →
        StackSpec.get (StackSpec.call l nargs nret results) ((l.length - nargs - 1 + k + 1 : Nat) : Int)
          = (StackSpec.adjust results nret).getD k none) := by
  have hlen : (StackSpec.call l nargs nret results).length
      = l.length - nargs - 1 + (StackSpec.adjust results nret).length := by
    unfold StackSpec.call
    rw [List.length_append, List.length_take]
    omega
  refine ⟨hlen, ?_, ?_⟩
  · intro i h1 h2
    have hr1 : StackSpec.resolve (StackSpec.call l nargs nret results) (i : Int) = some (i - 1) := by
      unfold StackSpec.resolve
      rw [if_pos (by rw [hlen]; omega)]
      congr 1
      omega
    have hr2 : StackSpec.resolve l (i : Int) = some (i - 1) := by
      unfold StackSpec.resolve
      rw [if_pos (by omega)]
      congr 1
      omega
    unfold StackSpec.get
    rw [hr1, hr2]
    show (StackSpec.call l nargs nret results).getD (i - 1) none = l.getD (i - 1) none
    unfold StackSpec.call
    rw [List.getD_eq_getElem?_getD, List.getD_eq_getElem?_getD,
      List.getElem?_append_left (by rw [List.length_take]; omega), List.getElem?_take]
    rw [if_pos (by omega)]
  · intro k hk
    have hr : StackSpec.resolve (StackSpec.call l nargs nret results) ((l.length - nargs - 1 + k + 1 : Nat) : Int)
        = some (l.length - nargs - 1 + k) := by
      unfold StackSpec.resolve
      rw [if_pos (by rw [hlen]; omega)]
      congr 1
      omega
    unfold StackSpec.get
    rw [hr]
    show (StackSpec.call l nargs nret results).getD (l.length - nargs - 1 + k) none = _
    unfold StackSpec.call
    rw [List.getD_eq_getElem?_getD, List.getD_eq_getElem?_getD,
      List.getElem?_append_right (by rw [List.length_take]; omega)]
    congr 2
    rw [List.length_take]
    omega

/-- the same for a failed protected call: `top = before − nargs − 1`, the values below the call window under the same
    indices, nothing above. -/
theorem failed_call_view (l : List OVal) (nargs : Nat) (hna : nargs + 1 ≤ l.length) :
    StackSpec.getTop (StackSpec.callFailed l nargs) = l.length - nargs - 1 ∧
    (∀ i : Nat, 1 ≤ i → i ≤ l.length - nargs - 1 →
        StackSpec.get (StackSpec.callFailed l nargs) i = StackSpec.get l i) ∧
    (∀ i : Nat, l.length - nargs - 1 < i → StackSpec.get (StackSpec.callFailed l nargs) i = none) := by
  have h0 : StackSpec.callFailed l nargs = StackSpec.call l nargs 0 [] := by
    unfold StackSpec.callFailed StackSpec.call StackSpec.adjust
    simp
  have hadj : (StackSpec.adjust [] 0).length = 0 := by decide
  obtain ⟨h1, h2, _⟩ := call_view l nargs 0 [] hna
  rw [hadj] at h1
  refine ⟨by rw [h0]; exact h1, fun i a b => by rw [h0]; exact h2 i a b, ?_⟩
  intro i hi
  have hl : (StackSpec.callFailed l nargs).length = l.length - nargs - 1 := by rw [h0]; exact h1
  unfold StackSpec.get StackSpec.resolve
  rw [if_neg (by rw [hl]; omega), if_neg (by omega)]

/-! pseudo-indices: the cells a running host function sees. -/
def cellsOf (p : PSt) (f : FnCells) : StackSpec.Cells :=
  { registry := p.registry, environ := f.env, globals := p.globals, upvalues := f.ups }

/-- **pseudo_get**: inside a host function `Get` at a pseudo-index reads the cell the manual names (registry,
    the function's environment, globals, its n-th upvalue; nil beyond its upvalues), for every index. -/
theorem pseudo_get {p : PSt} {f : FnCells} (hf : p.frame = some f) (idx : Int) (which : StackSpec.Pseudo)
    (hi : StackSpec.pseudoOf idx = some which) :
    getPseudo p idx = .ok (StackSpec.pseudoGet (cellsOf p f) which) := by
  unfold StackSpec.pseudoOf at hi
  unfold getPseudo Generated.RegistryIndex Generated.EnvironIndex Generated.GlobalsIndex
  rw [hf]
  by_cases h0 : idx = -10000
  · rw [if_pos h0] at hi; cases hi; rw [if_pos h0]; rfl
  · rw [if_neg h0] at hi ⊢
    by_cases h1 : idx = -10001
    · rw [if_pos h1] at hi; cases hi; rw [if_pos h1]; rfl
    · rw [if_neg h1] at hi ⊢
      by_cases h2 : idx = -10002
      · rw [if_pos h2] at hi; cases hi; rw [if_pos h2]; rfl
      · rw [if_neg h2] at hi ⊢
        by_cases h3 : idx < -10002
        · rw [if_pos h3] at hi; cases hi
          have e : StackSpec.pseudoGet (cellsOf p f) (.upvalue (-10002 - idx).toNat)
              = if 1 ≤ (-10002 - idx).toNat ∧ (-10002 - idx).toNat ≤ f.ups.length
                then f.ups.getD ((-10002 - idx).toNat - 1) none else none := rfl
          rw [e]
          show (if -10002 - idx - 1 < (f.ups.length : Int) then _ else _) = _
          by_cases h4 : -10002 - idx - 1 < (f.ups.length : Int)
          · rw [if_pos h4, if_neg (by omega), if_pos (by omega)]
            congr 2
            omega
          · rw [if_neg h4, if_neg (by omega)]
        · rw [if_neg h3] at hi; cases hi

/-- **pseudo_replace**: inside a host function `Replace` at a pseudo-index stores into exactly that cell (a table is
    required for registry / environment / globals: anything else is a Lua error, never a Go panic; a store beyond the
    function's upvalues has no effect).  The value stack is not an argument of this branch: the list of the
    activation and everything that belongs to callers is untouched by construction. -/
theorem pseudo_replace {p : PSt} {f : FnCells} (hf : p.frame = some f) (idx : Int) (which : StackSpec.Pseudo)
    (hi : StackSpec.pseudoOf idx = some which) (v : OVal) (isTable : Bool) :
    match StackSpec.pseudoSet (cellsOf p f) which v isTable with
    | some c' => ∃ p' f', replacePseudo p idx v isTable = .ok p' ∧ p'.frame = some f' ∧ cellsOf p' f' = c' ∧
                          p'.threadEnv = p.threadEnv
    | none => ∃ m, replacePseudo p idx v isTable = .error (.luaError m) := by
  unfold StackSpec.pseudoOf at hi
  unfold replacePseudo Generated.RegistryIndex Generated.EnvironIndex Generated.GlobalsIndex
  rw [hf]
  by_cases h0 : idx = -10000
  · rw [if_pos h0] at hi; cases hi; rw [if_pos h0]
    cases isTable
    · exact ⟨_, rfl⟩
    · exact ⟨_, f, rfl, rfl, rfl, rfl⟩
  · rw [if_neg h0] at hi ⊢
    by_cases h1 : idx = -10001
    · rw [if_pos h1] at hi; cases hi; rw [if_pos h1]
      cases isTable
      · exact ⟨_, rfl⟩
      · exact ⟨_, _, rfl, rfl, rfl, rfl⟩
    · rw [if_neg h1] at hi ⊢
      by_cases h2 : idx = -10002
      · rw [if_pos h2] at hi; cases hi; rw [if_pos h2]
        cases isTable
        · exact ⟨_, rfl⟩
        · exact ⟨_, f, rfl, rfl, rfl, rfl⟩
      · rw [if_neg h2] at hi ⊢
        by_cases h3 : idx < -10002
        · rw [if_pos h3] at hi; cases hi
          have e : StackSpec.pseudoSet (cellsOf p f) (.upvalue (-10002 - idx).toNat) v isTable
              = if 1 ≤ (-10002 - idx).toNat ∧ (-10002 - idx).toNat ≤ f.ups.length
                then some { cellsOf p f with upvalues := f.ups.set ((-10002 - idx).toNat - 1) v }
                else some (cellsOf p f) := rfl
          rw [e]
          by_cases h4 : -10002 - idx - 1 < (f.ups.length : Int)
          · rw [if_pos (by omega)]
            show ∃ p' f', (if -10002 - idx - 1 < (f.ups.length : Int) then _ else _) = Except.ok p' ∧ _
            rw [if_pos h4, if_neg (by omega)]
            refine ⟨_, _, rfl, rfl, ?_, rfl⟩
            have : (-10002 - idx - 1).toNat = (-10002 - idx).toNat - 1 := by omega
            rw [this]
            rfl
          · rw [if_neg (by omega)]
            show ∃ p' f', (if -10002 - idx - 1 < (f.ups.length : Int) then _ else _) = Except.ok p' ∧ _
            rw [if_neg h4]
            exact ⟨_, f, rfl, hf, rfl, rfl⟩
        · rw [if_neg h3] at hi; cases hi

/-- at top level (no running function): registry and globals as above; the environment read is the thread's, a
    store into it is the Lua error "no calling environment". -/
theorem pseudo_toplevel {p : PSt} (hf : p.frame = none) (v : OVal) (isTable : Bool) :
    getPseudo p Generated.RegistryIndex = .ok p.registry ∧ getPseudo p Generated.GlobalsIndex = .ok p.globals ∧
    getPseudo p Generated.EnvironIndex = .ok p.threadEnv ∧
    replacePseudo p Generated.EnvironIndex v isTable = .error (.luaError "no calling environment") := by
  unfold getPseudo replacePseudo
  rw [hf]
  exact ⟨rfl, rfl, rfl, rfl⟩

/-- full strength would be: no pseudo-index operation ends in a Go panic.  False at top level: an upvalue index
    dereferences the nil `currentFrame` (in C Lua the same call is undefined behaviour: there is no running C function
    whose upvalues could be meant; outside the property's index domain, the generator never does it). -/
def pseudo_never_panics_full : Prop :=
  ∀ (p : PSt) (idx : Int), idx ≤ Generated.RegistryIndex → ∀ site, getPseudo p idx ≠ .error (.goPanic site)

theorem pseudo_never_panics_full_fails : ¬ pseudo_never_panics_full := by
  intro h
  exact h { registry := none, globals := none, threadEnv := none, frame := none } (-10003) (by decide) _ rfl

/-- the partial statement: with a running function, never a Go panic (reads), for every pseudo-index. -/
theorem pseudo_never_panics_partial {p : PSt} {f : FnCells} (hf : p.frame = some f) (idx : Int)
    (hidx : idx ≤ Generated.RegistryIndex) : ∃ v, getPseudo p idx = .ok v := by
  have : ∃ which, StackSpec.pseudoOf idx = some which := by
    unfold StackSpec.pseudoOf
    unfold Generated.RegistryIndex at hidx
    by_cases h0 : idx = -10000
    · exact ⟨_, by rw [if_pos h0]⟩
    · by_cases h1 : idx = -10001
      · exact ⟨_, by rw [if_neg h0, if_pos h1]⟩
      · by_cases h2 : idx = -10002
        · exact ⟨_, by rw [if_neg h0, if_neg h1, if_pos h2]⟩
        · exact ⟨_, by rw [if_neg h0, if_neg h1, if_neg h2, if_pos (by omega)]⟩
  obtain ⟨w, hw⟩ := this
  exact ⟨_, pseudo_get hf idx w hw⟩

/-- non-vacuity: a host function with two upvalues; index -10004 is its second upvalue, -10005 is beyond. -/
def examplePSt : PSt :=
  { registry := some (.ref 1), globals := some (.ref 2), threadEnv := some (.ref 2),
    frame := some { env := some (.ref 3), ups := [some (.int 7101), some (.str "7570")] } }

example :
    let p := examplePSt
    getPseudo p (-10004) = .ok (some (.str "7570")) ∧ getPseudo p (-10005) = .ok none ∧
    (replacePseudo p (-10003) none false).toOption.map (fun q => q.frame.map (·.ups))
      = some (some [none, some (.str "7570")]) ∧
    replacePseudo p (-10001) (some (.int 1)) false = .error (.luaError "environment must be a table") := by
  exact ⟨rfl, rfl, rfl, rfl⟩

/-- **api_delegates** (regenerated from the text of /repo/state.go on every run): each object-level call is
    a single delegation to the helper the VM itself uses, so the C04/C09 theorems about those helpers apply
    to the API verbatim. -/
def expectedDelegations : List (String × String) :=
  [("GetTable", "ls.getField(obj, key)"), ("SetTable", "ls.setField(obj, key, value)"),
   ("GetField", "ls.getFieldString(obj, skey)"), ("SetField", "ls.setFieldString(obj, key, value)"),
   ("GetGlobal", "ls.GetField(ls.Get(GlobalsIndex), name)"), ("SetGlobal", "ls.SetField(ls.Get(GlobalsIndex), name, value)"),
   ("Equal", "equals(ls, lhs, rhs, false)"), ("RawEqual", "equals(ls, lhs, rhs, true)"),
   ("LessThan", "lessThan(ls, lhs, rhs)"), ("GetMetatable", "ls.metatable(obj, false)"),
   ("Next", "tb.Next(key)"), ("Call", "ls.callR(nargs, nret, -1)"), ("Push", "ls.reg.Push(value)")]

theorem api_delegates : expectedDelegations.all (fun d => Generated.apiDelegates.contains d) = true := by
  decide

/-! non-vacuity: a concrete activation at a non-zero base with caller data below it, a list containing nil,
    and a history that exercises growth-free shifting in both directions. -/
def exampleSt : St :=
  { reg := { array := [.val (some (.int 900)), .val (some (.ref 7)), .goNil, .val (some (.int 1)), .val none,
                       .val (some (.str "61")), .goNil, .goNil],
             top := 6, growBy := 2, maxSize := 64 }, base := 3 }

def exampleOps : List StackOp :=
  [.insert (some (.bool true)) (-2), .remove 1, .setTop 5, .replace (-1) (some (.int 9)), .pop 1, .push none,
   .insert (some (.int 5)) 5, .insert (some (.int 6)) 7]

theorem exampleSt_wf : WF exampleSt :=
  ⟨by decide, by decide, fun j h1 h2 => by
    have h3 : j < 6 := h2
    have h4 : 3 ≤ j := h1
    have : j = 3 ∨ j = 4 ∨ j = 5 := by omega
    rcases this with h | h | h <;> subst h <;> simp [exampleSt]⟩

example : WF exampleSt ∧ abs exampleSt = [some (.int 1), none, some (.str "61")] ∧
    specRun (abs exampleSt) exampleOps =
      some [some (.bool true), none, some (.str "61"), none, some (.int 5), none, some (.int 6)] ∧
    callerPrefix exampleSt = [.val (some (.int 900)), .val (some (.ref 7)), .goNil] :=
  ⟨exampleSt_wf, by decide, by decide, by decide⟩

/-- the model run of the same history succeeds, grows the registry (8 → 11 slots) and, by `api_refines_list`,
    ends with exactly that list and the same caller prefix. -/
example : (run exampleSt exampleOps).toOption.map (fun s => (s.reg.array.length, s.reg.top, callerPrefix s)) =
    some (11, 10, [.val (some (.int 900)), .val (some (.ref 7)), .goNil]) := by decide

/-- call contract, non-vacuity: a host function with list [1, nil, "61"] returning 2 to a caller that wants 3. -/
example : StackSpec.adjust (StackSpec.topMost (abs exampleSt) 2) 3 = [none, some (.str "61"), none] := by decide

/-- non-vacuity of the failed-call statements: the activation of `exampleSt` calls with 1 argument; the callee frame
    (base 6) pushed two values, the failing handler's frame (base 9) three more, before the inner recover ran. -/
example :
    (pcallDeferred exampleSt 1 .handlerFailed
        { reg := { exampleSt.reg with array := exampleSt.reg.array ++ List.replicate 4 (.val (some (.int 6001))), top := 12 },
          base := 9 }).toOption.map (fun s => (s.base, s.reg.top, abs s))
      = some (3, 4, [some (.int 1)]) ∧
    StackSpec.callFailed (abs exampleSt) 1 = [some (.int 1)] := by
  decide

end GLua.Props.C10
