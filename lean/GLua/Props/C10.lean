/-
  C10 — Go API: faithful value stack, exact call contract, object ops equal Lua ops.
  Property theorems only (lemmas: GLua/Proofs/ApiStack.lean, ApiStackRefine.lean, ApiCall.lean).
  Model: GLua/Model/ApiStack.lean (transcription of /repo/state.go's registry + stack API + return paths,
  tied to the code by the correspondence run on every check); Spec: GLua/Spec/StackSpec.lean (a List
  indexed 1..top / -1..-top); regenerated facts: GLua/Generated/ApiDelegates.lean.
-/
import GLua.Proofs.ApiStackRefine
import GLua.Proofs.ApiCall
import GLua.Proofs.ApiCallR
import GLua.Proofs.ApiPCall
import GLua.Proofs.ApiObj
import GLua.Proofs.ApiPCallR
import GLua.Model.ApiObj
import GLua.Props.C04
import GLua.Generated.OpcodeHelpers
import GLua.Generated.ApiBodies
import GLua.Generated.ApiDelegates

namespace GLua.Props.C10
open GLua GLua.ApiStack

/-! `StackOp`, `applyOp`, `run` (one API operation / a history of them on the Model) live in Model/ApiStack.lean. -/

/-! the list operation the Spec prescribes for one operation / a history: `StackSpec.specOp`, `StackSpec.specRun`. -/
open GLua.StackSpec (specOp specRun)

/-- **api_refines_list**, one operation: for every base, every caller prefix, every registry capacity /
    growth setting, every list content and every index (valid, 0, ±(top+1), beyond) at which the Spec
    prescribes a list, the operation (i) succeeds with exactly that list, (ii) leaves every slot below the
    base — everything that belongs to callers — unchanged, (iii) keeps the state well-formed with the same
    base; or it ends in the `registry overflow` Lua error.  It never ends in a Go panic. -/
theorem api_refines_list_step {s : St} (hw : WF s) (o : StackOp) (l' : List OVal)
    (hs : specOp (abs s) o = some l') (hok : OpIdxOK s.base o) : Refines s (applyOp s o) l' := by
  cases o with
  | push v =>
    simp only [specOp, Option.some.injEq] at hs; subst hs
    obtain ⟨h1, h2⟩ := push_refines hw v
    exact ⟨h1, h2⟩
  | pop n =>
    simp only [specOp, StackSpec.pop] at hs
    split at hs
    · cases hs; exact ((pop_refines n hw).1 (by assumption)).1
    · cases hs
  | setTop i =>
    simp only [specOp, Option.some.injEq] at hs; subst hs
    exact setTop_refines hw i hok
  | insert v i =>
    simp only [specOp] at hs
    have := insert_refines hw v i hok
    unfold insertModelList at this
    rw [hs] at this
    exact this
  | remove i =>
    simp only [specOp, Option.some.injEq] at hs; subst hs
    exact remove_refines hw i hok
  | replace i v =>
    simp only [specOp] at hs
    split at hs
    · cases hs; exact replace_refines hw i v (by assumption)
    · cases hs

/-- **api_refines_list**, lifted to every history by induction: the whole run refines the Spec run,
    the caller prefix after any number of operations is the one on entry, and no history ends in a Go panic
    or in any error other than `registry overflow`. -/
theorem api_refines_list : ∀ (ops : List StackOp) {s : St}, WF s → ∀ l', specRun (abs s) ops = some l' →
    (∀ o ∈ ops, OpIdxOK s.base o) → Refines s (run s ops) l'
  | [], s, hw, l', hs, _ => by
    simp only [specRun, Option.some.injEq] at hs; subst hs
    exact refines_ok_self hw
  | o :: r, s, hw, l', hs, hok => by
    simp only [specRun] at hs
    cases h1 : specOp (abs s) o with
    | none => rw [h1] at hs; cases hs
    | some l1 =>
      rw [h1] at hs
      have hs' : specRun l1 r = some l' := hs
      obtain ⟨hstep, herr⟩ := api_refines_list_step hw o l1 h1 (hok o (by simp))
      simp only [run]
      cases h2 : applyOp s o with
      | error e =>
        rw [bind_err]
        exact ⟨fun s' e' => (by cases e'), fun e' he' => (by cases he'; exact herr _ h2)⟩
      | ok s1 =>
        rw [bind_ok]
        obtain ⟨ha, hp, hw1, hb⟩ := hstep s1 h2
        obtain ⟨ihok, iherr⟩ := api_refines_list r hw1 l' (by rw [ha]; exact hs')
          (fun o' ho' => by rw [hb]; exact hok o' (List.mem_cons_of_mem _ ho'))
        refine ⟨fun s' e' => ?_, iherr⟩
        obtain ⟨a, b, c, d⟩ := ihok s' e'
        exact ⟨a, by rw [b, hp], c, by rw [d, hb]⟩

/-- Pop of more than the activation holds is the `register underflow` Lua error (it never reaches into
    the caller's values). -/
theorem pop_underflow {s : St} (hw : WF s) (n : Nat) (h : (abs s).length < n) : pop s n = .error underflow :=
  (pop_refines n hw).2 h

/-- reads: `Get` at any non-pseudo index returns the list element, and nil outside the list
    (0, beyond ±top); `GetTop` is the length. -/
theorem get_is_list_read {s : St} (hw : WF s) (idx : Int) (hidx : Generated.RegistryIndex < idx) :
    get s idx = .ok (.val (StackSpec.get (abs s) idx)) ∧ getTop s = StackSpec.getTop (abs s) := by
  refine ⟨get_refines hw idx hidx, ?_⟩
  have := abs_length s hw.top_le
  have := hw.base_le
  unfold getTop currentLocalBase StackSpec.getTop
  omega

theorem get_outside_is_nil {s : St} (hw : WF s) (idx : Int) (hidx : Generated.RegistryIndex < idx)
    (h : idx = 0 ∨ idx > (abs s).length ∨ idx < -((abs s).length : Int)) : get s idx = .ok (.val none) := by
  rw [get_refines hw idx hidx]
  unfold StackSpec.get
  rw [resolve_none h]

/-- Insert at the indices below the list (0 and idx < -top), where the Spec prescribes nothing: the value
    goes to the bottom of the *own* list; the caller prefix is still untouched. -/
theorem insert_below_clamps {s : St} (hw : WF s) (v : OVal) (idx : Int)
    (h : idx = 0 ∨ idx < -((abs s).length : Int)) :
    Refines s (insert s v idx) ((abs s).insertIdx 0 v) := by
  have := insert_refines hw v idx (idxOK_nonpos _ (by omega))
  unfold insertModelList StackSpec.insert at this
  rw [resolve_none (by omega)] at this
  simp only at this
  rw [if_neg (by omega)] at this
  simp only at this
  rw [if_neg (by omega)] at this
  exact this

/-- **insert_keeps_wf** (full strength, since the repair of C10-insert-beyond-top-gap): EVERY Insert that succeeds —
    every index, also beyond top+1, also one whose register arithmetic wrapped — leaves a well-formed list of LValues
    with the same base and the caller prefix untouched; the only possible error is `registry overflow`. -/
def insert_keeps_wf_full : Prop := ∀ (s : St) (v : OVal) (idx : Int) (s' : St), WF s → insert s v idx = .ok s' → WF s'

theorem insert_keeps_wf : insert_keeps_wf_full := fun s v idx s' hw h => by
  obtain ⟨l', h1, _⟩ := insert_total hw v idx
  exact (h1 s' h).2.2.1

theorem insert_every_index_frame {s : St} (hw : WF s) (v : OVal) (idx : Int) :
    (∀ s', insert s v idx = .ok s' → callerPrefix s' = callerPrefix s ∧ WF s' ∧ s'.base = s.base) ∧
    (∀ e, insert s v idx = .error e → e = overflow) := by
  obtain ⟨l', h1, h2⟩ := insert_total hw v idx
  exact ⟨fun s' h => (h1 s' h).2, h2⟩

/-- **insert_beyond_pads**: at an index beyond top+1 (where the Spec prescribes no list) the skipped positions
    top+1 … idx-1 read nil — LValues, not Go nil — and the value is at idx: the list is `resize l (idx-1) ++ [v]`. -/
theorem insert_beyond_pads {s : St} (hw : WF s) (v : OVal) (idx : Int) (h : idx > (abs s).length + 1)
    (hok : IdxOK s.base idx) :
    Refines s (insert s v idx) (StackSpec.resize (abs s) (idx - 1).toNat ++ [v]) := by
  have := insert_refines hw v idx hok
  unfold insertModelList StackSpec.insert at this
  rw [resolve_none (by omega)] at this
  simp only at this
  rw [if_neg (by omega)] at this
  simp only at this
  rw [if_pos (by omega)] at this
  exact this

/-- before the repair the full statement was false: `Insert` (`insertOld`: `if reg >= top { reg.Set(reg, value) }`)
    beyond top+1 left the skipped slots as Go nil (finding C10-insert-beyond-top-gap, fixed). -/
def insert_keeps_wf_fullOld : Prop :=
  ∀ (s : St) (v : OVal) (idx : Int) (s' : St), WF s → insertOld s v idx = .ok s' → WF s'

def gapWitness : St := { reg := { array := List.replicate 8 .goNil, top := 0, growBy := 0, maxSize := 0 }, base := 0 }

theorem gapWitness_wf : WF gapWitness :=
  ⟨Nat.le_refl _, by decide, fun j h1 h2 => by simp [gapWitness] at h2⟩

theorem insert_keeps_wf_before_fix_fails : ¬ insert_keeps_wf_fullOld := by
  intro h
  have hw := h gapWitness (some (.int 54)) 3
    { reg := { array := [.goNil, .goNil, .val (some (.int 54)), .goNil, .goNil, .goNil, .goNil, .goNil],
               top := 3, growBy := 0, maxSize := 0 }, base := 0 } gapWitness_wf rfl
  obtain ⟨v, hv⟩ := hw.vals 0 (Nat.le_refl _) (by decide)
  simp at hv

/-- the same witness on the repaired code: the two skipped slots are LNil. -/
example : insert gapWitness (some (.int 54)) 3 = .ok
    { reg := { array := [.val none, .val none, .val (some (.int 54)), .goNil, .goNil, .goNil, .goNil, .goNil],
               top := 3, growBy := 0, maxSize := 0 }, base := 0 } := by decide

/-- **call_contract** (host callee): a host function that returns `gfnret ≤ top` hands its caller exactly
    `adjust (its gfnret top-most values) NRet` (all of them for MultRet, nil-padded / truncated otherwise),
    placed from the return base on, with nothing above them; slots below the return base are unchanged. -/
theorem call_contract_return {s : St} (hw : WF s) (retBase : Nat) (hrb : retBase ≤ s.base) (nRet : Int)
    (hn : -1 ≤ nRet) (gfnret : Nat) (hg : gfnret ≤ (abs s).length) (callerBase : Nat) :
    (∀ s', callGFunctionRet s retBase nRet gfnret callerBase = .ok s' →
      s'.reg.top = retBase + (StackSpec.adjust (StackSpec.topMost (abs s) gfnret) nRet).length ∧
      (∀ j v, (StackSpec.adjust (StackSpec.topMost (abs s) gfnret) nRet)[j]? = some v →
         s'.reg.array[retBase + j]? = some (.val v)) ∧
      (∀ j, j < retBase → s'.reg.array[j]? = s.reg.array[j]?) ∧ s'.reg.top ≤ s'.reg.array.length) ∧
    (∀ e, callGFunctionRet s retBase nRet gfnret callerBase = .error e → e = overflow) :=
  callGFunctionRet_contract hw retBase hrb nRet hn gfnret hg callerBase

/-- **call_contract** (failed protected call): whatever the failed callee left in the registry (any top,
    any content above the call base, growth included), the recovery `SetTop(base)` leaves the caller's list
    without function, arguments or partial results, and the caller prefix untouched. -/
theorem call_contract_failed {s : St} (hw : WF s) (nargs : Nat) (hna : nargs + 1 ≤ (abs s).length)
    (atFailure : Reg) (hcap : atFailure.top ≤ atFailure.array.length)
    (hkeep : ∀ j, j < s.reg.top - nargs - 1 → atFailure.array[j]? = s.reg.array[j]?)
    (htop : s.reg.top - nargs - 1 ≤ atFailure.top) :
    Refines s (pcallRecover s nargs atFailure) (StackSpec.callFailed (abs s) nargs) :=
  pcallRecover_contract hw nargs hna atFailure hcap hkeep htop

/-- **call_contract** (failed protected call, every exit path of `PCall`'s deferred function): with no handler, with a
    handler that returned, and with a handler that itself failed (Lua error, Go value, overflow) — from whatever frame
    was current when the path was taken (`atExit.base`) — the function that made the protected call gets its own list
    back: same base, function / arguments / partial results gone, everything below the call window and the caller
    prefix untouched. -/
theorem call_contract_failed_every_path {s : St} (hw : WF s) (nargs : Nat) (hna : nargs + 1 ≤ (abs s).length)
    (path : RecoverPath) (atExit : St) (hcap : atExit.reg.top ≤ atExit.reg.array.length)
    (hkeep : ∀ j, j < s.reg.top - nargs - 1 → atExit.reg.array[j]? = s.reg.array[j]?)
    (htop : s.reg.top - nargs - 1 ≤ atExit.reg.top) :
    Refines s (pcallDeferred s nargs path atExit) (StackSpec.callFailed (abs s) nargs) := by
  rw [pcallDeferred_eq_recover]
  exact pcallRecover_contract hw nargs hna atExit.reg hcap hkeep htop

/-- what the list contract says about the caller's indices after ANY call (Spec level): the values below the call
    window are read through the same positive indices as before, `top = before − nargs − 1 + results left`, and the
    results sit directly above, in order. -/
theorem call_view (l : List OVal) (nargs : Nat) (nret : Int) (results : List OVal) (hna : nargs + 1 ≤ l.length) :
    StackSpec.getTop (StackSpec.call l nargs nret results)
        = l.length - nargs - 1 + (StackSpec.adjust results nret).length ∧
    (∀ i : Nat, 1 ≤ i → i ≤ l.length - nargs - 1 →
        StackSpec.get (StackSpec.call l nargs nret results) i = StackSpec.get l i) ∧
    (∀ k : Nat, k < (StackSpec.adjust results nret).length →
        StackSpec.get (StackSpec.call l nargs nret results) ((l.length - nargs - 1 + k + 1 : Nat) : Int)
          = (StackSpec.adjust results nret).getD k none) := by
  have hlen : (StackSpec.call l nargs nret results).length
      = l.length - nargs - 1 + (StackSpec.adjust results nret).length := by
    unfold StackSpec.call
    rw [List.length_append, List.length_take]
    omega
  refine ⟨hlen, ?_, ?_⟩
  · intro i h1 h2
    have hr1 : StackSpec.resolve (StackSpec.call l nargs nret results) (i : Int) = some (i - 1) := by
      unfold StackSpec.resolve
      rw [if_pos (by rw [hlen]; omega)]
      congr 1
      omega
    have hr2 : StackSpec.resolve l (i : Int) = some (i - 1) := by
      unfold StackSpec.resolve
      rw [if_pos (by omega)]
      congr 1
      omega
    unfold StackSpec.get
    rw [hr1, hr2]
    show (StackSpec.call l nargs nret results).getD (i - 1) none = l.getD (i - 1) none
    unfold StackSpec.call
    rw [List.getD_eq_getElem?_getD, List.getD_eq_getElem?_getD,
      List.getElem?_append_left (by rw [List.length_take]; omega), List.getElem?_take]
    rw [if_pos (by omega)]
  · intro k hk
    have hr : StackSpec.resolve (StackSpec.call l nargs nret results) ((l.length - nargs - 1 + k + 1 : Nat) : Int)
        = some (l.length - nargs - 1 + k) := by
      unfold StackSpec.resolve
      rw [if_pos (by rw [hlen]; omega)]
      congr 1
      omega
    unfold StackSpec.get
    rw [hr]
    show (StackSpec.call l nargs nret results).getD (l.length - nargs - 1 + k) none = _
    unfold StackSpec.call
    rw [List.getD_eq_getElem?_getD, List.getD_eq_getElem?_getD,
      List.getElem?_append_right (by rw [List.length_take]; omega)]
    congr 2
    rw [List.length_take]
    omega

/-- the same for a failed protected call: `top = before − nargs − 1`, the values below the call window under the same
    indices, nothing above. -/
theorem failed_call_view (l : List OVal) (nargs : Nat) (hna : nargs + 1 ≤ l.length) :
    StackSpec.getTop (StackSpec.callFailed l nargs) = l.length - nargs - 1 ∧
    (∀ i : Nat, 1 ≤ i → i ≤ l.length - nargs - 1 →
        StackSpec.get (StackSpec.callFailed l nargs) i = StackSpec.get l i) ∧
    (∀ i : Nat, l.length - nargs - 1 < i → StackSpec.get (StackSpec.callFailed l nargs) i = none) := by
  have h0 : StackSpec.callFailed l nargs = StackSpec.call l nargs 0 [] := by
    unfold StackSpec.callFailed StackSpec.call StackSpec.adjust
    simp
  have hadj : (StackSpec.adjust [] 0).length = 0 := by decide
  obtain ⟨h1, h2, _⟩ := call_view l nargs 0 [] hna
  rw [hadj] at h1
  refine ⟨by rw [h0]; exact h1, fun i a b => by rw [h0]; exact h2 i a b, ?_⟩
  intro i hi
  have hl : (StackSpec.callFailed l nargs).length = l.length - nargs - 1 := by rw [h0]; exact h1
  unfold StackSpec.get StackSpec.resolve
  rw [if_neg (by rw [hl]; omega), if_neg (by omega)]

/-! ## the call contract, composed: `callR` as a whole -/

/-- **call_contract_composed** (host callee, any body).  For EVERY caller state (any base, caller prefix, registry size
    and growth setting, list content), every `nargs ≤ top-1`, every `NRet ∈ {MultRet} ∪ ℕ`, every way `metaCall` resolves
    the called value (a function / an object with `__call`) and EVERY host-function body that respects its own
    activation (`BodyOKAt`: any Go code — stack operations, calls, protected calls — that leaves a list of LValues
    on its base, touches nothing below it and returns `0 ≤ n ≤ its top`), the whole of `callR`
    (`pushCallFrame`'s Insert for `__call`, `initCallFrame`'s SetTop, the body, `callGFunction`'s CopyRange, the frame
    pop and the final `SetTop(rbase+nret)`):
      * enters the callee with exactly the arguments (preceded by the called object for `__call`) as its list, and
        everything below — the caller's prefix, the rest of its list, the function slot — as it was (`CalleeEntry`);
      * leaves the caller's list = `prefix ++ adjust (the callee's n top-most values) NRet`, where prefix = the list
        without function and arguments ("the count a host function returns selects exactly its top-most values");
      * leaves everything below the caller's base untouched, the caller's frame current, the state well-formed;
      * fails only with `registry overflow`, `attempt to call a non-function object`, or the error the body raised —
        never with a Go panic of its own. -/
theorem call_contract_composed {s : St} (hw : WF s) (nargs : Nat) (hna : nargs + 1 ≤ (abs s).length) (nret : Int)
    (hn : -1 ≤ nret) (kind : Callee) (body : GFunction)
    (hb : ∀ c, CalleeEntry s nargs kind c → BodyOKAt body c) :
    (∀ s', callRHost s nargs nret kind body = .ok s' →
      ∃ c c' n, CalleeEntry s nargs kind c ∧ body c = .ok (c', n) ∧ 0 ≤ n ∧ n ≤ (abs c').length ∧
        abs s' = StackSpec.call (abs s) nargs nret (StackSpec.topMost (abs c') n.toNat) ∧
        callerPrefix s' = callerPrefix s ∧ WF s' ∧ s'.base = s.base) ∧
    (∀ e, callRHost s nargs nret kind body = .error e →
      e = overflow ∨ (kind = .none ∧ e = notCallable) ∨ ∃ c, CalleeEntry s nargs kind c ∧ body c = .error e) :=
  callRHost_contract hw nargs hna nret hn kind body hb

/-- every history of stack operations the Spec gives a list for, followed by `return n` with `n ≤` that list's
    length, is such a body (by `api_refines_list`). -/
theorem ops_body_ok (ops : List StackOp) (n : Int) {c : St} (hw : WF c) (l' : List OVal)
    (hs : specRun (abs c) ops = some l') (hok : ∀ o ∈ ops, OpIdxOK c.base o) (h0 : 0 ≤ n) (hl : n ≤ l'.length) :
    BodyOKAt (opsBody ops n) c := by
  intro c' m e
  unfold opsBody at e
  cases hr : run c ops with
  | error err => rw [hr, bind_err] at e; cases e
  | ok c1 =>
    rw [hr, bind_ok] at e
    cases e
    obtain ⟨a, b, w, d⟩ := (api_refines_list ops hw l' hs hok).1 c' hr
    exact ⟨w, d, b, h0, by rw [a]; exact hl⟩

/-- **call_contract_ops** — the composed contract with the callee spelled out: a host function (called directly or
    through `__call`) that performs ANY history `ops` of Push/Pop/SetTop/Insert/Remove/Replace on what it received
    and returns ANY `n ≤ its top` (arguments included, `n = 0` included).  The caller's list afterwards is exactly
    `StackSpec.call`: prefix ++ adjust(the n top-most values of the callee's final list, NRet); caller prefix, base
    and well-formedness are kept; the only possible error is `registry overflow`. -/
theorem call_contract_ops {s : St} (hw : WF s) (nargs : Nat) (hna : nargs + 1 ≤ (abs s).length) (nret : Int)
    (hn : -1 ≤ nret) (kind : Callee) (hk : kind ≠ .none) (ops : List StackOp) (n : Nat) (l' : List OVal)
    (hs : specRun (calleeArgs (abs s) nargs kind) ops = some l') (hl : n ≤ l'.length)
    (hidx : ∀ o ∈ ops, OpIdxOK (s.reg.top - nargs) o) :
    Refines s (callRHost s nargs nret kind (opsBody ops n))
      (StackSpec.call (abs s) nargs nret (StackSpec.topMost l' n)) := by
  have hb : ∀ c, CalleeEntry s nargs kind c → BodyOKAt (opsBody ops n) c := fun c hc =>
    ops_body_ok ops n hc.wf l' (by rw [hc.args]; exact hs) (by rw [hc.base]; exact hidx) (by omega) (by omega)
  obtain ⟨hok, herr⟩ := callRHost_contract hw nargs hna nret hn kind _ hb
  constructor
  · intro s' e
    obtain ⟨c, c', m, hce, hbd, _, _, a, b, w, d⟩ := hok s' e
    unfold opsBody at hbd
    cases hr : run c ops with
    | error err => rw [hr, bind_err] at hbd; cases hbd
    | ok c1 =>
      rw [hr, bind_ok] at hbd
      cases hbd
      obtain ⟨a1, _⟩ := (api_refines_list ops hce.wf l' (by rw [hce.args]; exact hs)
        (by rw [hce.base]; exact hidx)).1 c' hr
      refine ⟨?_, b, w, d⟩
      rw [a, a1, Int.toNat_natCast]
  · intro e he
    rcases herr e he with h | ⟨hk', _⟩ | ⟨c, hce, hbe⟩
    · exact h
    · exact absurd hk' hk
    · unfold opsBody at hbe
      cases hr : run c ops with
      | error err =>
        rw [hr, bind_err] at hbe
        cases hbe
        exact (api_refines_list ops hce.wf l' (by rw [hce.args]; exact hs) (by rw [hce.base]; exact hidx)).2 _ hr
      | ok c1 => rw [hr, bind_ok] at hbe; cases hbe

/-- a value that is neither a function nor has a function `__call`: the Lua error, raised before any frame exists. -/
theorem call_not_callable {s : St} (hw : WF s) (nargs : Nat) (hna : nargs + 1 ≤ (abs s).length) (nret : Int)
    (body : GFunction) : callRHost s nargs nret .none body = .error notCallable := by
  have hlen := abs_length s hw.top_le
  have hbl := hw.base_le
  have hget : regGet s.reg ((s.reg.top : Int) - (nargs : Int) - 1) = .ok (.val (fnSlot (abs s) nargs)) :=
    regGet_val hw (i := (abs s).length - nargs - 1) (by omega) (by omega)
  unfold callRHost
  simp only [hget, bind_ok]
  rfl

/-- **call_contract_lua** (Lua callee, abstracted as "produces a result list"): whatever the callee did, once its
    OP_RETURN has left the adjusted results from the return base on with nothing above them and everything below
    unchanged (C02's mechanism, here a hypothesis: `RetLeft`), the rest of `callR` gives the caller
    `prefix ++ adjust results NRet`, prefix / base / well-formedness kept, `registry overflow` the only error. -/
theorem call_contract_lua {s : St} (hw : WF s) (nargs : Nat) (hna : nargs + 1 ≤ (abs s).length) (nret : Int)
    (hn : -1 ≤ nret) (results : List OVal) (afterLoop : Reg)
    (h : RetLeft s (s.reg.top - nargs - 1) (StackSpec.adjust results nret) { reg := afterLoop, base := s.base }) :
    Refines s (callRLua s nargs nret afterLoop) (StackSpec.call (abs s) nargs nret results) :=
  callRLua_contract hw nargs hna nret hn results afterLoop h

/-- nesting: a call made by a host function keeps exactly the three facts `BodyOKAt` asks of a body (well-formed,
    same base, nothing below the base changed), so bodies that make calls — to any depth — are bodies again. -/
theorem call_keeps_frame {s : St} (hw : WF s) (nargs : Nat) (hna : nargs + 1 ≤ (abs s).length) (nret : Int)
    (hn : -1 ≤ nret) (kind : Callee) (body : GFunction) (hb : ∀ c, CalleeEntry s nargs kind c → BodyOKAt body c) :
    ∀ s', callRHost s nargs nret kind body = .ok s' → WF s' ∧ s'.base = s.base ∧ callerPrefix s' = callerPrefix s := by
  intro s' e
  obtain ⟨_, _, _, _, _, _, _, _, b, w, d⟩ := (callRHost_contract hw nargs hna nret hn kind body hb).1 s' e
  exact ⟨w, d, b⟩

theorem body_then {f : St → Except Err St} {g : GFunction} {c : St}
    (hf : ∀ c1, f c = .ok c1 → WF c1 ∧ c1.base = c.base ∧ callerPrefix c1 = callerPrefix c)
    (hg : ∀ c1, f c = .ok c1 → BodyOKAt g c1) : BodyOKAt (fun c => f c >>= g) c := by
  intro c' n e
  cases hfc : f c with
  | error err => simp only [hfc, bind_err] at e; cases e
  | ok c1 =>
    simp only [hfc, bind_ok] at e
    obtain ⟨w1, d1, b1⟩ := hf c1 hfc
    obtain ⟨w, d, b, h0, hl⟩ := hg c1 hfc c' n e
    exact ⟨w, by rw [d, d1], by rw [b, b1], h0, hl⟩

/-! ## protected calls: what `PCall` / `CallByParam{Protect: true}` leave on failure

  Over the protected-call protocol model of C05 (Model/PCall.lean: `PCall`'s prologue and its two deferred closures,
  `raiseError`, frames pushed and popped, nested protected calls, handlers), seen through the API's list view
  `PCall.apiList` (registers `LocalBase … top-1` of the running activation). -/

/-- **pcall_failed_list**.  A protected call with `nargs` arguments (entry `e`: the body frame is pushed, or the call
    fails before a frame exists) made by ANY activation of ANY well-formed state, followed by ANY inner activity
    `ops` — pushes (partial results), register and upvalue stores, frames pushed and popped (any nesting depth),
    upvalues opened and closed, nested protected calls complete or still open, errors — and ended by ANY failing exit
    `last` (error without handler / the handler returning / the handler itself failing / registry overflow when the
    handler is to be called):
      * the frame of the function that made the call is current again (`LocalBase` as before);
      * its list is the list before the call WITHOUT function, arguments and anything the callee or the handler
        pushed: `take (top - nargs - 1)` — the error value is not on the stack, it is what `PCall` returns:
        delivered to this call exactly once (`deliveries … + 1`);
      * every register below the caller's base (everything that belongs to ITS callers) keeps its value unless it
        is an open upvalue (a captured Lua local, which a closure may legitimately assign).
    Guard `hnu`: no open upvalue points into the caller's own list below the call window — always the case for a host
    function (only OP_CLOSURE of a Lua frame opens upvalues); see `pcall_failed_list_full_fails` for why it is needed. -/
theorem pcall_failed_list (s s0 s1 s2 : PCall.St) (hinv : PCall.Inv s) (nargs : Nat) (h : Option (PCall.V × Bool))
    (e : PCall.Op) (ops : List PCall.Op) (last : PCall.Op) (he : PCall.IsEntry nargs h e)
    (h0 : PCall.step PCall.fixedCfg s e = .ok s0) (hd0 : s0.pstack.length = s.pstack.length + 1)
    (h1 : PCall.runAbove PCall.fixedCfg (s.pstack.length + 1) s0 ops = some s1)
    (h2 : PCall.step PCall.fixedCfg s1 last = .ok s2) (hfail : PCall.isSuccessExit last = false)
    (hout : s2.pstack.length ≤ s.pstack.length)
    (hnu : ∀ u ∈ s.uvs, u < s.localBase ∨ s.top - nargs - 1 ≤ u) :
    s2.localBase = s.localBase ∧
    PCall.apiList s2 = (PCall.apiList s).take ((PCall.apiList s).length - nargs - 1) ∧
    (∀ i, i < s.localBase → i ∉ s.uvs → s2.regs i = s.regs i) ∧
    PCall.deliveries s.pstack.length s2.log = PCall.deliveries s.pstack.length s.log + 1 := by
  obtain ⟨a, b, c⟩ := PCall.pcall_failed_list_uv_main s s0 s1 s2 hinv nargs h e ops last he h0 hd0 h1 h2 hfail hout hnu
  exact ⟨a, b, c, (PCall.delivered_once_main s s0 s1 s2 hinv nargs h e ops last he h0 hd0 h1 h2 hfail hout).1⟩

/-- without the guard the list statement is false — not through a defect but by the semantics of closures: a Lua
    caller whose local (in its list below the call window) is captured; the protected body assigns it through the
    upvalue and then fails; the assignment persists, as in Lua 5.1. -/
def pcall_failed_list_full : Prop :=
  ∀ (s s0 s1 s2 : PCall.St) (nargs : Nat) (h : Option (PCall.V × Bool)) (e : PCall.Op) (ops : List PCall.Op)
    (last : PCall.Op), PCall.Inv s → PCall.IsEntry nargs h e →
    PCall.step PCall.fixedCfg s e = .ok s0 → s0.pstack.length = s.pstack.length + 1 →
    PCall.runAbove PCall.fixedCfg (s.pstack.length + 1) s0 ops = some s1 →
    PCall.step PCall.fixedCfg s1 last = .ok s2 → PCall.isSuccessExit last = false →
    s2.pstack.length ≤ s.pstack.length →
    PCall.apiList s2 = (PCall.apiList s).take ((PCall.apiList s).length - nargs - 1)

/-- a Lua frame (base 0) with locals in registers 1..2 (register 1 captured), a function in register 3. -/
def witCaptured : PCall.St :=
  { frames := [{ isG := false, base := 0 }], cur := some 0, top := 4, uvs := [1], regs := fun i => .num i }

theorem witCaptured_inv : PCall.Inv witCaptured := by
  refine ⟨rfl, ?_, ?_, ?_, ?_, ?_⟩
  · intro i j bi bj hij hi hj
    have : j = 0 := by
      cases j with
      | zero => rfl
      | succ j => simp [witCaptured, PCall.St.bases] at hj
    omega
  · intro b hb; simp [witCaptured, PCall.St.bases] at hb; subst hb; simp [witCaptured]
  · intro r hr; simp [witCaptured] at hr
  · simp [witCaptured]
  · intro r rest hp; simp [witCaptured] at hp

theorem witCaptured_run :
    ((PCall.step PCall.fixedCfg witCaptured (.enter 0 none true)).bind fun s0 =>
      match PCall.runAbove PCall.fixedCfg 1 s0 [.setUpval 0 (.num 99)] with
      | some s1 => PCall.step PCall.fixedCfg s1 (.raise (.raiseError 1 "boom"))
      | none => .disabled).view? = some ([.num 99, .num 2], 0) ∧
    (PCall.step PCall.fixedCfg witCaptured (.enter 0 none true)).flag? = some (false, 1) ∧
    PCall.apiList witCaptured = [.num 1, .num 2, .num 3] := ⟨rfl, rfl, rfl⟩

theorem pcall_failed_list_full_fails : ¬ pcall_failed_list_full := by
  intro hfull
  obtain ⟨key, kflag, klist⟩ := witCaptured_run
  cases h0 : PCall.step PCall.fixedCfg witCaptured (.enter 0 none true) with
  | ok s0 =>
    rw [h0] at key kflag
    simp only [PCall.Res.bind] at key
    simp only [PCall.Res.flag?, Option.some.injEq, Prod.mk.injEq] at kflag
    cases h1 : PCall.runAbove PCall.fixedCfg 1 s0 [.setUpval 0 (.num 99)] with
    | none => rw [h1] at key; simp [PCall.Res.view?] at key
    | some s1 =>
      rw [h1] at key
      simp only at key
      cases h2 : PCall.step PCall.fixedCfg s1 (.raise (.raiseError 1 "boom")) with
      | ok s2 =>
        rw [h2] at key
        simp only [PCall.Res.view?, Option.some.injEq, Prod.mk.injEq] at key
        have := hfull witCaptured s0 s1 s2 0 none _ _ _ witCaptured_inv (Or.inl ⟨true, rfl⟩) h0 kflag.2 h1 h2 rfl
          (by rw [key.2]; exact Nat.zero_le _)
        rw [key.1, klist] at this
        revert this
        decide
      | escaped t s' => rw [h2] at key; simp [PCall.Res.view?] at key
      | disabled => rw [h2] at key; simp [PCall.Res.view?] at key
  | escaped t s' => rw [h0] at key; simp [PCall.Res.bind, PCall.Res.view?] at key
  | disabled => rw [h0] at key; simp [PCall.Res.bind, PCall.Res.view?] at key

/-- with no stores through upvalues at all the guard is not needed, and every register below the call window — the
    caller's own list included — keeps its value (`caller_registers_only_via_upvalues` of C05, list form). -/
theorem pcall_failed_list_no_upvalue_stores (s s0 s1 s2 : PCall.St) (hinv : PCall.Inv s) (nargs : Nat)
    (h : Option (PCall.V × Bool)) (e : PCall.Op) (ops : List PCall.Op) (last : PCall.Op)
    (he : PCall.IsEntry nargs h e)
    (h0 : PCall.step PCall.fixedCfg s e = .ok s0) (hd0 : s0.pstack.length = s.pstack.length + 1)
    (h1 : PCall.runAbove PCall.fixedCfg (s.pstack.length + 1) s0 ops = some s1)
    (h2 : PCall.step PCall.fixedCfg s1 last = .ok s2) (hfail : PCall.isSuccessExit last = false)
    (hout : s2.pstack.length ≤ s.pstack.length)
    (hno : ∀ o ∈ ops, PCall.noUpvalStore o = true) :
    s2.localBase = s.localBase ∧
    PCall.apiList s2 = (PCall.apiList s).take ((PCall.apiList s).length - nargs - 1) ∧
    (∀ i, i < s.localBase → s2.regs i = s.regs i) :=
  PCall.pcall_failed_list_main s s0 s1 s2 hinv nargs h e ops last he h0 hd0 h1 h2 hfail hout hno

/-- non-vacuity of `pcall_failed_list`: a host function (frame base 3, list = registers 4..7) running above a Lua frame
    whose local in register 1 is captured makes a protected call with one argument and a handler; the body pushes a
    partial result, calls a Lua function that assigns the captured local and opens an upvalue of its own, a nested
    protected call fails and is caught, then the body fails; the handler runs and fails too.  Afterwards the host
    function's list is its first two values; register 1 (an open upvalue) changed, nothing else below its base did. -/
def hostCaller : PCall.St :=
  { frames := [{ isG := false, base := 0 }, { isG := true, base := 3 }], cur := some 1, top := 8, uvs := [1],
    regs := fun i => .num i }

example :
    ((PCall.step PCall.fixedCfg hostCaller (.enter 1 (some (.ref 9, false)) true)).bind fun s0 =>
      match PCall.runAbove PCall.fixedCfg 1 s0
          [.push (.num 70), .push (.ref 2), .call false 0, .setTop 2, .setUpval 0 (.num 99), .openUpval 1,
           .push (.ref 3), .enter 0 none true, .raise (.foreign "inner"), .push .nil,
           .raise (.errorObj (.str "boom") 1), .push (.num 71)] with
      | some s1 => PCall.step PCall.fixedCfg s1 (.raise (.raiseError 1 "handler failed"))
      | none => .disabled).view? = some ([.num 4, .num 5], 0) ∧
    PCall.apiList hostCaller = [.num 4, .num 5, .num 6, .num 7] ∧
    (∀ u ∈ hostCaller.uvs, u < hostCaller.localBase ∨ hostCaller.top - 1 - 1 ≤ u) :=
  ⟨rfl, rfl, by decide⟩

/-- **pcall_contract_composed** — the same at registry level (capacity, growth, Go nil slots, the exact `SetTop`), with
    the failing run spelled out: the protected callee is entered (`pushCallFrame`, directly or through `__call`), then
    ANY number of nested activations each push ANY values (junk, partial results, a function and its arguments —
    `levelsFit`: on their own list) and call on; the innermost pushes ANY partial results and raises (`raiseError` pushes
    the message); a handler's frame above everything leaves ANYTHING (`hjunk`), returning or failing; PCall's deferred
    function runs along ANY of its exit paths.  Then the caller's list is the list before without function and
    arguments (`StackSpec.callFailed`) — no partial result of any depth, no message, nothing of the handler's — with the
    caller prefix, the base and well-formedness kept; the run can only stop early with `registry overflow` or
    `attempt to call a non-function object` (themselves failures the same recovery handles). -/
theorem pcall_contract_composed {s : St} (hw : WF s) (nargs : Nat) (hna : nargs + 1 ≤ (abs s).length) (kind : Callee)
    (levels : List Level) (hfit : levelsFit (nargs + (if kind = .viaCall then 1 else 0)) levels = true)
    (last : List OVal) (msg : OVal) (hjunk : List OVal) (path : RecoverPath) :
    (∀ s', pcallFailAt s nargs kind levels last msg hjunk path = .ok s' →
      abs s' = StackSpec.callFailed (abs s) nargs ∧ callerPrefix s' = callerPrefix s ∧ WF s' ∧ s'.base = s.base) ∧
    (∀ e, pcallFailAt s nargs kind levels last msg hjunk path = .error e → e = overflow ∨ e = notCallable) :=
  pcallFailAt_contract hw nargs hna kind levels hfit last msg hjunk path

/-! pseudo-indices: the cells a running host function sees. -/
def cellsOf (p : PSt) (f : FnCells) : StackSpec.Cells :=
  { registry := p.registry, environ := f.env, globals := p.globals, upvalues := f.ups }

/-- **pseudo_get**: inside a host function `Get` at a pseudo-index reads the cell the manual names (registry,
    the function's environment, globals, its n-th upvalue; nil beyond its upvalues), for every index. -/
theorem pseudo_get {p : PSt} {f : FnCells} (hf : p.frame = some f) (idx : Int) (which : StackSpec.Pseudo)
    (hi : StackSpec.pseudoOf idx = some which) :
    getPseudo p idx = .ok (StackSpec.pseudoGet (cellsOf p f) which) := by
  unfold StackSpec.pseudoOf at hi
  unfold getPseudo Generated.RegistryIndex Generated.EnvironIndex Generated.GlobalsIndex
  rw [hf]
  by_cases h0 : idx = -10000
  · rw [if_pos h0] at hi; cases hi; rw [if_pos h0]; rfl
  · rw [if_neg h0] at hi ⊢
    by_cases h1 : idx = -10001
    · rw [if_pos h1] at hi; cases hi; rw [if_pos h1]; rfl
    · rw [if_neg h1] at hi ⊢
      by_cases h2 : idx = -10002
      · rw [if_pos h2] at hi; cases hi; rw [if_pos h2]; rfl
      · rw [if_neg h2] at hi ⊢
        by_cases h3 : idx < -10002
        · rw [if_pos h3] at hi; cases hi
          have e : StackSpec.pseudoGet (cellsOf p f) (.upvalue (-10002 - idx).toNat)
              = if 1 ≤ (-10002 - idx).toNat ∧ (-10002 - idx).toNat ≤ f.ups.length
                then f.ups.getD ((-10002 - idx).toNat - 1) none else none := rfl
          rw [e]
          show (if -10002 - idx - 1 < (f.ups.length : Int) then _ else _) = _
          by_cases h4 : -10002 - idx - 1 < (f.ups.length : Int)
          · rw [if_pos h4, if_neg (by omega), if_pos (by omega)]
            congr 2
            omega
          · rw [if_neg h4, if_neg (by omega)]
        · rw [if_neg h3] at hi; cases hi

/-- **pseudo_replace**: inside a host function `Replace` at a pseudo-index stores into exactly that cell (a table is
    required for registry / environment / globals: anything else is a Lua error, never a Go panic; a store beyond the
    function's upvalues has no effect).  The value stack is not an argument of this branch: the list of the
    activation and everything that belongs to callers is untouched by construction. -/
theorem pseudo_replace {p : PSt} {f : FnCells} (hf : p.frame = some f) (idx : Int) (which : StackSpec.Pseudo)
    (hi : StackSpec.pseudoOf idx = some which) (v : OVal) (isTable : Bool) :
    match StackSpec.pseudoSet (cellsOf p f) which v isTable with
    | some c' => ∃ p' f', replacePseudo p idx v isTable = .ok p' ∧ p'.frame = some f' ∧ cellsOf p' f' = c' ∧
                          p'.threadEnv = p.threadEnv
    | none => ∃ m, replacePseudo p idx v isTable = .error (.luaError m) := by
  unfold StackSpec.pseudoOf at hi
  unfold replacePseudo Generated.RegistryIndex Generated.EnvironIndex Generated.GlobalsIndex
  rw [hf]
  by_cases h0 : idx = -10000
  · rw [if_pos h0] at hi; cases hi; rw [if_pos h0]
    cases isTable
    · exact ⟨_, rfl⟩
    · exact ⟨_, f, rfl, rfl, rfl, rfl⟩
  · rw [if_neg h0] at hi ⊢
    by_cases h1 : idx = -10001
    · rw [if_pos h1] at hi; cases hi; rw [if_pos h1]
      cases isTable
      · exact ⟨_, rfl⟩
      · exact ⟨_, _, rfl, rfl, rfl, rfl⟩
    · rw [if_neg h1] at hi ⊢
      by_cases h2 : idx = -10002
      · rw [if_pos h2] at hi; cases hi; rw [if_pos h2]
        cases isTable
        · exact ⟨_, rfl⟩
        · exact ⟨_, f, rfl, rfl, rfl, rfl⟩
      · rw [if_neg h2] at hi ⊢
        by_cases h3 : idx < -10002
        · rw [if_pos h3] at hi; cases hi
          have e : StackSpec.pseudoSet (cellsOf p f) (.upvalue (-10002 - idx).toNat) v isTable
              = if 1 ≤ (-10002 - idx).toNat ∧ (-10002 - idx).toNat ≤ f.ups.length
                then some { cellsOf p f with upvalues := f.ups.set ((-10002 - idx).toNat - 1) v }
                else some (cellsOf p f) := rfl
          rw [e]
          by_cases h4 : -10002 - idx - 1 < (f.ups.length : Int)
          · rw [if_pos (by omega)]
            show ∃ p' f', (if -10002 - idx - 1 < (f.ups.length : Int) then _ else _) = Except.ok p' ∧ _
            rw [if_pos h4, if_neg (by omega)]
            refine ⟨_, _, rfl, rfl, ?_, rfl⟩
            have : (-10002 - idx - 1).toNat = (-10002 - idx).toNat - 1 := by omega
            rw [this]
            rfl
          · rw [if_neg (by omega)]
            show ∃ p' f', (if -10002 - idx - 1 < (f.ups.length : Int) then _ else _) = Except.ok p' ∧ _
            rw [if_neg h4]
            exact ⟨_, f, rfl, hf, rfl, rfl⟩
        · rw [if_neg h3] at hi; cases hi

/-- at top level (no running function): registry and globals as above; the environment read is the thread's, a
    store into it is the Lua error "no calling environment". -/
theorem pseudo_toplevel {p : PSt} (hf : p.frame = none) (v : OVal) (isTable : Bool) :
    getPseudo p Generated.RegistryIndex = .ok p.registry ∧ getPseudo p Generated.GlobalsIndex = .ok p.globals ∧
    getPseudo p Generated.EnvironIndex = .ok p.threadEnv ∧
    replacePseudo p Generated.EnvironIndex v isTable = .error (.luaError "no calling environment") := by
  unfold getPseudo replacePseudo
  rw [hf]
  exact ⟨rfl, rfl, rfl, rfl⟩

/-- full strength would be: no pseudo-index operation ends in a Go panic.  False at top level: an upvalue index
    dereferences the nil `currentFrame` (in C Lua the same call is undefined behaviour: there is no running C function
    whose upvalues could be meant; outside the property's index domain, the generator never does it). -/
def pseudo_never_panics_full : Prop :=
  ∀ (p : PSt) (idx : Int), idx ≤ Generated.RegistryIndex → ∀ site, getPseudo p idx ≠ .error (.goPanic site)

theorem pseudo_never_panics_full_fails : ¬ pseudo_never_panics_full := by
  intro h
  exact h { registry := none, globals := none, threadEnv := none, frame := none } (-10003) (by decide) _ rfl

/-- the partial statement: with a running function, never a Go panic (reads), for every pseudo-index. -/
theorem pseudo_never_panics_partial {p : PSt} {f : FnCells} (hf : p.frame = some f) (idx : Int)
    (hidx : idx ≤ Generated.RegistryIndex) : ∃ v, getPseudo p idx = .ok v := by
  have : ∃ which, StackSpec.pseudoOf idx = some which := by
    unfold StackSpec.pseudoOf
    unfold Generated.RegistryIndex at hidx
    by_cases h0 : idx = -10000
    · exact ⟨_, by rw [if_pos h0]⟩
    · by_cases h1 : idx = -10001
      · exact ⟨_, by rw [if_neg h0, if_pos h1]⟩
      · by_cases h2 : idx = -10002
        · exact ⟨_, by rw [if_neg h0, if_neg h1, if_pos h2]⟩
        · exact ⟨_, by rw [if_neg h0, if_neg h1, if_neg h2, if_pos (by omega)]⟩
  obtain ⟨w, hw⟩ := this
  exact ⟨_, pseudo_get hf idx w hw⟩

/-! ## index resolution as a whole: `Get` / `Replace` at EVERY index (`lget` / `lreplace`: the complete if-chain) -/

theorem pseudoOf_some {idx : Int} (hidx : idx ≤ Generated.RegistryIndex) : ∃ which, StackSpec.pseudoOf idx = some which := by
  unfold StackSpec.pseudoOf
  unfold Generated.RegistryIndex at hidx
  by_cases h0 : idx = -10000
  · exact ⟨_, by rw [if_pos h0]⟩
  · by_cases h1 : idx = -10001
    · exact ⟨_, by rw [if_neg h0, if_pos h1]⟩
    · by_cases h2 : idx = -10002
      · exact ⟨_, by rw [if_neg h0, if_neg h1, if_pos h2]⟩
      · exact ⟨_, by rw [if_neg h0, if_neg h1, if_neg h2, if_pos (by omega)]⟩

theorem pseudoOf_none {idx : Int} (hidx : Generated.RegistryIndex < idx) : StackSpec.pseudoOf idx = none := by
  unfold StackSpec.pseudoOf
  unfold Generated.RegistryIndex at hidx
  rw [if_neg (by omega), if_neg (by omega), if_neg (by omega), if_neg (by omega)]

/-- **get_every_index**: inside a running host function, for EVERY index — positive, 0, negative, beyond the top,
    below the bottom, the three table pseudo-indices, every upvalue index however negative — `Get` returns exactly what
    the manual prescribes (`StackSpec.getAny`: the list element, the cell, or nil).  It never panics and never fails.
    No guard on the index (before the repair of C10-index-int-overflow: `base + idx - 1` had to stay a Go `int`, see
    `get_never_panics_before_fix_fails`). -/
theorem get_every_index {l : LSt} {f : FnCells} (hw : WF l.st) (hf : l.p.frame = some f) (idx : Int) :
    lget l idx = .ok (.val (StackSpec.getAny (abs l.st) (cellsOf l.p f) idx)) := by
  have hr : Generated.RegistryIndex = -10000 := rfl
  unfold lget StackSpec.getAny
  by_cases h : idx > Generated.RegistryIndex
  · rw [if_pos (Or.inr (Or.inr h)), pseudoOf_none h]
    exact get_refines hw idx h
  · rw [if_neg (by omega)]
    obtain ⟨w, hw'⟩ := pseudoOf_some (idx := idx) (by omega)
    rw [hw', pseudo_get hf idx w hw']
    rfl

/-- the same at top level (no running function), for every index that is not an upvalue index. -/
theorem get_every_index_toplevel {l : LSt} (hw : WF l.st) (hf : l.p.frame = none) (idx : Int)
    (hnu : Generated.GlobalsIndex ≤ idx) :
    lget l idx = .ok (.val (StackSpec.getAny (abs l.st)
      { registry := l.p.registry, environ := l.p.threadEnv, globals := l.p.globals, upvalues := [] } idx)) := by
  have hr : Generated.RegistryIndex = -10000 := rfl
  have hg : Generated.GlobalsIndex = -10002 := rfl
  unfold lget StackSpec.getAny
  by_cases h : idx > Generated.RegistryIndex
  · rw [if_pos (Or.inr (Or.inr h)), pseudoOf_none h]
    exact get_refines hw idx h
  · rw [if_neg (by omega)]
    obtain ⟨h1, h2, h3, _⟩ := pseudo_toplevel hf none false
    have : idx = -10000 ∨ idx = -10001 ∨ idx = -10002 := by omega
    rcases this with h | h | h <;> subst h
    · rw [show (-10000 : Int) = Generated.RegistryIndex from rfl, h1]; rfl
    · rw [show (-10001 : Int) = Generated.EnvironIndex from rfl, h3]; rfl
    · rw [show (-10002 : Int) = Generated.GlobalsIndex from rfl, h2]; rfl

/-- **read_outside_is_nil**, every index: 0, anything beyond the top, anything below the bottom of the list down to
    the pseudo-index range, and every upvalue index beyond the function's upvalues (down to the most negative `int`)
    reads nil. -/
theorem read_outside_is_nil {l : LSt} {f : FnCells} (hw : WF l.st) (hf : l.p.frame = some f) (idx : Int)
    (h : idx = 0 ∨ idx > (abs l.st).length ∨ (idx < -((abs l.st).length : Int) ∧ Generated.RegistryIndex < idx) ∨
         idx < Generated.GlobalsIndex - f.ups.length) :
    lget l idx = .ok (.val none) := by
  have hr : Generated.RegistryIndex = -10000 := rfl
  have hg : Generated.GlobalsIndex = -10002 := rfl
  rw [get_every_index hw hf idx]
  unfold StackSpec.getAny
  by_cases hp : idx > Generated.RegistryIndex
  · rw [pseudoOf_none hp]
    show Except.ok (Slot.val (StackSpec.get (abs l.st) idx)) = _
    unfold StackSpec.get
    rw [resolve_none (by omega)]
  · have hlt : idx < -10002 - (f.ups.length : Int) := by omega
    unfold StackSpec.pseudoOf
    rw [if_neg (by omega), if_neg (by omega), if_neg (by omega), if_pos (by omega)]
    show Except.ok (Slot.val (if 1 ≤ (-10002 - idx).toNat ∧ (-10002 - idx).toNat ≤ f.ups.length
      then f.ups.getD ((-10002 - idx).toNat - 1) none else none)) = _
    rw [if_neg (by omega)]

/-- a store through a pseudo-index never touches the value stack: not the list, not the caller's values, not a single
    slot of the registry; and a store through a stack index never touches the cells behind the pseudo-indices. -/
theorem pseudo_replace_keeps_stack {l l' : LSt} (idx : Int) (hidx : idx ≤ Generated.RegistryIndex) (v : OVal)
    (isTable : Bool) (h : lreplace l idx v isTable = .ok l') : l'.st = l.st := by
  have hr : Generated.RegistryIndex = -10000 := rfl
  unfold lreplace at h
  rw [if_neg (by omega)] at h
  cases hp : replacePseudo l.p idx v isTable with
  | error e => rw [hp, bind_err] at h; cases h
  | ok p' => rw [hp, bind_ok] at h; cases h; rfl

theorem stack_replace_keeps_cells {l l' : LSt} (idx : Int) (hidx : Generated.RegistryIndex < idx) (v : OVal)
    (isTable : Bool) (h : lreplace l idx v isTable = .ok l') : l'.p = l.p := by
  unfold lreplace at h
  rw [if_pos (Or.inr (Or.inr hidx))] at h
  cases hp : replace l.st idx v with
  | error e => rw [hp, bind_err] at h; cases h
  | ok st' => rw [hp, bind_ok] at h; cases h; rfl

/-- a read through a pseudo-index does not depend on the value stack at all. -/
theorem pseudo_get_ignores_stack (l : LSt) (st' : St) (idx : Int) (hidx : idx ≤ Generated.RegistryIndex) :
    lget { l with st := st' } idx = lget l idx := by
  have hr : Generated.RegistryIndex = -10000 := rfl
  unfold lget
  rw [if_neg (by omega), if_neg (by omega)]

/-- **replace_every_index**: inside a running host function `Replace` at EVERY index either succeeds — on the list
    as `StackSpec.replace` with the caller prefix untouched, or in the named cell with the whole stack untouched —
    or ends in a Lua error (`registry overflow`, a non-table for registry / environment / globals); never a Go panic. -/
theorem replace_every_index {l : LSt} {f : FnCells} (hw : WF l.st) (hf : l.p.frame = some f) (idx : Int)
    (v : OVal) (isTable : Bool) :
    (∃ l', lreplace l idx v isTable = .ok l' ∧
        ((Generated.RegistryIndex < idx ∧ abs l'.st = StackSpec.replace (abs l.st) idx v ∧
            callerPrefix l'.st = callerPrefix l.st ∧ WF l'.st ∧ l'.p = l.p) ∨
         (idx ≤ Generated.RegistryIndex ∧ l'.st = l.st))) ∨
    (∃ m, lreplace l idx v isTable = .error (.luaError m)) := by
  have hr : Generated.RegistryIndex = -10000 := rfl
  by_cases h : idx > Generated.RegistryIndex
  · obtain ⟨h1, h2⟩ := replace_refines hw idx v h
    unfold lreplace
    rw [if_pos (Or.inr (Or.inr h))]
    cases hp : replace l.st idx v with
    | error e => right; exact ⟨"registry overflow", by rw [bind_err, h2 e hp]; rfl⟩
    | ok st' =>
      left
      obtain ⟨a, b, c, _⟩ := h1 st' hp
      exact ⟨{ l with st := st' }, by rw [bind_ok], Or.inl ⟨h, a, b, c, rfl⟩⟩
  · obtain ⟨w, hw'⟩ := pseudoOf_some (idx := idx) (by omega)
    have := pseudo_replace hf idx w hw' v isTable
    unfold lreplace
    rw [if_neg (by omega)]
    cases hs : StackSpec.pseudoSet (cellsOf l.p f) w v isTable with
    | none =>
      rw [hs] at this
      obtain ⟨m, hm⟩ := this
      right; exact ⟨m, by rw [hm, bind_err]⟩
    | some c' =>
      rw [hs] at this
      obtain ⟨p', f', hp', _⟩ := this
      left
      exact ⟨{ l with p := p' }, by rw [hp', bind_ok], Or.inr ⟨by omega, rfl⟩⟩

/-- **get_never_panics** (full strength, since the repair of C10-index-int-overflow): inside a running function `Get`
    never ends in a Go panic, whatever the index — every `int`, and in the Model every integer: the positive branch
    compares `idx <= Top()-base` before it adds.  (The other witness class of a panicking read — an upvalue index at
    top level, no running function — is `pseudo_never_panics_full_fails`.) -/
def get_never_panics_full : Prop :=
  ∀ (l : LSt) (idx : Int), WF l.st → (∃ f, l.p.frame = some f) → ∀ site, lget l idx ≠ .error (.goPanic site)

theorem get_never_panics : get_never_panics_full := fun l idx hw ⟨f, hf⟩ site h => by
  rw [get_every_index hw hf idx] at h
  cases h

/-- … it returns an LValue (the old `get_never_panics_partial`, now without its guard). -/
theorem get_always_value {l : LSt} {f : FnCells} (hw : WF l.st) (hf : l.p.frame = some f) (idx : Int) :
    ∃ v, lget l idx = .ok (.val v) :=
  ⟨_, get_every_index hw hf idx⟩

/-- `Replace` likewise: ok or a Lua error at EVERY index (`replace_every_index`), never a Go panic. -/
theorem replace_never_panics {l : LSt} {f : FnCells} (hw : WF l.st) (hf : l.p.frame = some f) (idx : Int) (v : OVal)
    (isTable : Bool) : ∀ site, lreplace l idx v isTable ≠ .error (.goPanic site) := fun site h => by
  rcases replace_every_index hw hf idx v isTable with ⟨l', h1, _⟩ | ⟨m, h1⟩
  · rw [h1] at h; cases h
  · rw [h1] at h; cases h

/-- before the repair the full statement was false (`lgetOld`: `reg := base + idx - 1` on Go ints, then
    `if reg < Top()`): for `idx > MaxInt64 - base + 1` the register number wrapped to a negative one, passed the test and
    indexed the registry slice: `runtime error: index out of range [-9223372036854775807]` (observed on the code before
    the repair: `L.Get(math.MaxInt64)` inside any host function whose base is ≥ 2; `Replace` likewise) — finding
    `C10-index-int-overflow`, fixed. -/
def get_never_panics_fullOld : Prop :=
  ∀ (l : LSt) (idx : Int), WF l.st → (∃ f, l.p.frame = some f) → ∀ site, lgetOld l idx ≠ .error (.goPanic site)

def overflowWitness : LSt :=
  { st := { reg := { array := [.val (some (.int 900)), .val (some (.ref 7)), .val (some (.int 1)), .goNil],
                     top := 3, growBy := 0, maxSize := 0 }, base := 2 },
    p := { registry := none, globals := none, threadEnv := none, frame := some { env := none, ups := [] } } }

theorem overflowWitness_wf : WF overflowWitness.st :=
  ⟨by decide, by decide, fun j h1 h2 => by
    have h3 : j < 3 := h2
    have h4 : 2 ≤ j := h1
    have : j = 2 := by omega
    subst this; simp [overflowWitness]⟩

theorem get_never_panics_before_fix_fails : ¬ get_never_panics_fullOld := by
  intro h
  exact h overflowWitness maxInt overflowWitness_wf ⟨_, rfl⟩ "registry.Get: index out of range" (by decide +kernel)

/-- the same witness on the repaired code: nil. -/
example : lget overflowWitness maxInt = .ok (.val none) ∧
    (lreplace overflowWitness maxInt (some (.int 5)) false).toOption.map (·.st) = some overflowWitness.st := by
  decide +kernel

/-- non-vacuity: a host function with two upvalues; index -10004 is its second upvalue, -10005 is beyond. -/
def examplePSt : PSt :=
  { registry := some (.ref 1), globals := some (.ref 2), threadEnv := some (.ref 2),
    frame := some { env := some (.ref 3), ups := [some (.int 7101), some (.str "7570")] } }

example :
    let p := examplePSt
    getPseudo p (-10004) = .ok (some (.str "7570")) ∧ getPseudo p (-10005) = .ok none ∧
    (replacePseudo p (-10003) none false).toOption.map (fun q => q.frame.map (·.ups))
      = some (some [none, some (.str "7570")]) ∧
    replacePseudo p (-10001) (some (.int 1)) false = .error (.luaError "environment must be a table") := by
  exact ⟨rfl, rfl, rfl, rfl⟩

/-- **api_delegates** (regenerated from the text of /repo/state.go on every run): each object-level call is
    a single delegation to the helper the VM itself uses, so the C04/C09 theorems about those helpers apply
    to the API verbatim. -/
def expectedDelegations : List (String × String) :=
  [("GetTable", "ls.getField(obj, key)"), ("SetTable", "ls.setField(obj, key, value)"),
   ("GetField", "ls.getFieldString(obj, skey)"), ("SetField", "ls.setFieldString(obj, key, value)"),
   ("GetGlobal", "ls.GetField(ls.Get(GlobalsIndex), name)"), ("SetGlobal", "ls.SetField(ls.Get(GlobalsIndex), name, value)"),
   ("Equal", "equals(ls, lhs, rhs, false)"), ("RawEqual", "equals(ls, lhs, rhs, true)"),
   ("LessThan", "lessThan(ls, lhs, rhs)"), ("GetMetatable", "ls.metatable(obj, false)"),
   ("Next", "tb.Next(key)"), ("Call", "ls.callR(nargs, nret, -1)"), ("Push", "ls.reg.Push(value)")]

theorem api_delegates : expectedDelegations.all (fun d => Generated.apiDelegates.contains d) = true := by
  decide

/-! ## object-level entries = the Lua operations

  Three layers.  (1) Text facts regenerated from the tree on every run: the API entries that are single delegations
  (`api_delegates` above), the helpers each opcode handler of vm.go's `jumpTable` calls (`opcode_delegates`), the
  push / call / pop sequences of the entries that are not single delegations (`api_bodies`).  (2) Over the dispatch model
  of C04 (`MetaModel`, tied to the real functions by the C04M correspondence): the API entry is the very function the
  opcode uses, and it is the manual's event, for EVERY heap and EVERY operand pair (full where C04 proves it full,
  with C04's explicit guards otherwise).  (3) Over the registry model: the handler-call sequence of ObjLen /
  ToStringMeta / stringConcat and the `Concat` bracket restore the caller's list exactly. -/

section ObjectOps
open GLua.Meta GLua.MetaModel GLua.MetaProofs
variable {N : Type}

/-- (1) the opcode handlers call the helpers the API entries delegate to (`equals` with `raw = false` for OP_EQ). -/
def expectedOpcodeHelpers : List (Nat × String) :=
  [(Generated.OP_GETTABLE, "getField"), (Generated.OP_GETTABLEKS, "getFieldString"),
   (Generated.OP_GETGLOBAL, "getFieldString"), (Generated.OP_SELF, "getFieldString"),
   (Generated.OP_SETTABLE, "setField"), (Generated.OP_SETTABLEKS, "setFieldString"),
   (Generated.OP_SETGLOBAL, "setFieldString"), (Generated.OP_EQ, "equals:false"), (Generated.OP_LT, "lessThan"),
   (Generated.OP_CONCAT, "stringConcat"), (Generated.OP_LEN, "metaOp1")]

theorem opcode_delegates :
    expectedOpcodeHelpers.all (fun d => Generated.opcodeHelpers.any (fun e => e.1 == d.1 && e.2.contains d.2)) = true := by
  decide

/-- (1) the entries that are not single delegations: exactly these stack / dispatch calls, in this order. -/
def expectedApiBodies : List (String × List String) :=
  [("ObjLen", ["ls.metaOp1(v1, \"__len\")", "ls.Push(op)", "ls.Push(v1)", "ls.Call(1, 1)", "ls.reg.Pop()", "v1.(*LTable).Len()"]),
   ("ToStringMeta", ["ls.metaOp1(lv, \"__tostring\")", "ls.Push(fn)", "ls.Push(lv)", "ls.Call(1, 1)", "ls.reg.Pop()"]),
   ("Concat", ["ls.reg.Top()", "ls.reg.Push(value)", "stringConcat(ls, len(values), ls.reg.Top()-1)", "ls.reg.Top()",
               "ls.reg.SetTop(top)", "LVAsString(ret)"])]

theorem api_bodies : expectedApiBodies.all (fun d => Generated.apiBodies.contains d) = true := by decide

/-- … and `stringConcat` calls a `__concat` handler with `Push(op); Push(lhs); Push(rhs); Call(2, 1); reg.Pop()`. -/
theorem stringConcat_body :
    (Generated.apiBodies.lookup "stringConcat").map (fun l => l.take 6)
      = some ["L.metaOp2(lhs, rhs, \"__concat\")", "L.reg.Push(op)", "L.reg.Push(lhs)", "L.reg.Push(rhs)", "L.Call(2, 1)",
              "L.reg.Pop()"] := by decide

/-- (2) **api_entry_is_opcode_function**: each delegating entry IS the function its opcode calls — same function,
    same argument order, same mode flag — for every heap and every operands. -/
theorem api_entry_is_opcode_function (p : Prims N) (h : Heap N) (a b c : V N) (s : String) :
    ApiObj.GetTable h a b = getField h a b ∧               -- OP_GETTABLE
    ApiObj.GetField h a s = getFieldString h a s ∧         -- OP_GETTABLEKS, OP_SELF
    ApiObj.GetGlobal h a s = getFieldString h a s ∧        -- OP_GETGLOBAL (on the function's environment)
    ApiObj.SetTable h a b c = setField h a b c ∧           -- OP_SETTABLE
    ApiObj.SetField h a s c = setFieldString h a s c ∧     -- OP_SETTABLEKS
    ApiObj.SetGlobal h a s c = setFieldString h a s c ∧    -- OP_SETGLOBAL
    ApiObj.Equal p h a b = equals p h a b false ∧          -- OP_EQ
    ApiObj.LessThan p h a b = lessThan p h a b :=          -- OP_LT
  ⟨rfl, rfl, rfl, rfl, rfl, rfl, rfl, rfl⟩

/-- (2) **api_index_is_manual** — GetTable / GetField / GetGlobal and SetTable / SetField / SetGlobal are the manual's
    `gettable_event` / `settable_event` chains (raw access first, `__index` / `__newindex` function → call with
    `(table, key[, value])`, other value → repeat, depth bound `MAXTAGLOOP`), for EVERY heap and operands: full. -/
theorem api_index_is_manual (h : Heap N) (obj key value g : V N) (name : String) :
    ApiObj.GetTable h obj key = gettable h MAXTAGLOOP obj key ∧
    ApiObj.GetField h obj name = gettable h MAXTAGLOOP obj (.str name) ∧
    ApiObj.GetGlobal h g name = gettable h MAXTAGLOOP g (.str name) ∧
    ApiObj.SetTable h obj key value = settable h MAXTAGLOOP obj key value ∧
    ApiObj.SetField h obj name value = settable h MAXTAGLOOP obj (.str name) value ∧
    ApiObj.SetGlobal h g name value = settable h MAXTAGLOOP g (.str name) value :=
  ⟨C04.getField_refines_manual h obj key, C04.getFieldString_refines_manual h obj name,
   C04.getFieldString_refines_manual h g name, C04.setField_refines_manual h obj key value,
   C04.setFieldString_refines_manual h obj name value, C04.setFieldString_refines_manual h g name value⟩

/-- (2) RawEqual is primitive equality and never calls a handler; GetMetatable honours `__metatable`: full. -/
theorem api_rawequal_getmetatable_is_manual (p : Prims N) (h : Heap N) (a b hd : V N) (args : List (V N)) (post : Post) :
    ApiObj.RawEqual p h a b = rawequal_fn p a b ∧ ApiObj.RawEqual p h a b ≠ .call hd args post ∧
    ApiObj.GetMetatable h a = getmetatable_fn h a :=
  ⟨(C04.raw_refines_manual p h a b a).2.2.2, (C04.raw_never_calls p h a b a hd args post).2.2.2,
   C04.getmetatable_refines_manual h a⟩

/-- (2) Equal / LessThan: full strength is false only through C04's non-function-handler class (a callable table in the
    `__eq` / `__lt` slot is ignored: finding C04-nonfunction-handler); with function-or-nil handlers they are the manual's
    `eq_event` / `lt_event` for every operand pair. -/
def api_equal_full : Prop := ∀ (N : Type) (p : Prims N) (h : Heap N) (a b : V N), ApiObj.Equal p h a b = eq_event p h a b
def api_lessthan_full : Prop :=
  ∀ (N : Type) (p : Prims N) (h : Heap N) (a b : V N), ApiObj.LessThan p h a b = lt_event p h a b

theorem api_equal_full_fails : ¬ api_equal_full := fun H => C04.eq_refines_manual_full_fails H
theorem api_lessthan_full_fails : ¬ api_lessthan_full := fun H => C04.lt_refines_manual_full_fails H

theorem api_equal_partial (p : Prims N) (h : Heap N) (a b : V N) (g : CompGuard h .eq a b) :
    ApiObj.Equal p h a b = eq_event p h a b := C04.eq_refines_manual_partial p h a b g

theorem api_lessthan_partial (p : Prims N) (h : Heap N) (a b : V N) (g : CompGuard h .lt a b) :
    ApiObj.LessThan p h a b = lt_event p h a b := C04.lt_refines_manual_partial p h a b g

example : CompGuard (C04.heapWith (.func 7)) .eq (.table 1) (.udata 1) ∧
    ApiObj.LessThan C04.pInt C04.heapOnlyLt (.table 1) (.table 4) = .call (.func 5) [.table 1, .table 4] .truth := by
  decide

/-! ### ObjLen vs `#v` -/

/-- **objlen_same_dispatch**: `ObjLen` and OP_LEN take the same decision for every operand and heap — the same
    handler with the same argument, the same primitive length — except that where OP_LEN raises "attempt to get length"
    ObjLen has no branch (returns 0) and that the handler's result is converted (`lenOfApi`). -/
theorem objlen_same_dispatch (p : Prims N) (h : Heap N) (v : V N) : opLen p h v = ApiObj.lenOfApi (MetaModel.objLen p h v) := by
  unfold opLen MetaModel.objLen
  cases v <;> simp only [ApiObj.lenOfApi] <;> split <;> rfl

/-- full strength: whatever `ObjLen` returns is (the Go int of) what `#v` evaluates to.  False of the code — recorded
    finding C10-objlen-non-integer: (i) a userdata / number / nil without `__len`: `#v` raises, ObjLen returns 0;
    (ii) a handler returning a non-number: `#v` is that value, ObjLen returns 0. -/
def objlen_is_len_full : Prop :=
  ∀ (N : Type) (p : Prims N) (h : Heap N) (toInt : N → Int) (v ret : V N),
    ∃ n, ApiObj.lenValue p h v ret = .ok (.num n) ∧ ApiObj.ObjLen p h toInt v ret = toInt n

theorem objlen_is_len_full_fails : ¬ objlen_is_len_full := fun H => by
  obtain ⟨n, h1, _⟩ := H Int C04.pInt (C04.heapWith .nil) id (.udata 1) .nil
  have hv : ApiObj.lenValue C04.pInt (C04.heapWith .nil) (.udata 1) .nil = .error .len := by decide
  rw [hv] at h1
  cases h1

theorem objlen_nonnumber_result_lost :
    ApiObj.lenValue C04.pInt (C04.heapWith (.func 7)) (.udata 1) (.str "x") = .ok (.str "x") ∧
    ApiObj.ObjLen C04.pInt (C04.heapWith (.func 7)) id (.udata 1) (.str "x") = 0 := by decide

/-- **objlen_is_len_partial** — the guard is exactly "`#v` evaluates to a number": then `ObjLen` returns Go's `int(..)`
    of that number (exact for integral values; `int` truncates a fractional one), for every operand class: strings,
    tables with or without `__len`, any value with a `__len` handler. -/
theorem objlen_is_len_partial (p : Prims N) (h : Heap N) (toInt : N → Int) (v ret : V N) (n : N)
    (hl : ApiObj.lenValue p h v ret = .ok (.num n)) : ApiObj.ObjLen p h toInt v ret = toInt n := by
  unfold ApiObj.lenValue at hl
  rw [objlen_same_dispatch] at hl
  unfold ApiObj.ObjLen
  cases hd : MetaModel.objLen p h v with
  | none => rw [hd] at hl; simp [ApiObj.lenOfApi] at hl
  | some a =>
    rw [hd] at hl
    cases a with
    | raw x =>
      simp only [ApiObj.lenOfApi, Except.ok.injEq] at hl
      subst hl
      rfl
    | call hd' args post =>
      simp only [ApiObj.lenOfApi, Except.ok.injEq] at hl
      subst hl
      rfl
    | store t k w => simp [ApiObj.lenOfApi] at hl
    | setmt o m => simp [ApiObj.lenOfApi] at hl
    | error k => simp [ApiObj.lenOfApi] at hl
    | next o => simp [ApiObj.lenOfApi] at hl

example : ApiObj.lenValue C04.pInt (C04.heapWith (.func 7)) (.udata 1) (.num 42) = .ok (.num 42) ∧
    ApiObj.ObjLen C04.pInt (C04.heapWith (.func 7)) id (.udata 1) (.num 42) = 42 ∧
    ApiObj.ObjLen C04.pInt (C04.heapWith .nil) id (.table 5) .nil = 3 := by decide

/-! ### ToStringMeta vs `tostring` -/

/-- `tostring(v)` of this implementation IS `ToStringMeta` (baselib's `baseToString` pushes its result); with a
    function-or-nil `__tostring` slot it is the manual's `tostring`: handler called with `(v)`, first result used. -/
theorem api_tostringmeta_partial (p : Prims N) (h : Heap N) (e : V N) (g : FnOrNil (mtEvent h e .tostring)) :
    toStringMeta p h e = tostring_fn p h e := C04.tostring_refines_manual_partial p h e g

/-! ### Concat vs `e1 .. e2 .. … .. en` -/

/-- **concat_is_lua_concat**: with at least one operand `Concat` performs exactly the handler calls of the Lua
    expression — same handlers, same order, same arguments `(lhs, running result)` — and returns `LVAsString` of the
    expression's value; errors coincide; nothing of the stack below is read.  (Guard: C04's — every `__concat` slot
    holds a function or nil.) -/
theorem concat_is_lua_concat (p : Prims N) (h : Heap N) (ret : V N → List (V N) → V N) (g : ConcatGuard h)
    (values : List (V N)) (hne : values ≠ []) :
    ApiObj.Concat p h ret values =
      .res (Meta.concat_fold p h ret values).1 ((Meta.concat_fold p h ret values).2.map (lvAsString p)) := by
  unfold ApiObj.Concat
  cases values with
  | nil => exact absurd rfl hne
  | cons v vs =>
    simp only
    rw [C04.concat_fold p h ret g]

/-- … in particular a string result is returned as it is. -/
theorem concat_string_result (p : Prims N) (h : Heap N) (ret : V N → List (V N) → V N) (g : ConcatGuard h)
    (values : List (V N)) (hne : values ≠ []) (s : String)
    (hr : (Meta.concat_fold p h ret values).2 = .ok (.str s)) :
    ApiObj.Concat p h ret values = .res (Meta.concat_fold p h ret values).1 (.ok s) := by
  rw [concat_is_lua_concat p h ret g values hne, hr]
  rfl

/-- full strength: the string `Concat` returns is the string form of a string-or-number value of the Lua expression.
    False of the code when a `__concat` handler returns something else (a table, nil, a boolean …): the expression's
    value is that object, `Concat` returns "" (`LVAsString`; the `string` return type cannot carry it) — finding
    C10-concat-non-string, same kind as C10-objlen-non-integer. -/
def concat_result_full : Prop :=
  ∀ (N : Type) (p : Prims N) (h : Heap N) (ret : V N → List (V N) → V N) (values : List (V N))
    (v : V N), ConcatGuard h → values ≠ [] → (Meta.concat_fold p h ret values).2 = .ok v → lvCanConvToString v = true

theorem concat_result_full_fails : ¬ concat_result_full := fun H => by
  have g : ConcatGuard (C04.heapWith (.func 7)) := by
    intro m; unfold C04.heapWith; by_cases hm : m = 2 <;> simp [hm, FnOrNil, V.isFunc, V.isNil]
  have := H Int C04.pInt (C04.heapWith (.func 7)) (fun _ _ => .table 9) [.table 1, .str "x"] (.table 9) g
    (by simp) (by decide)
  revert this
  decide

theorem concat_nonstring_result_lost :
    ApiObj.Concat C04.pInt (C04.heapWith (.func 7)) (fun _ _ => .table 9) [.table 1, .str "x"]
      = .res [⟨.func 7, [.table 1, .str "x"]⟩] (.ok "") ∧
    (Meta.concat_fold C04.pInt (C04.heapWith (.func 7)) (fun _ _ => .table 9) [.table 1, .str "x"]).2 = .ok (.table 9) := by
  decide

/-- **concat_no_operand_is_empty** (since the repair of C10-concat-no-operand): with NO operand `Concat()` is the
    empty string — the concatenation of no strings —, calls no handler, reads nothing (the Model has no `below` argument
    any more) and leaves the registry alone (`concatFrame` with no values is the identity). -/
theorem concat_no_operand_is_empty (p : Prims N) (h : Heap N) (ret : V N → List (V N) → V N) :
    ApiObj.Concat p h ret [] = .res [] (.ok "") := rfl

theorem concat_no_operand_keeps_registry (s : St) (inner : St → Except Err St) : concatFrame s [] inner = .ok s := rfl

/-- hence for EVERY operand list: never a Go panic in `Concat` itself. -/
theorem concat_never_panics (p : Prims N) (h : Heap N) (ret : V N → List (V N) → V N) (values : List (V N)) :
    ∀ site, ApiObj.Concat p h ret values ≠ .goPanic site := by
  intro site
  unfold ApiObj.Concat
  cases values with
  | nil => intro hc; cases hc
  | cons v vs => intro hc; simp only at hc; cases hc

/-- before the repair (`ConcatOld`) `Concat()` was not the empty string: `stringConcat(ls, 0, top-1)` read the register
    below the top — the activation's top-most value or, on an empty list, whatever belonged to the caller — and
    returned its string form; on an empty registry it indexed the slice at -1 (finding C10-concat-no-operand, fixed). -/
theorem concat_no_operand_before_fix_reads_stack (p : Prims N) (h : Heap N) (ret : V N → List (V N) → V N) :
    ApiObj.ConcatOld p h ret [] (some (.str "secret")) = .res [] (.ok "secret") ∧
    ApiObj.ConcatOld p h ret [] none = .goPanic "stringConcat: L.reg.Get(-1)" := ⟨rfl, rfl⟩

end ObjectOps

/-! ### (3) the stack traffic of ObjLen / ToStringMeta / stringConcat / Concat -/

/-- **call_handler_contract**: `Push(fn); Push(a1)…; Call(n, 1); ret := reg.Pop()` with ANY handler body that respects
    its activation (a host function; called directly or through `__call`): the handler receives exactly the arguments,
    `ret` is its first result (nil when it returns none: its top-most value when it returns several is NOT taken — the
    first of the `n` it selects), and afterwards the caller's list is EXACTLY the list before — nothing left, nothing
    lost — with caller prefix, base and well-formedness kept; errors: `registry overflow`, not callable, or the body's. -/
theorem call_handler_contract {s : St} (hw : WF s) (fn : OVal) (args : List OVal) (kind : Callee) (body : GFunction)
    (hb : ∀ s1 c, CalleeEntry s1 args.length kind c → BodyOKAt body c) :
    (∀ s' x, callHandler s fn args kind body = .ok (s', x) →
      abs s' = abs s ∧ callerPrefix s' = callerPrefix s ∧ WF s' ∧ s'.base = s.base ∧
      ∃ c c' n, abs c = handlerArgs fn args kind ∧ body c = .ok (c', n) ∧
        x = .val ((StackSpec.topMost (abs c') n.toNat).headD none)) ∧
    (∀ e, callHandler s fn args kind body = .error e →
      e = overflow ∨ (kind = .none ∧ e = notCallable) ∨
      ∃ c, abs c = handlerArgs fn args kind ∧ body c = .error e) :=
  callHandler_contract hw fn args kind body hb

/-- **concat_frame_restores**: `top := reg.Top(); Push(values…); stringConcat…; reg.SetTop(top)` leaves the caller's
    list exactly as it was, for every number of operands, when the inner activity keeps the list (which every handler
    call does, by `call_handler_contract`). -/
theorem concat_frame_restores {s : St} (hw : WF s) (values : List OVal) (inner : St → Except Err St)
    (hin : ∀ s1, WF s1 → ∀ s2, inner s1 = .ok s2 →
      abs s2 = abs s1 ∧ callerPrefix s2 = callerPrefix s1 ∧ WF s2 ∧ s2.base = s1.base) :
    (∀ s', concatFrame s values inner = .ok s' →
      abs s' = abs s ∧ callerPrefix s' = callerPrefix s ∧ WF s' ∧ s'.base = s.base) ∧
    (∀ e, concatFrame s values inner = .error e → e = overflow ∨ ∃ s1, WF s1 ∧ inner s1 = .error e) :=
  concatFrame_restores hw values inner hin

/-! non-vacuity: a concrete activation at a non-zero base with caller data below it, a list containing nil,
    and a history that exercises growth-free shifting in both directions. -/
def exampleSt : St :=
  { reg := { array := [.val (some (.int 900)), .val (some (.ref 7)), .goNil, .val (some (.int 1)), .val none,
                       .val (some (.str "61")), .goNil, .goNil],
             top := 6, growBy := 2, maxSize := 64 }, base := 3 }

def exampleOps : List StackOp :=
  [.insert (some (.bool true)) (-2), .remove 1, .setTop 5, .replace (-1) (some (.int 9)), .pop 1, .push none,
   .insert (some (.int 5)) 5, .insert (some (.int 6)) 7]

theorem exampleSt_wf : WF exampleSt :=
  ⟨by decide, by decide, fun j h1 h2 => by
    have h3 : j < 6 := h2
    have h4 : 3 ≤ j := h1
    have : j = 3 ∨ j = 4 ∨ j = 5 := by omega
    rcases this with h | h | h <;> subst h <;> simp [exampleSt]⟩

example : WF exampleSt ∧ abs exampleSt = [some (.int 1), none, some (.str "61")] ∧
    specRun (abs exampleSt) exampleOps =
      some [some (.bool true), none, some (.str "61"), none, some (.int 5), none, some (.int 6)] ∧
    callerPrefix exampleSt = [.val (some (.int 900)), .val (some (.ref 7)), .goNil] :=
  ⟨exampleSt_wf, by decide, by decide, by decide⟩

/-- the model run of the same history succeeds, grows the registry (8 → 11 slots) and, by `api_refines_list`,
    ends with exactly that list and the same caller prefix. -/
example : (run exampleSt exampleOps).toOption.map (fun s => (s.reg.array.length, s.reg.top, callerPrefix s)) =
    some (11, 10, [.val (some (.int 900)), .val (some (.ref 7)), .goNil]) := by decide

/-- call contract, non-vacuity: a host function with list [1, nil, "61"] returning 2 to a caller that wants 3. -/
example : StackSpec.adjust (StackSpec.topMost (abs exampleSt) 2) 3 = [none, some (.str "61"), none] := by decide

/-- non-vacuity of the failed-call statements: the activation of `exampleSt` calls with 1 argument; the callee frame
    (base 6) pushed two values, the failing handler's frame (base 9) three more, before the inner recover ran. -/
example :
    (pcallDeferred exampleSt 1 .handlerFailed
        { reg := { exampleSt.reg with array := exampleSt.reg.array ++ List.replicate 4 (.val (some (.int 6001))), top := 12 },
          base := 9 }).toOption.map (fun s => (s.base, s.reg.top, abs s))
      = some (3, 4, [some (.int 1)]) ∧
    StackSpec.callFailed (abs exampleSt) 1 = [some (.int 1)] := by
  decide

/-! non-vacuity of the composed call contract: an activation at base 3 (caller data incl. a Go nil below it) holding
    `[1, <callable r5>, 61, "61"]` calls r5 with two arguments.  The host callee inserts 7 in front, pops one, pushes nil
    and returns 3 — one of the three is an argument it received. -/
def exampleCall : St :=
  { reg := { array := [.val (some (.int 900)), .val (some (.ref 7)), .goNil, .val (some (.int 1)), .val (some (.ref 5)),
                       .val (some (.int 61)), .val (some (.str "61")), .goNil],
             top := 7, growBy := 2, maxSize := 64 }, base := 3 }

def exampleBody : List StackOp := [.insert (some (.int 7)) 1, .pop 1, .push none]

theorem exampleCall_wf : WF exampleCall :=
  ⟨by decide, by decide, fun j h1 h2 => by
    have h3 : j < 7 := h2
    have h4 : 3 ≤ j := h1
    have : j = 3 ∨ j = 4 ∨ j = 5 ∨ j = 6 := by omega
    rcases this with h | h | h | h <;> subst h <;> simp [exampleCall]⟩

example : abs exampleCall = [some (.int 1), some (.ref 5), some (.int 61), some (.str "61")] ∧
    calleeArgs (abs exampleCall) 2 .fn = [some (.int 61), some (.str "61")] ∧
    calleeArgs (abs exampleCall) 2 .viaCall = [some (.ref 5), some (.int 61), some (.str "61")] ∧
    specRun (calleeArgs (abs exampleCall) 2 .fn) exampleBody = some [some (.int 7), some (.int 61), none] ∧
    StackSpec.call (abs exampleCall) 2 4 (StackSpec.topMost [some (.int 7), some (.int 61), none] 3)
      = [some (.int 1), some (.int 7), some (.int 61), none, none] := by
  refine ⟨by decide, by decide, by decide, by decide, by decide⟩

/-- the Model run of that call, NRet = 4 (one nil of padding); through `__call` with
    MultRet the callee sees the object first; a nested call made by the body (push a function, call it with
    0 arguments for MultRet, return everything). -/
example :
    (callRHost exampleCall 2 4 .fn (opsBody exampleBody 3)).toOption.map (fun s => (abs s, callerPrefix s, s.base, s.reg.array.length))
      = some ([some (.int 1), some (.int 7), some (.int 61), none, none],
              [.val (some (.int 900)), .val (some (.ref 7)), .goNil], 3, 8) ∧
    (callRHost exampleCall 2 (-1) .viaCall (opsBody [.remove 2] 2)).toOption.map (fun s => abs s)
      = some [some (.int 1), some (.ref 5), some (.str "61")] ∧
    (callRHost exampleCall 2 (-1) .fn (fun c =>
        (push c (some (.ref 9)) >>= fun c1 => callRHost c1 0 (-1) .fn (opsBody [.push (some (.int 5)), .push none] 2))
          >>= opsBody [] 4)).toOption.map (fun s => abs s)
      = some [some (.int 1), some (.int 61), some (.str "61"), some (.int 5), none] := by
  refine ⟨by decide, by decide, by decide⟩

/-- `pcall_contract_composed`, non-vacuity: the activation of `exampleCall` makes a protected call with two arguments; the
    callee pushes junk, a function and one argument and calls; that callee pushes a callable object and calls it through
    `__call`; the innermost pushes two partial results and raises; a handler's frame leaves two more values and fails.
    The registry grew from 8 to 17 slots on the way; the caller is left with `[1]` and its three caller slots. -/
def exampleLevels : List Level :=
  [{ pushed := [some (.int 70), some (.ref 8), some (.int 5)], nargs := 1, kind := .fn },
   { pushed := [some (.ref 9)], nargs := 0, kind := .viaCall }]

example : levelsFit 2 exampleLevels = true ∧
    (pcallFailAt exampleCall 2 .fn exampleLevels [some (.int 71), some (.int 72)] (some (.str "626f6f6d"))
        [some (.int 1), some (.int 2)] .handlerFailed).toOption.map
      (fun s => (abs s, callerPrefix s, s.base, s.reg.top))
      = some ([some (.int 1)], [.val (some (.int 900)), .val (some (.ref 7)), .goNil], 3, 4) ∧
    StackSpec.callFailed (abs exampleCall) 2 = [some (.int 1)] := by
  refine ⟨by decide, by decide, by decide⟩

/-- `call_contract_lua`, non-vacuity: a Lua callee that returned `[8, 9]` to a caller wanting 1 value. -/
example : RetLeft exampleCall 4 (StackSpec.adjust [some (.int 8), some (.int 9)] 1)
    { reg := { exampleCall.reg with array := exampleCall.reg.array.set 4 (.val (some (.int 8))), top := 5 }, base := 3 } :=
  ⟨rfl, by decide, by decide, fun j v h => by
      have : j = 0 := by
        have := (List.getElem?_eq_some_iff.mp h).1
        have h1 : (StackSpec.adjust [some (.int 8), some (.int 9)] 1).length = 1 := by decide
        omega
      subst this
      have : v = some (.int 8) := by
        have h2 : (StackSpec.adjust [some (.int 8), some (.int 9)] 1)[0]? = some (some (.int 8)) := by decide
        rw [h2] at h; cases h; rfl
      subst this
      decide,
    fun j hj => by
      have : j = 0 ∨ j = 1 ∨ j = 2 ∨ j = 3 := by omega
      rcases this with h | h | h | h <;> subst h <;> decide⟩

/-- non-vacuity: the activation of `exampleSt` (base 3, list `[1, nil, "61"]`) running `examplePSt`'s function:
    reads at 2, 0, 4, -3, -4, -9999, at the registry index, at its second upvalue and far below it; `base + idx - 1`
    fits a Go int for every index up to MaxInt64 - 2 and no longer at MaxInt64 - 1, where the read was a Go panic before
    the repair of C10-index-int-overflow (`lgetOld`) and is nil now. -/
def exampleLSt : LSt := { st := exampleSt, p := examplePSt }

example :
    (([2, 0, 4, -3, -4, -9999, -10000, -10004, -10005, -9223372036854775808] : List Int).map fun i => lget exampleLSt i)
      = [.ok (.val none), .ok (.val none), .ok (.val none), .ok (.val (some (.int 1))), .ok (.val none),
         .ok (.val none), .ok (.val (some (.ref 1))), .ok (.val (some (.str "7570"))), .ok (.val none),
         .ok (.val none)] ∧
    exampleLSt.st.base = 3 ∧ IdxOK 3 (maxInt - 2) ∧ ¬ IdxOK 3 (maxInt - 1) ∧
    lgetOld exampleLSt (maxInt - 1) = .error (.goPanic "registry.Get: index out of range") ∧
    lget exampleLSt (maxInt - 1) = .ok (.val none) ∧ lget exampleLSt maxInt = .ok (.val none) := by
  refine ⟨by decide +kernel, rfl, ?_, ?_, by decide +kernel, by decide +kernel, by decide +kernel⟩
  · intro _; unfold maxInt; omega
  · intro h
    have := h (by unfold maxInt; omega)
    unfold maxInt at this
    omega

end GLua.Props.C10
