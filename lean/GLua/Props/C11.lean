/-
  C11 (mechanism part) — cancelling the context stops any running script promptly with an error.

  Model: GLua/Model/Cancel.lean — the nest of `mainLoop`/`mainLoopWithContext` activations and protected-call
  boundaries (`LState.PCall`, `threadRun`) of /repo/vm.go, state.go, with `SetContext` / `RemoveContext` /
  `NewThread` / `kill` and the channel selects of channellib.go.  The PROGRAM is an arbitrary list of
  `Action`s (oracle), so divergent programs are covered; there is no bound on depth or length.
  Tie: harness/c11_mech.go (engine word C11M) compares the real Go call stack at every poll after a
  deterministic cancellation, and generated operation sequences, with this model on every run;
  GLua/Generated/Loops.lean is re-extracted from vm.go / state.go / channellib.go on every run.

  Property theorems only; lemmas are in GLua/Proofs/Cancel.lean.
-/
import GLua.Proofs.Cancel
import GLua.Generated.Loops

namespace GLua.Props.C11
open GLua.Cancel

/-- the configuration in which the cancellation arrives: `DoString` on a state with context `a` attached,
    after any program prefix `pre` that does not detach/replace the context. -/
def atCancel (a : Ctx) (pre : List Action) : St := (run pre (initSt a)).1

/-- … and right after `cancel()` was called by another goroutine / a timer. -/
def afterCancel (a : Ctx) (pre : List Action) : St := (step (.extCancel a) (atCancel a pre)).1

theorem atCancel_attached (a : Ctx) (pre : List Action) (hpre : ∀ x ∈ pre, reattaches x = false) :
    Attached a (atCancel a pre) :=
  run_attached pre _ (initSt_attached a) hpre

/-- **no_instruction_after_done.**  For every program (`pre`, `post` arbitrary, also infinite behaviours cut
    at any length), once the attached context is done no instruction is dispatched and no host function runs
    in any activation of the state or of a coroutine created from it: every later poll raises.  (In-flight
    call instructions of enclosing activations only deliver the results of their protected call.) -/
theorem no_instruction_after_done (a : Ctx) (pre post : List Action)
    (hpre : ∀ x ∈ pre, reattaches x = false) (hrun : (atCancel a pre).result = none) :
    ∀ e ∈ (run post (afterCancel a pre)).2, isInstr e = false :=
  (run_done post _ (cancel_establishes_done (atCancel_attached a pre hpre) hrun).1).2.1

/-- the same from any configuration in which every thread polls a context under `a` and `a` is done
    (e.g. cancellation by a host function, or of an ancestor context). -/
theorem no_instruction_when_done (a : Ctx) (s : St) (h : StDone a s) (post : List Action) :
    ∀ e ∈ (run post s).2, isInstr e = false :=
  (run_done post s h).2.1

/-- **cancel_bounded.**  The number of dispatch attempts (polls) after the cancellation is at most
    2·d + 1, d = number of enclosing protected calls / coroutine boundaries at the moment of cancellation —
    for every program and every continuation.  (Exact potential: `phi`, one per boundary plus one per Lua
    error handler.) -/
theorem cancel_bounded (a : Ctx) (pre post : List Action)
    (hpre : ∀ x ∈ pre, reattaches x = false) (hrun : (atCancel a pre).result = none) :
    countPolls (run post (afterCancel a pre)).2 ≤ 2 * depth (atCancel a pre).stack + 1 := by
  obtain ⟨hd, hstack⟩ := cancel_establishes_done (atCancel_attached a pre hpre) hrun
  have h := (run_done post _ hd).2.2
  have hmu : mu (afterCancel a pre) ≤ phi (atCancel a pre).stack + 1 := by
    unfold mu afterCancel
    split
    · omega
    · rw [hstack]; exact Nat.le_refl _
  have := phi_le_two_depth (atCancel a pre).stack
  unfold afterCancel at *
  omega

theorem cancel_bounded_phi (a : Ctx) (s : St) (h : StDone a s) (post : List Action) :
    countPolls (run post s).2 ≤ phi s.stack + 1 := by
  have := (run_done post s h).2.2
  have hmu : mu s ≤ phi s.stack + 1 := by unfold mu; split <;> omega
  omega

/-- **cancel_returns.**  …and the running DoString/PCall/Resume does return: after 2·d + 1 further loop
    iterations (whatever the program would like to do) the outermost call has returned. -/
theorem cancel_returns (a : Ctx) (pre post : List Action)
    (hpre : ∀ x ∈ pre, reattaches x = false) (hrun : (atCancel a pre).result = none)
    (hpost : ∀ x ∈ post, isExt x = false) (hlen : 2 * depth (atCancel a pre).stack + 1 ≤ post.length) :
    (run post (afterCancel a pre)).1.result.isSome = true := by
  obtain ⟨hd, hstack⟩ := cancel_establishes_done (atCancel_attached a pre hpre) hrun
  apply run_done_returns post _ hd hpost
  have := phi_le_two_depth (atCancel a pre).stack
  have hmu : mu (afterCancel a pre) ≤ phi (atCancel a pre).stack + 1 := by
    unfold mu afterCancel
    split
    · omega
    · rw [hstack]; exact Nat.le_refl _
  unfold afterCancel at *
  omega

/-- **cancel_error_reason.**  When the outermost activation runs a Lua function directly under DoString /
    PCall (no handler or a Lua handler) / Resume, the call can only end with the cancellation error. -/
theorem cancel_error_reason (a : Ctx) (s : St) (h : StDone a s) (hroot : Rooted s.stack) (hrun : s.result = none)
    (post : List Action) :
    (run post s).1.result = none ∨ (run post s).1.result = some (some .cancelled) := by
  rcases run_done_result post s h (Or.inl ⟨hrun, hroot⟩) with ⟨h1, _⟩ | h2
  · exact Or.inl h1
  · exact Or.inr h2

/-- with a Go error handler on the outermost call the handler's value replaces the error (by design). -/
def cancel_error_reason_full : Prop :=
  ∀ (s : St), StDone [0] s → s.result = none → ∀ post, (run post s).1.result = none ∨ (run post s).1.result = some (some .cancelled)

def goHandlerWitness : St :=
  { sys := { threads := [setContext {} [0]], cancelled := [[0]] }, stack := [.act 0 .withCtx false, .pcall 0 .go] }

theorem cancel_error_reason_full_fails : ¬ cancel_error_reason_full := by
  intro h
  have hd : StDone [0] goHandlerWitness := by
    refine ⟨⟨?_, ?_⟩, by decide, rfl, fun _ => ⟨0, _, rfl⟩, by simp [goHandlerWitness]⟩
    · intro t ht
      simp only [goHandlerWitness, List.mem_singleton] at ht
      subst ht
      exact ⟨rfl, [0], rfl, by decide⟩
    · intro f hf
      simp only [goHandlerWitness, List.mem_cons, List.not_mem_nil, or_false] at hf
      rcases hf with rfl | rfl <;> simp [FrameOK, goHandlerWitness]
  have := h goHandlerWitness hd rfl [.instr]
  revert this
  decide

/-- **ctx_transparent** (loop bodies).  Until the polled context is done, an iteration of
    `mainLoopWithContext` reaches exactly the configuration an iteration of `mainLoop` reaches and produces
    the same events, preceded by the poll. -/
theorem ctx_transparent (act : Action) (s : St) (th : Nat) (r : List Frame) (c : Ctx)
    (hc : s.sys.ctxOf th = some c) (hnd : isDone s.sys.cancelled c = false) :
    (iter act s th .withCtx r).1 = (iter act s th .plain r).1 ∧
    (iter act s th .withCtx r).2 = .poll th false :: (iter act s th .plain r).2 :=
  iter_transparent act s th r c hc hnd

/-- the poll that `mainLoopWithContext` adds to `mainLoop`. -/
def pollBlock : List (Nat × String) :=
  [(1, "select"), (2, "case <-L.ctx.Done()"), (3, "L.RaiseError(L.ctx.Err().Error())"), (3, "return"), (2, "default")]

/-- wrap the last statement of the loop body (the dispatch) into the `default` branch of the poll. -/
def addPoll (plain : List (Nat × String)) : List (Nat × String) :=
  plain.take (plain.length - 2) ++ pollBlock ++ (plain.drop (plain.length - 2)).map (fun p => (p.1 + 2, p.2))

/-- **loops_differ_only_by_poll** (regenerated from vm.go on every run): the source of `mainLoopWithContext`
    is the source of `mainLoop` with the dispatch statement moved under the `default:` of a select on
    `L.ctx.Done()` whose other branch raises `L.ctx.Err()` and returns. -/
theorem loops_differ_only_by_poll :
    GLua.Generated.mainLoopWithContextStmts = addPoll GLua.Generated.mainLoopStmts := by decide

/-- the dispatch is the last statement of the loop body, so the poll precedes it in every iteration. -/
theorem dispatch_is_last :
    GLua.Generated.mainLoopStmts.drop (GLua.Generated.mainLoopStmts.length - 2) =
      [(1, "if jumpTable[int(inst>>26)](L, inst, baseframe) == 1"), (2, "return")] := by decide

/-- **loop_selection_sites** (regenerated from state.go): the only writers of `mainLoop` / `ctx` /
    `ctxCancelFn` are newLState, SetContext, RemoveContext, NewThread, with the right-hand sides the model
    transcribes (`setContext`, `removeContext`, `newThread`). -/
theorem loop_selection_sites :
    GLua.Generated.ctxFieldWrites =
      [("NewThread", "ctx", "context.WithCancel(ls.ctx)#0"),
       ("NewThread", "ctxCancelFn", "f"),
       ("NewThread", "mainLoop", "mainLoopWithContext"),
       ("RemoveContext", "ctx", "nil"),
       ("RemoveContext", "mainLoop", "mainLoop"),
       ("SetContext", "ctx", "ctx"),
       ("SetContext", "mainLoop", "mainLoopWithContext"),
       ("newLState", "ctx", "nil"),
       ("newLState", "mainLoop", "mainLoop")] := by decide

/-- **loop_start_sites** (regenerated from state.go / vm.go): an interpreter loop is only ever started through the
    field `mainLoop` of the state it runs on — the loop selected by SetContext / RemoveContext / NewThread — never
    by naming `mainLoop` / `mainLoopWithContext` directly: both branches of `LState.callR` (the very first call of a
    global state, and every later one) and `threadRun`.  This is what `pushLayers` / `settle` transcribe as
    `sys.loopOf th`, whatever was or was not called on the state before. -/
theorem loop_start_sites :
    GLua.Generated.loopStartSites =
      [("callR", "ls.mainLoop(ls, ls.currentFrame)"),
       ("callR", "ls.mainLoop(ls, nil)"),
       ("threadRun", "L.mainLoop(L, nil)")] := by decide

/-- **done_readers** (regenerated): the loop and every blocking channel operation select on `ctx.Done()`
    (channelSend after fix C11-channel-send-ctx). -/
theorem done_readers :
    GLua.Generated.ctxDoneReaders = ["channelReceive", "channelSelect", "channelSend", "mainLoopWithContext"] := by decide

/-- **blocked_receive_wakes.**  A state blocked in a channel receive / select / send whose context is `a` or
    a descendant is woken by the cancellation of `a`; from then on it is in a "done" configuration: its next
    poll raises (see `no_instruction_when_done`, `cancel_bounded_phi`). -/
theorem blocked_receive_wakes (a : Ctx) (s : St) (h : Attached a s) (hrun : s.result = none)
    (th : Nat) (bc : Option Ctx) (hb : s.blockedOn = some (th, bc)) :
    (step (.extCancel a) s).1.blockedOn = none ∧ (step (.extCancel a) s).2 = [.woke th] ∧
    StDone a (step (.extCancel a) s).1 := by
  have hd := (cancel_establishes_done h hrun).1
  refine ⟨hd.notBlocked, ?_, hd⟩
  obtain ⟨c, hc, hp⟩ := h.blocked th bc hb
  have hret : blockingReturns bc (a :: s.sys.cancelled) false = true := by
    subst hc
    simp only [blockingReturns, Bool.false_or]
    exact isDone_of_mem List.mem_cons_self hp
  simp [step, hrun, hb, hret]

/-- a blocked operation on a state WITHOUT context is not woken by any cancellation (stated limit). -/
theorem blocked_without_context_never_wakes (s : St) (th : Nat) (hb : s.blockedOn = some (th, none)) (c : Ctx) :
    (step (.extCancel c) s).1.blockedOn = some (th, none) := by
  unfold step
  split
  · exact hb
  · simp [hb, blockingReturns]

/-- **creator_death_keeps_children** (after fix C11-coroutine-outlives-creator): killing a thread from whose
    context child contexts were derived cancels nothing, so a coroutine that outlives the coroutine that
    created it is not cancelled by its creator's death (only by the attached context or an explicit cancel). -/
theorem creator_death_keeps_children (sys : Sys) (th : Nat) (h : (sys.thread th).shared = true) :
    (killTh sys th).cancelled = sys.cancelled := by
  simp only [killTh, h]
  split <;> rfl

/-- coroutine 1 creates coroutine 2 and finishes (or fails, wrapped or not); coroutine 2 then still runs. -/
example : (run [.host (.newThread false), .enter [.resume 1], .host (.newThread true), .ret,
                .enter [.resume 2], .instr] (initSt [0])).2.getLast? = some (.dispatch 2) := by decide
example : (run [.host (.newThread true), .enter [.resume 1], .host (.newThread true), .err] (initSt [0])).1.sys.cancelled = [] := by decide

/-! ### known findings of the unchanged tree, as theorems about the model -/

/-- FULL statement: a context attached by a host function while the script runs stops the script when done. -/
def attach_midrun_stops_full : Prop :=
  ∀ (c : Ctx) (post : List Action),
    ∀ e ∈ (run post (run [.host (.setContext c), .host (.cancel c)] initPlain).1).2, isInstr e = false

/-- it is FALSE of the code (finding C11-setcontext-under-running-loop): the activation that was started by
    `mainLoop` keeps running `mainLoop`. -/
theorem attach_midrun_stops_full_fails : ¬ attach_midrun_stops_full := by
  intro h
  have := h [0] [.instr]
  revert this
  decide

/-- PARTIAL: when the state already had a context (so the running activations poll), replacing it mid-run
    and cancelling the new one does stop the script. -/
theorem attach_midrun_stops_partial (a c : Ctx) (post : List Action) :
    ∀ e ∈ (run post (run [.host (.setContext c), .host (.cancel c)] (initSt a)).1).2, isInstr e = false := by
  have hs : (run [.host (.setContext c), .host (.cancel c)] (initSt a)).1 =
      { sys := { threads := [setContext (setContext {} a) c], cancelled := [c] },
        stack := [.act 0 .withCtx false, .pcall 0 .none] } := by
    simp [run, step, iter, initSt, pollIter, isDone, dispatchStep, applyHost, Sys.ctxOf, Sys.thread, Sys.setThread,
      setContext]
  rw [hs]
  apply no_instruction_when_done c
  refine ⟨⟨?_, ?_⟩, List.mem_singleton.mpr rfl, rfl, fun _ => ⟨0, _, rfl⟩, by simp⟩
  · intro t ht
    simp only [List.mem_singleton] at ht
    subst ht
    exact ⟨rfl, c, rfl, by rw [List.isPrefixOf_iff_prefix]; exact List.prefix_refl c⟩
  · intro f hf
    simp only [List.mem_cons, List.not_mem_nil, or_false] at hf
    rcases hf with rfl | rfl <;> simp [FrameOK]

/-- FULL statement: removing the context mid-run lets the script continue without polling. -/
def remove_midrun_safe_full : Prop :=
  ∀ (a : Ctx) (post : List Action),
    ∀ e ∈ (run post (run [.host .removeContext] (initSt a)).1).2, ∀ th, e ≠ .nilDeref th

/-- FALSE of the code (finding C11-removecontext-under-running-loop): Go nil-pointer panic in the poll. -/
theorem remove_midrun_safe_full_fails : ¬ remove_midrun_safe_full := by
  intro h
  exact h [0] [.instr] (.nilDeref 0) (by decide) 0 rfl

/-! ### non-vacuity -/

/-- the hypotheses are satisfiable by non-trivial configurations: a pcall inside a coroutine inside an
    xpcall with a Lua handler, cancelled while a metamethod runs. -/
def demoPre : List Action :=
  [.host (.newThread false), .enter [.pcall .lua], .enter [.resume 1], .enter [.pcall .none], .enter [.ucall], .instr]

example : ∀ x ∈ demoPre, reattaches x = false := by decide
example : (atCancel [0] demoPre).result = none := by decide
example : depth (atCancel [0] demoPre).stack = 4 := by decide
/-- the exact potential is attained: phi = 5 polls (4 after the one that sees done first), then the error. -/
example : countPolls (run (List.replicate 9 .instr) (afterCancel [0] demoPre)).2 = 5 := by decide
example : (run (List.replicate 9 .instr) (afterCancel [0] demoPre)).1.result = some (some .cancelled) := by decide
example : phi (atCancel [0] demoPre).stack = 5 := by decide
/-- before the cancellation the same program does dispatch instructions (the theorem is not vacuous). -/
example : ((run demoPre (initSt [0])).2.filter isInstr).length = 7 := by decide
/-- a blocked receive: -/
example : (run [.host (.block .recv false)] (initSt [0])).1.blockedOn = some (0, some [0]) := by decide

end GLua.Props.C11
