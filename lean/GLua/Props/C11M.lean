/-
  C11M = the mechanism part of C11.  The property theorems are stated and proved in GLua/Props/C11.lean;
  this module re-exports them under the namespace the check `./check C11M` audits (one alias per theorem,
  same statement).
-/
import GLua.Props.C11

namespace GLua.Props.C11M
open GLua.Cancel GLua.Props.C11

theorem no_instruction_after_done (a : Ctx) (pre post : List Action)
    (hpre : ∀ x ∈ pre, reattaches x = false) (hrun : (atCancel a pre).result = none) :
    ∀ e ∈ (run post (afterCancel a pre)).2, isInstr e = false :=
  C11.no_instruction_after_done a pre post hpre hrun

theorem no_instruction_when_done (a : Ctx) (s : St) (h : StDone a s) (post : List Action) :
    ∀ e ∈ (run post s).2, isInstr e = false :=
  C11.no_instruction_when_done a s h post

theorem cancel_bounded (a : Ctx) (pre post : List Action)
    (hpre : ∀ x ∈ pre, reattaches x = false) (hrun : (atCancel a pre).result = none) :
    countPolls (run post (afterCancel a pre)).2 ≤ 2 * depth (atCancel a pre).stack + 1 :=
  C11.cancel_bounded a pre post hpre hrun

theorem cancel_bounded_phi (a : Ctx) (s : St) (h : StDone a s) (post : List Action) :
    countPolls (run post s).2 ≤ phi s.stack + 1 :=
  C11.cancel_bounded_phi a s h post

theorem cancel_returns (a : Ctx) (pre post : List Action)
    (hpre : ∀ x ∈ pre, reattaches x = false) (hrun : (atCancel a pre).result = none)
    (hpost : ∀ x ∈ post, isExt x = false) (hlen : 2 * depth (atCancel a pre).stack + 1 ≤ post.length) :
    (run post (afterCancel a pre)).1.result.isSome = true :=
  C11.cancel_returns a pre post hpre hrun hpost hlen

theorem cancel_error_reason (a : Ctx) (s : St) (h : StDone a s) (hroot : Rooted s.stack) (hrun : s.result = none)
    (post : List Action) :
    (run post s).1.result = none ∨ (run post s).1.result = some (some .cancelled) :=
  C11.cancel_error_reason a s h hroot hrun post

theorem cancel_error_reason_full_fails : ¬ cancel_error_reason_full := C11.cancel_error_reason_full_fails

theorem ctx_transparent (act : Action) (s : St) (th : Nat) (r : List Frame) (c : Ctx)
    (hc : s.sys.ctxOf th = some c) (hnd : isDone s.sys.cancelled c = false) :
    (iter act s th .withCtx r).1 = (iter act s th .plain r).1 ∧
    (iter act s th .withCtx r).2 = .poll th false :: (iter act s th .plain r).2 :=
  C11.ctx_transparent act s th r c hc hnd

theorem loops_differ_only_by_poll :
    GLua.Generated.mainLoopWithContextStmts = addPoll GLua.Generated.mainLoopStmts :=
  C11.loops_differ_only_by_poll

theorem dispatch_is_last :
    GLua.Generated.mainLoopStmts.drop (GLua.Generated.mainLoopStmts.length - 2) =
      [(1, "if jumpTable[int(inst>>26)](L, inst, baseframe) == 1"), (2, "return")] :=
  C11.dispatch_is_last

theorem loop_selection_sites :
    GLua.Generated.ctxFieldWrites =
      [("NewThread", "ctx", "context.WithCancel(ls.ctx)#0"),
       ("NewThread", "ctxCancelFn", "f"),
       ("NewThread", "mainLoop", "mainLoopWithContext"),
       ("RemoveContext", "ctx", "nil"),
       ("RemoveContext", "mainLoop", "mainLoop"),
       ("SetContext", "ctx", "ctx"),
       ("SetContext", "mainLoop", "mainLoopWithContext"),
       ("newLState", "ctx", "nil"),
       ("newLState", "mainLoop", "mainLoop")] :=
  C11.loop_selection_sites

theorem loop_start_sites :
    GLua.Generated.loopStartSites =
      [("callR", "ls.mainLoop(ls, ls.currentFrame)"),
       ("callR", "ls.mainLoop(ls, nil)"),
       ("threadRun", "L.mainLoop(L, nil)")] :=
  C11.loop_start_sites

theorem done_readers :
    GLua.Generated.ctxDoneReaders = ["channelReceive", "channelSelect", "channelSend", "mainLoopWithContext"] :=
  C11.done_readers

theorem blocked_receive_wakes (a : Ctx) (s : St) (h : Attached a s) (hrun : s.result = none)
    (th : Nat) (bc : Option Ctx) (hb : s.blockedOn = some (th, bc)) :
    (step (.extCancel a) s).1.blockedOn = none ∧ (step (.extCancel a) s).2 = [.woke th] ∧
    StDone a (step (.extCancel a) s).1 :=
  C11.blocked_receive_wakes a s h hrun th bc hb

theorem blocked_without_context_never_wakes (s : St) (th : Nat) (hb : s.blockedOn = some (th, none)) (c : Ctx) :
    (step (.extCancel c) s).1.blockedOn = some (th, none) :=
  C11.blocked_without_context_never_wakes s th hb c

theorem creator_death_keeps_children (sys : Sys) (th : Nat) (h : (sys.thread th).shared = true) :
    (killTh sys th).cancelled = sys.cancelled :=
  C11.creator_death_keeps_children sys th h

theorem attach_midrun_stops_full_fails : ¬ attach_midrun_stops_full := C11.attach_midrun_stops_full_fails

theorem attach_midrun_stops_partial (a c : Ctx) (post : List Action) :
    ∀ e ∈ (run post (run [.host (.setContext c), .host (.cancel c)] (initSt a)).1).2, isInstr e = false :=
  C11.attach_midrun_stops_partial a c post

theorem remove_midrun_safe_full_fails : ¬ remove_midrun_safe_full := C11.remove_midrun_safe_full_fails

end GLua.Props.C11M
