/-
  C12 — limits surface as catchable errors; below them Options never change behaviour.
  Property theorems only (lemmas: GLua/Proofs/CallStack.lean, Registry.lean, Limits.lean).

  Model: GLua/Model/CallStack.lean, GLua/Model/Registry.lean — transcriptions of /repo/state.go
  (fixedCallFrameStack, autoGrowingCallFrameStack, registry, NewState), tied to the code by the correspondence
  check on every run (the real structures are driven through the hooks of verif_hooks.go).
  Spec: GLua/Spec/LimitsSpec.lean — `List Frame` with a capacity, `List` of values with a limit, limits of Options.

  The Model describes the tree with fixes/C12-autostack-isfull-setsp.diff applied.  The unrepaired
  `IsFull`/`SetSp` are kept as `Auto.isFullOrig`/`Auto.setSpOrig`/`Auto.stepOrig`; for them the full statement
  is refuted below (`…_unrepaired_fails_*`) and the strongest guarded statement is proved (`…_unrepaired_partial`).
-/
import GLua.Proofs.Limits

namespace GLua.Props.C12
open GLua GLua.LimitsSpec GLua.CallStack GLua.Registry GLua.Limits

/-! ## call stacks refine a list with capacity -/

/-- **callstack_refines_list (fixed)** — for every size and every history inside the contract
    (no push on a full stack, no pop on an empty one, `At`/`SetSp` within the depth), the fixed stack returns
    exactly the observations of the list and ends in a state representing the list; in particular no Go panic. -/
theorem callstack_refines_list_fixed (size : Nat) (ops : List Op) (l : List Frame) (os : List Obs)
    (h : LimitsSpec.run (capacity false FPS size) [] ops = some (l, os)) :
    ∃ s, runFixed (Fixed.new size) ops = .ok (s, os) ∧ Fixed.Rel size s l := by
  have hc : capacity false FPS size = size := by simp [capacity]
  rw [hc] at h
  exact runFixed_refines size ops _ _ _ _ (Fixed.rel_new size) h

/-- **callstack_refines_list (auto-growing)** — the same for the segmented stack, every `CallStackSize`
    from 1 to 8·65536 (`segIdx` is a uint16), capacity = the page multiple covering the size. -/
theorem callstack_refines_list_auto (size : Nat) (h1 : 0 < size) (h2 : size ≤ 524288) (ops : List Op)
    (l : List Frame) (os : List Obs) (h : LimitsSpec.run (capacity true FPS size) [] ops = some (l, os)) :
    ∃ s0 s, Auto.new size = .ok s0 ∧ runAuto Auto.step s0 ops = .ok (s, os) ∧
      Auto.Rel (capacity true FPS size) s l := by
  obtain ⟨s0, e0, r0⟩ := Auto.rel_new size h1 h2
  obtain ⟨s, e, r⟩ := runAuto_refines _ ops s0 _ _ _ r0 h
  exact ⟨s0, s, e0, e, r⟩

example : LimitsSpec.run (capacity true FPS 9) []
    [.push 1, .push 2, .push 3, .push 4, .push 5, .push 6, .push 7, .push 8, .push 9, .isFull, .pop, .setSp 8, .last, .sp] =
    some ([⟨1, 0⟩, ⟨2, 1⟩, ⟨3, 2⟩, ⟨4, 3⟩, ⟨5, 4⟩, ⟨6, 5⟩, ⟨7, 6⟩, ⟨8, 7⟩],
      [.unit, .unit, .unit, .unit, .unit, .unit, .unit, .unit, .unit, .bool false, .frame ⟨9, 8⟩, .unit, .frame ⟨8, 7⟩, .nat 8]) := by
  decide

/-- **isFull_iff_capacity** — in every reachable state `IsFull()` answers true exactly when the depth equals the
    capacity (so `pushCallFrame` raises the Lua error "stack overflow" instead of reaching `Push`'s Go panic). -/
theorem isFull_iff_capacity_fixed (cap : Nat) (s : Fixed) (l : List Frame) (h : Fixed.Rel cap s l) :
    s.isFull = (l.length == cap) := by
  obtain ⟨h1, h2, _, _⟩ := h
  simp [Fixed.isFull, h1, h2]

theorem isFull_iff_capacity_auto (cap : Nat) (s : Auto) (l : List Frame) (h : Auto.Rel cap s l) :
    s.isFull = (l.length == cap) := by
  obtain ⟨⟨_, _, hidx, hsp8, _⟩, hcap, hsp, _⟩ := h
  rw [Auto.isFull_eq s l.length hidx hsp8 hsp, hcap]

/-- a push on a stack that is not full never panics (both kinds): the guard of `pushCallFrame` is sufficient. -/
theorem push_safe_when_not_full_auto (cap : Nat) (s : Auto) (l : List Frame) (tag : Int) (h : Auto.Rel cap s l)
    (hf : s.isFull = false) : ∃ s', s.step (.push tag) = .ok (s', .unit) ∧ Auto.Rel cap s' (l ++ [⟨tag, l.length⟩]) := by
  have hlt : l.length < cap := by
    have hle : l.length ≤ cap := by
      obtain ⟨⟨_, _, hidx, hsp8, _⟩, hcap, hsp, _⟩ := h
      omega
    rw [isFull_iff_capacity_auto cap s l h] at hf
    simp at hf
    omega
  exact Auto.step_refines h (by simp [LimitsSpec.step, hlt])

/-! ### the unrepaired auto-growing stack -/

def autoObs (stp : Auto → Op → Except Err (Auto × Obs)) (size : Nat) (ops : List Op) : Option (List Obs) :=
  match Auto.new size with
  | .error _ => none
  | .ok s => match runAuto stp s ops with
    | .ok (_, os) => some os
    | .error _ => none

/-- the full statement for the tree as it is before fixes/C12-autostack-isfull-setsp.diff. -/
def callstack_refines_list_unrepaired : Prop :=
  ∀ (size : Nat) (ops : List Op) (l : List Frame) (os : List Obs), 0 < size → size ≤ 524288 →
    LimitsSpec.run (capacity true FPS size) [] ops = some (l, os) → autoObs Auto.stepOrig size ops = some os

def push8 : List Op := [.push 1, .push 2, .push 3, .push 4, .push 5, .push 6, .push 7, .push 8]
def frames8 : List Frame := [⟨1, 0⟩, ⟨2, 1⟩, ⟨3, 2⟩, ⟨4, 3⟩, ⟨5, 4⟩, ⟨6, 5⟩, ⟨7, 6⟩, ⟨8, 7⟩]
def units8 : List Obs := [.unit, .unit, .unit, .unit, .unit, .unit, .unit, .unit]

/-- witness 1: `IsFull` compares `segIdx == len(segments)`, which never holds: at depth 8 of 8 it answers false … -/
theorem callstack_refines_list_unrepaired_fails_isFull : ¬ callstack_refines_list_unrepaired := by
  intro h
  have := h 8 (push8 ++ [.isFull]) frames8 (units8 ++ [.bool true]) (by decide) (by decide) (by decide)
  revert this
  decide

/-- … and the ninth push is `panic("lua callstack overflow")`, a Go panic instead of the Lua error. -/
theorem unrepaired_overflow_is_go_panic :
    (match Auto.new 8 with
     | .ok s => (runAuto Auto.stepOrig s (push8 ++ [.isFull, .push 9])).toOption.isNone
     | .error _ => false) = true := by decide

/-- witness 2: `SetSp(8)` at depth 8 (representation `(segIdx 0, segSp 8)`) computes the target `(1, 0)`, frees
    nothing and stores `segSp = 0`: all eight frames are dropped (reached by a failing `PCall` at depth 8). -/
theorem callstack_refines_list_unrepaired_fails_setSp : ¬ callstack_refines_list_unrepaired := by
  intro h
  have := h 16 (push8 ++ [.setSp 8, .sp]) frames8 (units8 ++ [.unit, .nat 8]) (by decide) (by decide) (by decide)
  revert this
  decide

/-- `IsFull` of the unrepaired tree is false in every state that satisfies the representation invariant. -/
theorem isFull_unrepaired_never (s : Auto) (h : Auto.Inv s) : s.isFullOrig = false := by
  obtain ⟨_, _, hidx, _, _⟩ := h
  have : ¬ s.segIdx = s.nseg := by omega
  simp [Auto.isFullOrig, this]

def usesOnlyRepairedFree : Op → Bool
  | .isFull => false
  | .setSp _ => false
  | _ => true

/-- the strongest statement that holds of the unrepaired tree with a simple decidable guard: histories that use
    neither `IsFull` nor `SetSp` (the two functions the repair touches). -/
theorem callstack_refines_list_unrepaired_partial (size : Nat) (h1 : 0 < size) (h2 : size ≤ 524288) (ops : List Op)
    (hg : ops.all usesOnlyRepairedFree = true) (l : List Frame) (os : List Obs)
    (h : LimitsSpec.run (capacity true FPS size) [] ops = some (l, os)) :
    autoObs Auto.stepOrig size ops = some os := by
  obtain ⟨s0, s, e0, e, _⟩ := callstack_refines_list_auto size h1 h2 ops l os h
  have key : ∀ (ops : List Op) (s : Auto), ops.all usesOnlyRepairedFree = true →
      runAuto Auto.stepOrig s ops = runAuto Auto.step s ops := by
    intro ops
    induction ops with
    | nil => intro s _; rfl
    | cons op r ih =>
      intro s hg
      simp only [List.all_cons, Bool.and_eq_true] at hg
      have hop : Auto.stepOrig s op = Auto.step s op := by
        cases op <;> simp_all [usesOnlyRepairedFree, Auto.stepOrig]
      simp only [runAuto, hop]
      cases hstep : Auto.step s op with
      | error e => rfl
      | ok p => simp only [ih p.1 hg.2]
  simp [autoObs, e0, key ops s0 hg, e]

example : (push8 ++ ([.pop, .last, .at 3, .sp, .isEmpty] : List Op)).all usesOnlyRepairedFree = true := by decide

/-! ## registry -/

/-- **registry_growth_preserves** — a size check that fits under the limit max(cap, maxSize) succeeds, the new
    capacity covers the requirement, never shrinks, stays under the limit, and the live prefix `[0, top)` is
    untouched; a requirement past the limit raises "registry overflow" (an ordinary Lua error, no state change:
    the result carries no state and every caller checks the size before its first write). -/
theorem registry_growth_preserves (r : Reg) (req : Nat) (htop : r.top ≤ r.cap) :
    (req ≤ max r.cap r.maxSize →
      ∃ r', r.checkSize req = .ok r' ∧ r'.top = r.top ∧ req ≤ r'.cap ∧ r.cap ≤ r'.cap ∧
        r'.cap ≤ max r.cap r.maxSize ∧ r'.growBy = r.growBy ∧ r'.maxSize = r.maxSize ∧
        ∀ i, i < r.top → r'.array i = r.array i) ∧
    (req > max r.cap r.maxSize → r.checkSize req = .error (.luaError "registry overflow")) := by
  constructor
  · intro h
    obtain ⟨r', e, t, c, ⟨g, m, c1, c2⟩, a, _⟩ := checkSize_ok r req htop h
    exact ⟨r', e, t, c, c1, c2, g, m, a⟩
  · intro h
    exact checkSize_overflow r req h

example : ∃ r, (Reg.new 2 1 5).push (some (.int 7)) = .ok r ∧ r.top = 1 := ⟨_, rfl, rfl⟩

/-- **registry_refines_list** — for every configuration (initial size, grow step, maximum) and every history inside
    the contract, the registry returns the observations of the list `[0, top)` under the limit
    `max size maxSize`: an operation whose result fits succeeds (growing if needed), one that does not raises
    "registry overflow" and leaves everything as it was, and the history goes on.  No Go panic is reachable. -/
theorem registry_refines_list (size growBy maxSize : Nat) (ops : List ROp) (l : List OVal)
    (os : List (Option RObs)) (h : rrunL (max size maxSize) [] ops = some (l, os)) :
    ∃ r, Registry.run (Reg.new size growBy maxSize) ops = .ok (r, os) ∧ Rel r l := by
  obtain ⟨r, e, hr, _⟩ := run_refines (max size maxSize) ops (Reg.new size growBy maxSize) [] l os
    (rel_new size growBy maxSize) rfl h
  exact ⟨r, e, hr⟩

example : rrunL (max 2 3) [] [.push (some (.int 1)), .push none, .push (some (.int 3)), .push (some (.int 4)),
      .insert (some (.int 9)) 0, .copyRange 0 1 (-1) 2, .pop, .top] =
    some ([none], [some .unit, some .unit, some .unit, none, none, some .unit, some (.val (some (.int 3))), some (.nat 1)]) := by
  decide

/-- **overflow_iff_limit** — one in-contract operation overflows exactly when its result would be longer than
    max(cap, maxSize); the error is the Lua error, never a Go panic. -/
theorem overflow_iff_limit (r : Reg) (l l' : List OVal) (op : ROp) (o : RObs) (h : Rel r l)
    (hs : rstep l op = some (l', o)) :
    (r.step op = .error (.luaError "registry overflow") ↔ l'.length > max r.cap r.maxSize) ∧
    (∀ site, r.step op ≠ .error (.goPanic site)) := by
  obtain ⟨hok, hov⟩ := step_refines h hs
  by_cases hl : l'.length ≤ max r.cap r.maxSize
  · obtain ⟨r', e, _, _⟩ := hok hl
    refine ⟨⟨fun he => ?_, fun hgt => by omega⟩, fun site he => ?_⟩
    · rw [e] at he; cases he
    · rw [e] at he; cases he
  · have e := hov (by omega)
    refine ⟨⟨fun _ => by omega, fun _ => e⟩, fun site he => ?_⟩
    rw [e] at he
    cases he

/-- `raiseError` can always deliver its message: the forced one-slot growth makes room, the live prefix stays. -/
theorem raiseError_push_never_fails (r : Reg) (l : List OVal) (msg : OVal) (h : Rel r l) :
    ∃ r', r.raisePush msg = .ok r' ∧ Rel r' (l ++ [msg]) := raisePush_ok msg h

/-! ## Options do not matter below the limits -/

/-- **options_irrelevant (call stack)** — two configurations (fixed or auto-growing, any sizes) and a history that
    stays below both capacities: both stacks return the same observations and represent the same list. -/
theorem options_irrelevant_callstack (size1 size2 size3 : Nat) (h2 : 0 < size2) (h2' : size2 ≤ 524288)
    (h3 : 0 < size3) (h3' : size3 ≤ 524288) (ops : List Op)
    (b1 : below (capacity false FPS size1) [] ops) (b2 : below (capacity true FPS size2) [] ops)
    (b3 : below (capacity true FPS size3) [] ops) :
    ∃ l os sF sA0 sA sB0 sB,
      runFixed (Fixed.new size1) ops = .ok (sF, os) ∧ Fixed.Rel size1 sF l ∧
      Auto.new size2 = .ok sA0 ∧ runAuto Auto.step sA0 ops = .ok (sA, os) ∧ Auto.Rel (capacity true FPS size2) sA l ∧
      Auto.new size3 = .ok sB0 ∧ runAuto Auto.step sB0 ops = .ok (sB, os) ∧ Auto.Rel (capacity true FPS size3) sB l := by
  obtain ⟨e12, hs⟩ := run_cap_irrelevant ops [] b1 b2
  obtain ⟨e13, _⟩ := run_cap_irrelevant ops [] b1 b3
  cases hrun : LimitsSpec.run (capacity false FPS size1) [] ops with
  | none => rw [hrun] at hs; cases hs
  | some p =>
    obtain ⟨l, os⟩ := p
    obtain ⟨sF, eF, rF⟩ := callstack_refines_list_fixed size1 ops l os hrun
    obtain ⟨sA0, sA, eA0, eA, rA⟩ := callstack_refines_list_auto size2 h2 h2' ops l os (by rw [← e12]; exact hrun)
    obtain ⟨sB0, sB, eB0, eB, rB⟩ := callstack_refines_list_auto size3 h3 h3' ops l os (by rw [← e13]; exact hrun)
    exact ⟨l, os, sF, sA0, sA, sB0, sB, eF, rF, eA0, eA, rA, eB0, eB, rB⟩

example : below (capacity false FPS 4) [] [.push 1, .push 2, .isFull, .pop, .push 3, .setSp 1, .last] ∧
    below (capacity true FPS 9) [] [.push 1, .push 2, .isFull, .pop, .push 3, .setSp 1, .last] ∧
    below (capacity true FPS 1) [] [.push 1, .push 2, .isFull, .pop, .push 3, .setSp 1, .last] := by
  refine ⟨by decide, by decide, by decide⟩

/-- **options_irrelevant (registry)** — two registries with any RegistrySize / RegistryGrowStep / RegistryMaxSize
    and a history that stays within both limits: no overflow in either, identical observations step for step,
    identical contents `[0, top)` (whatever the two capacities went through). -/
theorem options_irrelevant_registry (s1 g1 m1 s2 g2 m2 : Nat) (ops : List ROp)
    (b1 : rbelow (max s1 m1) [] ops) (b2 : rbelow (max s2 m2) [] ops) :
    ∃ (l : List OVal) (os : List RObs) (r1 r2 : Reg),
      Registry.run (Reg.new s1 g1 m1) ops = .ok (r1, os.map some) ∧ Rel r1 l ∧
      Registry.run (Reg.new s2 g2 m2) ops = .ok (r2, os.map some) ∧ Rel r2 l := by
  obtain ⟨l, os, e1, e1L⟩ := rrunL_of_below (max s1 m1) ops [] b1
  obtain ⟨l', os', e2, e2L⟩ := rrunL_of_below (max s2 m2) ops [] b2
  rw [e1] at e2
  simp only [Option.some.injEq, Prod.mk.injEq] at e2
  obtain ⟨rfl, rfl⟩ := e2
  obtain ⟨r1, x1, y1⟩ := registry_refines_list s1 g1 m1 ops l _ e1L
  obtain ⟨r2, x2, y2⟩ := registry_refines_list s2 g2 m2 ops l _ e2L
  exact ⟨l, os, r1, r2, x1, y1, x2, y2⟩

example : rbelow (max 1 4) [] [.push (some (.int 1)), .push none, .setTop 4, .pop] ∧
    rbelow (max 8 0) [] [.push (some (.int 1)), .push none, .setTop 4, .pop] := by
  refine ⟨by decide, by decide⟩

/-- **options_normalised** — the limits the Spec assigns to raw `Options` are the limits of the structures
    `NewState` builds after its normalisation (defaults for `CallStackSize < 1`, `RegistrySize < 128`; growth
    disabled when `RegistryMaxSize < RegistrySize`; default grow step). -/
theorem options_normalised (defCS defRS defStep : Nat) (o : Options) :
    max (regOf (normalise defCS defRS defStep o)).cap (regOf (normalise defCS defRS defStep o)).maxSize = regLimit defRS o ∧
    capacity (normalise defCS defRS defStep o).minimizeStackMemory FPS
      (normalise defCS defRS defStep o).callStackSize.toNat = callLimit defCS FPS o ∧
    (1 ≤ defCS → 1 ≤ (normalise defCS defRS defStep o).callStackSize) ∧
    (1 ≤ defStep → 0 < (normalise defCS defRS defStep o).registryMaxSize →
      1 ≤ (normalise defCS defRS defStep o).registryGrowStep) := by
  unfold normalise regLimit callLimit regOf Reg.new
  dsimp only
  by_cases h3 : o.registryMaxSize < (if o.registrySize < 128 then (defRS : Int) else o.registrySize)
  · rw [if_pos h3]
    dsimp only
    by_cases h1 : o.callStackSize < 1 <;> by_cases h2 : o.registrySize < 128
    all_goals simp only [h1, h2, if_true, if_false] at h3 ⊢
    all_goals (refine ⟨?_, ?_, ?_, ?_⟩ <;> try omega)
    all_goals first | trivial | (split <;> omega) | simp
  · rw [if_neg h3]
    dsimp only
    by_cases h1 : o.callStackSize < 1 <;> by_cases h2 : o.registrySize < 128 <;> by_cases h4 : o.registryGrowStep < 1
    all_goals simp only [h1, h2, h4, if_true, if_false] at h3 ⊢
    all_goals (refine ⟨?_, ?_, ?_, ?_⟩ <;> try omega)
    all_goals first | trivial | (split <;> omega) | simp

example : regLimit 5120 ⟨0, true, 64, 100, 0⟩ = 5120 ∧ regLimit 5120 ⟨9, true, 128, 512, 0⟩ = 512 ∧
    callLimit 256 8 ⟨9, true, 128, 512, 0⟩ = 16 ∧ callLimit 256 8 ⟨0, false, 128, 512, 0⟩ = 256 := by decide

end GLua.Props.C12
