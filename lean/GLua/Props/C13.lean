/-
  C13 — concurrent states never interfere; channels deliver each value once, in order.
  Property theorems only (lemmas: GLua/Proofs/Channel.lean).

  What is a THEOREM here
    * about the Go-channel LTS `GLua.Chan.step` (a parameter: Go's channel/select semantics) driven by ANY clients
      (every interleaving of any number of senders / receivers / closers / selecting goroutines is a label sequence):
      exactly-once + FIFO (`channel_exactly_once_fifo` and its corollaries), closure reporting, select readiness;
    * about gopher-lua's wrappers (transcribed in GLua/Model/Channel.lean, tied to the code by the correspondence run):
      they perform exactly one LTS operation, guard payloads first (`payload_guard`, `send_guarded`, `select_guarded`),
      keep case positions (`select_positions`) and translate outcomes faithfully;
    * about the TEXT of the tree (regenerated go/ast facts): nothing outside compile.go/function.go assigns into a
      FunctionProto (`proto_immutable`), no function body assigns to a package-level variable, and every package-level
      variable is classified (`package_vars_classified`) — a new `var` breaks the proof.

  What is NOT a theorem (PARTIAL, see notes/C13.md): data-race freedom under the Go memory model and "computes exactly
  what it computes alone" for real goroutine schedules.  These are supported by the -race runs of the harness only.
-/
import GLua.Proofs.Channel
import GLua.Spec.ChannelSpec
import GLua.Generated.C13Facts

namespace GLua.Props.C13
open GLua GLua.Chan

section LTS
variable {α : Type} [DecidableEq α]

/-- **channel_exactly_once_fifo** — in every reachable configuration (any number of goroutines, any interleaving, any mix
    of send / receive / select / close), for every channel: the values received so far, in the order the receives
    completed, followed by the values still queued, are exactly the values whose sends completed, in the order those
    sends completed.  Hence no value is lost, duplicated, invented or reordered; and the queue never exceeds capacity. -/
theorem channel_exactly_once_fifo {caps : Cid → Nat} {σ : Cfg α} {obs : List (Obs α)}
    (h : Reach caps σ obs) (c : Cid) :
    rcvdVals c obs ++ (σ.ch c).buf = sentVals c obs ∧ (σ.ch c).buf.length ≤ caps c :=
  ⟨(reach_inv h c).fifo, (reach_inv h c).room⟩

/-- the received sequence is a prefix of the sent sequence (FIFO across all senders and receivers). -/
theorem received_prefix_of_sent {caps : Cid → Nat} {σ : Cfg α} {obs : List (Obs α)}
    (h : Reach caps σ obs) (c : Cid) : rcvdVals c obs <+: sentVals c obs :=
  ⟨(σ.ch c).buf, (reach_inv h c).fifo⟩

/-- once the channel is drained, everything sent has been received (exactly once: same sequence). -/
theorem drained_all_received {caps : Cid → Nat} {σ : Cfg α} {obs : List (Obs α)}
    (h : Reach caps σ obs) (c : Cid) (hd : (σ.ch c).buf = []) : rcvdVals c obs = sentVals c obs := by
  have := (reach_inv h c).fifo
  rwa [hd, List.append_nil] at this

/-- **exactly one receiver** — if the sent values are pairwise distinct (e.g. tagged (sender, seq)), no value is
    received twice and no value is received by two different receivers. -/
theorem each_value_one_receiver {caps : Cid → Nat} {σ : Cfg α} {obs : List (Obs α)}
    (h : Reach caps σ obs) (c : Cid) (hnd : (sentVals c obs).Nodup) :
    (rcvdVals c obs).Nodup ∧
    ∀ g g' v, (g, v) ∈ rcvdBy c obs → (g', v) ∈ rcvdBy c obs → g = g' := by
  have hr : (rcvdVals c obs).Nodup := List.Nodup.sublist (received_prefix_of_sent h c).sublist hnd
  refine ⟨hr, fun g g' v h1 h2 => ?_⟩
  exact pair_unique_of_nodup_snd (rcvdBy c obs) (by rw [rcvdBy_snd]; exact hr) h1 h2

/-- **per-sender order** — any order relation that holds along the sent sequence (in particular "same sender ⇒
    increasing sequence number") holds along what each single receiver sees. -/
theorem per_sender_order {caps : Cid → Nat} {σ : Cfg α} {obs : List (Obs α)}
    (h : Reach caps σ obs) (c : Cid) (R : α → α → Prop) (hs : (sentVals c obs).Pairwise R) (r : Gid) :
    (((rcvdBy c obs).filter (fun p => p.1 = r)).map Prod.snd).Pairwise R := by
  have h1 : (((rcvdBy c obs).filter (fun p => p.1 = r)).map Prod.snd).Sublist ((rcvdBy c obs).map Prod.snd) :=
    List.Sublist.map _ List.filter_sublist
  rw [rcvdBy_snd] at h1
  exact List.Pairwise.sublist (h1.trans (received_prefix_of_sent h c).sublist) hs

/-- **closure (soundness)** — a receive reports closure (ok = false) only if the channel has been closed and every value
    ever sent on it has been received. -/
theorem closure_only_when_closed_and_drained {caps : Cid → Nat} {σ σ' : Cfg α} {obs : List (Obs α)}
    (h : Reach caps σ obs) (ev : Ev α) (hs : step σ ev = some σ') (g : Gid) (c : Cid)
    (hobs : Obs.rclosed g c ∈ obsOf σ ev) :
    wasClosed c obs = true ∧ rcvdVals c obs = sentVals c obs := by
  have inv := reach_inv h c
  cases ev with
  | call g' cs => simp [obsOf] at hobs
  | close g' c' => simp [obsOf] at hobs
  | closePanic g' c' => simp [obsOf] at hobs
  | sync gs i gr j =>
    simp only [obsOf] at hobs
    split at hobs <;> simp at hobs
  | fire g' i o =>
    simp only [step] at hs
    split at hs
    · cases hs
    · rename_i cases hp
      split at hs
      · cases hs
      · rename_i cs hcs
        have hcase : caseAt σ g' i = some cs := by simp [caseAt, hp, hcs]
        simp only [obsOf, hcase] at hobs
        cases cs with
        | dflt => cases o <;> simp at hobs
        | send c' v => cases o <;> simp at hobs
        | recv c' =>
          cases o <;> simp at hobs
          obtain ⟨_, hc⟩ := hobs
          subst hc
          have hd' : ∀ x, (x : Case α).isDflt = true ↔ x = .dflt := by intro x; cases x <;> simp [Case.isDflt]
          simp only [hd', reduceCtorEq, if_false] at hs
          split at hs
          · rename_i hso
            simp only [soloOut] at hso
            split at hso
            · cases hso
            · rename_i hbuf
              split at hso
              · rename_i hcl
                refine ⟨by rw [← inv.closed]; exact hcl, ?_⟩
                have := inv.fifo
                rwa [hbuf, List.append_nil] at this
              · cases hso
          · cases hs

omit [DecidableEq α] in
/-- **closure (completeness)** — on a closed, drained channel a receive can complete only by reporting closure, and it
    can complete (it never blocks, and no rendezvous partner is possible). -/
theorem closed_drained_receive_reports_closure (σ : Cfg α) (g : Gid) (c : Cid)
    (hcl : (σ.ch c).closed = true) (hbuf : (σ.ch c).buf = []) :
    soloOut σ.ch (.recv c) = some .closedEmpty ∧ partnerOffers σ g (.recv c) = false := by
  simp [soloOut, partnerOffers, hcl, hbuf]

/-- after a channel was closed no send on it ever completes again (a sender gets the panic, i.e. a Lua error). -/
theorem no_send_after_close {caps : Cid → Nat} {σ σ' : Cfg α} {obs : List (Obs α)}
    (h : Reach caps σ obs) (ev : Ev α) (hs : step σ ev = some σ') (c : Cid) (hc : wasClosed c obs = true) :
    sentVals c (obsOf σ ev) = [] := by
  have inv := reach_inv h c
  have hclosed : (σ.ch c).closed = true := by rw [inv.closed]; exact hc
  cases ev with
  | call g' cs => rfl
  | close g' c' => rfl
  | closePanic g' c' => rfl
  | sync gs i gr j =>
    simp only [step] at hs
    split at hs
    · rename_i cs1 cs2 hp1 hp2
      split at hs
      · rename_i c1 v c2 h1 h2
        split at hs
        · rename_i hg
          obtain ⟨_, _, hopen, _⟩ := hg
          have hcase : caseAt σ gs i = some (.send c1 v) := by simp [caseAt, hp1, h1]
          simp only [obsOf, hcase, sentVals]
          by_cases hcc : c1 = c
          · subst hcc; rw [hclosed] at hopen; cases hopen
          · simp [hcc]
        · cases hs
      · cases hs
    · cases hs
  | fire g' i o =>
    simp only [step] at hs
    split at hs
    · cases hs
    · rename_i cases hp
      split at hs
      · cases hs
      · rename_i cs hcs
        have hcase : caseAt σ g' i = some cs := by simp [caseAt, hp, hcs]
        simp only [obsOf, hcase]
        cases cs with
        | dflt => cases o <;> rfl
        | recv c' => cases o <;> rfl
        | send c' v =>
          cases o <;> try rfl
          have hd' : ∀ x, (x : Case α).isDflt = true ↔ x = .dflt := by intro x; cases x <;> simp [Case.isDflt]
          simp only [hd', reduceCtorEq, if_false] at hs
          split at hs
          · rename_i hso
            simp only [sentVals]
            by_cases hcc : c' = c
            · subst hcc
              simp [soloOut, hclosed] at hso
            · simp [hcc]
          · cases hs

/-- **select fires only ready cases** — when a pending select (or plain send / receive) of goroutine `g` completes on
    its own through case `i`, that case could proceed in the current configuration with exactly the reported outcome;
    `default` is taken only when no communication case of that select is ready. -/
theorem select_fires_only_ready (σ σ' : Cfg α) (g : Gid) (i : Nat) (o : Out α)
    (hs : step σ (.fire g i o) = some σ') :
    ∃ cases cs, pendOf σ.pend g = some cases ∧ cases[i]? = some cs ∧
      ((cs = .dflt ∧ o = .dflt ∧ ∀ c ∈ cases, c = .dflt ∨ ready σ g c = false) ∨
       (cs ≠ .dflt ∧ soloOut σ.ch cs = some o ∧ ready σ g cs = true)) := by
  simp only [step] at hs
  split at hs
  · cases hs
  · rename_i cases hp
    split at hs
    · cases hs
    · rename_i cs hcs
      refine ⟨cases, cs, hp, hcs, ?_⟩
      have hd' : ∀ x, (x : Case α).isDflt = true ↔ x = .dflt := by intro x; cases x <;> simp [Case.isDflt]
      by_cases hcd : cs = .dflt
      · subst hcd
        left
        have : (Case.dflt : Case α).isDflt = true := rfl
        rw [this] at hs
        simp only [if_true] at hs
        split at hs
        · rename_i hd
          refine ⟨rfl, hd.1, fun c hc => ?_⟩
          have := hd.2
          simp only [noneReady, List.all_eq_true] at this
          have := this c hc
          simp only [Bool.or_eq_true, hd', Bool.not_eq_true'] at this
          exact this
        · cases hs
      · right
        have hnd : cs.isDflt = false := by
          cases cs with
          | dflt => exact absurd rfl hcd
          | send _ _ => rfl
          | recv _ => rfl
        rw [hnd] at hs
        simp only [Bool.false_eq_true, if_false] at hs
        split at hs
        · rename_i hso
          exact ⟨hcd, hso, by simp [ready, hso]⟩
        · cases hs

/-- a rendezvous couples a send case and a receive case of two different blocked goroutines on the same open
    unbuffered channel — both cases are ready in the sense of `select`. -/
theorem sync_fires_only_ready (σ σ' : Cfg α) (gs gr : Gid) (i j : Nat)
    (hs : step σ (.sync gs i gr j) = some σ') :
    ∃ cs1 cs2 c v, pendOf σ.pend gs = some cs1 ∧ pendOf σ.pend gr = some cs2 ∧
      cs1[i]? = some (.send c v) ∧ cs2[j]? = some (.recv c) ∧ gs ≠ gr ∧
      (σ.ch c).closed = false ∧ (σ.ch c).cap = 0 := by
  simp only [step] at hs
  split at hs
  · rename_i cs1 cs2 hp1 hp2
    split at hs
    · rename_i c1 v c2 h1 h2
      split at hs
      · rename_i hg
        obtain ⟨hne, hcc, hopen, hcap⟩ := hg
        subst hcc
        exact ⟨cs1, cs2, c1, v, hp1, hp2, h1, h2, hne, hopen, hcap⟩
      · cases hs
    · cases hs
  · cases hs

end LTS

/-! ### non-vacuity: a concrete interleaving of two senders, two receivers and a closer is reachable -/

/-- run a label sequence, collecting the history -/
def runEvs {α : Type} [DecidableEq α] (σ : Cfg α) (obs : List (Obs α)) : List (Ev α) → Option (Cfg α × List (Obs α))
  | [] => some (σ, obs)
  | ev :: r => match step σ ev with
    | none => none
    | some σ' => runEvs σ' (obs ++ obsOf σ ev) r

theorem runEvs_reach {α : Type} [DecidableEq α] {caps : Cid → Nat} (evs : List (Ev α)) :
    ∀ {σ : Cfg α} {obs : List (Obs α)} {σ' : Cfg α} {obs' : List (Obs α)},
    Reach caps σ obs → runEvs σ obs evs = some (σ', obs') → Reach caps σ' obs' := by
  induction evs with
  | nil => intro σ obs σ' obs' h hr; simp only [runEvs] at hr; cases hr; exact h
  | cons ev r ih =>
    intro σ obs σ' obs' h hr
    simp only [runEvs] at hr
    split at hr
    · cases hr
    · rename_i σ1 hs
      exact ih (Reach.step ev h hs) hr

/-- senders 1, 2; receivers 3, 4; channel 0 has capacity 1, channel 1 is unbuffered (rendezvous); 5 closes. -/
def demoEvs : List (Ev Nat) :=
  [ .call 1 [.send 0 10], .call 2 [.send 0 20], .call 3 [.recv 0, .recv 1], .fire 2 0 .sent,
    .fire 3 0 (.got 20), .fire 1 0 .sent, .call 4 [.recv 0, .dflt], .fire 4 0 (.got 10),
    .call 1 [.send 1 11], .call 3 [.recv 1], .sync 1 0 3 0,
    .call 4 [.recv 0, .dflt], .fire 4 1 .dflt,
    .close 5 0, .call 3 [.recv 0], .fire 3 0 .closedEmpty, .call 2 [.send 0 21], .fire 2 0 .panic, .closePanic 5 0 ]

def demoObs : List (Obs Nat) :=
  [ .sent 2 0 20, .rcvd 3 0 20, .sent 1 0 10, .rcvd 4 0 10, .sent 1 1 11, .rcvd 3 1 11, .dflt 4,
    .closed 5 0, .rclosed 3 0, .panicked 2 0, .panicked 5 0 ]

def demoCaps : Cid → Nat := fun c => if c = 0 then 1 else 0

theorem demo_run : (runEvs (Cfg.init demoCaps) [] demoEvs).map (·.2) = some demoObs := by decide

/-- the hypotheses of the theorems above are satisfiable by a non-trivial history -/
example : ∃ σ : Cfg Nat, Reach demoCaps σ demoObs ∧ (sentVals 0 demoObs).Nodup ∧ rcvdVals 0 demoObs = [20, 10] := by
  have h := demo_run
  cases hr : runEvs (Cfg.init demoCaps) [] demoEvs with
  | none => rw [hr] at h; cases h
  | some p =>
    rw [hr] at h
    simp only [Option.map_some, Option.some.injEq] at h
    refine ⟨p.1, ?_, by decide, by decide⟩
    have := runEvs_reach (caps := demoCaps) demoEvs Reach.init (show runEvs _ _ _ = some (p.1, p.2) from hr)
    rwa [h] at this

/-- a default that is not allowed: receiver 4 may not take `default` while channel 0 holds a value -/
example : step (α := Nat)
    { ch := fun _ => { cap := 1, buf := [7] }, pend := [(4, [.recv 0, .dflt])] } (.fire 4 1 .dflt) = none := by decide

/-! ### the executable Spec predicate agrees with the list predicates the theorems speak about -/

open GLua.ChanSpec in
theorem hasDup_false_iff_nodup (l : List Tag) : hasDup l = false ↔ l.Nodup := by
  induction l with
  | nil => simp [hasDup]
  | cons t r ih => simp [hasDup, ih, List.nodup_cons]

open GLua.ChanSpec in
theorem orderedLog_iff_pairwise (l : List Tag) : orderedLog l = true ↔ l.Pairwise (fun a b => inOrder a b = true) := by
  induction l with
  | nil => simp [orderedLog]
  | cons t r ih => simp [orderedLog, ih, List.pairwise_cons]

open GLua.ChanSpec in
/-- **lts_history_satisfies_spec** — for tagged payloads: if the senders tag their values so that the sent sequence is
    duplicate-free and ordered per sender (what the harness's producers do), then every receiver's log in every
    reachable history passes the Spec's `hasDup` / `orderedLog` checks, all logs together are duplicate-free, and
    every logged tag was sent. -/
theorem lts_history_satisfies_spec {caps : Cid → Nat} {σ : Cfg Tag} {obs : List (Obs Tag)}
    (h : Reach caps σ obs) (c : Cid)
    (hnd : (sentVals c obs).Nodup) (hord : (sentVals c obs).Pairwise (fun a b => inOrder a b = true)) (r : Gid) :
    let log := ((rcvdBy c obs).filter (fun p => p.1 = r)).map Prod.snd
    hasDup log = false ∧ orderedLog log = true ∧ hasDup (rcvdVals c obs) = false ∧ ∀ t ∈ log, t ∈ sentVals c obs := by
  intro log
  have hsub : log.Sublist (rcvdVals c obs) := by
    have : log.Sublist ((rcvdBy c obs).map Prod.snd) := List.Sublist.map _ List.filter_sublist
    rwa [rcvdBy_snd] at this
  have hpre := (received_prefix_of_sent h c).sublist
  refine ⟨?_, ?_, ?_, ?_⟩
  · rw [hasDup_false_iff_nodup]; exact List.Nodup.sublist (hsub.trans hpre) hnd
  · rw [orderedLog_iff_pairwise]; exact per_sender_order h c _ hord r
  · rw [hasDup_false_iff_nodup]; exact (each_value_one_receiver h c hnd).1
  · intro t ht; exact (hsub.trans hpre).subset ht

/-! ### gopher-lua's wrappers -/

/-- **payload_guard** (decision table) — exactly functions, userdata, threads and tables with a metatable are refused. -/
theorem payload_guard (v : LV) :
    isGoroutineSafe v = false ↔
      (∃ n, v = .func n) ∨ (∃ n, v = .udata n) ∨ (∃ n, v = .thread n) ∨ (∃ n, v = .table n true) := by
  cases v <;> simp [isGoroutineSafe]

/-- the table itself, kind by kind -/
theorem payload_guard_table :
    isGoroutineSafe .nil = true ∧ isGoroutineSafe (.bool true) = true ∧ isGoroutineSafe (.bool false) = true ∧
    (∀ i, isGoroutineSafe (.num i) = true) ∧ (∀ s, isGoroutineSafe (.str s) = true) ∧
    (∀ n, isGoroutineSafe (.chan n) = true) ∧ (∀ n, isGoroutineSafe (.table n false) = true) ∧
    (∀ n, isGoroutineSafe (.table n true) = false) ∧ (∀ n, isGoroutineSafe (.func n) = false) ∧
    (∀ n, isGoroutineSafe (.udata n) = false) ∧ (∀ n, isGoroutineSafe (.thread n) = false) := by
  simp [isGoroutineSafe]

/-- `ch:send(v)` performs one LTS send of exactly `v` on exactly `ch`, and only if `v` passes the guard — the guard is
    evaluated before the channel is touched (so it also holds on closed or full channels). -/
theorem send_guarded (self : LV) (arg : Option LV) (cases : List (Case LV)) (h : channelSend self arg = .ok cases) :
    ∃ c v, self = .chan c ∧ arg = some v ∧ cases = [.send c v] ∧ isGoroutineSafe v = true := by
  cases self <;> simp [channelSend] at h
  rename_i c
  cases arg with
  | none => simp at h
  | some v =>
    simp only at h
    split at h
    · rename_i hg
      cases h
      exact ⟨c, v, rfl, rfl, rfl, hg⟩
    · cases h

/-- `ch:receive()` performs one LTS receive on `ch`; its Lua results are `(true, v)` for a delivered value and
    `(false, nil)` exactly for the closure outcome. -/
theorem receive_faithful (self : LV) (cases : List (Case LV)) (h : channelReceive self = .ok cases) :
    (∃ c, self = .chan c ∧ cases = [.recv c]) ∧
    (∀ v, receiveReturn (.got v) = [.bool true, v]) ∧ receiveReturn .closedEmpty = [.bool false, .nil] := by
  cases self <;> simp [channelReceive] at h
  rename_i c
  exact ⟨⟨c, rfl, h.symm⟩, fun _ => rfl, rfl⟩

theorem selectCase_guarded (arg : Option (List LV)) (c : Cid) (v : LV) (h : selectCase arg = .ok (.send c v)) :
    isGoroutineSafe v = true := by
  cases arg with
  | none => simp [selectCase] at h
  | some t =>
    simp only [selectCase] at h
    split at h
    · split at h
      · split at h
        · split at h
          · rename_i hg
            cases h
            exact hg
          · cases h
        · cases h
      · split at h
        · split at h <;> cases h
        · split at h <;> cases h
    · cases h

theorem channelSelectFrom_spec (args : List (Option (List LV))) :
    ∀ (i : Nat) (cases : List (Case LV)), channelSelectFrom i args = .ok cases →
      cases.length = args.length ∧ ∀ k, k < args.length → (args[k]?.map selectCase) = (cases[k]?.map Except.ok) := by
  induction args with
  | nil => intro i cases h; simp [channelSelectFrom] at h; subst h; simp
  | cons a r ih =>
    intro i cases h
    simp only [channelSelectFrom] at h
    split at h
    · cases h
    · rename_i cs hcs
      split at h
      · cases h
      · rename_i l hl
        cases h
        obtain ⟨hlen, hk⟩ := ih (i + 1) l hl
        refine ⟨by simp [hlen], fun k hk' => ?_⟩
        cases k with
        | zero => simp [hcs]
        | succ k =>
          simp only [List.length_cons] at hk'
          simpa using hk k (by omega)

/-- **select_positions** — `channel.select(c1, …, cn)` hands Go's select exactly n cases, the k-th being the translation
    of the k-th argument (so Go's chosen position `pos` is Lua argument `pos + 1`, which is what the wrapper returns),
    and every send case carries a payload that passed the guard. -/
theorem select_positions (args : List (Option (List LV))) (cases : List (Case LV))
    (h : channelSelect args = .ok cases) :
    cases.length = args.length ∧
    (∀ k, k < args.length → (args[k]?.map selectCase) = (cases[k]?.map Except.ok)) ∧
    (∀ c v, Case.send c v ∈ cases → isGoroutineSafe v = true) ∧
    (∀ pos o, (selectReturn pos o).head? = some (.num (pos + 1))) := by
  obtain ⟨hlen, hk⟩ := channelSelectFrom_spec args 0 cases h
  refine ⟨hlen, hk, fun c v hm => ?_, fun pos o => by cases o <;> rfl⟩
  obtain ⟨k, hklt, hkeq⟩ := List.getElem_of_mem hm
  have hk' := hk k (by omega)
  have hc : cases[k]? = some (.send c v) := by rw [List.getElem?_eq_getElem hklt, hkeq]
  rw [hc] at hk'
  cases ha : args[k]? with
  | none => rw [ha] at hk'; cases hk'
  | some a =>
    rw [ha] at hk'
    simp only [Option.map_some, Option.some.injEq] at hk'
    exact selectCase_guarded a c v hk'

/-! ### facts about the text of the tree (regenerated on every run by tools/extract) -/

open GLua.Generated.C13

/-- **proto_immutable** — no statement outside compile.go / function.go assigns to, increments, copies into or takes the
    address of anything reached through a field of `FunctionProto` (directly or through a local alias). -/
theorem proto_immutable : protoFieldWrites = [] := by decide

/-- the scan looked for the field names of the struct as it is declared now (a renamed / added field changes this
    list and must be looked at). -/
theorem proto_fields_known : protoFields =
    ["Code", "Constants", "DbgCalls", "DbgLocals", "DbgSourcePositions", "DbgUpvalues", "FunctionPrototypes",
     "IsVarArg", "LastLineDefined", "LineDefined", "NumParameters", "NumUpvalues", "NumUsedRegisters", "SourceName",
     "stringConstants"] := by decide

/-- how the interpreter may touch a package-level variable once `init` has run -/
inductive VarClass where
  | readOnly      -- initialised by its declaration or by init(); never assigned afterwards (packageVarWrites = [])
  | hostConfig    -- exported tunable: read by the interpreter, written only by the embedding program before use
  | syncPool      -- sync.Pool: designed for concurrent use
  | guarded       -- shared pointer whose target may only be updated through a function that refuses it (ecupdate panics)
deriving DecidableEq, Repr

def classification : List ((String × String) × VarClass) := [
  (("", "_fv"), .readOnly), (("", "_uv"), .readOnly), (("", "preloads"), .readOnly),
  (("", "baseFuncs"), .readOnly), (("", "loopdetection"), .readOnly),
  (("", "channelFuncs"), .readOnly), (("", "channelMethods"), .readOnly),
  (("", "_ecnone0"), .guarded), (("", "_ecnonem1"), .guarded), (("", "_ecnonem2"), .guarded),
  (("", "ecfuncdef"), .readOnly),
  (("", "CompatVarArg"), .hostConfig), (("", "FieldsPerFlush"), .hostConfig), (("", "RegistrySize"), .hostConfig),
  (("", "RegistryGrowStep"), .hostConfig), (("", "CallStackSize"), .hostConfig), (("", "MaxTableGetLoop"), .hostConfig),
  (("", "MaxArrayIndex"), .hostConfig), (("", "LuaPath"), .hostConfig), (("", "LuaLDir"), .hostConfig),
  (("", "LuaPathDefault"), .hostConfig), (("", "LuaOS"), .hostConfig), (("", "LuaDirSep"), .hostConfig),
  (("", "LuaPathSep"), .hostConfig), (("", "LuaPathMark"), .hostConfig), (("", "LuaExecDir"), .hostConfig),
  (("", "LuaIgMark"), .hostConfig),
  (("", "coFuncs"), .readOnly), (("", "debugFuncs"), .readOnly), (("", "ioFuncs"), .readOnly),
  (("", "stdFiles"), .readOnly), (("", "fileMethods"), .readOnly), (("", "fileSeekOptions"), .readOnly),
  (("", "filebufOptions"), .readOnly), (("", "ioOpenOpions"), .readOnly), (("", "ioPopenOptions"), .readOnly),
  (("", "luaLibs"), .readOnly), (("", "loLoaders"), .readOnly), (("", "loFuncs"), .readOnly),
  (("", "mathFuncs"), .readOnly), (("", "opProps"), .readOnly), (("", "startedAt"), .readOnly),
  (("", "osFuncs"), .readOnly), (("", "segmentPool"), .syncPool), (("", "strFuncs"), .readOnly),
  (("", "tableFuncs"), .readOnly), (("", "cDateFlagToGo"), .readOnly), (("", "lValueNames"), .readOnly),
  (("", "LNil"), .readOnly), (("", "LTrue"), .readOnly), (("", "LFalse"), .readOnly), (("", "jumpTable"), .readOnly),
  (("parse", "reservedWords"), .readOnly), (("parse", "yyToknames"), .readOnly), (("parse", "yyStatenames"), .readOnly),
  (("parse", "yyExca"), .readOnly), (("parse", "yyAct"), .readOnly), (("parse", "yyPact"), .readOnly),
  (("parse", "yyPgo"), .readOnly), (("parse", "yyR1"), .readOnly), (("parse", "yyR2"), .readOnly),
  (("parse", "yyChk"), .readOnly), (("parse", "yyDef"), .readOnly), (("parse", "yyTok1"), .readOnly),
  (("parse", "yyTok2"), .readOnly), (("parse", "yyTok3"), .readOnly), (("parse", "yyErrorMessages"), .readOnly),
  (("parse", "yyDebug"), .readOnly), (("parse", "yyErrorVerbose"), .readOnly) ]

def classOf (pkg name : String) : Option VarClass :=
  (classification.find? (fun e => e.1.1 == pkg && e.1.2 == name)).map (·.2)

/-- **package_vars_classified** — every package-level `var` of the root package, pm/, parse/ and ast/ that exists in the
    tree now is classified; a new package-level variable (e.g. a scratch buffer in pm/) makes this fail. -/
theorem package_vars_classified :
    packageVars.all (fun v => (classOf v.1 v.2.2).isSome) = true := by decide

/-- "read-only after init" is not just a label: no function body other than `init` contains an assignment, increment,
    range-assignment or copy whose target is a package-level variable or is reached from one. -/
theorem package_vars_never_assigned : packageVarWrites = [] := by decide

/-- explicit `&pkgVar…` occurs only for the read-only opcode property table (`prop := &opProps[op]` in opToString). -/
theorem package_var_addresses_known :
    packageVarAddrs.all (fun a => a.1 == "" && a.2.1 == "opProps" && a.2.2 == "opcode.go opToString") = true := by decide

/-- the variables DESIGN.md names are where the classification says -/
example : classOf "" "segmentPool" = some .syncPool ∧ classOf "" "preloads" = some .readOnly ∧
    classOf "" "_ecnone0" = some .guarded ∧ classOf "" "jumpTable" = some .readOnly ∧
    classOf "pm" "scratch" = none := by decide

end GLua.Props.C13
