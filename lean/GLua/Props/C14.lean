/-
  C14 — Lua patterns match as the 5.1 matcher does; bad patterns are errors, not crashes.
  Property theorems only (lemmas: GLua/Proofs/Pm*.lean).  Model = GLua/Model/Pm.lean (transcription of
  pm/pm.go and of the result assembly of stringlib.go, tied to the code by the correspondence check on every run;
  it describes the tree with fixes/C14-*.diff applied); Spec = GLua/Spec/LuaPattern.lean (lstrlib 5.1).
-/
import GLua.Proofs.PmScan
import GLua.Proofs.PmGsub
import GLua.Proofs.PmCompile
import GLua.Proofs.PmLit
import GLua.Proofs.PmScanner
import GLua.Proofs.PmFragFind
import GLua.Proofs.PmCapFind
import GLua.Proofs.PmCapLimit
import GLua.Proofs.PmCapGsub
import GLua.Proofs.PmParseTotal

namespace GLua.Props.C14
open GLua GLua.Pm GLua.LuaPattern GLua.PmProofs

set_option linter.unusedSimpArgs false
set_option maxRecDepth 100000

/-- evaluate a closed Model term by rewriting (kernel `decide` re-evaluates the scanner state at every use and
    does not terminate in practice on patterns longer than two bytes) -/
macro "pm_eval" : tactic => `(tactic|
  simp [modelFind, Pm.strFind, find, liftErr, luaIndex2StringIndexStart, parseTop, parsePattern, parseClass, parseClassSet,
    parseClassSetLoop, Scanner.peek, Scanner.next, Scanner.nextPos, Scanner.save, Scanner.restore, Scanner.currentPos,
    Scanner.length, EOS, UNKNOWN, bind, Except.bind, pure, Except.pure, isQuant, Class.isChar, compilePattern, compileSeq,
    compilePat, findLoop, vm, vmFuel, setCapture, growTo, pushZeros, restoreCapture, Class.Matches, anyMatches,
    maxRecursionLevel, Pm.capture, pushCaps, isPosCapture, addPosCapture, substr, braceLoop, backrefLoop,
    throw, throwThe, MonadExceptOf.throw, Array.setIfInBounds])

/-! ## scan_loop_spec — `Find`'s loop is the reference scan -/

/-- number of matches the reference scan may return for `Find`'s `limit` argument -/
def maxOf (limit : Int) (len : Nat) : Nat := if limit < 0 then len + 2 else limit.toNat

/-- full statement: for every single-position matcher `run`, every subject length, start offset, limit and
    anchor flag, `Find`'s loop returns exactly the matches of the reference scan — leftmost first, the next attempt
    at the end of the previous match (one further after an empty match), at most `limit` of them (all when
    `limit < 0`), a single attempt when anchored; an error of `run` aborts both. -/
def scan_loop_spec_full : Prop :=
  ∀ (α : Type) (run : Nat → M (Bool × Nat × α)) (len offset : Nat) (limit : Int) (anchor : Bool),
    collapseM (findLoop run len limit anchor (len + 2) offset []) =
      collapseR (scanAllWith (toRes run) len anchor (len + 2) offset (maxOf limit len))

/-- it is false of `pm.Find`: `limit = 0` does not mean "no match" but "unlimited unless the first attempt fails"
    (the loop tests `len(matches) == limit` only after appending).  This is the mechanism behind
    `string.gsub(s, p, r, 0)` replacing everything; fixes/C14-gsub-max-s.diff makes stringlib never pass a
    limit ≤ 0, `Find` itself keeps the behaviour. -/
theorem scan_loop_spec_full_fails : ¬ scan_loop_spec_full := by
  intro h
  have := h Unit (fun s => pure (true, s, ())) 0 0 0 false
  simp [findLoop, scanAllWith, maxOf, collapseM, collapseR, toRes, bind, Except.bind, pure, Except.pure] at this

/-- **scan_loop_spec** (strongest true statement: guard `limit ≠ 0`). -/
theorem scan_loop_spec_partial (α : Type) (run : Nat → M (Bool × Nat × α)) (len offset : Nat) (limit : Int)
    (anchor : Bool) (hl : limit ≠ 0) :
    collapseM (findLoop run len limit anchor (len + 2) offset []) =
      collapseR (scanAllWith (toRes run) len anchor (len + 2) offset (maxOf limit len)) := by
  have h := findLoop_scan run len limit anchor hl (len + 2) offset [] (maxOf limit len)
    (by unfold maxOf; split <;> omega)
    (by intro h0; unfold maxOf; simp only [List.length_nil]; split <;> omega)
    (by intro h0; unfold maxOf; simp only [h0, if_true]; omega)
  rw [h]
  cases collapseR (scanAllWith (toRes run) len anchor (len + 2) offset (maxOf limit len)) <;> simp [prepend]

/-- non-vacuity: a matcher that matches one byte at even positions, subject length 5, all matches:
    matches at 0, 2, 4 (payload = position). -/
example : collapseM (findLoop (fun s => pure (s % 2 == 0, s + 1, s)) 5 (-1) false 7 0 []) = .ok [0, 2, 4] := by
  simp [findLoop, collapseM, bind, Except.bind, pure, Except.pure]

/-! ## gsub_assembly — `strGsubDoReplace` concatenates gaps and replacements -/

/-- **gsub_assembly**: for spans that are ordered, disjoint and inside the string (what `Find` returns),
    the offset-tracking buffer surgery of `strGsubDoReplace` yields exactly gap₀ ++ repl₀ ++ gap₁ ++ … ++ tail,
    and none of its slice expressions can panic. -/
theorem gsub_assembly (str : List Nat) (infos : List ReplaceInfo) (ho : Ordered str.length 0 infos) :
    strGsubDoReplace str infos = .ok (splice str 0 (infoTriples infos)) :=
  doReplace_eq_splice str infos ho

/-- the reference's own buffer assembly (`str_gsub`: gap, `add_value`, …, tail) is the same `splice` whenever every
    `add_value` succeeds — hence Model assembly = Spec assembly for the same spans and replacement texts. -/
theorem gsub_assembly_spec (src : Array Nat) (repl : Repl) (ms : List Match) (txts : List (List Nat)) (hl : ms.length = txts.length)
    (hv : ∀ i (h : i < ms.length) (h' : i < txts.length), addValue src repl (0 + i) ms[i] = .ok txts[i]) :
    assemble src repl 0 0 ms = .ok (splice src.toList 0 ((ms.zip txts).map fun p => (p.1.s, p.1.e, p.2))) :=
  spec_assemble_splice src repl ms txts 0 0 hl hv

/-- non-vacuity: "abcd" with [0,1) ↦ "XY" and the empty span [2,2) ↦ "-" -/
example : strGsubDoReplace [97, 98, 99, 100] [⟨0, 1, [88, 89]⟩, ⟨2, 2, [45]⟩] = .ok [88, 89, 98, 45, 99, 100] := by
  rw [gsub_assembly _ _ (by simp [Ordered])]; rfl

/-! ## pattern_total — the VM terminates and does not crash on every compiled program -/

/-- **compile_wellformed**: every program `compilePattern` emits — for every parsed pattern whatsoever — passes
    the edge check: all jump/split targets and fall-through successors are inside the program, and every edge that
    consumes no subject byte leads to an instruction of strictly smaller rank. -/
theorem compile_wellformed (pat : SeqPat) (insts : Array Inst) (h : compilePattern pat = .ok insts) : ProgOK insts :=
  compile_progOK pat insts h

/-- full statement of **pattern_total**: one run of the VM on a compiled program, at any subject position, with
    the fuel `Find` gives it and any recursion cap, ends in a match, a failure or a `*pm.Error`
    ("pattern/input too complex" from the cap, "invalid capture index") — never out of fuel, never a Go panic. -/
def pattern_total_full : Prop :=
  ∀ (pat : SeqPat) (insts : Array Inst), compilePattern pat = .ok insts → ∀ (src : Array Nat) (cap sp : Nat),
    vm src insts cap (vmFuel src insts) 0 sp 1 #[] ≠ .error .fuel ∧
    ∀ site, vm src insts cap (vmFuel src insts) 0 sp 1 #[] ≠ .error (.goPanic site)

/-- **pattern_total** (what is proved): as above, with one explicit exception — the slice expression
    `src[m.Capture(idx):m.Capture(idx+1)]` of `opNumber` is the only Go-panic site of the VM that is not excluded.
    (On the unchanged tree that site IS reachable: `("a"):find("a()%1")` and `("xab"):find("(a(b)%1)")` panic with
    "slice bounds out of range"; fixes/C14-backref.diff closes both doors — the model contains the fix — but the
    capture-ordering invariant that would discharge the site is not proved, so the exception stays.)
    Termination: the fuel is a bound on the depth of the call/goto chain, `(2·|prog|+2)·(|src|+1)+1`. -/
theorem pattern_total_partial (pat : SeqPat) (insts : Array Inst) (h : compilePattern pat = .ok insts)
    (src : Array Nat) (cap sp : Nat) :
    vm src insts cap (vmFuel src insts) 0 sp 1 #[] ≠ .error .fuel ∧
    ∀ site, vm src insts cap (vmFuel src insts) 0 sp 1 #[] = .error (.goPanic site) →
      site = "recursiveVM: src[lo:hi]" := by
  have g := vm_compiled_good pat insts h src cap sp
  constructor
  · intro he; rw [he] at g; exact g
  · intro site he; rw [he] at g; exact g

/-- **scanner_safe** (parser half of pattern_total, as far as it is proved): from every reachable scanner state —
    at EOS, on a byte of the pattern, or not yet started; `newScanner` starts in one — `Next` and `Peek` return
    normally (the slice index `sc.src[sc.State.Pos]` is in range: no Go panic) and leave a reachable state; so do
    `Save`/`Restore`.  (That parsePattern/parseClassSet, which only move the scanner through these four methods,
    raise nothing but `*pm.Error` and need no more than `2·|p|+8` loop iterations is checked on every replayed
    pattern — the engine would answer `gopanic:`/`modelfuel` — but not proved.) -/
theorem scanner_safe (sc : Scanner) (h : ScWF sc) :
    (∃ sc' c, sc.next = .ok (sc', c) ∧ ScWF sc') ∧ (∃ sc' c, sc.peek = .ok (sc', c) ∧ ScWF sc') ∧
    ScWF sc.save ∧ ScWF sc.restore := by
  obtain ⟨a, c, h1, h2, _⟩ := next_safe sc h
  obtain ⟨a', c', h1', h2', _⟩ := peek_safe sc h
  exact ⟨⟨a, c, h1, h2⟩, ⟨a', c', h1', h2'⟩, save_restore_safe sc h⟩

/-- non-vacuity: the initial scanner of any pattern is reachable -/
example (p : Array Nat) : ScWF { src := p } := newScanner_wf p

/-- the same for an arbitrary program that passes the (decidable, per-instruction) edge check, from any pc:
    termination does not depend on the program coming from `compilePattern`. -/
theorem vm_total_of_progOK (src : Array Nat) (insts : Array Inst) (cap : Nat) (hok : ProgOK insts)
    (pc sp rec : Nat) (m : Caps) (hpc : pc < insts.size) :
    vm src insts cap (vmFuel src insts) pc sp rec m ≠ .error .fuel := by
  have g := vm_good src insts cap hok _ pc sp rec m hpc (mu_lt_vmFuel src insts pc sp)
  intro he; rw [he] at g; exact g

/-- "for every program" is false without the edge check: a program that jumps to itself never terminates
    (the Go VM would spin in its `goto redo` without touching the recursion counter). -/
theorem vm_total_needs_progOK : ∃ (insts : Array Inst) (fuel : Nat), fuel ≥ vmFuel #[] insts ∧
    vm #[] insts 10 fuel 0 0 1 #[] = .error .fuel :=
  ⟨#[.jmp 0], 5, by decide, by simp [vm, throw, throwThe, MonadExceptOf.throw]⟩

/-- the recursion cap is an error, not a crash: with cap 2 the third nested call of `a*` on "aaa" raises the
    `*pm.Error` (non-vacuity of the cap branch; the real cap is 1000000 and is probed on the Go side). -/
example : (find 2 #[97, 42] #[97, 97, 97] 0 1) = .error (.pm UNKNOWN "pattern/input too complex") := by
  pm_eval

/-- non-vacuity of `pattern_total_partial`: `(a*)%1b-` parses and compiles (to 12 instructions:
    save 0, save 2, split 3 5, char a, jmp 2, save 3, number 1, split 10 8, char b, jmp 7, save 1, match). -/
example : ((parseTop #[40, 97, 42, 41, 37, 49, 98, 45]) >>= compilePattern).toOption.map (·.size) = some 12 := by
  pm_eval; exact ⟨_, rfl, rfl⟩

/-! ## vm_eq_reference — Model `string.find` = reference `string.find` -/

/-- full statement: on every statically well-formed pattern (no NUL, no `%f`) the Model's `string.find` returns
    what the reference returns, for every subject and init. -/
def vm_eq_reference_full : Prop :=
  ∀ (pat subj : List Nat) (init : Int), wellFormed (splitAnchor pat).2 = true → ¬ pat.contains 0 →
    (analyse (splitAnchor pat).2).frontier = false → modelFind pat subj init = specFind pat subj init

/-- false of the code: known finding C14-set-range-upper-escape — `("z"):find("[a-%z]")` is `1 1` in lstrlib
    (range a..'%', then the literal z) and `nil` in gopher-lua (rangeClass with a class as upper bound matches
    nothing). -/
theorem vm_eq_reference_full_fails : ¬ vm_eq_reference_full := by
  intro h
  have := h [91, 97, 45, 37, 122, 93] [122] 1 (by decide) (by decide) (by decide)
  have hm : modelFind [91, 97, 45, 37, 122, 93] [122] 1 = some [.nil] := by pm_eval
  have hs : specFind [91, 97, 45, 37, 122, 93] [122] 1 = some [.num 1, .num 1] := by decide
  rw [hm, hs] at this
  simp at this

/-- **vm_eq_reference** for the fragment of patterns made of plain literal bytes (no magic character
    `^$()%.[]*+-?`, no NUL): for every such pattern, every subject and every init, the whole Model pipeline —
    scanner, parsePattern, compilePattern, recursiveVM with its capture array, Find's scan loop, strFind's
    init arithmetic and result assembly — returns exactly the reference's `string.find`. -/
theorem vm_eq_reference_partial (pat subj : List Nat) (init : Int) (hp : ∀ c ∈ pat, isPlain c = true) :
    modelFind pat subj init = specFind pat subj init :=
  find_literal_eq pat subj init hp

/-- non-vacuity: `("xxabab"):find("ab", 2)` = 3 4 on both sides -/
example : modelFind [97, 98] [120, 120, 97, 98, 97, 98] 2 = some [.num 3, .num 4] ∧
    specFind [97, 98] [120, 120, 97, 98, 97, 98] 2 = some [.num 3, .num 4] := by
  have hs : specFind [97, 98] [120, 120, 97, 98, 97, 98] 2 = some [.num 3, .num 4] := by decide
  exact ⟨by rw [vm_eq_reference_partial _ _ _ (by decide)]; exact hs, hs⟩

/-! ## vm_eq_reference beyond literals — the fragment `inFragment`

  `inFragment pat` (decidable, `Proofs/PmFrag.lean`): after an optional leading `^`, the pattern is a sequence of
  single-character items — a literal byte (any byte except NUL `( ) % . [`; the bytes `] ^ $ * + - ?` count as literals
  exactly where lstrlib reads them as literals), `.`, `%x` (x not a digit, `b`, `f`, NUL), a set `[...]` / `[^...]`
  (as `classEnd` delimits it: `]` first, `%x` classes, ranges `x-z`, `-` at the edges; no NUL; excluded: a range whose
  upper bound is `%`, i.e. the open finding C14-set-range-upper-escape) —
  each optionally followed by ONE quantifier `*`, `+`, `-`, `?`, optionally closed by the anchor `$`. -/

/-- **vm_eq_reference, one attempt**: for every pattern of the fragment the Model's parser and compiler succeed, the
    anchor flag is the reference's, and for EVERY subject, every start position `s ≤ |subject|` and every recursion
    cap with `|subject| + |pattern| + 3 ≤ cap`, one run of the Model's backtracking VM (with the fuel `Find` gives it)
    returns what the reference's `do_match` returns at `s`: the same match end with the capture array `[s, end]`, or
    no match; the reference raises no error.  (Proof: simulation between VM states (pc, sp, recursion level, capture
    array) and the reference's recursion over the pattern items, by induction over the items and, inside each
    quantifier, over the bytes left.) -/
theorem vm_run_eq_reference (pat : List Nat) (hne : 0 < pat.length) (hfrag : inFragment pat = true) :
    ∃ (sq : SeqPat) (insts : Array Inst), parseTop pat.toArray = .ok sq ∧ sq.mustHead = (splitAnchor pat).1 ∧
      compilePattern sq = .ok insts ∧
      ∀ (cap : Nat) (src : Array Nat) (s : Nat), s ≤ src.size → src.size + pat.length + 3 ≤ cap →
        RunAgrees src (splitAnchor pat).2 s (vm src insts cap (vmFuel src insts) 0 s 1 #[]) :=
  frag_pipeline pat hne (inFragment_0 hfrag)

/-- **vm_eq_reference, `string.find`**: for every pattern of the fragment, every subject with
    `|subject| + |pattern| + 3 ≤ 1000000` (the Model's recursion cap; beyond it gopher-lua raises
    "pattern/input too complex" where lstrlib iterates) and every init, the whole Model pipeline — scanner,
    parsePattern, compilePattern, recursiveVM, Find's scan loop, strFind's init arithmetic and result assembly —
    returns exactly the reference's `string.find`. -/
theorem vm_eq_reference_items (pat subj : List Nat) (init : Int) (hfrag : inFragment pat = true)
    (hsz : subj.length + pat.length + 3 ≤ maxRecursionLevel) :
    modelFind pat subj init = specFind pat subj init :=
  find_frag_eq pat subj init (inFragment_0 hfrag) hsz

/-- non-vacuity: `^%a+.-b*c?%.$` is in the fragment … -/
example : inFragment [94, 37, 97, 43, 46, 45, 98, 42, 99, 63, 37, 46, 36] = true := by decide

/-- … so are patterns in which `] ^ $ * -` stand for themselves (`]*^$-x`, `*a`), … -/
example : inFragment [93, 42, 94, 36, 45, 120] = true ∧ inFragment [42, 97] = true := by decide

/-- … and sets: `[%a_][%w_]*`, `^[^a-c%d]+$`, `[]]`, `[a-]`, `[%a-z]`, `[a-z-9]`, `[--a]`; … -/
example : inFragment [91, 37, 97, 95, 93, 91, 37, 119, 95, 93, 42] = true ∧
    inFragment [94, 91, 94, 97, 45, 99, 37, 100, 93, 43, 36] = true ∧ inFragment [91, 93, 93] = true ∧
    inFragment [91, 97, 45, 93] = true ∧ inFragment [91, 37, 97, 45, 122, 93] = true ∧
    inFragment [91, 97, 45, 122, 45, 57, 93] = true ∧ inFragment [91, 45, 45, 97, 93] = true := by decide

/-- … the set of the open finding, `[a-%z]`, and an unclosed set are not; … -/
example : inFragment [91, 97, 45, 37, 122, 93] = false ∧ inFragment [91, 97] = false := by decide

/-- … captures, back-references, `%b`, `%f`, a trailing `%` are not. -/
example : inFragment [40, 97, 41] = false ∧ inFragment [37, 49] = false ∧ inFragment [37, 98, 40, 41] = false ∧
    inFragment [37, 102, 97] = false ∧ inFragment [97, 37] = false := by decide

/-- non-vacuity with a set: `("a-z"):find("[%a-z]+")` = 1 3 (the witness of the repaired defect C14-set-range) -/
example : modelFind [91, 37, 97, 45, 122, 93, 43] [97, 45, 122] 1 = some [.num 1, .num 3] := by
  rw [vm_eq_reference_items _ _ _ (by decide) (by decide)]
  decide

/-- non-vacuity of the theorem: `("xx12ab."):find("%d+.-b?%.$")` = 3 7 on both sides -/
example : modelFind [37, 100, 43, 46, 45, 98, 63, 37, 46, 36] [120, 120, 49, 50, 97, 98, 46] 1 = some [.num 3, .num 7] := by
  rw [vm_eq_reference_items _ _ _ (by decide) (by decide)]
  decide

/-! ## vm_eq_reference with captures — the fragment `inFragmentC`

  `inFragmentC pat` (decidable, `Proofs/PmCap.lean`): the items of `inFragment` plus captures `(` … `)` (nested to any
  depth), position captures `()`, balanced matches `%bxy` (x, y not NUL) and back-references `%1`–`%9`, subject to the
  static capture discipline lstrlib enforces when it passes the item (`capsOK`: at most 32 captures, every `)` closes an
  open capture, every capture is closed at the end, a back-reference names a capture that is already closed). -/

/-- **vm_eq_reference with captures, one attempt**: for every pattern of `inFragmentC` the Model's parser and compiler
    succeed, and for EVERY subject, start position `s ≤ |subject|` and recursion cap with `|subject| + |pattern| + 3 ≤ cap`,
    one run of the Model's VM returns what the reference's `do_match` returns at `s`: the same match end and a capture
    array that carries the reference's capture list — slot 0 = start, slot 1 = end, slots 2i+2 / 2i+3 = start / end of
    the i-th capture (both = position·2+1 for a position capture), every closed capture inside the subject, array length
    exactly 2·(captures+1) (`PostC`) — or both report no match; the reference raises no error.  In particular the Go-panic
    site `src[lo:hi]` of `opNumber`, left open by `pattern_total_partial`, is unreachable on this fragment. -/
theorem vm_run_eq_reference_captures (pat : List Nat) (hne : 0 < pat.length) (hfrag : inFragmentC pat = true) :
    ∃ (sq : SeqPat) (insts : Array Inst) (T : Nat), parseTop pat.toArray = .ok sq ∧ sq.mustHead = (splitAnchor pat).1 ∧
      compilePattern sq = .ok insts ∧
      ∀ (cap : Nat) (src : Array Nat) (s : Nat), s ≤ src.size → src.size + pat.length + 3 ≤ cap →
        RunAgreesC src (splitAnchor pat).2 T s (vm src insts cap (vmFuel src insts) 0 s 1 #[]) :=
  fragC_pipeline pat hne (inFragmentC_0 hfrag)

/-- **vm_eq_reference with captures, `string.find`**: for every pattern of `inFragmentC`, every subject with
    `|subject| + |pattern| + 3 ≤ 1000000` and every init, the whole Model pipeline — scanner, parsePattern (recursive
    descent into captures), compilePattern (capture numbering, the closed-capture check of back-references),
    recursiveVM with its capture array (save / restore, position captures, `%b` scan, back-reference comparison),
    Find's scan loop, strFind's init arithmetic and its capture-pushing loop — returns exactly the value list of the
    reference's `string.find`: start, end, and every capture (substring or position). -/
theorem vm_eq_reference_captures (pat subj : List Nat) (init : Int) (hfrag : inFragmentC pat = true)
    (hsz : subj.length + pat.length + 3 ≤ maxRecursionLevel) :
    modelFind pat subj init = specFind pat subj init :=
  find_fragC_eq pat subj init (inFragmentC_0 hfrag) hsz

/-- **vm_eq_reference with captures, `string.match`**: the same for `string.match` (its own init arithmetic, the
    whole match when the pattern has no captures, the empty pattern included). -/
theorem vm_eq_reference_captures_match (pat subj : List Nat) (init : Int) (hfrag : inFragmentC pat = true)
    (hsz : subj.length + pat.length + 3 ≤ maxRecursionLevel) :
    modelMatch pat subj init = specMatch pat subj init :=
  match_fragC_eq pat subj init (inFragmentC_0 hfrag) hsz

/-- full statement of `vm_eq_reference_captures`, without the size guard -/
def vm_eq_reference_captures_full : Prop :=
  ∀ (pat subj : List Nat) (init : Int), inFragmentC pat = true → modelFind pat subj init = specFind pat subj init

/-- it is false of the code: the recursion counter of `recursiveVM` grows by one per byte a greedy item consumes, so
    `("a"):rep(1000000):find("a*")` raises "pattern/input too complex" (the cap is 1000000) where the reference, which
    iterates in `max_expand`, matches — and the reference raises no error on any pattern of the fragment
    (`specFind_total`).  A limit of the implementation ("pattern/input too complex" is a `*pm.Error`, not a crash), not
    a semantic deviation; it is why the guard is there.  On the real code `("a"):rep(999997):find("a*")` matches and
    `("a"):rep(999998):find("a*")` raises — exactly the threshold the Model gives (`model_cap_general`: N ≥ 999998). -/
theorem vm_eq_reference_captures_full_fails : ¬ vm_eq_reference_captures_full := by
  intro h
  have := h [97, 42] (List.replicate 1000000 97) 1 (by decide)
  rw [model_cap_witness] at this
  exact specFind_total _ _ _ (inFragmentC_0 (by decide)) this.symm

/-- non-vacuity: `("  x1 "):match("^%s*(.-)%s*$")` = "x1"; `("abc"):match("b*", -1)` = "" … -/
example : modelMatch [94, 37, 115, 42, 40, 46, 45, 41, 37, 115, 42, 36] [32, 32, 120, 49, 32] 1 = some [.str [120, 49]] ∧
    modelMatch [98, 42] [97, 98, 99] (-1) = some [.str []] := by
  rw [vm_eq_reference_captures_match _ _ _ (by decide) (by decide), vm_eq_reference_captures_match _ _ _ (by decide) (by decide)]
  decide

/-- non-vacuity: `("key = 42"):find("(%a+)%s*=%s*(%d+)()")` = 1 8 "key" "42" 9 -/
example : modelFind [40, 37, 97, 43, 41, 37, 115, 42, 61, 37, 115, 42, 40, 37, 100, 43, 41, 40, 41]
    [107, 101, 121, 32, 61, 32, 52, 50] 1 =
    some [.num 1, .num 8, .str [107, 101, 121], .str [52, 50], .num 9] := by
  rw [vm_eq_reference_captures _ _ _ (by decide) (by decide)]
  decide

/-- non-vacuity: a back-reference and `%b`: `("xabab(c)"):find("(ab)%1%b()")` = 2 8 "ab" -/
example : modelFind [40, 97, 98, 41, 37, 49, 37, 98, 40, 41] [120, 97, 98, 97, 98, 40, 99, 41] 1 =
    some [.num 2, .num 8, .str [97, 98]] := by
  rw [vm_eq_reference_captures _ _ _ (by decide) (by decide)]
  decide

/-- the fragment, characterised: a pattern is in `inFragmentC` iff its body tokenizes (`tokToks`: items, `(`, `)`, `()`,
    `%bxy`, `%d`) and the token list obeys the capture discipline (`capsOK`) — the tree the Model's parser must build
    then exists (the `build` conjunct in the definition is implied). -/
theorem fragment_captures_characterised (pat : List Nat) :
    inFragmentC0 pat = true ↔
      ∃ toks tail, tokToks ((splitAnchor pat).2.length + 1) (splitAnchor pat).2 = some (toks, tail) ∧ capsOK 0 [] toks = true :=
  inFragmentC_iff pat

/-- the fragment with captures contains the fragment of items (so `vm_eq_reference_captures` subsumes
    `vm_eq_reference_items`; the literal `vm_eq_reference_partial` keeps its own value: it has no size guard — a
    literal program never nests more than three calls). -/
theorem fragment_inclusion (pat : List Nat) (h : inFragment pat = true) : inFragmentC pat = true :=
  inFragment_subC h

/-- non-vacuity: `^(a(b*)%2)()%b<>[%w_]-$`, `((a)(b))%3%2`, `(()x)` are in the fragment; … -/
example : inFragmentC [94, 40, 97, 40, 98, 42, 41, 37, 50, 41, 40, 41, 37, 98, 60, 62, 91, 37, 119, 95, 93, 45, 36] = true ∧
    inFragmentC [40, 40, 97, 41, 40, 98, 41, 41, 37, 51, 37, 50] = true ∧ inFragmentC [40, 40, 41, 120, 41] = true := by
  decide

/-- … a back-reference to an open capture `(a%1)`, an unclosed `(a`, a stray `)`, `%b` without two bytes, `%0` are not. -/
example : inFragmentC [40, 97, 37, 49, 41] = false ∧ inFragmentC [40, 97] = false ∧ inFragmentC [97, 41] = false ∧
    inFragmentC [37, 98, 40] = false ∧ inFragmentC [37, 48] = false := by decide

/-! ## vm_eq_reference for gmatch and gsub — assembled from the per-attempt theorem, scan_loop_spec and gsub_assembly -/

/-- **vm_eq_reference_gmatch**: for every pattern of `inFragmentG` (= `inFragmentC` with a leading `^` read as a literal:
    the Model escapes it, `"%" + pattern`, the reference's `gmatch_aux` never anchors), every subject with
    `|subject| + |pattern| + 4 ≤ 1000000`: the tuples the Model's iterator closure yields when driven to exhaustion
    (strGmatch: one `pm.Find` with limit −1; strGmatchIter: one tuple per call from the upvalue state, nothing once
    exhausted) are exactly the tuples of the reference's successive `gmatch_aux` calls — the whole match when the pattern
    has no captures, else every capture; leftmost matches, the next attempt at the end of the previous match, one byte
    further after an empty match. -/
theorem vm_eq_reference_gmatch (pat subj : List Nat) (hfrag : inFragmentG pat = true)
    (hsz : subj.length + pat.length + 4 ≤ maxRecursionLevel) :
    modelGmatch pat subj = specGmatch pat subj :=
  gmatch_fragC_eq pat subj (inFragmentG_0 hfrag) hsz

/-- non-vacuity: `("a1b22"):gmatch("%a(%d*)")` yields "1", "22"; `("ab"):gmatch("x*")` yields three empty matches
    (positions 0, 1, 2); `("^a^"):gmatch("^a")` finds the caret literally -/
example : modelGmatch [37, 97, 40, 37, 100, 42, 41] [97, 49, 98, 50, 50] = some [[.str [49]], [.str [50, 50]]] ∧
    modelGmatch [120, 42] [97, 98] = some [[.str []], [.str []], [.str []]] ∧
    modelGmatch [94, 97] [94, 97, 94] = some [[.str [94, 97]]] := by
  rw [vm_eq_reference_gmatch _ _ (by decide) (by decide), vm_eq_reference_gmatch _ _ (by decide) (by decide),
    vm_eq_reference_gmatch _ _ (by decide) (by decide)]
  decide

/-- **vm_eq_reference_gsub** (guarded): for every pattern of `inFragmentC`, every subject with
    `|subject| + |pattern| + 3 ≤ 1000000`, every max_s (absent, positive, zero, negative) and every replacement —
    a table (any lookup function), a function (any function of call index and arguments; nil/false keep the match,
    strings and integers replace it, anything else is the error "invalid replacement value"), or a string in which
    every `%` is followed by a digit or `%` (`replGuard`) — the Model's `string.gsub` returns exactly the reference's
    result string and count (or both raise an error, e.g. `%2` with one capture).  Pieces: `fragC_scan` (per-attempt
    theorem through `findLoop_scan` = scan_loop_spec), the per-match replacement (flagScanner state machine =
    `add_s`; table key / function arguments = `push_captures`), and `doReplace_eq_splice` = gsub_assembly. -/
theorem vm_eq_reference_gsub (pat subj : List Nat) (repl : Repl) (maxS : Option Int) (hfrag : inFragmentC pat = true)
    (hsz : subj.length + pat.length + 3 ≤ maxRecursionLevel) (hrepl : replGuard repl) :
    modelGsub pat subj repl maxS = specGsub pat subj repl maxS :=
  gsub_fragC_eq pat subj repl maxS (inFragmentC_0 hfrag) hsz hrepl

/-- non-vacuity: `("hello world"):gsub("(%w+)", "<%1>%%")` = "<hello>% <world>%", 2 -/
example : modelGsub [40, 37, 119, 43, 41] [104, 105, 32, 121, 111] (.str [60, 37, 49, 62, 37, 37]) none =
    some ([60, 104, 105, 62, 37, 32, 60, 121, 111, 62, 37], 2) := by
  rw [vm_eq_reference_gsub _ _ _ _ (by decide) (by decide) (by show replOK _ = true; decide)]
  decide

/-- non-vacuity: a function replacement that numbers the matches, keeps the second (nil) and is limited to 3:
    `("a,b,c,d"):gsub("%a", f, 3)` with f = 1, nil, 3 → "1,b,3,d", 3; a table replacement keyed by the first capture -/
example : modelGsub [37, 97] [97, 44, 98, 44, 99, 44, 100] (.fn fun k _ => if k = 1 then .nil else .int (k + 1)) (some 3) =
      some ([49, 44, 98, 44, 51, 44, 100], 3) ∧
    modelGsub [40, 37, 97, 41, 61] [120, 61, 121, 61] (.tbl fun c => if c = .str [120] then .str [88] else .false) none =
      some ([88, 121, 61], 2) := by
  rw [vm_eq_reference_gsub _ _ _ _ (by decide) (by decide) (by exact trivial),
    vm_eq_reference_gsub _ _ _ _ (by decide) (by decide) (by exact trivial)]
  decide

/-- full statement of `vm_eq_reference_gsub`, without the guard on the replacement string -/
def vm_eq_reference_gsub_full : Prop :=
  ∀ (pat subj : List Nat) (repl : Repl) (maxS : Option Int), inFragmentC pat = true →
    subj.length + pat.length + 3 ≤ maxRecursionLevel → modelGsub pat subj repl maxS = specGsub pat subj repl maxS

/-- false of the code: open finding C14-gsub-repl-percent-nondigit — `("abc"):gsub("%w", "%x")` is `xxx 3` in Lua 5.1
    (`add_s` drops the `%`), `%x%x%x 3` in gopher-lua (strGsubStr keeps it; `_glua-tests/strings.lua` asserts it). -/
theorem vm_eq_reference_gsub_full_fails : ¬ vm_eq_reference_gsub_full := by
  intro h
  have := h [37, 119] [97, 98, 99] (.str [37, 120]) none (by decide) (by decide)
  have hs : specGsub [37, 119] [97, 98, 99] (.str [37, 120]) none = some ([120, 120, 120], 3) := by decide
  have hm : modelGsub [37, 119] [97, 98, 99] (.str [37, 120]) none = some ([37, 120, 37, 120, 37, 120], 3) := by
    simp [modelGsub, Pm.strGsub, strGsubStr, gsubStrOne, FlagScanner.next, capturedString, strGsubDoReplace,
      strGsubDoReplace.go, find, liftErr, parseTop, parsePattern, parseClass, Scanner.peek, Scanner.next, Scanner.nextPos,
      Scanner.save, Scanner.restore, Scanner.currentPos, Scanner.length, EOS, UNKNOWN, bind, Except.bind, pure, Except.pure,
      isQuant, compilePattern, compileSeq, compilePat, findLoop, vm, vmFuel, setCapture, growTo, pushZeros, restoreCapture,
      Class.Matches, singleMatches, btw, maxRecursionLevel, Pm.capture, isPosCapture, substr, throw, throwThe,
      MonadExceptOf.throw, Array.setIfInBounds]
  rw [hm, hs] at this
  simp at this

/-! ## patterns containing NUL — the byte-unrestricted fragments

  `inFragment0` / `inFragmentC0` / `inFragmentG0` are the fragments without the "no NUL" conjunct (`inFragmentC pat =
  !pat.contains 0 && inFragmentC0 pat`, …).  All proofs are about them: nothing in the Model treats the byte 0 specially, and
  the Spec (Lean port) reads a pattern byte-transparently — the reading of lstrlib from 5.2 on, where the pattern length is
  explicit.  lstrlib 5.1 itself reads the pattern as a C string: it would stop at the NUL (`("a\0b"):find("a\0b")` is
  `1 1` there, `1 3` in gopher-lua), and the 5.1 manual excludes such patterns ("a pattern cannot contain embedded zeros.
  Use %z instead").  So the statements below are NOT statements about lstrlib 5.1 on NUL patterns (no such equality can
  hold); they say that gopher-lua treats NUL like any other byte, exactly as the byte-transparent matcher does. -/

/-- find / match / gmatch / gsub on the byte-unrestricted fragments (see the section comment for what the Spec means here) -/
theorem vm_eq_reference_bytes (pat subj : List Nat) (init : Int) (hfrag : inFragmentC0 pat = true)
    (hsz : subj.length + pat.length + 3 ≤ maxRecursionLevel) :
    modelFind pat subj init = specFind pat subj init ∧ modelMatch pat subj init = specMatch pat subj init ∧
    (∀ (repl : Repl) (maxS : Option Int), replGuard repl → modelGsub pat subj repl maxS = specGsub pat subj repl maxS) :=
  ⟨find_fragC_eq pat subj init hfrag hsz, match_fragC_eq pat subj init hfrag hsz,
    fun repl maxS hr => gsub_fragC_eq pat subj repl maxS hfrag hsz hr⟩

theorem vm_eq_reference_gmatch_bytes (pat subj : List Nat) (hfrag : inFragmentG0 pat = true)
    (hsz : subj.length + pat.length + 4 ≤ maxRecursionLevel) : modelGmatch pat subj = specGmatch pat subj :=
  gmatch_fragC_eq pat subj hfrag hsz

/-- non-vacuity: `("a\0b\0"):find("(%z)b%z")` = 2 4 "\0" with a NUL in the subject; a NUL in the pattern: `("a\0b"):find("a\0b")` = 1 3 -/
example : modelFind [40, 37, 122, 41, 98, 37, 122] [97, 0, 98, 0] 1 = some [.num 2, .num 4, .str [0]] ∧
    modelFind [97, 0, 98] [97, 0, 98] 1 = some [.num 1, .num 3] := by
  rw [(vm_eq_reference_bytes _ _ _ (by decide) (by decide)).1, (vm_eq_reference_bytes _ _ _ (by decide) (by decide)).1]
  decide

/-! ## pattern_total, the parser half — every byte string is parsed or rejected with a `*pm.Error` -/

/-- **parser_total**: for EVERY byte string `p` (well-formed or not, any bytes), `parsePattern(newScanner(p), true)` —
    scanner, parseClass, parseClassSet with its range merging, the recursive descent into captures — returns a parsed
    pattern or a `*pm.Error` whose message is one of "unexpected EOS", "invalid capture index", "invalid ')'",
    "unfinished capture".  It never raises a Go panic (no scanner index out of range, `set.Classes[len-2]` is always
    in range because a pending range implies a non-empty class list) and its `for {}` loops terminate: the model's
    fuel `2·|p|+8` is never exhausted (every iteration consumes a byte or returns).  Proof: the scanner only visits
    the states "k bytes consumed" / "EOS returned" (`scK`), on which Next/Peek/Save/Restore are explicit functions
    (this refines `scanner_safe`), and every recursive call is at a strictly later state. -/
theorem parser_total (p : Array Nat) : (∃ sq, parseTop p = .ok sq) ∨ (∃ e, parseTop p = .error e ∧ PmErr e) :=
  parseTop_total p

/-- the compiler rejects only with `*pm.Error` "invalid capture index" (a back-reference to a capture that is not closed) -/
theorem compile_total (sq : SeqPat) :
    (∃ insts, compilePattern sq = .ok insts) ∨ (∃ e, compilePattern sq = .error e ∧ CompileErr e) :=
  compilePattern_total sq

/-- **find_total**: `pm.Find` on EVERY pattern, subject, offset, limit and recursion cap returns matches or a `*pm.Error`
    (parser, compiler, recursion cap, invalid capture index) — never out of fuel (it terminates) and never a Go panic
    other than the slice expression of `opNumber` (which `vm_run_eq_reference_captures` excludes on `inFragmentC`, and
    fix C14-backref is meant to exclude everywhere — that last step is the one thing still open).  So a malformed pattern
    is a Lua error (stringlib raises `err.Error()`) or, when the parser accepts it, an ordinary run of the VM. -/
theorem find_total (cap : Nat) (p src : Array Nat) (offset : Nat) (limit : Int) :
    FindOutcome (find cap p src offset limit) :=
  find_outcome cap p src offset limit

/-- non-vacuity: the four parser errors and the compiler error are reachable: `[a`, `(a`, `a)`, `%0`, `(a%1)` -/
example : parseTop #[91, 97] = .error (.pm 1 "unexpected EOS") ∧ parseTop #[40, 97] = .error (.pm (-1) "unfinished capture") ∧
    parseTop #[97, 41] = .error (.pm 0 "invalid ')'") ∧ parseTop #[37, 48] = .error (.pm 0 "invalid capture index") ∧
    ((parseTop #[40, 97, 37, 49, 41]) >>= compilePattern) = .error (.pm UNKNOWN "invalid capture index") := by
  refine ⟨?_, ?_, ?_, ?_, ?_⟩ <;> pm_eval

/-! ## `%f` — the frontier pattern of lstrlib 5.1.5 is not implemented (open finding C14-frontier-unimplemented) -/

/-- `("xf1"):find("%f[%d]")`: lstrlib 5.1.5 finds the empty frontier in front of the digit (`3 2`); gopher-lua reads `%f`
    as the escaped letter `f` followed by the set and answers `2 3`.  The Spec now contains lstrlib's `case 'f'`; the
    fragments exclude `%f`, and `vm_eq_reference_full` keeps its hypothesis `frontier = false`. -/
theorem frontier_deviation :
    specFind [37, 102, 91, 37, 100, 93] [120, 102, 49] 1 = some [.num 3, .num 2] ∧
    modelFind [37, 102, 91, 37, 100, 93] [120, 102, 49] 1 = some [.num 2, .num 3] := by
  refine ⟨by decide, ?_⟩
  simp [modelFind, Pm.strFind, find, liftErr, luaIndex2StringIndexStart, parseTop, parsePattern, parseClass, parseClassSet,
    parseClassSetLoop, Scanner.peek, Scanner.next, Scanner.nextPos, Scanner.save, Scanner.restore, Scanner.currentPos,
    Scanner.length, EOS, UNKNOWN, bind, Except.bind, pure, Except.pure, isQuant, Class.isChar, compilePattern, compileSeq,
    compilePat, findLoop, vm, vmFuel, setCapture, growTo, pushZeros, restoreCapture, Class.Matches, anyMatches,
    singleMatches, btw, maxRecursionLevel, Pm.capture, pushCaps, isPosCapture, substr, throw, throwThe,
    MonadExceptOf.throw, Array.setIfInBounds]

end GLua.Props.C14
