/-
  C15 — string and math functions match their definitions for all arguments.
  Property theorems only (lemmas: GLua/Proofs/StrLib.lean).  Model = GLua/Model/StrLib.lean (transcription of
  /repo/stringlib.go + mathlib.go wrappers WITH fixes/C15-*.diff applied, `luaIndex2StringIndex`/`intMin`/`intMax`
  regenerated from the source on every run); Spec = GLua/Spec/StrLib.lean (Lua 5.1 manual / lstrlib `posrelat`).

  Every theorem is for ALL strings (any length, any element type — hence all 256 byte values), ALL positions
  (`Int`: negative, zero, beyond either end) and both arities.  `.ok` on the left also says: no Go panic.
  What the pinned tree (before the fixes) does is kept as `…Pinned` in the Model; the full statements are FALSE
  of it and their negations are proved here from the DESIGN.md §1 witnesses.
-/
import GLua.Proofs.StrLib
import GLua.Proofs.MathLib
import GLua.Model.MathLib
import GLua.Spec.MathSpec

namespace GLua.Props.C15
open GLua GLua.Generated GLua.StrModel GLua.StrSpec GLua.StrProofs

/-! ## string.sub -/

/-- **sub_spec** — `strSub` over the regenerated `luaIndex2StringIndex` returns exactly the manual's substring for
    every string, every start, every end (or absent end), and never panics in `str[start:end]`. -/
theorem sub_spec {α} (s : List α) (i : Int) (j : Option Int) :
    strSub s i j = .ok (sub s i (j.getD (-1))) := strSub_eq s i j

example : strSub [1, 2, 3] (-2) none = .ok [2, 3] := by decide
example : strSub [1, 2, 3] 0 (some 10) = .ok [1, 2, 3] := by decide
example : strSub [1, 2, 3] (-100) (some (-3)) = .ok [1] := by decide

/-- the regenerated index normalisation is `posrelat` with the documented clamping (start ≥ 1, end ≤ len). -/
theorem index_normalisation (n : Nat) (p : Int) :
    luaIndex2StringIndex n p true = max (posrelat p n) 1 - 1 ∧
    luaIndex2StringIndex n p false = min (posrelat p n) n := ⟨lis_start n p, lis_end n p⟩

/-- a string is never modified in place / results are byte-exact: `sub` only ever returns a contiguous part. -/
theorem sub_is_infix {α} (s : List α) (i j : Int) : ∃ a b, sub s i j = (s.drop a).take b := by
  simp only [sub, slice]
  split
  · exact ⟨_, _, rfl⟩
  · exact ⟨0, 0, by simp⟩

/-! ## string.byte -/

/-- **byte_spec** — for every string and every combination of present/absent, negative/zero/out-of-range i, j. -/
theorem byte_spec {α} (s : List α) (i j : Option Int) :
    strByte s i j = .ok (byte s i j) := strByte_eq s i j

example : strByte [97, 98, 99] none none = .ok [97] := by decide
example : strByte [97, 98, 99] (some 0) (some 2) = .ok [97, 98] := by decide
example : strByte [97, 98, 99] (some (-1)) none = .ok [99] := by decide

/-- the pinned tree's strByte at full strength (all arities; `top` = number of arguments passed). -/
def byte_pinned_full : Prop :=
  ∀ (s : List Nat) (top : Nat) (i j : Option Int), strBytePinned s top i j = .ok (byte s i j)

/-- FALSE of the pinned tree: `("abc"):byte()` returns 97 98 99 (DESIGN.md §1) … -/
theorem byte_pinned_full_fails : ¬ byte_pinned_full := by
  intro h
  have := h [97, 98, 99] 1 none none
  revert this
  decide

/-- … and `("abc"):byte(0, 2)` returns nothing instead of 97 98 (found by this check's exhaustive window). -/
theorem byte_pinned_start0_fails :
    strBytePinned [97, 98, 99] 3 (some 0) (some 2) ≠ .ok (byte [97, 98, 99] (some 0) (some 2)) := by decide

/-! ## string.find, plain -/

/-- **find_plain_spec** — every subject, pattern (also empty), init (absent, negative, zero, beyond the end):
    the first occurrence at or after init, as 1-based inclusive positions; no panic in `str[init:]`. -/
theorem find_plain_spec {α} [BEq α] (s pat : List α) (init : Option Int) :
    strFindPlain s pat init = .ok (findPlain s pat (init.getD 1)) := strFindPlain_eq s pat init

example : strFindPlain [97, 98, 99] [98] (some 10) = .ok none := by decide
example : strFindPlain [97, 98, 99] [] (some 3) = .ok (some (3, 2)) := by decide
example : strFindPlain [97, 98, 99, 98] [98] (some (-2)) = .ok (some (4, 4)) := by decide

def find_plain_pinned_full : Prop :=
  ∀ (s pat : List Nat) (init : Option Int), strFindPlainPinned s pat init = .ok (findPlain s pat (init.getD 1))

/-- FALSE of the pinned tree: `("abc"):find("b", 10, true)` panics in the slice expression … -/
theorem find_plain_pinned_full_fails : ¬ find_plain_pinned_full := by
  intro h
  have := h [97, 98, 99] [98] (some 10)
  revert this
  decide

theorem find_plain_pinned_panics :
    strFindPlainPinned [97, 98, 99] [98] (some 10) = .error (.goPanic "strFind str[init:]") := by decide

/-- … and `("abc"):find("", 3)` ignores init. -/
theorem find_empty_pinned_ignores_init :
    strFindPlainPinned [97, 98, 99] [] (some 3) = .ok (some (1, 0)) ∧
    findPlain [97, 98, 99] [] 3 = some (3, 2) := by decide

/-- what the Spec's `firstOcc` means: the offset returned is an occurrence, and no smaller offset is one;
    `none` means no offset is. -/
theorem firstOcc_spec {α} [BEq α] (pat : List α) : ∀ (s : List α),
    (∀ k, firstOcc pat s = some k →
        pat.isPrefixOf (s.drop k) = true ∧ ∀ k' < k, pat.isPrefixOf (s.drop k') = false) ∧
    (firstOcc pat s = none → ∀ k, pat.isPrefixOf (s.drop k) = false) := by
  intro s
  induction s with
  | nil =>
    unfold firstOcc
    rw [← isPrefixOf_nil_right]
    constructor
    · intro k hk
      split at hk
      · cases hk; simp_all
      · cases hk
    · intro h k
      split at h
      · cases h
      · simp_all
  | cons c r ih =>
    unfold firstOcc
    by_cases hp : pat.isPrefixOf (c :: r) = true
    · simp only [hp, if_true]
      constructor
      · intro k hk
        cases hk
        exact ⟨by simpa using hp, fun k' h => absurd h (Nat.not_lt_zero _)⟩
      · intro h; cases h
    · simp only [hp, Bool.false_eq_true, if_false]
      have hp' : pat.isPrefixOf (c :: r) = false := by simpa using hp
      constructor
      · intro k hk
        cases hfo : firstOcc pat r with
        | none => rw [hfo] at hk; cases hk
        | some k0 =>
          rw [hfo] at hk
          simp only [Option.map_some, Option.some.injEq] at hk
          subst hk
          obtain ⟨h1, h2⟩ := ih.1 k0 hfo
          refine ⟨by simpa using h1, ?_⟩
          intro k' hk'
          cases k' with
          | zero => simpa using hp'
          | succ k'' => simpa using h2 k'' (by omega)
      · intro h k
        cases hfo : firstOcc pat r with
        | some k0 => rw [hfo] at h; cases h
        | none =>
          cases k with
          | zero => simpa using hp'
          | succ k' => simpa using ih.2 hfo k'

/-! ## string.rep, reverse, len, upper, lower, char -/

/-- **rep_spec** — n copies (none for n ≤ 0) whenever the result length fits Go's `int`
    (beyond that `strings.Repeat` panics: the explicit `.goPanic` branch of the Model). -/
theorem rep_spec {α} (s : List α) (n : Int) (h : (s.length : Int) * n ≤ maxInt) :
    strRep s n = .ok (rep s n) ∧ (rep s n).length = n.toNat * s.length :=
  ⟨strRep_eq s n h, rep_length s n⟩

example : strRep [1, 2] 3 = .ok [1, 2, 1, 2, 1, 2] := by decide
example : strRep [1, 2] (-4) = .ok [] := by decide

/-- the guard is necessary: beyond `maxInt` the outcome is a Go panic (caught by pcall), not a string. -/
theorem rep_overflow_panics :
    strRep [97, 98] 4611686018427387904 = .error (.goPanic "strings: Repeat output length overflow") := by decide

/-- **reverse_spec** — byte-exact reversal, same length, an involution; the index loop never leaves the slice. -/
theorem reverse_spec {α} (s : List α) :
    strReverse s = .ok (reverse s) ∧ (reverse s).length = s.length ∧ reverse (reverse s) = s :=
  ⟨strReverse_eq s, by simp [reverse], by simp [reverse]⟩

example : strReverse [0, 200, 255] = .ok [255, 200, 0] := by decide

/-- **upper_lower_ascii** — the byte loops are the C-locale maps: same length, only the 26 ASCII letters change,
    every byte ≥ 0x80 (and every other non-letter) is returned unchanged, results stay bytes. -/
theorem upper_lower_ascii (s : List Nat) :
    strUpper s = upper s ∧ strLower s = lower s ∧
    (upper s).length = s.length ∧ (lower s).length = s.length ∧
    (∀ b, ¬ (97 ≤ b ∧ b ≤ 122) → toUpper b = b) ∧ (∀ b, ¬ (65 ≤ b ∧ b ≤ 90) → toLower b = b) ∧
    (∀ b, b < 256 → toUpper b < 256 ∧ toLower b < 256) := by
  refine ⟨strUpper_eq s, strLower_eq s, by simp [upper], by simp [lower], ?_, ?_, ?_⟩
  · intro b h; simp [toUpper, h]
  · intro b h; simp [toLower, h]
  · intro b h; unfold toUpper toLower; constructor <;> split <;> omega

/-- all 256 byte values, exhaustively: upper/lower round trip on letters, identity elsewhere. -/
theorem upper_lower_all_bytes :
    ∀ b, b < 256 → toLower (toUpper b) = toLower b ∧ toUpper (toLower b) = toUpper b ∧
      (128 ≤ b → toUpper b = b ∧ toLower b = b) := by decide +kernel

example : strUpper [97, 200, 255, 122, 123] = [65, 200, 255, 90, 123] := by decide

/-- **char_spec** — bytes for arguments in 0..255, an argument error otherwise (no silent wrap-around). -/
theorem char_spec (cs : List Int) :
    strChar cs = (match char cs with | some b => .ok b | none => .error (.luaError "invalid value")) :=
  strChar_eq cs

example : strChar [256] = .error (.luaError "invalid value") := by decide
example : strChar [65, 0, 255] = .ok [65, 0, 255] := by decide

/-- the pinned tree wraps instead: `string.char(256)` is "\0". -/
theorem char_pinned_wraps : strCharPinned [256] = [0] ∧ char [256] = none := by decide

theorem len_spec {α} (s : List α) : strLen s = len s := rfl

/-! ## integer arguments given as numeric strings (repaired finding C15-int-arg-no-string-coercion)

    `CheckInt / CheckInt64 / OptInt / OptInt64 / OptNumber` now go through `CheckNumber`, which converts a string
    (manual §2.2.1).  Model = `checkIntStr` (the conversion) composed with the function's model. -/

/-- decimal digits of a natural number, most significant first -/
def decDigits (n : Nat) : List Nat := (Nat.toDigits 10 n).map Char.toNat

/-- the numeral of an integer as `tostring` / `strconv.Itoa` write it -/
def decNumeral (i : Int) : List Nat := if i < 0 then 45 :: decDigits i.natAbs else decDigits i.natAbs

/-- **int_arg_numeral_grid** (FINITE, kernel evaluation): every integer of −300 … 300 and the position values
    ±2^31, ±2^53 written as a decimal numeral — bare, padded with blanks, with a `.0`, with an exponent `e0` —
    is converted to itself; strings that are no numeral stay a type error. -/
theorem int_arg_numeral_grid :
    ((List.range 601).map (fun (k : Nat) => (k : Int) - 300) ++
        [2147483648, -2147483648, 9007199254740992, -9007199254740992]).all (fun i =>
      checkIntStr (decNumeral i) == some i &&
      checkIntStr ([32] ++ decNumeral i ++ [32, 9]) == some i &&
      checkIntStr (decNumeral i ++ [46, 48]) == some i &&
      checkIntStr (decNumeral i ++ [101, 48]) == some i) = true ∧
    [[], [120], [49, 120], [45], [45, 45, 49], [50, 32, 51], [49, 101], [46]].all (fun b =>
      checkIntStr b == none) = true := by
  constructor <;> decide +kernel

/-- **sub_spec_numeral** — `string.sub(s, "<numeral>", j)` for ALL strings s, ALL end positions and every string
    the conversion accepts: the substring from the position the numeral denotes (composition with `sub_spec`). -/
theorem sub_spec_numeral {α} (s : List α) (b : List Nat) (i : Int) (j : Option Int) (h : checkIntStr b = some i) :
    (checkIntStr b).map (fun i => strSub s i j) = some (.ok (sub s i (j.getD (-1)))) := by
  rw [h, Option.map_some, sub_spec]

example : (checkIntStr [50]).map (fun i => strSub [97, 98, 99] i none) = some (.ok [98, 99]) := by decide +kernel
example : (checkIntStr [32, 45, 50, 32]).map (fun i => strSub [97, 98, 99] i (some (-1))) = some (.ok [98, 99]) := by
  decide +kernel

/-- the integer-argument conversion BEFORE the fix at full strength: a string the conversion rules accept is
    accepted in an integer position. -/
def int_arg_before_fix_full : Prop :=
  ∀ (b : List Nat) (i : Int), checkIntStr b = some i → checkIntStrOld b = some i

/-- FALSE of the tree before fixes/C15-int-arg-no-string-coercion.diff: `string.sub('abc', '2')` raised
    "number expected, got string". -/
theorem int_arg_before_fix_fails : ¬ int_arg_before_fix_full := by
  intro h
  have e : checkIntStr [50] = some 2 := by decide +kernel
  exact absurd (h [50] 2 e) (by decide)

/-! ## string.format: argument counting and the verb table -/

/-- **format_verb_table** — which Go value/verb `LNumber.Format` hands to `fmt` for each C conversion:
    `d i` signed 64-bit decimal, `o x X` unsigned (two's complement), `c` one byte, `e E f` the float64. -/
theorem format_verb_table :
    lnumberFormat 100 = .int64 100 ∧ lnumberFormat 105 = .int64 100 ∧
    lnumberFormat 111 = .uint64 111 ∧ lnumberFormat 120 = .uint64 120 ∧ lnumberFormat 88 = .uint64 88 ∧
    lnumberFormat 99 = .byteStr ∧
    lnumberFormat 101 = .float64 101 ∧ lnumberFormat 69 = .float64 69 ∧ lnumberFormat 102 = .float64 102 ∧
    lnumberFormat 115 = .tostring 115 := by decide

/-- Go's `fmtInteger` = ISO C's rendering, at full strength (all directives C defines, all integers). -/
def format_int_full : Prop :=
  ∀ (d : Directive) (v : Int), cDefined d = true → (isSignedVerb d.verb ∨ isUnsignedVerb d.verb) →
    goFmtInteger d (isSignedVerb d.verb) v = cFormatInt d v

/-- FALSE (known findings C15-format-unsigned-sign-flags / -sharp-hex / -prec0-zero): witnesses
    `%+x` of 255, `%#x` of 0, `%+.0d` of 0. -/
theorem format_int_full_fails : ¬ format_int_full := by
  intro h
  have := h { plus := true, verb := 120 } 255 (by decide) (by decide)
  revert this
  decide

theorem format_int_findings_witnesses :
    goFmtInteger { plus := true, verb := 120 } false 255 = [43, 102, 102] ∧
    cFormatInt { plus := true, verb := 120 } 255 = [102, 102] ∧
    goFmtInteger { sharp := true, verb := 120 } false 0 = [48, 120, 48] ∧
    cFormatInt { sharp := true, verb := 120 } 0 = [48] ∧
    goFmtInteger { plus := true, prec := some 0, verb := 100 } true 0 = [] ∧
    cFormatInt { plus := true, prec := some 0, verb := 100 } 0 = [43] := by decide

/-- the three known-finding classes of the integer conversions, as the engine keys them. -/
def fmtIntFinding (d : Directive) (v : Int) : Bool :=
  if isSignedVerb d.verb then d.prec = some 0 ∧ v = 0 ∧ (d.plus ∨ d.space)
  else (d.plus ∨ d.space) ∨ (d.prec = some 0 ∧ v = 0 ∧ d.sharp ∧ d.verb = 111) ∨
       (d.sharp ∧ d.verb ≠ 111 ∧ (v = 0 ∨ (d.zero ∧ !d.minus ∧ d.width.isSome ∧ d.prec.isNone)))

/-- the grid: 32 flag sets x 4 widths x 4 precisions x {d i x X o} x 7 values = 17 920 (directive, value) pairs -/
def fmtGrid : List (Directive × Int) :=
  (List.range 32).flatMap fun fl =>
  [none, some 1, some 4, some 9].flatMap fun w =>
  [none, some 0, some 1, some 3].flatMap fun p =>
  [100, 105, 120, 88, 111].flatMap fun verb =>
  [-255, -1, 0, 1, 8, 255, 4096].map fun v =>
    ({ minus := fl % 2 = 1, plus := fl / 2 % 2 = 1, space := fl / 4 % 2 = 1, sharp := fl / 8 % 2 = 1,
       zero := fl / 16 % 2 = 1, width := w, prec := p, verb := verb }, v)

/-- **format_int_partial_grid** (a FINITE check by kernel evaluation, not a ∀-theorem): on the whole grid, outside
    the three finding classes and inside the domain C defines, Go's `fmtInteger` renders exactly what C prints —
    i.e. the finding classes are complete there; inside the classes the renderings may differ (witnesses above). -/
theorem format_int_partial_grid :
    fmtGrid.all (fun (d, v) => !cDefined d || fmtIntFinding d v ||
      (goFmtInteger d (isSignedVerb d.verb) v == cFormatInt d v)) = true := by decide +kernel

/-- the unsigned conversions really are two's complement: `%x` of -1 is sixteen f's in both renderings. -/
theorem format_x_negative :
    goFmtInteger { verb := 120 } false (-1) = List.replicate 16 102 ∧
    cFormatInt { verb := 120 } (-1) = List.replicate 16 102 := by decide

/-- the pinned tree hands `int64(nm)` to `%x`: Go then prints a signed hexadecimal, `-1` for -1. -/
theorem format_x_pinned_signed : goFmtInteger { verb := 120 } true (-1) = [45, 49] := by decide

/-- argument counting on the format strings of the finite family `%<flag?><verb>` / `%%` / literal, pairwise
    concatenated: `npat` (two `strings.Count`s) equals the number of directives of the grammar. -/
theorem format_arg_count_small :
    ∀ a ∈ [[37, 100], [37, 37], [120], [37, 43, 120], [37, 53, 46, 50, 102], [37, 37, 37, 115]],
    ∀ b ∈ [[37, 100], [37, 37], [120], [37, 43, 120], [37, 53, 46, 50, 102], [37, 37, 37, 115], []],
      (parseFormat 32 (a ++ b) []).map (fun segs => (argCount segs : Int)) = some (strFormatNpat (a ++ b)) := by
  decide +kernel

/-- the pinned tree's count (`Count("%") - Count("%%")`) over-counts after a `%%`: `("%%"):format(5)`. -/
theorem format_arg_count_pinned_fails :
    (countByte 37 [37, 37] : Int) - (countPctPct [37, 37] : Int) ≠ 0 ∧ strFormatNpat [37, 37] = 0 := by decide

/-! ## math.max / math.min / fmod / mod / random -/

/-- **max_min_spec** — over a NaN-free linear order: the fold returns an argument that bounds all arguments,
    for every number of arguments ≥ 1; no argument is an error. -/
theorem max_min_spec (x : Int) (r : List Int) :
    (∃ v, mathMax (x :: r) = .ok v ∧ maxL (x :: r) = some v ∧ v ∈ x :: r ∧ ∀ y ∈ x :: r, y ≤ v) ∧
    (∃ v, mathMin (x :: r) = .ok v ∧ minL (x :: r) = some v ∧ v ∈ x :: r ∧ ∀ y ∈ x :: r, v ≤ y) := by
  constructor
  · obtain ⟨h1, h2, h3⟩ := mathMaxLoop_spec r x
    refine ⟨mathMaxLoop x r, rfl, by simp [maxL, mathMaxLoop_eq], ?_, ?_⟩
    · rcases h3 with h | h
      · rw [h]; exact List.mem_cons_self
      · exact List.mem_cons_of_mem _ h
    · intro y hy
      rcases List.mem_cons.mp hy with rfl | hy
      · exact h1
      · exact h2 y hy
  · obtain ⟨h1, h2, h3⟩ := mathMinLoop_spec r x
    refine ⟨mathMinLoop x r, rfl, by simp [minL, mathMinLoop_eq], ?_, ?_⟩
    · rcases h3 with h | h
      · rw [h]; exact List.mem_cons_self
      · exact List.mem_cons_of_mem _ h
    · intro y hy
      rcases List.mem_cons.mp hy with rfl | hy
      · exact h1
      · exact h2 y hy

theorem max_min_no_args : mathMax [] = .error (.luaError "wrong number of arguments") ∧
    mathMin [] = .error (.luaError "wrong number of arguments") := ⟨rfl, rfl⟩

example : mathMax [3, -7, 12, 5] = .ok 12 ∧ mathMin [3, -7, 12, 5] = .ok (-7) := by decide

/-- **fmod_sign** — given the trusted law of `math.Mod` on integral arguments (truncated remainder):
    `math.fmod(x, y)` has the dividend's sign, magnitude below `|y|`, and differs from x by a multiple of y. -/
theorem fmod_sign (x y : Int) (hy : y ≠ 0) :
    (0 ≤ x → 0 ≤ mathFmod x y) ∧ (x ≤ 0 → mathFmod x y ≤ 0) ∧
    (mathFmod x y).natAbs < y.natAbs ∧ y ∣ (x - mathFmod x y) := goMod_facts x y hy

/-- `math.mod` (= the `%` operator's `luaModulo`): the divisor's sign instead. -/
theorem mod_sign (x y : Int) (hy : y ≠ 0) :
    (0 < y → 0 ≤ mathMod x y) ∧ (y < 0 → mathMod x y ≤ 0) ∧
    (mathMod x y).natAbs < y.natAbs ∧ y ∣ (x - mathMod x y) := mathMod_facts x y hy

example : mathFmod (-5) 3 = -2 ∧ mathFmod 5 (-3) = 2 ∧ mathMod (-5) 3 = 1 ∧ mathMod 5 (-3) = -1 := by decide

/-- **random_in_range** — for every generator obeying `0 ≤ Intn k < k`, all 64-bit `m ≤ n` whose span
    `n - m + 1` is representable: `math.random(m, n)` is a value in `[m, n]` (64-bit wrap-around modelled). -/
theorem random_in_range (intn : Int → Int) (hintn : ∀ k, 0 < k → 0 ≤ intn k ∧ intn k < k) (rf : Nat) (m n : Int)
    (hm : -9223372036854775808 ≤ m) (hn : n ≤ 9223372036854775807) (hmn : m ≤ n)
    (hspan : n - m + 1 ≤ 9223372036854775807) :
    ∃ r, mathRandom2 intn rf m n = .ok (.int r) ∧ m ≤ r ∧ r ≤ n :=
  mathRandom2_in_range intn hintn rf m n hm hn hmn hspan

example : ∃ r, mathRandom2 (fun k => k - 1) 0 (-3) 4 = .ok (.int r) ∧ -3 ≤ r ∧ r ≤ 4 := ⟨4, by decide⟩

theorem random1_in_range (intn : Int → Int) (hintn : ∀ k, 0 < k → 0 ≤ intn k ∧ intn k < k) (n : Int)
    (h1 : 1 ≤ n) (hn : n ≤ 9223372036854775807) :
    ∃ r, mathRandom1 intn n = .ok r ∧ 1 ≤ r ∧ r ≤ n := mathRandom1_in_range intn hintn n h1 hn

/-- **random_empty_is_error** — an empty interval is a Lua argument error, never a Go panic and never a value:
    for ALL m > n (after fixes/C15-random-interval-overflow.diff no guard on the distance `m - n` is left: the
    bounds are compared directly, `max - min` is no longer computed first). -/
theorem random_empty_is_error (intn : Int → Int) (rf : Nat) (m n : Int) (hmn : n < m) :
    mathRandom2 intn rf m n = .error (.luaError "interval is empty") :=
  mathRandom2_empty intn rf m n hmn

/-- **random_nonempty_never_fails** — every non-empty 64-bit interval, of ANY width, yields a number (no error,
    no Go panic): `rand.Intn` is reached exactly when the width `n - m + 1` fits an int (and then with that
    width), the float64 formula of Lua 5.1 otherwise. -/
theorem random_nonempty_never_fails (intn : Int → Int) (rf : Nat) (m n : Int)
    (hm : -9223372036854775808 ≤ m) (hn : n ≤ 9223372036854775807) (hmn : m ≤ n) :
    (n - m + 1 ≤ 9223372036854775807 → ∃ r, mathRandom2 intn rf m n = .ok (.int r)) ∧
    (9223372036854775807 < n - m + 1 → mathRandom2 intn rf m n = .ok (.num (mathRandom2Wide rf m n))) :=
  mathRandom2_total intn rf m n hm hn hmn

/-- draws of `rand.Float64()` (multiples of 2^-53 in [0, 1)): 0, 2^-53, 2^-52, 2^-11, 1/4, ⌊2^53/3⌋·2^-53, 1/2,
    1/2 + 2^-53, 3/4, 1 − 2^-10, 1 − 2^-52, 1 − 2^-53 (the largest) -/
def randDraws : List Nat :=
  [0, 4368491638549381120, 4372995238176751616, 4557642822898941952, 4598175219545276416, 4599676419421066580,
   4602678819172646912, 4602678819172646913, 4604930618986332160, 4607173622706995200, 4607182418800017406,
   4607182418800017407]

/-- intervals wider than the largest int, bounds exactly representable as float64 (they come from `LNumber`s):
    the witness (−2^62, 2^62), the whole int range, and widths 2^63 and 2^63 + 1 … 2^64 − 1024 around them -/
def wideIntervals : List (Int × Int) :=
  [(-4611686018427387904, 4611686018427387904), (-9223372036854775808, 9223372036854774784),
   (-9223372036854775808, -1), (-9223372036854775808, 0), (-1024, 9223372036854774784),
   (-4611686018427387904, 4611686018427388928), (-4611686018427388928, 4611686018427387904),
   (-9223372036854775808, 4611686018427387904), (-6917529027641081856, 6917529027641081856),
   (-9223372036854775808, 1), (-2048, 9223372036854774784)]

/-- **random_wide_in_range_grid** (a FINITE check by kernel evaluation over exact binary64 arithmetic, not a
    ∀-theorem): on every wide interval above and every draw, the float64 formula delivers an INTEGER of [m, n]
    — also for the largest draw, where `r*(u-l+1)` rounds — and the interval really takes the wide path. -/
theorem random_wide_in_range_grid :
    wideIntervals.all (fun (m, n) => randDraws.all fun rf =>
      decide (9223372036854775807 < n - m + 1) &&
      match mathRandom2 (fun _ => 0) rf m n with
      | .ok out => (out == .num (mathRandom2Wide rf m n)) && out.inRange m n
      | .error _ => false) = true := by decide +kernel

/-- the former witness: `math.random(-2^62, 2^62)` with the draws 0, 1/2, 1 − 2^-53 gives −2^62, 0, 2^62 − 1024 -/
example : (mathRandom2 (fun _ => 0) 0 (-4611686018427387904) 4611686018427387904,
           mathRandom2 (fun _ => 0) 4602678819172646912 (-4611686018427387904) 4611686018427387904,
           mathRandom2 (fun _ => 0) 4607182418800017407 (-4611686018427387904) 4611686018427387904)
    = (.ok (.num 14109777632551763968), .ok (.num 0), .ok (.num 4886405595696988158)) := by decide +kernel

/-- the two-argument path BEFORE the fix (`mathRandom2Old`: `max - min` computed first), without a span guard. -/
def random_before_fix_full : Prop :=
  ∀ (intn : Int → Int), (∀ k, 0 < k → 0 ≤ intn k ∧ intn k < k) → ∀ m n : Int,
    -9223372036854775808 ≤ m → n ≤ 9223372036854775807 → m ≤ n →
    ∃ r, mathRandom2Old intn m n = .ok r ∧ m ≤ r ∧ r ≤ n

/-- FALSE of the tree before fixes/C15-random-interval-overflow.diff: `math.random(-2^62, 2^62)` — `max - min`
    overflows and the interval is reported empty. -/
theorem random_before_fix_fails : ¬ random_before_fix_full := by
  intro h
  obtain ⟨r, hr, _⟩ := h (fun _ => 0) (fun k hk => ⟨Int.le_refl 0, hk⟩)
    (-4611686018427387904) 4611686018427387904 (by decide) (by decide) (by decide)
  have e : mathRandom2Old (fun _ => 0) (-4611686018427387904) 4611686018427387904
      = .error (.luaError "interval is empty") := by decide
  rw [e] at hr
  cases hr

/-- … and the mirror image: before the fix an EMPTY interval whose bounds are more than 2^63 apart was accepted
    (`math.random(2^62 + 1024, -2^62 - 1024)` returned a number); now it is the argument error. -/
theorem random_before_fix_accepts_empty :
    mathRandom2Old (fun _ => 0) 4611686018427388928 (-4611686018427388928) = .ok 4611686018427388928 ∧
    mathRandom2 (fun _ => 0) 0 4611686018427388928 (-4611686018427388928)
      = .error (.luaError "interval is empty") := by decide

/-- the pinned tree reaches `rand.Intn` with a non-positive argument on an empty interval: a Go panic. -/
theorem random_pinned_empty_panics :
    mathRandom2Pinned (fun _ => 0) 5 4 = .error (.goPanic "invalid argument to Intn") := by decide

/-! ## special operands: signed zeros, infinities, NaN, subnormals, 2^53, 2^63 (bit patterns)

    Model = GLua/Model/MathLib.lean (the mathlib.go wrappers and vm.go `luaModulo` over the exact IEEE-754
    arithmetic of GLua/Spec/MathIEEE.lean), Spec = GLua/Spec/MathSpec.lean (C99 §7.12 / Annex F, Lua 5.1 manual).
    `Float` is opaque to the kernel, so these are statements about bit patterns; they are checked by kernel
    evaluation on the harness's bounded-exhaustive operand grid (29 operands, all 841 pairs) — FINITE statements,
    the ∀-versions over all 2^64 patterns are not proved.  TRUSTED for the transfer to the real code: Go's float64
    operators and math.Floor/Ceil/Abs/Sqrt/Mod/Modf/Frexp/Ldexp are the operations of MathIEEE.lean (the harness
    re-checks this on every request: Go's result must equal the Lean Model bit for bit). -/

section Special
open GLua.IEEE GLua.MathSpec GLua.MathModel

/-- ±0, ±1, ±2, ±3, ±6, ±0.5, ±2.5, ±inf, ±2^53, ±2^63, ± smallest subnormal, ± largest subnormal,
    ± smallest normal, ± largest finite, NaN — the operand set of harness/c15_special.go (quick tier) -/
def spGrid : List Bits :=
  [0, 9223372036854775808, 4607182418800017408, 13830554455654793216, 4611686018427387904, 13835058055282163712,
   4613937818241073152, 13837309855095848960, 4618441417868443648, 13841813454723219456, 4602678819172646912,
   13826050856027422720, 4612811918334230528, 13836183955189006336, 9218868437227405312, 18442240474082181120,
   4845873199050653696, 14069245235905429504, 4890909195324358656, 14114281232179134464, 1, 9223372036854775809,
   4503599627370495, 9227875636482146303, 4503599627370496, 9227875636482146304, 9218868437227405311,
   18442240474082181119, 9221120237041090561]

/-- do the Model's results satisfy the Spec's expectations, result by result -/
def spRefines : Option (List Bits) → Option (List Expect) → Bool
  | some rs, some es => rs.length = es.length ∧ (List.zipWith (fun (e : Expect) r => e.holds r) es rs).all id
  | _, _ => false

/-- **special_fmod_sign** — on every pair of the grid `math.fmod(x, y)` (= `math.Mod`) is a NaN exactly when x is
    infinite, y is zero or an operand is a NaN, and otherwise carries the SIGN BIT OF THE DIVIDEND — zero results
    included (fmod(-6, 3) = fmod(-0, 5) = −0) —, is smaller in magnitude than a finite divisor, and is x itself
    for an infinite divisor. -/
theorem special_fmod_sign :
    spGrid.all (fun x => spGrid.all fun y =>
      match call2 "fmod" x y with
      | some [r] =>
        if isNaN x ∨ isNaN y ∨ isInf x ∨ isZero y then isNaN r
        else !isNaN r && (isNeg r == isNeg x) && (if isInf y then r == x else lt (abs r) (abs y))
      | _ => false) = true := by decide +kernel

example : call2 "fmod" 13841813454723219456 4613937818241073152 = some [9223372036854775808] := by decide +kernel  -- fmod(-6, 3) = −0
example : call2 "fmod" 9223372036854775808 4617315517961601024 = some [9223372036854775808] := by decide +kernel   -- fmod(-0, 5) = −0
example : call2 "fmod" 4618441417868443648 13837309855095848960 = some [0] := by decide +kernel                    -- fmod(6, -3) = +0

/-- **special_unary_refines** — floor, ceil, abs, sqrt, modf, frexp, deg, rad on every grid operand: the wrapper's
    result (Go's function, incl. mathModf's repair of `Modf(±Inf)`) is what C99 / the manual fix, bit for bit where
    they fix bits (signed zeros: floor(-0) = −0, ceil(-0.5) = −0, sqrt(-0) = −0, modf(-inf) = −inf, −0 …). -/
theorem special_unary_refines :
    ["floor", "ceil", "abs", "sqrt", "modf", "frexp", "deg", "rad"].all (fun fn =>
      spGrid.all fun x => spRefines (call1 fn x) (spec1 fn x)) = true := by decide +kernel

/-- **special_binary_refines** — fmod and ldexp (integral exponent operands) on every pair of the grid. -/
theorem special_binary_refines :
    ["fmod", "ldexp"].all (fun fn =>
      spGrid.all fun x => spGrid.all fun y =>
        match call2 fn x y with
        | some r => spRefines (some r) (spec2 fn x y)
        | none => true) = true := by decide +kernel       -- none: exponent outside int64, Go's conversion not modelled

/-- **special_maxmin_refines** — math.max / math.min over every pair and every triple of {±0, ±1, ±inf, NaN}. -/
theorem special_maxmin_refines :
    spGrid.all (fun x => spGrid.all fun y =>
      spRefines ((MathModel.mathMax [x, y]).map ([·])) (specMaxMin true [x, y]) &&
      spRefines ((MathModel.mathMin [x, y]).map ([·])) (specMaxMin false [x, y])) = true ∧
    (let small : List Bits := [0, 9223372036854775808, 4607182418800017408, 13830554455654793216,
        9218868437227405312, 18442240474082181120, 9221120237041090561]
     small.all fun x => small.all fun y => small.all fun z =>
      spRefines ((MathModel.mathMax [x, y, z]).map ([·])) (specMaxMin true [x, y, z]) &&
      spRefines ((MathModel.mathMin [x, y, z]).map ([·])) (specMaxMin false [x, y, z])) = true := by
  constructor <;> decide +kernel

/-- the `%` operator / math.mod at full strength on the grid: `luaModulo` delivers what the Lua 5.1 definition
    `a - math.floor(a/b)*b` fixes. -/
def special_luamod_full : Prop :=
  spGrid.all (fun a => spGrid.all fun b => spRefines (call2 "opmod" a b) (spec2 "opmod" a b)) = true

/-- FALSE (known finding C15-modulo-ieee-specials): `-6 % 3` is −0, the definition gives −6 − (−6) = +0. -/
theorem special_luamod_full_fails : ¬ special_luamod_full := by
  unfold special_luamod_full
  decide +kernel

example : call2 "opmod" 13841813454723219456 4613937818241073152 = some [9223372036854775808] ∧
    luaModFormula 13841813454723219456 4613937818241073152 = 0 := by decide +kernel

/-- **special_luamod_partial** — outside the two operand classes where only the IEEE evaluation of the formula
    says anything (a zero remainder; a finite dividend with an infinite divisor) `luaModulo` is the definition, bit
    for bit: the exact floored remainder rounded once, NaN for an infinite dividend, a zero divisor, a NaN. -/
theorem special_luamod_partial :
    spGrid.all (fun a => spGrid.all fun b =>
      luaModIeeeOnly a b || spRefines (call2 "opmod" a b) (spec2 "opmod" a b)) = true := by decide +kernel

/-- the guard is not vacuous: 5.5-like operands outside the class, with both signs -/
example : luaModIeeeOnly 13837309855095848960 4611686018427387904 = false ∧                       -- -3 % 2 = 1
    call2 "opmod" 13837309855095848960 4611686018427387904 = some [4607182418800017408] := by decide +kernel

/-! ### math.atan2 (repaired finding C15-atan2-underflow-sign)

    `math.Atan2` is not computable in Lean; the wrapper `mathAtan2` is a function of the operands and of Go's
    result `r` (which the harness sends with every request).  The statements quantify over the grid operands and
    over every result Go can deliver there (`atan2Results`) — FINITE, by kernel evaluation. -/

/-- ±0, ±π/4, ±π/2, ±3π/4, ±π and their neighbours one unit in the last place away, ±1, ± the smallest subnormal,
    ± the largest finite number, ±inf, NaN -/
def atan2Results : List Bits :=
  let posR : List Bits := [0, pi4Bits false, pi2Bits false, pi34Bits false, piBits false,
    pi4Bits false + 1, pi2Bits false + 1, pi34Bits false + 1, piBits false + 1,
    pi4Bits false - 1, pi2Bits false - 1, pi34Bits false - 1, piBits false - 1,
    oneBits false, 1, 9218868437227405311, infBits false]
  posR ++ posR.map negate ++ [nanBits]

/-- **special_atan2_sign** — the result carries the sign of y (C99 7.12.4.4): for y < 0 the wrapper never returns a
    positive number, whatever Go's `math.Atan2` answered; for every other y (y ≥ 0, −0, NaN) it returns Go's
    result unchanged. -/
theorem special_atan2_sign :
    spGrid.all (fun y => spGrid.all fun x => atan2Results.all fun r =>
      if lt y (zeroBits false) then !gt (mathAtan2 y x r) (zeroBits false) && mag (mathAtan2 y x r) == mag r
      else mathAtan2 y x r == r) = true := by decide +kernel

/-- **atan2_sign_all** — the same for ALL bit patterns y, x and ANY result r of `math.Atan2` (∀, not a grid):
    for y < 0 the wrapper's result is never greater than zero; for every other y it is Go's result. -/
theorem atan2_sign_all (y x r : Bits) :
    (lt y (zeroBits false) = true → gt (mathAtan2 y x r) (zeroBits false) = false) ∧
    (lt y (zeroBits false) = false → mathAtan2 y x r = r) := by
  constructor
  · intro hy
    unfold mathAtan2
    by_cases hr : gt r (zeroBits false) = true
    · rw [if_pos ⟨hy, hr⟩]
      exact GLua.MathProofs.gt_zero_negate r hr
    · rw [if_neg (fun h => hr h.2)]
      exact Bool.eq_false_iff.mpr hr
  · intro hy
    unfold mathAtan2
    rw [if_neg]
    intro h
    rw [h.1] at hy
    exact Bool.noConfusion hy

/-- **special_atan2_keeps_correct** — the repair never disturbs a result that satisfies C99 F.9.1.4
    (`specAtan2`: all four quadrants, ±0, ±inf, NaN operands): on such a result the wrapper is the identity. -/
theorem special_atan2_keeps_correct :
    spGrid.all (fun y => spGrid.all fun x => atan2Results.all fun r =>
      !(specAtan2 y x).holds r || mathAtan2 y x r == r) = true := by decide +kernel

/-- **special_atan2_underflow_class** — on every grid pair of the class y < 0, x < 0, y/x underflows to zero,
    where Go answers +π: the repaired wrapper's −π satisfies the Spec, and what the code did before the fix
    (`mathAtan2Old`: Go's +π passed through) does not. -/
theorem special_atan2_underflow_class :
    spGrid.all (fun y => spGrid.all fun x =>
      !atan2UnderflowClass y x ||
        ((specAtan2 y x).holds (mathAtan2 y x (piBits false)) && mathAtan2 y x (piBits false) == piBits true &&
         !(specAtan2 y x).holds (mathAtan2Old y x (piBits false)))) = true := by decide +kernel

/-- the wrapper before the fix at full strength: Go's result for the witness `math.atan2(-5e-324, -2)` is +π. -/
def atan2_before_fix_full : Prop :=
  (specAtan2 9223372036854775809 13835058055282163712).holds
    (mathAtan2Old 9223372036854775809 13835058055282163712 (piBits false)) = true

/-- FALSE of the tree before fixes/C15-atan2-underflow-sign.diff: +π for y < 0 (C99: the sign of y, −π). -/
theorem atan2_before_fix_fails : ¬ atan2_before_fix_full := by
  unfold atan2_before_fix_full
  decide +kernel

/-- the class is not empty on the grid, and the repaired wrapper answers −π on the witness -/
example : atan2UnderflowClass 9223372036854775809 13835058055282163712 = true ∧
    call2OfRef "atan2" 9223372036854775809 13835058055282163712 [piBits false] = some [piBits true] ∧
    (specAtan2 9223372036854775809 13835058055282163712).holds (piBits true) = true := by decide +kernel

end Special

end GLua.Props.C15
