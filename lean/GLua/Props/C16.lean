/-
  C16 — text ↔ value round trips: numerals, %q, tostring/tonumber, dates.
  Property theorems only (lemmas live in GLua/Proofs/C16*.lean).

  Spec   : GLua/Spec/Numeral.lean (Lua 5.1 numeral grammar, exact values, correct rounding as a checker),
           GLua/Spec/Quote.lean (string literals, lstrlib addquoted), GLua/Spec/Time.lean (civil time, strftime).
  Model  : GLua/Model/Numeral.lean, Quote.lean, Time.lean — gopher-lua's readers/printers *after* the proposed
           repairs fixes/C16-lua-numeral-reader.diff, C16-lua-quote.diff, C16-strftime-table.diff,
           C16-decimal-escape-range.diff; the unrepaired code is kept as `Pre.*` and every full statement that is
           false of it is negated below from a concrete witness.
  Trusted: rounding of strconv.ParseFloat / shortest digits of FormatFloat, math/big, Go's time calendar (DESIGN §4.5).
  Numbers are exact integers/rationals here; no theorem needs a law of `Float`.
-/
import GLua.Proofs.C16Quote
import GLua.Proofs.C16Numeral
import GLua.Proofs.C16NumeralPre
import GLua.Proofs.C16Printer
import GLua.Proofs.C16Time

namespace GLua.Props.C16
open GLua GLua.NumSpec GLua.NumModel GLua.QuoteModel
open GLua.Proofs.C16Numeral (startsNumber)

/-! ## numerals: the readers agree with the Lua grammar and with each other -/

/-- `numeral_agreement` for a given set of readers (`parse` = utils.go parseNumber, used by the arithmetic
    coercion, LVAsNumber and the compiler; `tonum` = baselib.go baseToNumber; `scan` = the lexer's scanNumber):
    each accepts exactly the Spec's numerals and denotes the Spec's exact value. -/
def NumeralAgreement (parse : Bytes → Option NumV) (tonum : Option Nat → Bytes → BaseRes)
    (scan : Nat → Bytes → LexRes) : Prop :=
  (∀ s, parse s = (numeral s).map NumV.exact) ∧
  (∀ s, tonum none s = .val ((numeral s).map NumV.exact)) ∧
  (∀ b s, 2 ≤ b → b ≤ 36 → tonum (some b) s = .val ((numeralBase b s).map NumV.exact)) ∧
  (∀ s v, literal s = some v → lexNumber scan s = .tok s [] ∧ literalValue parse s = .exact v) ∧
  (∀ ch inp t rest, startsNumber ch inp → scan ch inp = .tok t rest → (literal t).isSome = true)

/-- **numeral_agreement** (repaired readers, full strength): for *every* byte string, the arithmetic coercion,
    `tonumber` (with and without a base 2..36) and the lexer accept exactly the Lua 5.1 numerals — decimal with
    optional fraction and exponent, `0x` hexadecimal integers, blanks and one sign around them for the run-time
    readers — denote the same exact value, and reject everything else; every number token the lexer emits is a
    numeral (the compiler's NaN fallback is unreachable). -/
theorem numeral_agreement : NumeralAgreement parseNumber baseToNumber scanNumber :=
  ⟨Proofs.C16Numeral.parseNumber_eq_spec,
   Proofs.C16Numeral.baseToNumber_none,
   Proofs.C16Numeral.baseToNumber_some,
   fun s v h => ⟨Proofs.C16Numeral.lexNumber_numeral s v h, Proofs.C16Numeral.literalValue_numeral s v h⟩,
   fun ch inp t rest hst h => Proofs.C16Numeral.scanNumber_tok_numeral ch inp t rest hst h⟩

/-- the same statement about the unrepaired readers. -/
def numeral_agreement_pre : Prop :=
  NumeralAgreement Pre.parseNumber (fun b s => .val (Pre.baseToNumber b s)) Pre.scanNumber

/-- ASCII helper for the witnesses below (byte lists are written out; comments give the text). -/
abbrev w010 : Bytes := [48, 49, 48]                      -- "010"

/-- **numeral_agreement_pre_fails**: false of the unrepaired tree — `"010"+0` is 8. -/
theorem numeral_agreement_pre_fails : ¬ numeral_agreement_pre := by
  intro h
  have := h.1 w010
  revert this
  decide

/-- **numeral_agreement_partial** (unrepaired readers, strongest guard proved): on canonical decimal integers of
    the int64 range — `-`? digits, no leading zero, no fraction, no exponent, no blanks, i.e. exactly what
    `tostring` prints for integral values — the unrepaired `parseNumber` (coercion, literals) and `tonumber`
    read the Spec's value.  Outside this guard the witnesses below show each way the full statement fails
    (leading zero, Go-only syntax, exponent without '.', ≥ 2^63, trailing exponent marker, other blanks). -/
theorem numeral_agreement_partial (i : Int) (hlo : -(2 ^ 63 : Int) ≤ i) (hhi : i < 2 ^ 63) :
    Pre.parseNumber (plainInt i) = some (ofInt i) ∧ Pre.baseToNumber none (plainInt i) = some (ofInt i) ∧
    numeral (plainInt i) = some ⟨decide (i < 0), i.natAbs, 0, 0⟩ :=
  ⟨(Proofs.C16Numeral.pre_readers_on_plain_ints i hlo hhi).1, (Proofs.C16Numeral.pre_readers_on_plain_ints i hlo hhi).2,
   Proofs.C16Numeral.numeral_plainInt i⟩

example : Pre.parseNumber (plainInt (-9223372036854775808)) = some (ofInt (-9223372036854775808)) := by decide

/-! the eight-plus ways (DESIGN §1), each a checked fact about the transcribed unrepaired readers -/

/-- `"010"+0 = 8`: ParseInt base 0 reads a leading 0 as octal (Spec: 10). -/
theorem pre_octal : Pre.parseNumber [48, 49, 48] = some (ofInt 8) ∧ numeral [48, 49, 48] = some ⟨false, 10, 0, 0⟩ := by decide
/-- the literal `0010` is lexed as the token `010` (one leading zero dropped) and read as 8. -/
theorem pre_lexer_octal :
    lexNumber Pre.scanNumber [48, 48, 49, 48] = .tok [48, 49, 48] [] ∧
    literalValue Pre.parseNumber [48, 49, 48] = ofInt 8 ∧ literal [48, 48, 49, 48] = some ⟨false, 10, 0, 0⟩ := by decide
/-- `"0b11"+0 = 3`. -/
theorem pre_binary : Pre.parseNumber [48, 98, 49, 49] = some (ofInt 3) ∧ numeral [48, 98, 49, 49] = none := by decide
/-- `"1_0"+0 = 10`. -/
theorem pre_underscore : Pre.parseNumber [49, 95, 48] = some (ofInt 10) ∧ numeral [49, 95, 48] = none := by decide
/-- `"inf"+0 = +Inf`. -/
theorem pre_inf : Pre.parseNumber [105, 110, 102] = some (.inf false) ∧ numeral [105, 110, 102] = none := by decide
/-- `0xffffffffffffffff` (≥ 2^63) is not read: the literal becomes NaN. -/
theorem pre_hex_int64 :
    Pre.parseNumber [48, 120, 102, 102, 102, 102, 102, 102, 102, 102, 102, 102, 102, 102, 102, 102, 102, 102] = none ∧
    numeral [48, 120, 102, 102, 102, 102, 102, 102, 102, 102, 102, 102, 102, 102, 102, 102, 102, 102] =
      some ⟨false, 18446744073709551615, 0, 0⟩ := by decide
/-- `return 3e`: the lexer swallows the end of input into the token (`3e\xff`), the compiler loads NaN. -/
theorem pre_lexer_exponent :
    lexNumber Pre.scanNumber [51, 101] = .tok [51, 101, 255] [] ∧ literalValue Pre.parseNumber [51, 101, 255] = .nan ∧
    literal [51, 101] = none := by decide
/-- `tonumber("1e5") = nil`: without a '.', tonumber only tries ParseInt. -/
theorem pre_tonumber_exponent :
    Pre.baseToNumber none [49, 101, 53] = none ∧ numeral [49, 101, 53] = some ⟨false, 1, 5, 0⟩ := by decide
/-- `tonumber(tostring(1e-7)) = nil`: the printer writes `1e-07`, which tonumber rejects. -/
theorem pre_tostring_roundtrip :
    fmtG false [1] (-6) = [49, 101, 45, 48, 55] ∧ Pre.baseToNumber none [49, 101, 45, 48, 55] = none ∧
    numeral [49, 101, 45, 48, 55] = some ⟨false, 1, -7, 0⟩ := by decide
/-- `tonumber("9223372036854775808") = nil` (2^63 does not fit int64). -/
theorem pre_decimal_int64 :
    Pre.baseToNumber none [57, 50, 50, 51, 51, 55, 50, 48, 51, 54, 56, 53, 52, 55, 55, 53, 56, 48, 56] = none := by decide
/-- `"10\r"+0` fails: only blank, tab and newline are trimmed. -/
theorem pre_blanks : Pre.parseNumber [49, 48, 13] = none ∧ numeral [49, 48, 13] = some ⟨false, 10, 0, 0⟩ := by decide
/-- `tonumber("0x10", 16) = nil` and `tonumber("1.5", 16) = 1.5`. -/
theorem pre_base16 :
    Pre.baseToNumber (some 16) [48, 120, 49, 48] = none ∧ numeralBase 16 [48, 120, 49, 48] = some ⟨false, 16, 0, 0⟩ ∧
    Pre.baseToNumber (some 16) [49, 46, 53] = some (.exact ⟨false, 15, -1, 0⟩) ∧ numeralBase 16 [49, 46, 53] = none := by
  decide +kernel

/-- non-vacuity: the repaired readers on the same inputs. -/
example : parseNumber [48, 49, 48] = some (.exact ⟨false, 10, 0, 0⟩) ∧ parseNumber [48, 98, 49, 49] = none ∧
    baseToNumber none [49, 101, 45, 48, 55] = .val (some (.exact ⟨false, 1, -7, 0⟩)) ∧
    lexNumber scanNumber [51, 101] = .err ∧ lexNumber scanNumber [48, 48, 49, 48] = .tok [48, 48, 49, 48] [] := by decide

/-! ## %q -/

/-- **q_roundtrip** (repaired `%q`, full strength): for every byte string `s`, the lexer model reads
    `string.format('%q', s)` back to exactly `s`. -/
theorem q_roundtrip (s : Bytes) (hs : ∀ c ∈ s, c < 256) : readBack (formatQ s) = some s :=
  Proofs.C16Quote.readBack_formatQ s hs

/-- the repaired `%q` is lstrlib's addquoted, byte for byte. -/
theorem q_is_addquoted (s : Bytes) : formatQ s = QuoteSpec.addquoted s := Proofs.C16Quote.formatQ_eq_addquoted s

/-- the Spec is consistent with itself: the manual's reader reads lstrlib's quoted form back to `s`; together with
    `q_is_addquoted`: the implementation's quoted text *denotes* `s` (Spec) and is *read back* as `s` (Model). -/
theorem q_denotes (s : Bytes) : QuoteSpec.literal (formatQ s) = some s := by
  rw [q_is_addquoted]; exact Proofs.C16Quote.spec_literal_addquoted s

/-- the same statement about Go's `%q` (strconv.Quote), the unrepaired path. -/
def q_roundtrip_pre : Prop := ∀ s q, (∀ c ∈ s, c < 256) → Pre.goQuote s = some q → readBack q = some s

/-- **q_roundtrip_pre_fails**: `"\0"` is quoted as `"\x00"`, which the Lua reader turns into `x00`. -/
theorem q_roundtrip_pre_fails : ¬ q_roundtrip_pre := by
  intro h
  have := h [0] [34, 92, 120, 48, 48, 34] (by decide) (by decide)
  revert this
  decide

/-- the witnesses of DESIGN §1: NUL, DEL, byte 255. -/
theorem pre_quote_witnesses :
    Pre.goQuote [0] = some [34, 92, 120, 48, 48, 34] ∧ readBack [34, 92, 120, 48, 48, 34] = some [120, 48, 48] ∧
    Pre.goQuote [127] = some [34, 92, 120, 55, 102, 34] ∧ Pre.goQuote [255] = some [34, 92, 120, 102, 102, 34] := by decide

example : formatQ [97, 0, 49, 10, 13, 34, 92, 255] = [34, 97, 92, 48, 48, 48, 49, 92, 10, 92, 114, 92, 34, 92, 92, 255, 34] ∧
    readBack (formatQ [97, 0, 49, 10, 13, 34, 92, 255]) = some [97, 0, 49, 10, 13, 34, 92, 255] := by decide

/-- a decimal escape above 255 is rejected after fixes/C16-decimal-escape-range.diff; the unrepaired lexer wraps. -/
theorem decimal_escape_range :
    readBack [34, 92, 50, 53, 54, 34] = none ∧ readBack [34, 92, 50, 53, 54, 34] (wrap := true) = some [0] ∧
    QuoteSpec.literal [34, 92, 50, 53, 54, 34] = none := by decide

/-! ## a literal means the same wherever it stands: line ends before and inside it

  The value side of position independence needs no theorem: the Spec (`QuoteSpec.literalPrefix`, `NumSpec.literal`) and
  the Model (`scanString`, `scanNumber` over the `next` stream) are functions of the text from the literal on — what
  stands before it, how long that is and how the reader chops it up are not among their arguments; that the real
  scanner behaves like them behind every padding and through every loader is what the `pos` requests tie, run by run.
  The line of the token after the literal does depend on the text before it, through `lineEnds` only. -/

/-- **lines_model_refines_spec**: the line counter of Scanner.Next/Newline (CR LF and LF CR paired by peeking into the
    stream) counts exactly the Spec's line ends, for every text. -/
theorem lines_model_refines_spec (s : Bytes) : linesRead s.length s = QuoteSpec.lineEnds s :=
  Proofs.C16Quote.linesRead_eq s.length s s.length (Nat.le_refl _) (Nat.le_refl _)

/-- **line_unmoved_by_padding**: padding without line ends (blanks, the inside of a comment line) in front of a text moves
    no token of it to another line, however long it is. -/
theorem line_unmoved_by_padding (pad : Bytes) (hpad : ∀ b ∈ pad, QuoteSpec.isNl b = false) (s : Bytes) :
    QuoteSpec.lineEnds (pad ++ s) = QuoteSpec.lineEnds s := Proofs.C16Quote.lineEnds_plain_run pad hpad s

/-- **line_after_literal**: a byte that is no line end (the opening quote or bracket of a literal, the `n` of `return`)
    separates the line ends before it from those after it: the token after a literal stands
    `lineEnds (literal)` lines below the literal's first line, whatever precedes the literal. -/
theorem line_after_literal (before : Bytes) (b : Nat) (hb : QuoteSpec.isNl b = false) (rest : Bytes) :
    QuoteSpec.lineEnds (before ++ b :: rest) = QuoteSpec.lineEnds before + QuoteSpec.lineEnds rest :=
  Proofs.C16Quote.lineEnds_sep b hb before rest

example : QuoteSpec.lineEnds [13, 10, 10, 13, 13, 13, 10, 10, 32, 10] = 6 ∧ linesRead 10 [13, 10, 10, 13, 13, 13, 10, 10, 32, 10] = 6 ∧
    QuoteSpec.literal [91, 91, 13, 10, 97, 10, 13, 98, 93, 93] = some [97, 10, 98] ∧
    QuoteSpec.literal [34, 97, 92, 13, 10, 98, 34] = some [97, 10, 98] ∧ readBack [34, 97, 92, 13, 10, 98, 34] = some [97, 10, 98] := by decide

/-! ## integers print as plain digits and read back -/

/-- **int_print_parse**: every integer is printed by the integer branch of LNumber.String as plain decimal digits
    (optional `-`, no leading zero, no fraction, no exponent) and all three readers read it back as exactly that
    integer (the lexer sees the digits of |i|; the sign is an operator). -/
theorem int_print_parse (i : Int) :
    formatInt i = plainInt i ∧
    parseNumber (plainInt i) = some (ofInt i) ∧
    baseToNumber none (plainInt i) = .val (some (ofInt i)) ∧
    lexNumber scanNumber (plainInt i.natAbs) = .tok (plainInt i.natAbs) [] ∧
    literalValue parseNumber (plainInt i.natAbs) = ofInt i.natAbs := by
  have hnum := Proofs.C16Numeral.numeral_plainInt i
  have hlit : literal (plainInt (i.natAbs : Int)) = some ⟨false, i.natAbs, 0, 0⟩ := by
    have hds := Proofs.C16Numeral.natDigits_all (i.natAbs + 1) i.natAbs
    have hne := Proofs.C16Numeral.natDigits_ne_nil i.natAbs i.natAbs
    have hv := Proofs.C16Numeral.natDigits_val (i.natAbs + 1) i.natAbs (by omega)
    show literal (natDigits (i.natAbs + 1) i.natAbs) = _
    unfold literal
    rw [Proofs.C16Numeral.unsigned_digits _ hne hds, hv]
    rfl
  refine ⟨Proofs.C16Numeral.formatInt_eq_plainInt i, ?_, ?_, ?_, ?_⟩
  · rw [Proofs.C16Numeral.parseNumber_eq_spec, hnum]; rfl
  · rw [Proofs.C16Numeral.baseToNumber_none, hnum]; rfl
  · exact Proofs.C16Numeral.lexNumber_numeral _ _ hlit
  · rw [Proofs.C16Numeral.literalValue_numeral _ _ hlit]
    simp [ofInt]

/-- which doubles take the integer branch: exactly the integral ones in the int64 range — in particular every
    integral value below 2^53 (`isInteger v` ⇔ `v == float64(int64(v))`). -/
theorem integral_takes_int_branch (bits : Nat) (i : Int) (hfin : isFiniteBits bits = true)
    (hi : bitsToInt? bits = some i) (hr : -(2 ^ 63 : Int) ≤ i ∧ i < 2 ^ 63) : stringBranch bits = .int i := by
  unfold stringBranch
  have hbe : (bits / 2 ^ 52 % 2048 == 2047) = false := by
    unfold isFiniteBits at hfin
    simpa using hfin
  simp only [hbe, Bool.false_eq_true, if_false, hi, hr, and_self, if_true]

/-- **tostring_float_readable** (the glue of the non-integer round trip): whatever shortest digits strconv supplies
    (non-empty, each 0..9; decimal point position in the range of doubles), the text that the float branch of
    LNumber.String lays out (`1e-07`, `1.2345675e+06`, `0.0001`, `123456.5` …) is a Lua numeral, so the repaired
    tonumber and coercion accept it; that the digits denote x again is strconv's shortest-round-trip law (trusted,
    and checked on every sampled float).  False of the unrepaired tonumber: `pre_tostring_roundtrip`. -/
theorem tostring_float_readable (neg : Bool) (ds : List Nat) (dp : Int) (hne : ds ≠ []) (hd : ∀ d ∈ ds, d < 10)
    (hlo : -998 ≤ dp) (hhi : dp ≤ 1000) :
    (numeral (fmtG neg ds dp)).isSome = true ∧ (parseNumber (fmtG neg ds dp)).isSome = true ∧
    baseToNumber none (fmtG neg ds dp) = .val (parseNumber (fmtG neg ds dp)) := by
  have h := Proofs.C16Numeral.fmtG_numeral neg ds dp hne hd hlo hhi
  refine ⟨h, ?_, ?_⟩
  · rw [Proofs.C16Numeral.parseNumber_eq_spec]
    cases hn : numeral (fmtG neg ds dp) with
    | none => rw [hn] at h; simp at h
    | some v => rfl
  · rw [Proofs.C16Numeral.baseToNumber_none, Proofs.C16Numeral.parseNumber_eq_spec]

example : fmtG false [1] (-6) = [49, 101, 45, 48, 55] ∧ fmtG true [1, 2, 3, 4, 5, 6, 7, 5] 7 =
    [45, 49, 46, 50, 51, 52, 53, 54, 55, 53, 101, 43, 48, 54] ∧ fmtG false [1] (-3) = [48, 46, 48, 48, 48, 49] := by decide

example : stringBranch 0x4340000000000000 = .int 9007199254740992 ∧ formatInt 9007199254740992 =
    [57, 48, 48, 55, 49, 57, 57, 50, 53, 52, 55, 52, 48, 57, 57, 50] ∧
    stringBranch 0x43E0000000000000 = .float false ∧ stringBranch 0x3FB999999999999A = .float false := by decide

/-! ## time -/

open GLua.TimeSpec GLua.TimeModel

/-- **time_roundtrip** (glue over the trusted calendar): if Go's `time.Date(civil t).Unix() = t` in the process's
    zone (a zone without transitions), then `os.time(os.date("*t", t)) = t` for every whole second `t`. -/
theorem time_roundtrip (cal : Cal)
    (law : ∀ t, cal.unix (cal.civil t).year (cal.civil t).month (cal.civil t).day (cal.civil t).hour
                  (cal.civil t).min (cal.civil t).sec = t) (t : Int) :
    osTimeOfFields cal (osDateTable cal t) = t :=
  Proofs.C16Time.osTime_osDate cal law t

/-- the table regenerated from utils.go is a sub-table of the proof's reference table (order-insensitive; a changed
    entry breaks this obligation). -/
theorem table_is_reference : ∀ e ∈ Generated.cDateFlagToGo, e.1 = 99 ∨ e ∈ Proofs.C16Time.goodTable :=
  Proofs.C16Time.table_is_reference'

/-- no directive occurs twice in the regenerated table (so the map lookup is the list lookup). -/
theorem table_lookup : ∀ e ∈ Generated.cDateFlagToGo, lookupFlag e.1 = some e.2 := Proofs.C16Time.table_lookup'

/-- every directive the Spec defines is supported: it is in the regenerated table, or is `%w`. -/
theorem table_covers_spec : ∀ c ∈ Proofs.C16Time.specDirs, c = 119 ∨ ∃ e ∈ Generated.cDateFlagToGo, e.1 = c ∧ e.1 ≠ 99 :=
  Proofs.C16Time.specDirs_in_table

/-- **strftime_directives**: every directive the Spec gives a text for (a A b B d H I m M p S w x X y Y Z and the
    extensions F P z — everything in the regenerated `cDateFlagToGo` table except the locale-defined `%c`, plus `%w`)
    is rendered, through the model of time.Format, exactly as the C-locale directive — from the same broken-down
    fields, for all valid field values. -/
theorem strftime_directives (f : Fields) (hv : Proofs.C16Time.Valid f) (c : Nat) (b : Bytes)
    (h : directive c f = .text b) : renderFlag f c = some b :=
  Proofs.C16Time.renderFlag_spec f hv c b h

/-- **strftime_refines**: for every format string the Spec gives a meaning to (literal text, `%%`, a lone trailing
    `%`, supported directives), utils.go strftime over its flagScanner produces exactly the Spec's text. -/
theorem strftime_refines (f : Fields) (hv : Proofs.C16Time.Valid f) (cfmt b : Bytes)
    (h : TimeSpec.strftime f cfmt = some b) : TimeModel.strftime f cfmt = some b :=
  Proofs.C16Time.strftime_refines f hv cfmt b h

example : TimeSpec.strftime ⟨2024, 2, 29, 23, 59, 59, 5, 60⟩ [37, 89, 45, 37, 109, 45, 37, 100, 32, 37, 37, 32, 37] =
    some [50, 48, 50, 52, 45, 48, 50, 45, 50, 57, 32, 37, 32, 37] := by decide

/-- the unrepaired entries: `%a` → layout "mon" renders the literal text, `%x` → "15/04/05" renders a time. -/
theorem strftime_pre_fails :
    let f : Fields := ⟨1970, 1, 1, 0, 0, 0, 5, 1⟩
    goFormat f 4 [109, 111, 110] = some [109, 111, 110] ∧ directive 97 f = .text [84, 104, 117] ∧
    goFormat f 9 [49, 53, 47, 48, 52, 47, 48, 53] = some [48, 48, 47, 48, 48, 47, 48, 48] ∧
    directive 120 f = .text [48, 49, 47, 48, 49, 47, 55, 48] := by decide

example : Proofs.C16Time.Valid ⟨2024, 2, 29, 23, 59, 59, 5, 60⟩ :=
  ⟨by decide, by decide, by decide, by decide, by decide, by decide, by decide⟩

end GLua.Props.C16
