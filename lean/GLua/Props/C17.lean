/-
  C17 (mechanism part) — errors and debug queries report the right source line and variables.
  Property theorems only (lemmas: GLua/Proofs/Scopes*.lean).  Model: GLua/Model/Scopes.lean — a transcription
  of compile.go (RegisterLocalVar / EnterBlock / LeaveBlock / EndScope), function.go (LocalName) and state.go
  (findLocal, Get/SetLocal, Get/SetUpvalue, GetStack, where, raiseError), tied to the code by the `C17M`
  correspondence check on every run.  Spec: GLua/Spec/ScopeSpec.lean.

  The theorems are about `Cfg.fixed` = the code AFTER fixes/C17-local-scope-ranges.diff and
  fixes/C17-findlocal-nonpositive-index.diff; for the code as it is at /repo HEAD (`Cfg.orig`) the same
  statements are refuted below by concrete witnesses.
-/
import GLua.Proofs.ScopesFrame
import GLua.Proofs.ScopesLam
import GLua.Proofs.LinesMain
import GLua.Proofs.LinesRange

namespace GLua.Props.C17
open GLua GLua.Scopes

/-! ## scopes -/

/-- the body `local a; <i>; do local x; <i> end; <i>; local b; <i>; <i>` -/
def witnessOps : List Op :=
  [.declare "a", .instr, .enter, .declare "x", .instr, .leave, .instr, .declare "b", .instr, .instr]

/-- **KNOWN DEFECT, refuted for the code as it is**: with `EndScope` indexing `DbgLocals` by register number the
    dead inner local `x` stays in scope and `b` is never listed (DESIGN §1, C17). -/
theorem localname_enumerates_scope_fails_at_head : ¬ EnumeratesScope .orig := by
  intro h
  have := h witnessOps
    { fc := { locals := [⟨"a", 0, 5⟩, ⟨"x", 1, 5⟩, ⟨"b", 3, 0⟩], block := { offset := 0, names := ["a", "b"], dbg := [0, 2] },
              pc := 6, regTop := 2 }, regs := [0, 1, 1], ipcs := [0, 1, 2, 3, 4] }
    (by decide) (by decide)
  revert this; decide

/-- the declaration-index repair alone is not enough: the recorded range is one instruction short at both ends
    (`EndPc = LastPC()` with the test `pc < EndPc`; `StartPc < pc` although StartPc is the first pc of the scope). -/
theorem localname_enumerates_scope_fails_with_index_fix_only : ¬ EnumeratesScope .indexOnly := by
  intro h
  have := h witnessOps
    { fc := { locals := [⟨"a", 0, 5⟩, ⟨"x", 1, 1⟩, ⟨"b", 3, 5⟩], block := { offset := 0, names := ["a", "b"], dbg := [0, 2] },
              pc := 6, regTop := 2 }, regs := [0, 1, 1], ipcs := [0, 1, 2, 3, 4] }
    (by decide) (by decide)
  revert this; decide

/-- **localname_enumerates_scope** (repaired code) — for EVERY well-nested function body, at EVERY instruction,
    the sweep `LocalName(1, pc), LocalName(2, pc), …` over the finished `DbgLocals` table returns exactly the
    variables the Spec has in scope there, in declaration order (names incl. the internal `(for …)` ones; the
    property's "named variables" are the sub-list not starting with `(`). -/
theorem localname_enumerates_scope : EnumeratesScope .fixed := enumeratesScope_fixed

/-- the LocalName half on its own, for an arbitrary table: the sweep lists the entries whose range contains
    `pc`, in table order, up to the first entry that starts after `pc`. -/
theorem localname_sweep_is_visible (ls : List DbgLocalInfo) (pc : Int) :
    enumLocals .fixed ls pc = visible ls pc := enumLocals_fixed ls pc

/-- **local_scopes_laminar** (repaired code) — the pc ranges produced for any well-nested body are nested or
    disjoint, and start pcs are non-decreasing in declaration order. -/
theorem local_scopes_laminar (ops : List Op) (ls : List DbgLocalInfo)
    (hwn : ScopeSpec.wellNested (specEvs ops) = true) (hc : dbgLocalsOf .fixed ops = .ok ls) : Laminar ls :=
  laminar_fixed ops ls hwn hc

/-- P2, stated and sampled by the correspondence tie (values read through `LocalBase + no - 1` are compared with
    the values Lua itself reads), not yet proved: the register RegisterLocalVar returned for the n-th variable
    of the sweep is n-1. -/
def RegisterIsPosition : Prop :=
  ∀ (ops : List Op) (t : Trace), ScopeSpec.wellNested (specEvs ops) = true → compileOps .fixed ops = .ok t →
    ∀ p ∈ t.ipcs,
      ((List.range t.fc.locals.length).filter (fun i => match t.fc.locals[i]? with
          | some l => decide (l.startPc ≤ p ∧ p < l.endPc) | none => false)).map (fun i => t.regs[i]?)
        = (List.range (enumLocals .fixed t.fc.locals p).length).map some

/-! ## frame condition of SetLocal -/

/-- **setlocal_writes_only_that** — `SetLocal(frame, no, v)` of the repaired code either finds no variable and
    leaves the registry untouched, or `no ≥ 1` and every register other than `LocalBase + no - 1` keeps its value;
    the written register then reads back `v`. -/
theorem setlocal_writes_only_that {V : Type} (ls : List DbgLocalInfo) (fr : FrameView) (r r' : Reg V) (nil lv : V)
    (no : Int) (name : String) (h : setLocal .fixed ls fr r nil no lv = .ok (name, r')) :
    (name.length = 0 → r' = r) ∧
    (name.length > 0 → 1 ≤ no ∧ name = findLocal .fixed ls fr no ∧ r'.get (fr.localBase + no - 1) = .ok lv ∧
        ∀ j : Nat, (j : Int) ≠ fr.localBase + no - 1 → j < r.array.length → r'.array[j]? = r.array[j]?) := by
  unfold setLocal at h
  simp only at h
  split at h
  · rename_i hpos
    cases hs : r.set nil (fr.localBase + no - 1) lv with
    | error e => rw [hs] at h; cases h
    | ok r2 =>
      rw [hs] at h
      simp only [Except.map, Except.ok.injEq, Prod.mk.injEq] at h
      obtain ⟨hn, hr⟩ := h
      subst hn; subst hr
      refine ⟨fun h0 => by omega, fun _ => ⟨?_, rfl, Reg.set_same r r2 nil lv _ hs, fun j hj hlt => Reg.set_other r r2 nil lv _ hs j hj hlt⟩⟩
      apply findLocal_fixed_pos ls fr no
      intro he; rw [he] at hpos; simp at hpos
  · rename_i hpos
    simp only [Except.ok.injEq, Prod.mk.injEq] at h
    obtain ⟨hn, hr⟩ := h
    subst hn; subst hr
    exact ⟨fun _ => rfl, fun h0 => by simp at h0⟩

/-- refuted for the code as it is: `debug.setlocal(level, -1, v)` overwrites a register BELOW the frame's
    LocalBase, i.e. a variable of the calling function (frame at LocalBase 5, the write lands in register 3). -/
theorem setlocal_writes_only_that_fails_at_head :
    ¬ (∀ (ls : List DbgLocalInfo) (fr : FrameView) (r r' : Reg Nat) (no : Int) (name : String),
        setLocal .orig ls fr r 0 no 7 = .ok (name, r') → name.length > 0 →
        ∀ j : Nat, (j : Int) < fr.localBase → r'.array[j]? = r.array[j]?) := by
  intro h
  have := h [] { isG := false, pc := 1, localBase := 5, isCurrent := false, hasNext := true, nextBase := 8, top := 10 }
    { array := List.replicate 10 0, top := 10 } { array := [0, 0, 0, 7, 0, 0, 0, 0, 0, 0], top := 10 } (-1) "(*temporary)"
    (by decide) (by decide) 3 (by decide)
  revert this; decide

/-! ## levels -/

/-- **where_level** — level arithmetic of `raiseError` / `where` / `GetStack` (incl. today's `error level 2` fix):
    when a host function (`error`, or any function calling RaiseError) raises at level `n ≥ 1` on a stack without
    lost tail-call frames, the position is that of the n-th running function above it, host functions skipped
    outwards: level 1 = the function that called `error`, level 2 = the function that called that function. -/
theorem where_level (rest : List Frame) (sp n : Nat) (h : NoLost rest) (hl : LinesOk rest) :
    raiseWhere ({ isG := true } :: rest) sp ((n + 1 : Nat) : Int) =
      .ok (some (specRes (ScopeSpec.callerAt (rest.map toFn) (n + 1)))) := by
  have hpos : ((n + 1 : Nat) : Int) > 0 := by omega
  unfold raiseWhere
  simp only [hpos, if_true]
  have hfs : NoLost ({ isG := true } :: rest) := by
    intro f hf; rcases List.mem_cons.1 hf with rfl | hf
    · intro hh; cases hh
    · exact h f hf
  have hls : LinesOk ({ isG := true } :: rest) := by
    intro f hf; rcases List.mem_cons.1 hf with rfl | hf
    · intro hh; cases hh
    · exact hl f hf
  have hc : ((n + 1 : Nat) : Int) - 1 + 1 = ((n + 1 : Nat) : Int) := by omega
  rw [hc, whereM_noLost _ hfs hls sp (n + 1), callerAt_firstLua rest hl n]
  simp [Except.map]

/-- a run-time error raised by the VM itself (current frame is the Lua function, level 1) is positioned at that
    function's current line. -/
theorem where_level_vm (f : Frame) (rest : List Frame) (sp l : Nat) (hf : f.isG = false) (hline : f.line = some l) :
    raiseWhere (f :: rest) sp 1 = .ok (some (.pos l)) := by
  unfold raiseWhere whereM
  simp [hf, whereAux, getStack, getStackLoop, frameOf, hline, Except.map]

/-- tail calls: the level that falls on a lost frame is answered with the BOTTOM frame of the stack (`ls.stack.At(0)`),
    not with "no position" as in PUC-Lua — recorded behaviour of the model (and of the code), outside the property text. -/
example : getStack [{ isG := true }, { isG := false, tailCall := 1, line := some 2 }, { isG := false, line := some 9 }] 3 2
    = .bottom := by decide

/-! non-vacuity -/
example : NoLost [{ isG := false, line := some 5 }, { isG := true }, { isG := false, line := some 9 }] ∧
    LinesOk [{ isG := false, line := some 5 }, { isG := true }, { isG := false, line := some 9 }] ∧
    raiseWhere [{ isG := true }, { isG := false, line := some 5 }, { isG := true }, { isG := false, line := some 9 }] 4 2
      = .ok (some (.pos 9)) := by
  refine ⟨?_, ?_, by decide⟩ <;> intro f hf <;> simp at hf <;> rcases hf with rfl | rfl | rfl <;> simp

example : ScopeSpec.wellNested (specEvs witnessOps) = true ∧
    (compileOps .fixed witnessOps).map (fun t => t.ipcs.map (enumLocals .fixed t.fc.locals))
      = .ok [["a"], ["a", "x"], ["a"], ["a", "b"], ["a", "b"]] := by decide

/-! ## the line table (`FunctionProto.DbgSourcePositions`)

  Model: GLua/Model/CompileLines.lean — on top of the function-by-function compile model of the C01M fragment
  (conditions, logical / relational / arithmetic operators, unary minus, #, .., local and multiple assignment,
  if / while / repeat / return, `patchCode`), the `line` argument of every `Add` call of compile.go, `Pop` / `SetA`,
  and the parser actions that give every AST node its `Line()` / `LastLine()`; tied entry by entry to the real
  compiler's `DbgSourcePositions` by the `linetab` family of `./check C17M` (programs rendered in multi-line layouts).
  Spec: GLua/Spec/LineAst.lean — the source as a tree of tokens with their lines; span of a statement = [line of its
  first token, line of its last token]; `Mono` = the lines never decrease in source order.
  All theorems are for EVERY number structure (the constants folded at compile time do not influence a position). -/

section LineTable
open GLua.Compile GLua.Lines GLua.MiniVM
variable [NumStruct]

/-- **erasure** — the line layer is parallel to the existing compile model: for every program of the fragment the
    table has exactly one entry per instruction the model emits for the position-free program (so every theorem
    about that model — Props/C01, C07 — speaks about the instruction each entry belongs to). -/
theorem line_table_parallel_to_code (p : TProg) :
    (compLines p).length = (compileMain p.nlocals p.body.erase).code.length := compLines_length p

/-- … and to the finished prototype: `patchCode` (JMP→NOP, jump threading, MOVE→MOVEN) rewrites words in place;
    `len(Code) = len(DbgSourcePositions)` (the field `nLines` of the C07 prototype model). -/
theorem line_table_parallel_to_proto (p : TProg) (pr : Verifier.Proto) (h : fragProto p.nlocals p.body.erase = .ok pr) :
    pr.code.size = (compLines p).length ∧ pr.nLines = (compLines p).length := compLines_length_proto p pr h

/-- the table = the entries written by the statements, then the final RETURN's; every statement entry has a statement. -/
theorem line_table_shape (p : TProg) :
    compLines p = stmtLines p ++ [finalLine p] ∧ (stmtSpans p).length = (stmtLines p).length :=
  ⟨compLines_eq p, stmtSpans_length p⟩

/-- **line_in_statement_span** — for EVERY program of the fragment whose token lines never decrease and EVERY pc
    (other than the final RETURN's, which belongs to no statement): the line recorded for the instruction at pc lies
    within [line of the first token, line of the last token] of the INNERMOST statement whose compilation wrote that
    instruction (`stmtSpans`: the same compile functions run on the program in which every node carries the span of
    the innermost statement it belongs to; the prologue `local … = ...` is a statement).  Pop-and-reuse of a slot
    (Propagate(K)MV, the JMP removed by compileLogicalOpExpr, the CONCAT-popping loop), the `SetA` retargeting and
    `patchCode` do not break this: the full statement holds, no guard. -/
theorem line_in_statement_span (p : TProg) (hm : Mono p.toks) (pc l : Nat) (sp : Span)
    (hl : (stmtLines p)[pc]? = some l) (hs : (stmtSpans p)[pc]? = some sp) : inSpan l sp := by
  rw [stmtLines_eq_tagged, List.getElem?_map] at hl
  simp only [stmtSpans, List.getElem?_map] at hs
  cases hx : (bodyTagged p)[pc]? with
  | none => rw [hx] at hl; cases hl
  | some x =>
    rw [hx] at hl hs
    simp only [Option.map_some, Option.some.injEq] at hl hs
    subst hl; subst hs
    exact bodyTagged_good p hm x (List.mem_of_getElem? hx)

/-- **single_line_statement_exact** — when that statement occupies a single line, the recorded line IS that line. -/
theorem single_line_statement_exact (p : TProg) (hm : Mono p.toks) (pc l : Nat) (sp : Span)
    (hl : (stmtLines p)[pc]? = some l) (hs : (stmtSpans p)[pc]? = some sp) (h1 : sp.1 = sp.2) : l = sp.1 := by
  have := line_in_statement_span p hm pc l sp hl hs
  unfold inSpan at this
  omega

/-- **statement_code_range** — the same property by CODE RANGES, compositionally: compile ANY statement of the fragment
    from ANY store (whatever was compiled before; `WF`: one entry per instruction): the table only grows at its end —
    no `Pop` of the statement's compilation reaches below the point where the statement started —, the grown table is
    again parallel to the code of the existing model, and every entry at a position [len before, len after) — the code
    of the statement, nested statements included — is a line within the statement's span.  Applied to every
    (sub-)statement of a program this is: the line recorded at pc lies in the span of EVERY statement whose code
    contains pc, in particular of the innermost one. -/
theorem statement_code_range (s : TStmt) (hm : Mono s.toks) (S : LState Nat) (hS : WF S) :
    ∃ δ, (compStmtL (toAStmt s) S).lines = S.lines ++ δ ∧
      (compStmtL (toAStmt s) S).lines.length = (compileStmt s.erase S.st).code.length ∧
      ∀ l ∈ δ, inSpan l s.span := by
  obtain ⟨δ, h1, h2, h3⟩ := stmt_code_lines s S hS
  refine ⟨δ, h1, ?_, fun l hl => mono_inSpan hm (h2 l hl)⟩
  rw [← toAStmt_erase s, ← compStmtL_st]; exact h3

/-- **header_code_range** — block headers: the instructions the condition of an `if` / `while` / `repeat … until`
    compiles to (compileBranchCondition, from any store) carry lines within the HEADER of the statement:
    [line of `if`, line of `then`], [line of `while`, line of `do`], [line of `until`, line of the condition's last token]. -/
theorem header_code_range (s : TStmt) (hm : Mono s.toks) (c : TCond) (hc : s.cond? = some c) (S : LState Nat) (hS : WF S)
    (thenl elsel : Nat) :
    ∃ δ, (compileBranchConditionL S S.st.regTop (toA c) thenl elsel false).lines = S.lines ++ δ ∧
      ∀ l ∈ δ, inSpan l s.header := by
  obtain ⟨δ, h1, h2, _⟩ := expr_code_lines c (.bc S.st.regTop thenl elsel false) S hS (Nat.le_refl _)
  exact ⟨δ, h1, fun l hl => cond_toks_in_header s hm c hc l (h2 l hl)⟩

/-- **expression_code_range** — the instructions of an expression (any mode: value, operand of and/or, branch condition;
    from any store whose register top is not above the working register) carry lines of the expression's own tokens. -/
theorem expression_code_range (c : TCond) (m : Mode) (S : LState Nat) (hS : WF S) (htop : S.st.regTop ≤ m.reg) :
    ∃ δ, (compL (toA c) m S).S.lines = S.lines ++ δ ∧ ∀ l ∈ δ, l ∈ c.toks := by
  obtain ⟨δ, h1, h2, _⟩ := expr_code_lines c m S hS htop
  exact ⟨δ, h1, h2⟩

/-- **lines_shift_invariant** — line information is a function of token positions only: moving every token from
    line l to line σ l (ANY σ; inserting blank or comment lines is an order-preserving one) moves every entry written by
    a statement from l to σ l … -/
theorem lines_shift_invariant (p : TProg) (σ : Nat → Nat) : stmtLines (p.mapLines σ) = (stmtLines p).map σ :=
  stmtLines_mapLines σ p

/-- … and the final RETURN's entry is (line the last statement's `eline` moved to) + 1 — `Compile` sets
    `LastLine = eline(last statement) + 1` —, 0 for an empty chunk. -/
theorem final_line_shift (p : TProg) (σ : Nat → Nat) :
    finalLine (p.mapLines σ) = match lastEline p with | some l => σ l + 1 | none => 0 :=
  finalLine_mapLines σ p

/-- the full statement (EVERY entry moves with σ) … -/
def LinesShiftInvariantFull : Prop :=
  ∀ (p : TProg) (σ : Nat → Nat), (∀ a b, a < b → σ a < σ b) → compLines (p.mapLines σ) = (compLines p).map σ

/-- … is FALSE of the code: the final RETURN is recorded on "line of the last statement + 1", which is not the line of
    any token (it may not exist in the file).  Witness: the chunk `return` on line 1 and σ l = 2 l (a blank line inserted
    before every line): the table [1, 2] becomes [2, 3], not [2, 4].  Not observable through error messages (the final
    RETURN cannot fail and gopher-lua has no line hooks); recorded as an observation, not a finding. -/
theorem lines_shift_invariant_full_fails : ¬ LinesShiftInvariantFull := by
  intro h
  have := h { nlocals := 0, body := .cons (.ret 1 []) .nil } (fun l => 2 * l) (fun a b hab => by omega)
  have h1 : compLines (TProg.mapLines (fun l => 2 * l) { nlocals := 0, body := .cons (.ret 1 []) .nil }) = [2, 3] := rfl
  have h2 : (compLines { nlocals := 0, body := .cons (.ret 1 []) .nil }).map (fun l => 2 * l) = [2, 4] := rfl
  rw [h1, h2] at this
  revert this; decide

end LineTable

/-! non-vacuity of the line-table theorems: `exampleProg` (Proofs/LinesMain.lean: an if/else with a condition spread over
    three lines, a multiple assignment over five, a while loop, a two-line return), integer number structure -/
section
open GLua.Compile GLua.Lines
attribute [local instance] lineNS

example : Mono exampleProg.toks ∧
    compLines exampleProg = [1, 2, 2, 3, 3, 6, 6, 2, 9, 9, 9, 8, 8, 8, 14, 14, 15, 15, 16, 17, 16, 17] ∧
    stmtSpans exampleProg = [(1, 1), (2, 13), (2, 13), (2, 13), (2, 13), (6, 6), (6, 6), (2, 13), (8, 12), (8, 12), (8, 12),
      (8, 12), (8, 12), (8, 12), (14, 15), (14, 15), (15, 15), (14, 15), (16, 17), (16, 17), (16, 17)] ∧
    (compileMain exampleProg.nlocals exampleProg.body.erase).code.length = 22 := by
  decide +kernel

/-- `statement_code_range` / `header_code_range` on the while loop of `exampleProg` (lines 14–15), compiled from a store
    that already holds the prologue and a first statement -/
example :
    let S0 : LState Nat := compBodyL 2 1 (toABlock (.cons (.localDef 3 (.num 3 7)) .nil))
    let s : TStmt := .whileS 14 (.not 14 (.loc 14 0)) 14 (.cons (.assign (15, .loc 0) [] [.ev 15 1]) .nil) 15
    S0.lines.length = S0.st.code.length ∧ S0.lines = [1, 3] ∧ Mono s.toks ∧ s.span = (14, 15) ∧ s.header = (14, 14) ∧
    (compStmtL (toAStmt s) S0).lines = S0.lines ++ [14, 14, 15, 15] ∧
    (compileBranchConditionL S0 S0.st.regTop (toA (.not 14 (.loc 14 0))) 1 2 false).lines = S0.lines ++ [14, 14] := by
  decide +kernel

/-- the same text with two blank lines in front and one more before every line from 9 on -/
example : stmtLines (exampleProg.mapLines fun l => if l < 9 then l + 2 else l + 3) =
    [3, 4, 4, 5, 5, 8, 8, 4, 12, 12, 12, 10, 10, 10, 17, 17, 18, 18, 19, 20, 19] := by decide +kernel
end

end GLua.Props.C17

