/-
  C17 (mechanism part) — errors and debug queries report the right source line and variables.
  Property theorems only (lemmas: GLua/Proofs/Scopes*.lean).  Model: GLua/Model/Scopes.lean — a transcription
  of compile.go (RegisterLocalVar / EnterBlock / LeaveBlock / EndScope), function.go (LocalName) and state.go
  (findLocal, Get/SetLocal, Get/SetUpvalue, GetStack, where, raiseError), tied to the code by the `C17M`
  correspondence check on every run.  Spec: GLua/Spec/ScopeSpec.lean.

  The theorems are about `Cfg.fixed` = the code AFTER fixes/C17-local-scope-ranges.diff and
  fixes/C17-findlocal-nonpositive-index.diff; for the code as it is at /repo HEAD (`Cfg.orig`) the same
  statements are refuted below by concrete witnesses.
-/
import GLua.Proofs.ScopesFrame
import GLua.Proofs.ScopesLam

namespace GLua.Props.C17
open GLua GLua.Scopes

/-! ## scopes -/

/-- the body `local a; <i>; do local x; <i> end; <i>; local b; <i>; <i>` -/
def witnessOps : List Op :=
  [.declare "a", .instr, .enter, .declare "x", .instr, .leave, .instr, .declare "b", .instr, .instr]

/-- **KNOWN DEFECT, refuted for the code as it is**: with `EndScope` indexing `DbgLocals` by register number the
    dead inner local `x` stays in scope and `b` is never listed (DESIGN §1, C17). -/
theorem localname_enumerates_scope_fails_at_head : ¬ EnumeratesScope .orig := by
  intro h
  have := h witnessOps
    { fc := { locals := [⟨"a", 0, 5⟩, ⟨"x", 1, 5⟩, ⟨"b", 3, 0⟩], block := { offset := 0, names := ["a", "b"], dbg := [0, 2] },
              pc := 6, regTop := 2 }, regs := [0, 1, 1], ipcs := [0, 1, 2, 3, 4] }
    (by decide) (by decide)
  revert this; decide

/-- the declaration-index repair alone is not enough: the recorded range is one instruction short at both ends
    (`EndPc = LastPC()` with the test `pc < EndPc`; `StartPc < pc` although StartPc is the first pc of the scope). -/
theorem localname_enumerates_scope_fails_with_index_fix_only : ¬ EnumeratesScope .indexOnly := by
  intro h
  have := h witnessOps
    { fc := { locals := [⟨"a", 0, 5⟩, ⟨"x", 1, 1⟩, ⟨"b", 3, 5⟩], block := { offset := 0, names := ["a", "b"], dbg := [0, 2] },
              pc := 6, regTop := 2 }, regs := [0, 1, 1], ipcs := [0, 1, 2, 3, 4] }
    (by decide) (by decide)
  revert this; decide

/-- **localname_enumerates_scope** (repaired code) — for EVERY well-nested function body, at EVERY instruction,
    the sweep `LocalName(1, pc), LocalName(2, pc), …` over the finished `DbgLocals` table returns exactly the
    variables the Spec has in scope there, in declaration order (names incl. the internal `(for …)` ones; the
    property's "named variables" are the sub-list not starting with `(`). -/
theorem localname_enumerates_scope : EnumeratesScope .fixed := enumeratesScope_fixed

/-- the LocalName half on its own, for an arbitrary table: the sweep lists the entries whose range contains
    `pc`, in table order, up to the first entry that starts after `pc`. -/
theorem localname_sweep_is_visible (ls : List DbgLocalInfo) (pc : Int) :
    enumLocals .fixed ls pc = visible ls pc := enumLocals_fixed ls pc

/-- **local_scopes_laminar** (repaired code) — the pc ranges produced for any well-nested body are nested or
    disjoint, and start pcs are non-decreasing in declaration order. -/
theorem local_scopes_laminar (ops : List Op) (ls : List DbgLocalInfo)
    (hwn : ScopeSpec.wellNested (specEvs ops) = true) (hc : dbgLocalsOf .fixed ops = .ok ls) : Laminar ls :=
  laminar_fixed ops ls hwn hc

/-- P2, stated and sampled by the correspondence tie (values read through `LocalBase + no - 1` are compared with
    the values Lua itself reads), not yet proved: the register RegisterLocalVar returned for the n-th variable
    of the sweep is n-1. -/
def RegisterIsPosition : Prop :=
  ∀ (ops : List Op) (t : Trace), ScopeSpec.wellNested (specEvs ops) = true → compileOps .fixed ops = .ok t →
    ∀ p ∈ t.ipcs,
      ((List.range t.fc.locals.length).filter (fun i => match t.fc.locals[i]? with
          | some l => decide (l.startPc ≤ p ∧ p < l.endPc) | none => false)).map (fun i => t.regs[i]?)
        = (List.range (enumLocals .fixed t.fc.locals p).length).map some

/-! ## frame condition of SetLocal -/

/-- **setlocal_writes_only_that** — `SetLocal(frame, no, v)` of the repaired code either finds no variable and
    leaves the registry untouched, or `no ≥ 1` and every register other than `LocalBase + no - 1` keeps its value;
    the written register then reads back `v`. -/
theorem setlocal_writes_only_that {V : Type} (ls : List DbgLocalInfo) (fr : FrameView) (r r' : Reg V) (nil lv : V)
    (no : Int) (name : String) (h : setLocal .fixed ls fr r nil no lv = .ok (name, r')) :
    (name.length = 0 → r' = r) ∧
    (name.length > 0 → 1 ≤ no ∧ name = findLocal .fixed ls fr no ∧ r'.get (fr.localBase + no - 1) = .ok lv ∧
        ∀ j : Nat, (j : Int) ≠ fr.localBase + no - 1 → j < r.array.length → r'.array[j]? = r.array[j]?) := by
  unfold setLocal at h
  simp only at h
  split at h
  · rename_i hpos
    cases hs : r.set nil (fr.localBase + no - 1) lv with
    | error e => rw [hs] at h; cases h
    | ok r2 =>
      rw [hs] at h
      simp only [Except.map, Except.ok.injEq, Prod.mk.injEq] at h
      obtain ⟨hn, hr⟩ := h
      subst hn; subst hr
      refine ⟨fun h0 => by omega, fun _ => ⟨?_, rfl, Reg.set_same r r2 nil lv _ hs, fun j hj hlt => Reg.set_other r r2 nil lv _ hs j hj hlt⟩⟩
      apply findLocal_fixed_pos ls fr no
      intro he; rw [he] at hpos; simp at hpos
  · rename_i hpos
    simp only [Except.ok.injEq, Prod.mk.injEq] at h
    obtain ⟨hn, hr⟩ := h
    subst hn; subst hr
    exact ⟨fun _ => rfl, fun h0 => by simp at h0⟩

/-- refuted for the code as it is: `debug.setlocal(level, -1, v)` overwrites a register BELOW the frame's
    LocalBase, i.e. a variable of the calling function (frame at LocalBase 5, the write lands in register 3). -/
theorem setlocal_writes_only_that_fails_at_head :
    ¬ (∀ (ls : List DbgLocalInfo) (fr : FrameView) (r r' : Reg Nat) (no : Int) (name : String),
        setLocal .orig ls fr r 0 no 7 = .ok (name, r') → name.length > 0 →
        ∀ j : Nat, (j : Int) < fr.localBase → r'.array[j]? = r.array[j]?) := by
  intro h
  have := h [] { isG := false, pc := 1, localBase := 5, isCurrent := false, hasNext := true, nextBase := 8, top := 10 }
    { array := List.replicate 10 0, top := 10 } { array := [0, 0, 0, 7, 0, 0, 0, 0, 0, 0], top := 10 } (-1) "(*temporary)"
    (by decide) (by decide) 3 (by decide)
  revert this; decide

/-! ## levels -/

/-- **where_level** — level arithmetic of `raiseError` / `where` / `GetStack` (incl. today's `error level 2` fix):
    when a host function (`error`, or any function calling RaiseError) raises at level `n ≥ 1` on a stack without
    lost tail-call frames, the position is that of the n-th running function above it, host functions skipped
    outwards: level 1 = the function that called `error`, level 2 = the function that called that function. -/
theorem where_level (rest : List Frame) (sp n : Nat) (h : NoLost rest) (hl : LinesOk rest) :
    raiseWhere ({ isG := true } :: rest) sp ((n + 1 : Nat) : Int) =
      .ok (some (specRes (ScopeSpec.callerAt (rest.map toFn) (n + 1)))) := by
  have hpos : ((n + 1 : Nat) : Int) > 0 := by omega
  unfold raiseWhere
  simp only [hpos, if_true]
  have hfs : NoLost ({ isG := true } :: rest) := by
    intro f hf; rcases List.mem_cons.1 hf with rfl | hf
    · intro hh; cases hh
    · exact h f hf
  have hls : LinesOk ({ isG := true } :: rest) := by
    intro f hf; rcases List.mem_cons.1 hf with rfl | hf
    · intro hh; cases hh
    · exact hl f hf
  have hc : ((n + 1 : Nat) : Int) - 1 + 1 = ((n + 1 : Nat) : Int) := by omega
  rw [hc, whereM_noLost _ hfs hls sp (n + 1), callerAt_firstLua rest hl n]
  simp [Except.map]

/-- a run-time error raised by the VM itself (current frame is the Lua function, level 1) is positioned at that
    function's current line. -/
theorem where_level_vm (f : Frame) (rest : List Frame) (sp l : Nat) (hf : f.isG = false) (hline : f.line = some l) :
    raiseWhere (f :: rest) sp 1 = .ok (some (.pos l)) := by
  unfold raiseWhere whereM
  simp [hf, whereAux, getStack, getStackLoop, frameOf, hline, Except.map]

/-- tail calls: the level that falls on a lost frame is answered with the BOTTOM frame of the stack (`ls.stack.At(0)`),
    not with "no position" as in PUC-Lua — recorded behaviour of the model (and of the code), outside the property text. -/
example : getStack [{ isG := true }, { isG := false, tailCall := 1, line := some 2 }, { isG := false, line := some 9 }] 3 2
    = .bottom := by decide

/-! non-vacuity -/
example : NoLost [{ isG := false, line := some 5 }, { isG := true }, { isG := false, line := some 9 }] ∧
    LinesOk [{ isG := false, line := some 5 }, { isG := true }, { isG := false, line := some 9 }] ∧
    raiseWhere [{ isG := true }, { isG := false, line := some 5 }, { isG := true }, { isG := false, line := some 9 }] 4 2
      = .ok (some (.pos 9)) := by
  refine ⟨?_, ?_, by decide⟩ <;> intro f hf <;> simp at hf <;> rcases hf with rfl | rfl | rfl <;> simp

example : ScopeSpec.wellNested (specEvs witnessOps) = true ∧
    (compileOps .fixed witnessOps).map (fun t => t.ipcs.map (enumLocals .fixed t.fc.locals))
      = .ok [["a"], ["a", "x"], ["a"], ["a", "b"], ["a", "b"]] := by decide

end GLua.Props.C17
