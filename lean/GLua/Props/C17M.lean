/-
  C17M — audit namespace of the MECHANISM part of C17: every property theorem of GLua/Props/C17.lean is
  re-exported here under the namespace the check script audits (`./check C17M`).
-/
import GLua.Props.C17

namespace GLua.Props.C17M
open GLua GLua.Scopes

theorem localname_enumerates_scope_fails_at_head : ¬ EnumeratesScope .orig :=
  GLua.Props.C17.localname_enumerates_scope_fails_at_head
theorem localname_enumerates_scope_fails_with_index_fix_only : ¬ EnumeratesScope .indexOnly :=
  GLua.Props.C17.localname_enumerates_scope_fails_with_index_fix_only
theorem localname_enumerates_scope : EnumeratesScope .fixed := GLua.Props.C17.localname_enumerates_scope
theorem localname_sweep_is_visible (ls : List DbgLocalInfo) (pc : Int) :
    enumLocals .fixed ls pc = visible ls pc := GLua.Props.C17.localname_sweep_is_visible ls pc
theorem local_scopes_laminar (ops : List Op) (ls : List DbgLocalInfo)
    (hwn : ScopeSpec.wellNested (specEvs ops) = true) (hc : dbgLocalsOf .fixed ops = .ok ls) : Laminar ls :=
  GLua.Props.C17.local_scopes_laminar ops ls hwn hc
theorem setlocal_writes_only_that {V : Type} (ls : List DbgLocalInfo) (fr : FrameView) (r r' : Reg V) (nil lv : V)
    (no : Int) (name : String) (h : setLocal .fixed ls fr r nil no lv = .ok (name, r')) :
    (name.length = 0 → r' = r) ∧
    (name.length > 0 → 1 ≤ no ∧ name = findLocal .fixed ls fr no ∧ r'.get (fr.localBase + no - 1) = .ok lv ∧
        ∀ j : Nat, (j : Int) ≠ fr.localBase + no - 1 → j < r.array.length → r'.array[j]? = r.array[j]?) :=
  GLua.Props.C17.setlocal_writes_only_that ls fr r r' nil lv no name h
theorem setlocal_writes_only_that_fails_at_head :
    ¬ (∀ (ls : List DbgLocalInfo) (fr : FrameView) (r r' : Reg Nat) (no : Int) (name : String),
        setLocal .orig ls fr r 0 no 7 = .ok (name, r') → name.length > 0 →
        ∀ j : Nat, (j : Int) < fr.localBase → r'.array[j]? = r.array[j]?) :=
  GLua.Props.C17.setlocal_writes_only_that_fails_at_head
theorem where_level (rest : List Frame) (sp n : Nat) (h : NoLost rest) (hl : LinesOk rest) :
    raiseWhere ({ isG := true } :: rest) sp ((n + 1 : Nat) : Int) =
      .ok (some (specRes (ScopeSpec.callerAt (rest.map toFn) (n + 1)))) :=
  GLua.Props.C17.where_level rest sp n h hl
theorem where_level_vm (f : Frame) (rest : List Frame) (sp l : Nat) (hf : f.isG = false) (hline : f.line = some l) :
    raiseWhere (f :: rest) sp 1 = .ok (some (.pos l)) :=
  GLua.Props.C17.where_level_vm f rest sp l hf hline

/-! the line table (Model/CompileLines.lean) -/
section LineTable
open GLua.Compile GLua.Lines GLua.MiniVM
variable [NumStruct]

theorem line_table_parallel_to_code (p : TProg) :
    (compLines p).length = (compileMain p.nlocals p.body.erase).code.length :=
  GLua.Props.C17.line_table_parallel_to_code p
theorem line_table_parallel_to_proto (p : TProg) (pr : Verifier.Proto) (h : fragProto p.nlocals p.body.erase = .ok pr) :
    pr.code.size = (compLines p).length ∧ pr.nLines = (compLines p).length :=
  GLua.Props.C17.line_table_parallel_to_proto p pr h
theorem line_table_shape (p : TProg) :
    compLines p = stmtLines p ++ [finalLine p] ∧ (stmtSpans p).length = (stmtLines p).length :=
  GLua.Props.C17.line_table_shape p
theorem line_in_statement_span (p : TProg) (hm : Mono p.toks) (pc l : Nat) (sp : Span)
    (hl : (stmtLines p)[pc]? = some l) (hs : (stmtSpans p)[pc]? = some sp) : inSpan l sp :=
  GLua.Props.C17.line_in_statement_span p hm pc l sp hl hs
theorem single_line_statement_exact (p : TProg) (hm : Mono p.toks) (pc l : Nat) (sp : Span)
    (hl : (stmtLines p)[pc]? = some l) (hs : (stmtSpans p)[pc]? = some sp) (h1 : sp.1 = sp.2) : l = sp.1 :=
  GLua.Props.C17.single_line_statement_exact p hm pc l sp hl hs h1
theorem statement_code_range (s : TStmt) (hm : Mono s.toks) (S : LState Nat) (hS : WF S) :
    ∃ δ, (compStmtL (toAStmt s) S).lines = S.lines ++ δ ∧
      (compStmtL (toAStmt s) S).lines.length = (compileStmt s.erase S.st).code.length ∧
      ∀ l ∈ δ, inSpan l s.span :=
  GLua.Props.C17.statement_code_range s hm S hS
theorem header_code_range (s : TStmt) (hm : Mono s.toks) (c : TCond) (hc : s.cond? = some c) (S : LState Nat) (hS : WF S)
    (thenl elsel : Nat) :
    ∃ δ, (compileBranchConditionL S S.st.regTop (toA c) thenl elsel false).lines = S.lines ++ δ ∧
      ∀ l ∈ δ, inSpan l s.header :=
  GLua.Props.C17.header_code_range s hm c hc S hS thenl elsel
theorem expression_code_range (c : TCond) (m : Mode) (S : LState Nat) (hS : WF S) (htop : S.st.regTop ≤ m.reg) :
    ∃ δ, (compL (toA c) m S).S.lines = S.lines ++ δ ∧ ∀ l ∈ δ, l ∈ c.toks :=
  GLua.Props.C17.expression_code_range c m S hS htop
theorem lines_shift_invariant (p : TProg) (σ : Nat → Nat) : stmtLines (p.mapLines σ) = (stmtLines p).map σ :=
  GLua.Props.C17.lines_shift_invariant p σ
theorem final_line_shift (p : TProg) (σ : Nat → Nat) :
    finalLine (p.mapLines σ) = match lastEline p with | some l => σ l + 1 | none => 0 :=
  GLua.Props.C17.final_line_shift p σ
theorem lines_shift_invariant_full_fails : ¬ GLua.Props.C17.LinesShiftInvariantFull :=
  GLua.Props.C17.lines_shift_invariant_full_fails

end LineTable

end GLua.Props.C17M
