/-
  C17M — audit namespace of the MECHANISM part of C17: every property theorem of GLua/Props/C17.lean is
  re-exported here under the namespace the check script audits (`./check C17M`).
-/
import GLua.Props.C17

namespace GLua.Props.C17M
open GLua GLua.Scopes

theorem localname_enumerates_scope_fails_at_head : ¬ EnumeratesScope .orig :=
  GLua.Props.C17.localname_enumerates_scope_fails_at_head
theorem localname_enumerates_scope_fails_with_index_fix_only : ¬ EnumeratesScope .indexOnly :=
  GLua.Props.C17.localname_enumerates_scope_fails_with_index_fix_only
theorem localname_enumerates_scope : EnumeratesScope .fixed := GLua.Props.C17.localname_enumerates_scope
theorem localname_sweep_is_visible (ls : List DbgLocalInfo) (pc : Int) :
    enumLocals .fixed ls pc = visible ls pc := GLua.Props.C17.localname_sweep_is_visible ls pc
theorem local_scopes_laminar (ops : List Op) (ls : List DbgLocalInfo)
    (hwn : ScopeSpec.wellNested (specEvs ops) = true) (hc : dbgLocalsOf .fixed ops = .ok ls) : Laminar ls :=
  GLua.Props.C17.local_scopes_laminar ops ls hwn hc
theorem setlocal_writes_only_that {V : Type} (ls : List DbgLocalInfo) (fr : FrameView) (r r' : Reg V) (nil lv : V)
    (no : Int) (name : String) (h : setLocal .fixed ls fr r nil no lv = .ok (name, r')) :
    (name.length = 0 → r' = r) ∧
    (name.length > 0 → 1 ≤ no ∧ name = findLocal .fixed ls fr no ∧ r'.get (fr.localBase + no - 1) = .ok lv ∧
        ∀ j : Nat, (j : Int) ≠ fr.localBase + no - 1 → j < r.array.length → r'.array[j]? = r.array[j]?) :=
  GLua.Props.C17.setlocal_writes_only_that ls fr r r' nil lv no name h
theorem setlocal_writes_only_that_fails_at_head :
    ¬ (∀ (ls : List DbgLocalInfo) (fr : FrameView) (r r' : Reg Nat) (no : Int) (name : String),
        setLocal .orig ls fr r 0 no 7 = .ok (name, r') → name.length > 0 →
        ∀ j : Nat, (j : Int) < fr.localBase → r'.array[j]? = r.array[j]?) :=
  GLua.Props.C17.setlocal_writes_only_that_fails_at_head
theorem where_level (rest : List Frame) (sp n : Nat) (h : NoLost rest) (hl : LinesOk rest) :
    raiseWhere ({ isG := true } :: rest) sp ((n + 1 : Nat) : Int) =
      .ok (some (specRes (ScopeSpec.callerAt (rest.map toFn) (n + 1)))) :=
  GLua.Props.C17.where_level rest sp n h hl
theorem where_level_vm (f : Frame) (rest : List Frame) (sp l : Nat) (hf : f.isG = false) (hline : f.line = some l) :
    raiseWhere (f :: rest) sp 1 = .ok (some (.pos l)) :=
  GLua.Props.C17.where_level_vm f rest sp l hf hline

end GLua.Props.C17M
