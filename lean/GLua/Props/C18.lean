/-
  C18 — the table library keeps list semantics; sort gives an ordered permutation, no crash.
  Property theorems only (lemmas: GLua/Proofs/TableLib.lean).

  Model  = GLua/Model/TableLib.lean (tableInsert/Remove/Concat/GetN/MaxN/Sort of /repo/tablelib.go and baseUnpack
           of /repo/baselib.go, WITH fixes/C18-*.diff applied) on top of GLua/Model/Table.lean (= /repo/table.go).
  Spec   = GLua/Spec/TableLib.lean (the Lua 5.1 manual on a plain `List`).
  `IsList t l` (GLua/Proofs/TableLib.lean): table `t` holds exactly the list `l` — array part = the elements of `l`
  followed by any number of nil slots (what `t[#t] = nil` leaves behind), no integer key in the hash part.

  Guards that appear below and why:
    `t.array.length + 1 < t.mai`   the array part stays below MaxArrayIndex (beyond: C09's recorded findings)
    `pos < 2^63`, int64 bounds     Go `int` is 64 bit
  What is trusted about `sort.Sort`: it is *some* finite adaptive sequence of Less/Swap calls with indices below
  Len() (`Strategy`, `Strategy.InRange`); that it orders the slice under a strict weak order is not proved here.
-/
import GLua.Proofs.TableLib

namespace GLua.Props.C18
open GLua GLua.Table GLua.TableLib GLua.TableLibSpec

/-! ### table.insert -/

/-- **insert_spec** — `table.insert(t, pos, v)` with `1 ≤ pos ≤ n+1` on any table holding a list (with any
    number of trailing nil slots) succeeds and leaves exactly the manual's list. -/
theorem insert_spec {t : Tbl} {l : List Val} (h : IsList t l) (pos : Nat) (v : Val)
    (h1 : 1 ≤ pos) (h2 : pos ≤ l.length + 1) (hm : t.array.length + 1 < t.mai) (hp : pos < 2^63) :
    ∃ t', tableInsert t [some (.int pos), some v] = .ok t' ∧ IsList t' (insertAt l pos v) ∧
      t'.array.length ≤ t.array.length + 1 ∧ t'.mai = t.mai := by
  obtain ⟨k, hk⟩ := h.arr
  obtain ⟨k', ha, hd, hmai, hlen⟩ := insert_array_listArr t l k pos v hk h1 h2 hm
  refine ⟨Table.insert t pos (some v), ?_, ⟨⟨k', ?_⟩, ?_⟩, hlen, hmai⟩
  · have := checkInt_int [some v] (pos : Int) (by omega) (by omega)
    simp only [tableInsert, this]; rfl
  · rw [ha, insertAt, insertIdx_eq_take_drop _ _ _ (by omega)]
  · rw [hd]; exact h.noInt

/-- `table.insert(t, v)`: the default position is `n+1`, also when the array part carries trailing nil slots. -/
theorem insert_default_spec {t : Tbl} {l : List Val} (h : IsList t l) (v : Val) :
    ∃ t', tableInsert t [some v] = .ok t' ∧ IsList t' (insertEnd l v) ∧
      t'.array.length ≤ t.array.length + 1 ∧ t'.mai = t.mai := by
  refine ⟨append t (some v), rfl, ?_, append_length_le t _, append_mai t _⟩
  have : insertEnd l v = l ++ [v] := by simp [insertEnd, insertAt]
  rw [this]; exact h.append v

example : ∃ t l, IsList t l ∧ l.length = 2 ∧ t.array.length = 3 ∧ t.array.length + 1 < t.mai :=
  ⟨{ array := [some (.int 1), some (.int 2), none] }, [.int 1, .int 2], ⟨⟨1, rfl⟩, fun _ => rfl⟩, rfl, rfl, by decide⟩

/-! ### table.remove -/

/-- **remove_spec** — `table.remove(t, pos)` with `1 ≤ pos ≤ n` returns the removed element and closes the gap. -/
theorem remove_spec {t : Tbl} {l : List Val} (h : IsList t l) (pos : Nat)
    (h1 : 1 ≤ pos) (h2 : pos ≤ l.length) (hp : pos < 2^63) :
    ∃ t', tableRemove t [some (.int pos)] = .ok (t', (removeAt l pos).2) ∧ IsList t' (removeAt l pos).1 ∧
      t'.array.length ≤ t.array.length ∧ t'.mai = t.mai := by
  obtain ⟨k, hk⟩ := h.arr
  have hle := h.length_le
  have hr := remove_inRange t pos h1 (by omega)
  refine ⟨{ t with array := t.array.eraseIdx (pos - 1) }, ?_, ⟨⟨k, ?_⟩, h.noInt⟩, ?_, rfl⟩
  · have := checkInt_int [] (pos : Int) (by omega) (by omega)
    simp only [tableRemove, this]
    show Except.ok (remove t pos) = _
    rw [hr, hk, getElem?_listArr]; rfl
  · simp only [hk, removeAt]
    rw [eraseIdx_listArr l k (pos - 1) (by omega), List.eraseIdx_eq_take_drop_succ]
    have : pos - 1 + 1 = pos := by omega
    rw [this]
  · simp [List.length_eraseIdx]; split <;> omega

/-- `table.remove(t)` on a non-empty list removes and returns `t[n]` (REPAIRED code: default position `tbl.Len()`),
    whatever number of trailing nil slots the array part carries. -/
theorem remove_default_spec {t : Tbl} {l : List Val} (h : IsList t l) (hne : l ≠ []) (hp : l.length < 2^63) :
    ∃ t', tableRemove t [] = .ok (t', (removeLast l).2) ∧ IsList t' (removeLast l).1 ∧
      t'.array.length ≤ t.array.length ∧ t'.mai = t.mai := by
  have hpos : 1 ≤ l.length := List.length_pos_iff.mpr hne
  obtain ⟨t', h1, h2, h3, h4⟩ := remove_spec h l.length hpos (Nat.le_refl _) hp
  refine ⟨t', ?_, h2, h3, h4⟩
  have hr := remove_inRange t l.length hpos h.length_le
  have := checkInt_int [] (l.length : Int) (by omega) (by omega)
  simp only [tableRemove, this] at h1
  simp only [tableRemove, h.len_eq]
  exact h1

/-- a table with a trailing nil slot: `t = {1,2,3}; t[3] = nil`. -/
def holeTbl : Tbl :=
  rawSet (rawSet (rawSet (rawSet {} (.int 1) (some (.int 1))) (.int 2) (some (.int 2))) (.int 3) (some (.int 3))) (.int 3) none

theorem holeTbl_isList : IsList holeTbl [.int 1, .int 2] := ⟨⟨1, by decide⟩, fun _ => rfl⟩

/-- the same statement for the UNREPAIRED `tableRemove` (default `tbl.Remove(-1)`)… -/
def remove_default_unfixed_full : Prop :=
  ∀ (t : Tbl) (l : List Val), IsList t l → l ≠ [] →
    ∃ t', tableRemoveOld t [] = .ok (t', (removeLast l).2) ∧ IsList t' (removeLast l).1

/-- …is false: after `t = {1,2,3}; t[3] = nil`, `table.remove(t)` returned nil and left `{1,2}` (witness of §1). -/
theorem remove_default_unfixed_fails : ¬ remove_default_unfixed_full := by
  intro hf
  obtain ⟨t', h1, _⟩ := hf holeTbl [.int 1, .int 2] holeTbl_isList (by simp)
  have h2 : tableRemoveOld holeTbl [] = .ok (remove holeTbl (-1)) := rfl
  rw [h2] at h1
  have h3 : (remove holeTbl (-1)).2 = (removeLast [Val.int 1, Val.int 2]).2 := by
    injection h1 with h1; rw [h1]
  revert h3; decide

/-- what the unrepaired default does prove: with no trailing nil slot it is the manual's remove. -/
theorem remove_default_unfixed_partial {t : Tbl} {l : List Val} (h : t.array = l.map some)
    (hd : ∀ i : Int, alGet t.dict (.int i) = none) (hne : l ≠ []) :
    ∃ t', tableRemoveOld t [] = .ok (t', (removeLast l).2) ∧ IsList t' (removeLast l).1 := by
  have hpos : 1 ≤ l.length := List.length_pos_iff.mpr hne
  have hl : t.array.length = l.length := by simp [h]
  refine ⟨{ t with array := t.array.dropLast }, ?_, ⟨⟨0, ?_⟩, hd⟩⟩
  · show Except.ok (remove t (-1)) = _
    unfold remove
    have a0 : ¬ (t.array.length = 0) := by omega
    have a1 : ¬ ((-1 : Int) - 1 ≥ (t.array.length : Int)) := by omega
    have a2 : ((-1 : Int) - 1 = (t.array.length : Int) - 1 ∨ (-1 : Int) - 1 < 0) := by omega
    simp only [a0, a1, a2, if_false, if_true]
    simp only [removeLast, removeAt, h, List.getLast?_map, List.getLast?_eq_getElem?]
    cases hx : l[l.length - 1]? <;> simp [hx]
  · simp only [removeLast, removeAt, h, listArr_zero]
    rw [List.drop_length, List.append_nil, List.dropLast_eq_take, List.map_take]
    simp

/-! ### table.concat -/

/-- **concat_spec** — for `i > j`, or `1 ≤ i` and `j ≤ n`, the (repaired) body of `tableConcat` returns exactly the
    manual's string `t[i]..sep..···..t[j]` (the empty string when `i > j`), and raises when an element in the
    range is neither a string nor a number.  `top` (the number of arguments passed) is arbitrary. -/
theorem concat_spec {t : Tbl} {l : List Val} (h : IsList t l) (hs : t.array.length < t.mai)
    (top : Nat) (sep : String) (i j : Int) (hd : i > j ∨ (1 ≤ i ∧ j ≤ l.length)) :
    match TableLibSpec.concat l sep i j with
    | some s => concatCore true t top sep i j = .ok (.str s)
    | none => ∃ m, concatCore true t top sep i j = .error (.luaError m) := by
  unfold TableLibSpec.concat concatCore
  by_cases c : i > j
  · simp [c]
  · have hij : i ≤ j := by omega
    have hd' : 1 ≤ i ∧ j ≤ (l.length : Int) := by rcases hd with hd | hd; · omega
                                                  · exact hd
    have c1 : ¬ (top = 3 ∧ (i > (len t : Int) ∨ i < 1)) := by rw [h.len_eq]; omega
    have m1 : intMin i (l.length : Int) = i := by unfold intMin; split <;> omega
    have m2 : intMin j (l.length : Int) = j := by unfold intMin; split <;> omega
    have m3 : intMax i 1 = i := by unfold intMax; split <;> omega
    have e1 : intMax (intMin i (len t)) 1 = i := by rw [h.len_eq, m1, m3]
    have e2 : intMin (intMin j (len t)) (len t) = j := by rw [h.len_eq, m2, m2]
    simp only [c, and_false, if_false, c1, e1, e2, intRange]
    have := concatLoop_spec h hs i (j - i + 1).toNat
    cases hr : allSome ((upFrom i (j - i + 1).toNat).map (fun k => strOf (index l k))) with
    | none =>
      rw [hr] at this
      obtain ⟨m, hm⟩ := this
      simp only [Option.map_none, hm]
      exact ⟨m, rfl⟩
    | some ss =>
      rw [hr] at this
      simp only [Option.map_some, this]

/-- how the four arities reach the body: defaults `sep = ""`, `i = 1`, `j = #t`. -/
theorem concat_reads_args (t : Tbl) (sep : String) (i j : Int)
    (hi : -(2^63 : Int) ≤ i ∧ i < 2^63) (hj : -(2^63 : Int) ≤ j ∧ j < 2^63) :
    tableConcat t [] = concatCore true t 1 "" 1 (len t) ∧
    tableConcat t [some (.str sep)] = concatCore true t 2 sep 1 (len t) ∧
    tableConcat t [some (.str sep), some (.int i)] = concatCore true t 3 sep i (len t) ∧
    tableConcat t [some (.str sep), some (.int i), some (.int j)] = concatCore true t 4 sep i j := by
  refine ⟨rfl, rfl, ?_, ?_⟩
  · have e2 := optInt_int [some (.str sep), some (.int i)] 3 1 i rfl hi.1 hi.2
    have e1 : optString [some (.str sep), some (.int i)] 2 "" = .ok sep := rfl
    have e3 : optInt [some (.str sep), some (.int i)] 4 (len t) = .ok (len t) := rfl
    simp only [tableConcat, tableConcatG, e1, e2, e3, bind, Except.bind]; rfl
  · have e2 := optInt_int [some (.str sep), some (.int i), some (.int j)] 3 1 i rfl hi.1 hi.2
    have e1 : optString [some (.str sep), some (.int i), some (.int j)] 2 "" = .ok sep := rfl
    have e3 := optInt_int [some (.str sep), some (.int i), some (.int j)] 4 (len t) j rfl hj.1 hj.2
    simp only [tableConcat, tableConcatG, e1, e2, e3, bind, Except.bind]; rfl

/-- the full range statement for the UNREPAIRED `tableConcat`… -/
def concat_unfixed_full : Prop :=
  ∀ (t : Tbl) (l : List Val) (top : Nat) (sep : String) (i j : Int), IsList t l → t.array.length < t.mai →
    (i > j ∨ (1 ≤ i ∧ j ≤ l.length)) →
    match TableLibSpec.concat l sep i j with
    | some s => concatCore false t top sep i j = .ok (.str s)
    | none => ∃ m, concatCore false t top sep i j = .error (.luaError m)

def threeTbl : Tbl := { array := [some (.int 1), some (.int 2), some (.int 3)] }
theorem threeTbl_isList : IsList threeTbl [.int 1, .int 2, .int 3] := ⟨⟨0, rfl⟩, fun _ => rfl⟩

/-- …is false: `table.concat({1,2,3}, ",", 5, 4)` gave "3" (clamping before the `i > j` test), and
    `table.concat({1,2,3}, ",", 2, 2)` gave the *number* 2. -/
theorem concat_unfixed_fails : ¬ concat_unfixed_full := by
  intro hf
  have := hf threeTbl [.int 1, .int 2, .int 3] 4 "2c" 5 4 threeTbl_isList (by decide) (Or.inl (by decide))
  have hs : TableLibSpec.concat [.int 1, .int 2, .int 3] "2c" 5 4 = some "" := by simp [TableLibSpec.concat]
  rw [hs] at this
  have e : concatCore false threeTbl 4 "2c" 5 4 = .ok (.int 3) := rfl
  rw [e] at this
  cases this

theorem concat_unfixed_number_result : concatCore false threeTbl 4 "2c" 2 2 = .ok (.int 2) := rfl

/-! ### unpack, maxn, getn -/

/-- **unpack_spec** — `unpack(t, i, j)` returns `t[i], …, t[j]` for every integer range (nil outside `1..n`). -/
theorem unpack_spec {t : Tbl} {l : List Val} (h : IsList t l) (hs : t.array.length < t.mai) (i j : Int) :
    unpackCore t i j = unpack l i j := by
  unfold unpackCore unpack intRange
  exact unpackLoop_spec h hs i _

theorem unpack_default_spec {t : Tbl} {l : List Val} (h : IsList t l) (hs : t.array.length < t.mai) :
    baseUnpack t [] = .ok (unpackDefault l) := by
  have : baseUnpack t [] = .ok (unpackCore t 1 (len t)) := rfl
  rw [this, h.len_eq, unpack_spec h hs]; rfl

/-- **maxn_getn_spec** — on a list both are `n`, with any number of trailing nil slots. -/
theorem maxn_getn_spec {t : Tbl} {l : List Val} (h : IsList t l) :
    tableMaxN t = maxn l ∧ tableGetN t = getn l ∧ len t = l.length :=
  ⟨h.maxN_eq, h.len_eq, h.len_eq⟩

example : tableMaxN holeTbl = 2 ∧ tableGetN holeTbl = 2 ∧ holeTbl.array.length = 3 := by decide

/-! ### histories: library calls mixed with direct assignments -/

/-- the operations of the property's histories. -/
inductive ListOp where
  | insertEnd (v : Val)               -- table.insert(t, v)
  | insertAt (pos : Nat) (v : Val)    -- table.insert(t, pos, v)
  | removeLast                        -- table.remove(t)
  | removeAt (pos : Nat)              -- table.remove(t, pos)
  | assign (i : Nat) (v : Val)        -- t[i] = v      (1 ≤ i ≤ n+1)
  | clearLast                         -- t[#t] = nil
  | setField (h : String) (v : OVal)  -- t["…"] = v

/-- the property's ranges. -/
def ListOp.inDomain (l : LList) : ListOp → Prop
  | .insertEnd _ => True
  | .insertAt pos _ => 1 ≤ pos ∧ pos ≤ l.length + 1
  | .removeLast => l ≠ []
  | .removeAt pos => 1 ≤ pos ∧ pos ≤ l.length
  | .assign i _ => 1 ≤ i ∧ i ≤ l.length + 1
  | .clearLast => l ≠ []
  | .setField _ _ => True

/-- the manual's effect and result. -/
def specStep (l : LList) : ListOp → LList × OVal
  | .insertEnd v => (insertEnd l v, none)
  | .insertAt pos v => (insertAt l pos v, none)
  | .removeLast => removeLast l
  | .removeAt pos => removeAt l pos
  | .assign i v => (if i = l.length + 1 then l ++ [v] else l.set (i - 1) v, none)
  | .clearLast => (l.dropLast, none)
  | .setField _ _ => (l, none)

/-- what gopher-lua does (Lua-level calls with the wire arguments). -/
def modelStep (t : Tbl) : ListOp → Except Err (Tbl × OVal)
  | .insertEnd v => (tableInsert t [some v]).map (·, none)
  | .insertAt pos v => (tableInsert t [some (.int pos), some v]).map (·, none)
  | .removeLast => tableRemove t []
  | .removeAt pos => tableRemove t [some (.int pos)]
  | .assign i v => (luaSet t (some (.int i)) false (some v)).map (·, none)
  | .clearLast => (luaSet t (some (.int (len t))) false none).map (·, none)
  | .setField h v => (luaSet t (some (.str h)) false v).map (·, none)

/-- **assign_spec / step_refines** — one in-range operation on a table holding a list gives the manual's result
    and again a table holding the manual's list. -/
theorem step_refines {t : Tbl} {l : List Val} (h : IsList t l) (op : ListOp) (hd : op.inDomain l)
    (hm : t.array.length + 1 < t.mai) (hm2 : t.mai ≤ 2^63) :
    ∃ t', modelStep t op = .ok (t', (specStep l op).2) ∧ IsList t' (specStep l op).1 ∧
      t'.array.length ≤ t.array.length + 1 ∧ t'.mai = t.mai := by
  have hle := h.length_le
  obtain ⟨k, hk⟩ := h.arr
  cases op with
  | insertEnd v =>
    obtain ⟨t', h1, h2, h3, h4⟩ := insert_default_spec h v
    exact ⟨t', by simp only [modelStep, h1]; rfl, h2, h3, h4⟩
  | insertAt pos v =>
    obtain ⟨hd1, hd2⟩ := hd
    obtain ⟨t', h1, h2, h3, h4⟩ := insert_spec h pos v hd1 hd2 hm (by omega)
    exact ⟨t', by simp only [modelStep, h1]; rfl, h2, h3, h4⟩
  | removeLast =>
    obtain ⟨t', h1, h2, h3, h4⟩ := remove_default_spec h hd (by omega)
    exact ⟨t', h1, h2, by omega, h4⟩
  | removeAt pos =>
    obtain ⟨hd1, hd2⟩ := hd
    obtain ⟨t', h1, h2, h3, h4⟩ := remove_spec h pos hd1 hd2 (by omega)
    exact ⟨t', h1, h2, by omega, h4⟩
  | assign i v =>
    obtain ⟨hd1, hd2⟩ := hd
    have hidx : arrIdx t.mai (.int (i : Int)) = some i := arrIdx_int (by omega) (by omega)
    refine ⟨setArr t i (some v), ?_, ?_, ?_, by simp⟩
    · simp only [modelStep, luaSet, rawSet, hidx]; rfl
    · simp only [specStep]
      by_cases c : i = l.length + 1
      · subst c
        simp only [if_true]
        exact ⟨⟨k - 1, setArr_listArr_end t l k v hk⟩, by rw [setArr_dict]; exact h.noInt⟩
      · simp only [c, if_false]
        exact ⟨⟨k, setArr_listArr_mid t l k i v hk hd1 (by omega)⟩, by rw [setArr_dict]; exact h.noInt⟩
    · by_cases c : i = l.length + 1
      · subst c; rw [setArr_listArr_end t l k v hk]; simp [hk]; omega
      · rw [setArr_listArr_mid t l k i v hk hd1 (by omega)]; simp [hk]
  | clearLast =>
    have hpos : 1 ≤ l.length := List.length_pos_iff.mpr hd
    have hidx : arrIdx t.mai (.int ((len t : Nat) : Int)) = some l.length := by
      rw [h.len_eq]; exact arrIdx_int (by omega) (by omega)
    refine ⟨setArr t l.length none, ?_, ?_, ?_, by simp⟩
    · simp only [modelStep, luaSet, rawSet, hidx]; rfl
    · exact ⟨⟨k + 1, setArr_listArr_clear t l k hk hd⟩, by rw [setArr_dict]; exact h.noInt⟩
    · rw [setArr_listArr_clear t l k hk hd]; simp [hk]; omega
  | setField s v =>
    have hf := rawSet_str_fields t s v
    refine ⟨rawSet t (.str s) v, rfl, ⟨⟨k, by rw [hf.1]; exact hk⟩, by rw [hf.2]; exact h.noInt⟩, by rw [hf.1]; omega, by simp⟩

def runSpec : LList → List ListOp → LList × List OVal
  | l, [] => (l, [])
  | l, op :: r => let s := specStep l op; let rest := runSpec s.1 r; (rest.1, s.2 :: rest.2)

def runModel : Tbl → List ListOp → Except Err (Tbl × List OVal)
  | t, [] => .ok (t, [])
  | t, op :: r =>
    match modelStep t op with
    | .error e => .error e
    | .ok (t', v) => match runModel t' r with
      | .error e => .error e
      | .ok (t'', vs) => .ok (t'', v :: vs)

/-- every operation is inside the property's ranges at the moment it is issued. -/
def HistOk : LList → List ListOp → Prop
  | _, [] => True
  | l, op :: r => op.inDomain l ∧ HistOk (specStep l op).1 r

/-- **history_refines** — under ANY history of in-range insert/remove calls mixed with direct assignments
    (`t[i]=v`, `t[#t]=nil`, string fields), started on any table holding a list, every call returns what the
    manual says and the table ends up holding exactly the manual's list (so `concat_spec`, `unpack_spec`,
    `maxn_getn_spec` apply at every point of the history).  The only bound: the array part stays below
    MaxArrayIndex. -/
theorem history_refines (ops : List ListOp) {t : Tbl} {l : List Val} (h : IsList t l) (hok : HistOk l ops)
    (hm : t.array.length + ops.length + 1 < t.mai) (hm2 : t.mai ≤ 2^63) :
    ∃ t', runModel t ops = .ok (t', (runSpec l ops).2) ∧ IsList t' (runSpec l ops).1 := by
  induction ops generalizing t l with
  | nil => exact ⟨t, rfl, h⟩
  | cons op r ih =>
    obtain ⟨hd, hr⟩ := hok
    simp only [List.length_cons] at hm
    obtain ⟨t1, h1, h2, h3, h4⟩ := step_refines h op hd (by omega) hm2
    obtain ⟨t2, h5, h6⟩ := ih h2 hr (by rw [h4]; omega) (by rw [h4]; exact hm2)
    exact ⟨t2, by simp only [runModel, h1, h5, runSpec], h6⟩

/-- from a fresh table. -/
theorem history_refines_fresh (mai : Nat) (ops : List ListOp) (hok : HistOk [] ops)
    (hm : ops.length + 1 < mai) (hm2 : mai ≤ 2^63) :
    ∃ t', runModel { mai := mai } ops = .ok (t', (runSpec [] ops).2) ∧ IsList t' (runSpec [] ops).1 :=
  history_refines ops (t := { mai := mai }) ⟨⟨0, rfl⟩, fun _ => rfl⟩ hok (by simpa using hm) hm2

/-- non-vacuity: remove then insert at the end after `t[#t] = nil`, the history of the property text. -/
def exampleHist : List ListOp :=
  [.insertEnd (.int 1), .insertEnd (.int 2), .assign 3 (.int 3), .clearLast, .removeLast, .insertEnd (.int 9),
   .insertAt 1 (.str "61"), .removeAt 2, .setField "6b" (some (.bool true)), .clearLast, .insertAt 2 (.int 5)]

example : HistOk [] exampleHist ∧ (runSpec [] exampleHist).1 = [.str "61", .int 5] ∧
    (runSpec [] exampleHist).2 = [none, none, none, none, some (.int 2), none, none, some (.int 1), none, none, none] := by
  refine ⟨?_, by decide, by decide⟩
  simp [exampleHist, HistOk, ListOp.inDomain, specStep, insertEnd, insertAt, removeLast, removeAt]

/-! ### table.sort -/

/-- **sort_permutation** — whatever `sort.Sort` does (any adaptive sequence of Less/Swap calls, in range or
    not), with any comparator (consistent or not, raising or not), the slice it leaves behind is a permutation of
    the original — in particular when the comparator raised in the middle. -/
theorem sort_permutation (lt : Cmp) (s : Strategy) (a : List OVal) : (runSort lt s a).arr.Perm a :=
  runSort_perm lt s a

/-- …and so is the slice at *every* intermediate point at which the comparator is called. -/
theorem sort_intermediate_permutation (lt : Cmp) (s : Strategy) (a : List OVal) :
    ∀ st ∈ (runSort lt s a).snaps, st.Perm a :=
  runSort_snaps_perm lt s a

/-- the comparator only ever receives elements of the slice. -/
theorem sort_args_are_elements (lt : Cmp) (s : Strategy) (a : List OVal) :
    ∀ c ∈ (runSort lt s a).calls, c.1 ∈ a ∧ c.2 ∈ a :=
  runSort_calls_mem lt s a

/-- no Go panic: with in-range indices (trusted contract) the sort ends normally or with the comparator's own
    Lua error.  `lessThan` and a Lua function called through `L.Call` raise Lua errors, never Go panics. -/
theorem sort_no_go_panic (lt : Cmp) (hlt : ∀ x y m, lt x y ≠ .error (.goPanic m))
    (s : Strategy) (a : List OVal) (hr : s.InRange a.length) : ∀ m, (runSort lt s a).err ≠ some (.goPanic m) :=
  runSort_no_panic lt hlt s a hr

/-- `LVAsBool`: a comparator's result counts as true unless it is nil or false (0 and "" are true). -/
theorem comparator_result_truthiness :
    asBool (some (.int 0)) = true ∧ asBool (some (.str "")) = true ∧ asBool (some (.bool true)) = true ∧
    asBool none = false ∧ asBool (some (.bool false)) = false := by decide

theorem lessThan_never_panics : ∀ x y m, lessThan x y ≠ .error (.goPanic m) := by
  intro x y m
  unfold lessThan
  split <;> simp

/-- **sort_keeps_list** — `table.sort(t[, lt])` (REPAIRED: sorts `array[:Len()]`) on a table holding a list `l`,
    with trailing nil slots or not, leaves a table holding a permutation of `l`; the comparator received only
    elements of `l` (never nil). -/
theorem sort_keeps_list {t : Tbl} {l : List Val} (h : IsList t l) (c : CmpArg) (s : Strategy) :
    (∃ l' : List Val, IsList (tableSort t c s).1 l' ∧ l'.Perm l) ∧
    ∀ p ∈ (tableSort t c s).2.calls, (∃ x ∈ l, p.1 = some x) ∧ (∃ y ∈ l, p.2 = some y) := by
  constructor
  · obtain ⟨l', h1, h2, _⟩ := tableSort_isList h c s
    exact ⟨l', h1, h2⟩
  · have hm : ∀ o : OVal, o ∈ l.map some → ∃ x ∈ l, o = some x := by
      intro o ho
      simp only [List.mem_map] at ho
      obtain ⟨x, hx, rfl⟩ := ho
      exact ⟨x, hx, rfl⟩
    have key : ∀ lt : Cmp, ∀ p ∈ (runSort lt s (sortRange true t)).calls,
        (∃ x ∈ l, p.1 = some x) ∧ (∃ y ∈ l, p.2 = some y) := by
      intro lt p hp
      have := runSort_calls_mem lt s (sortRange true t) p hp
      rw [sortRange_isList h] at this
      exact ⟨hm _ this.1, hm _ this.2⟩
    unfold tableSort tableSortG
    cases c with
    | absent => exact key lessThan
    | notFunction => intro p hp; simp at hp
    | fn f => exact key (fnCmp f)

/-- the statement "the comparator receives only elements of the list" for the UNREPAIRED `tableSort`… -/
def sort_args_unfixed_full : Prop :=
  ∀ (t : Tbl) (l : List Val) (c : CmpArg) (s : Strategy), IsList t l → s.InRange t.array.length →
    ∀ p ∈ (tableSortOld t c s).2.calls, (∃ x ∈ l, p.1 = some x) ∧ (∃ y ∈ l, p.2 = some y)

/-- …is false: after `t = {1,2,3}; t[3] = nil` the raw array slice still has three slots and the first
    comparison of an insertion sort, `Less(2, 1)`, hands nil to the comparator ("attempt to compare nil with
    number" for the default `<`, witness of §1). -/
theorem sort_args_unfixed_fails : ¬ sort_args_unfixed_full := by
  intro hf
  have := hf holeTbl [.int 1, .int 2] .absent (.less 2 1 (fun _ => .done)) holeTbl_isList
    (by refine ⟨by decide, by decide, fun _ => trivial⟩) (none, some (.int 2)) (by decide)
  obtain ⟨⟨x, _, hx⟩, _⟩ := this
  simp at hx

theorem sort_unfixed_raises_on_hole :
    ∃ m, (tableSortOld holeTbl .absent (.less 2 1 (fun _ => .done))).2.err = some (.luaError m) := ⟨_, rfl⟩

/-! ### orderedness: exactly what is trusted -/

/-- "sort.Sort sorted the slice", said through its interface: at the end `Less(i+1, i)` is false for every
    adjacent pair.  (That `sort.Sort` establishes this for a strict weak order is the trusted part.) -/
def SortedByLess (lt : Cmp) (arr : List OVal) : Prop :=
  ∀ i, i + 1 < arr.length → ∃ x y, arr[i]? = some x ∧ arr[i + 1]? = some y ∧ lt y x = .ok false

/-- **sort_ordered_of_contract** — if `sort.Sort` keeps its contract, the list left in the table satisfies the
    manual's post-condition `not lt(t[i+1], t[i])` for the comparator `lt'` that `Less` consulted. -/
theorem sort_ordered_of_contract (lt : Cmp) (lt' : Val → Val → Bool)
    (hlt : ∀ a b, lt (some a) (some b) = .ok (lt' a b)) (l' : List Val)
    (h : SortedByLess lt (l'.map some)) : Sorted lt' l' := by
  induction l' with
  | nil => trivial
  | cons a r ih =>
    cases r with
    | nil => trivial
    | cons b r =>
      refine ⟨?_, ih ?_⟩
      · obtain ⟨x, y, hx, hy, hxy⟩ := h 0 (by simp)
        simp only [List.map_cons, List.getElem?_cons_zero, Option.some.injEq] at hx
        simp only [List.map_cons, Nat.zero_add, List.getElem?_cons_succ, List.getElem?_cons_zero, Option.some.injEq] at hy
        subst hx hy
        rw [hlt] at hxy
        injection hxy
      · intro i hi
        obtain ⟨x, y, hx, hy, hxy⟩ := h (i + 1) (by simp at hi ⊢; omega)
        refine ⟨x, y, ?_, ?_, hxy⟩
        · simpa using hx
        · simpa using hy

/-! ### the manual's post-condition is a global order -/

/-- under a strict weak order, "not lt(a[i+1], a[i]) for every adjacent pair" (what the harness checks on every
    sorted result) means no element is smaller than an earlier one. -/
theorem sorted_pairwise (lt : Val → Val → Bool) (ho : StrictWeakOrder lt) (r : LList) (hs : Sorted lt r) :
    r.Pairwise (fun a b => lt b a = false) := by
  induction r with
  | nil => exact List.Pairwise.nil
  | cons a r ih =>
    cases r with
    | nil => simp
    | cons b r =>
      obtain ⟨hab, hr⟩ := hs
      have ihr := ih hr
      refine List.Pairwise.cons ?_ ihr
      intro c hc
      simp only [List.mem_cons] at hc
      rcases hc with rfl | hc
      · exact hab
      · have hbc : lt c b = false := (List.pairwise_cons.mp ihr).1 c hc
        exact ho.negTrans c b a hbc hab

/-- non-vacuity: a keyed `<` (ties between different values) is a strict weak order, and a sorted list with
    ties satisfies `Sorted`. -/
def keyOf : Val → Int
  | .int x => x / 4
  | _ => 0
def keyLt (a b : Val) : Bool := decide (keyOf a < keyOf b)

example : StrictWeakOrder keyLt ∧ Sorted keyLt [.int 1, .int 2, .int 0, .int 5, .int 4, .int 9] := by
  refine ⟨⟨?_, ?_, ?_⟩, (sortedB_iff _ _).mp (by decide)⟩
  · intro a; simp [keyLt]
  · intro a b c; simp only [keyLt, decide_eq_true_eq]; omega
  · intro a b c; simp only [keyLt, decide_eq_false_iff_not]; omega

example : removeAt [.int 1, .int 2, .int 3] 2 = ([.int 1, .int 3], some (.int 2)) ∧
    insertAt [.int 1, .int 2] 3 (.int 9) = [.int 1, .int 2, .int 9] ∧
    unpack [.int 1, .int 2] 0 3 = [none, some (.int 1), some (.int 2), none] := by decide

end GLua.Props.C18
