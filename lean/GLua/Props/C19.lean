/-
  C19 — io handles act as a byte sequence with one cursor under any read/write/seek.
  Property theorems only (lemmas: GLua/Proofs/IoFile.lean, GLua/Proofs/IoSim.lean).
  Model: GLua/Model/IoFile.lean = /repo/iolib.go (lFile) + utils.go (readBufioSize/readBufioLine) WITH
  fixes/C19-1…5 applied, tied to the code by the correspondence run of every check; `IoFile.Unfixed.*` is the
  transcription of the unchanged functions, used here to prove that the unchanged tree violates the property.
  Spec: GLua/Spec/File.lean (bytes, cursor, mode, closed).

  `R` is the size of the reader's buffer (4096 in the code): every theorem holds for every `R > 0`, and for
  every state satisfying the invariant, i.e. for every amount of read-ahead `b = |rbuf|`.
-/
import GLua.Proofs.IoSim

namespace GLua.Props.C19
open GLua GLua.IoFile
open GLua.FileSpec (Bytes Fmt Whence VBuf Mode Op Res Stream)

/-! ## cursor_invariant -/

/-- **cursor_invariant (full statement)**: every operation, from every state satisfying the invariant
    (any read-ahead, any writer incl. a buffered one holding bytes, in or out of the ISO C discipline), leads to
    a state satisfying it.  Not proved at this strength yet (believed true of the repaired code; the
    correspondence run samples it through the exact Impl = Model comparison). -/
def cursor_invariant_full : Prop :=
  ∀ (R : Nat), 0 < R → ∀ (f : LFile) (op : Op), Inv f → Inv (step R f op).1

/-- **cursor_invariant (proved part)**: logical cursor = OS offset − read-ahead, the read-ahead is exactly the
    disk content between cursor and offset, preserved by every operation for every buffer size and every amount
    of read-ahead — for the unbuffered writer, writes obeying the discipline, and line reads on CR-free files
    (the three guards of `io_refines_cursor_partial`). -/
theorem cursor_invariant_partial (R : Nat) (hR : 0 < R) (pend : Bool) (f : LFile) (op : Op)
    (h : Sim pend f)
    (hw : ∀ s, op = .write s → pend = false)
    (hro : ∀ m, op = .reopen m → f.closed = true)
    (hnb : isBuffering op = false)
    (hcr : usesLine op = true → (13 : UInt8) ∉ f.disk) :
    Inv (step R f op).1 ∧ cursor (step R f op).1 = (FileSpec.step (absOf f) op).1.cur :=
  have hs := step_sim hR h op hw hro hnb hcr
  ⟨hs.2.2.inv, by rw [hs.2.1]; rfl⟩

/-- every read function keeps the invariant and the stream, whatever is buffered (`b` universally quantified):
    `read(n)` for every count, from every state with the invariant. -/
theorem cursor_invariant_read_count (R : Nat) (hR : 0 < R) (f : LFile) (h : Readable f) (n : Nat) :
    ∃ f', Reads f f' ((stream f).take n) ∧
      readBufioSize R f n = (f', if n ≠ 0 ∧ stream f = [] then .eof else .val ((stream f).take n)) :=
  readBufioSize_spec hR h n

/-- a freshly opened handle satisfies the invariant, in every mode. -/
theorem cursor_invariant_init (d : Bytes) (m : Mode) : Inv (ioOpenFile d m) := (sim_open d m).inv

/-! ## io_refines_cursor -/

/-- the histories the property speaks about: ISO C discipline (seek/flush between a read and a following
    write), and one handle at a time. -/
def Disciplined (ops : List Op) : Prop :=
  FileSpec.disc false ops = true ∧ FileSpec.reopenOk false ops = true

instance (ops : List Op) : Decidable (Disciplined ops) := by unfold Disciplined; infer_instance

/-- **io_refines_cursor (full statement)**: every disciplined history on a file opened in any mode yields the
    Spec's results, and ends with the Spec's bytes on disk once the handle is closed. -/
def io_refines_cursor_full : Prop :=
  ∀ (R : Nat), 0 < R → ∀ (d : Bytes) (m : Mode) (ops : List Op), Disciplined ops →
    (run R (ioOpenFile d m) ops).2 = (FileSpec.run (FileSpec.openStream d m) ops).2

/-- the full statement is false of the code (also after fixes 1–5): open finding `C19-readline-strips-cr`. -/
theorem io_refines_cursor_full_fails : ¬ io_refines_cursor_full := by
  intro h
  have := h 4096 (by decide) [97, 13, 10, 98] .r [.read [.line]] (by decide)
  revert this; decide

/-- **io_refines_cursor (proved part)**: for every buffer size, every file content, every open mode and every
    disciplined history that (a) does not switch the writer to buffered mode and (b) reads lines only from
    CR-free data, the model of gopher-lua's handle returns exactly the Spec's results, and its final state
    abstracts to the Spec's final state: same bytes on disk, same cursor, same closed flag. -/
theorem io_refines_cursor_partial (R : Nat) (hR : 0 < R) (d : Bytes) (m : Mode) (ops : List Op)
    (hd : Disciplined ops) (hnb : noBuffering ops) (hls : lineSafe d ops) :
    (run R (ioOpenFile d m) ops).2 = (FileSpec.run (FileSpec.openStream d m) ops).2 ∧
    absOf (run R (ioOpenFile d m) ops).1 = (FileSpec.run (FileSpec.openStream d m) ops).1 := by
  have hdisk : lineSafe (ioOpenFile d m).disk ops := by
    rcases hls with h | ⟨h1, h2⟩
    · exact Or.inl h
    · refine Or.inr ⟨?_, h2⟩
      cases m <;> simp [ioOpenFile, h1]
  have hcl : (ioOpenFile d m).closed = false := by cases m <;> rfl
  have := run_sim hR ops (sim_open d m) hd.1 (by rw [hcl]; exact hd.2) hnb hdisk
  rw [absOf_open] at this
  exact this

/-- in particular: after the history, the bytes on disk are the Spec's byte sequence. -/
theorem final_disk_is_spec_bytes (R : Nat) (hR : 0 < R) (d : Bytes) (m : Mode) (ops : List Op)
    (hd : Disciplined ops) (hnb : noBuffering ops) (hls : lineSafe d ops) :
    (run R (ioOpenFile d m) ops).1.disk = (FileSpec.run (FileSpec.openStream d m) ops).1.bytes := by
  have := (io_refines_cursor_partial R hR d m ops hd hnb hls).2
  rw [← this]; rfl

/-! ### the unchanged tree violates the property (DESIGN §1): machine-checked witnesses -/

/-- `read; flush; write` — the unchanged `fileFlushAux` does not abandon the read-ahead: with an 8-byte file and
    a 4-byte buffer, `read(1); flush(); write("X")` puts X at offset 4, the Spec (and the repaired model) at 1. -/
theorem unfixed_flush_separator_fails :
    let d : Bytes := [97, 98, 99, 100, 101, 102, 103, 104]
    let ops : List Op := [.read [.count 1], .flush, .write [88], .close]
    Disciplined ops ∧ noBuffering ops ∧ lineSafe d ops ∧
    (Unfixed.run 4 (Unfixed.ioOpenFile d .rp) ops).1.disk = [97, 98, 99, 100, 88, 102, 103, 104] ∧
    (FileSpec.run (FileSpec.openStream d .rp) ops).1.bytes = [97, 88, 99, 100, 101, 102, 103, 104] ∧
    (run 4 (ioOpenFile d .rp) ops).1.disk = [97, 88, 99, 100, 101, 102, 103, 104] := by
  refine ⟨by decide, by decide, by decide, by decide, by decide, by decide⟩

/-- `setvbuf("full"); write("abc"); seek("set",0); write("X"); close()` — the unchanged `fileSeek` does not
    flush the buffered writer: the file ends as "abcX"; Spec and repaired model: "Xbc". -/
theorem unfixed_buffered_seek_fails :
    let ops : List Op := [.setvbuf .full 0, .write [97, 98, 99], .seek .set 0, .write [88], .close]
    Disciplined ops ∧
    (Unfixed.run 4096 (Unfixed.ioOpenFile [] .wp) ops).1.disk = [97, 98, 99, 88] ∧
    (FileSpec.run (FileSpec.openStream [] .wp) ops).1.bytes = [88, 98, 99] ∧
    (run 4096 (ioOpenFile [] .wp) ops).1.disk = [88, 98, 99] := by
  refine ⟨by decide, by decide, by decide, by decide⟩

/-- buffered `write` followed by `read` (within the discipline as the property states it), and `setvbuf`
    replacing a writer that still holds bytes: wrong read / lost bytes in the unchanged tree. -/
theorem unfixed_buffered_read_and_setvbuf_fail :
    let d : Bytes := [97, 98, 99, 100, 101]
    let ops1 : List Op := [.setvbuf .full 0, .write [88, 89], .read [.count 1], .close]
    let ops2 : List Op := [.setvbuf .full 0, .write [88, 89], .setvbuf .no 0, .close]
    (Unfixed.run 4096 (Unfixed.ioOpenFile d .rp) ops1).2 ≠ (FileSpec.run (FileSpec.openStream d .rp) ops1).2 ∧
    (run 4096 (ioOpenFile d .rp) ops1).2 = (FileSpec.run (FileSpec.openStream d .rp) ops1).2 ∧
    (Unfixed.run 4096 (Unfixed.ioOpenFile d .rp) ops2).1.disk = d ∧
    (run 4096 (ioOpenFile d .rp) ops2).1.disk = [88, 89, 99, 100, 101] ∧
    (FileSpec.run (FileSpec.openStream d .rp) ops2).1.bytes = [88, 89, 99, 100, 101] := by
  refine ⟨by decide, by decide, by decide, by decide, by decide⟩

/-- `file:lines()` of the unchanged tree returns a line longer than the buffer in pieces (4-byte buffer,
    6-byte line); the repaired iterator and the Spec return it whole. -/
theorem unfixed_lines_split_long_lines :
    let d : Bytes := [97, 98, 99, 100, 101, 102, 10, 103]
    (Unfixed.run 4 (Unfixed.ioOpenFile d .r) [.lines, .iter]).2 = [.ok, .vals [some [97, 98, 99, 100]]] ∧
    (run 4 (ioOpenFile d .r) [.lines, .iter]).2 = [.ok, .vals [some [97, 98, 99, 100, 101, 102]]] ∧
    (FileSpec.run (FileSpec.openStream d .r) [.lines, .iter]).2 = [.ok, .vals [some [97, 98, 99, 100, 101, 102]]] := by
  refine ⟨by decide, by decide, by decide⟩

/-! ## closed_handle_guard -/

/-- **closed_handle_guard**: on a closed handle — whatever its mode, its writer (buffered or not, holding
    bytes or not) and its read-ahead — every operation raises an error and nothing changes: not the handle,
    not the descriptor's offset, not a byte of the file. -/
theorem closed_handle_guard (R : Nat) (f : LFile) (hc : f.closed = true) (op : Op) (hro : ∀ m, op ≠ .reopen m) :
    step R f op = (f, .raise) :=
  step_closed R hc op hro

/-- the same statement about the unchanged functions is false: `seek` answers `nil, err`, `setvbuf` succeeds,
    `lines` hands out an iterator, `write` on a closed read-only handle answers `nil, err`. -/
def closed_handle_guard_unfixed : Prop :=
  ∀ (R : Nat) (f : LFile), f.closed = true → ∀ op, (∀ m, op ≠ .reopen m) → (Unfixed.step R f op).2 = .raise

theorem closed_handle_guard_unfixed_fails : ¬ closed_handle_guard_unfixed := by
  intro h
  have := h 4096 { closed := true } (by rfl) (.seek .set 0) (by intro m; simp)
  revert this; decide

theorem closed_handle_unfixed_witnesses :
    let f : LFile := { closed := true }
    let g : LFile := { closed := true, wr := false, writer := .none }
    (Unfixed.step 4096 f (.seek .set 0)).2 = .fail ∧ (Unfixed.step 4096 f (.setvbuf .no 0)).2 = .ok ∧
    (Unfixed.step 4096 f .lines).2 = .ok ∧ (Unfixed.step 4096 g (.write [120])).2 = .fail := by
  refine ⟨by decide, by decide, by decide, by decide⟩

/-! ## non-vacuity -/

/-- a history that meets every hypothesis of `io_refines_cursor_partial`, mixes reads by count / line / all,
    both separators, a write in the middle of the file, close and reopen in append mode — with a buffer (4 bytes)
    smaller than the file so that read-ahead, abandon and refill all happen. -/
def exampleOps : List Op :=
  [.read [.count 2], .seek .cur 0, .write [88, 89], .read [.line], .flush, .write [90],
   .seek .set 1, .read [.count 3, .all], .read [.count 1], .close, .reopen .ap, .write [33], .seek .set 0,
   .read [.all], .close]

def exampleData : Bytes := [97, 98, 99, 100, 101, 10, 102, 103, 104, 105, 106]

example : Disciplined exampleOps ∧ noBuffering exampleOps ∧ lineSafe exampleData exampleOps ∧
    (run 4 (ioOpenFile exampleData .rp) exampleOps).1.disk =
      [97, 98, 88, 89, 101, 10, 90, 103, 104, 105, 106, 33] ∧
    (run 4 (ioOpenFile exampleData .rp) exampleOps).2 = (FileSpec.run (FileSpec.openStream exampleData .rp) exampleOps).2 := by
  refine ⟨by decide, by decide, by decide, by decide, by decide⟩

/-- the hypotheses of `closed_handle_guard` / `cursor_invariant_partial` are satisfiable by non-trivial states:
    a state in the middle of a read (3 bytes of read-ahead) satisfies `Sim`. -/
example : ∃ f : LFile, f.rbuf.length = 3 ∧ Sim true f :=
  ⟨(step 4 (ioOpenFile exampleData .rp) (.read [.count 1])).1, by decide,
   (step_sim (R := 4) (by decide) (sim_open exampleData .rp) (.read [.count 1]) (by simp) (by simp) rfl
      (by simp [usesLine])).2.2⟩

end GLua.Props.C19
