/-
  C19 — io handles act as a byte sequence with one cursor under any read/write/seek.
  Property theorems only (lemmas: GLua/Proofs/IoFile.lean, GLua/Proofs/IoSim.lean).
  Model: GLua/Model/IoFile.lean = /repo/iolib.go (lFile) + utils.go (readBufioSize/readBufioLine) WITH
  fixes/C19-1…5 applied, tied to the code by the correspondence run of every check; `IoFile.Unfixed.*` is the
  transcription of the unchanged functions, used here to prove that the unchanged tree violates the property.
  Spec: GLua/Spec/File.lean (bytes, cursor, mode, closed; `*n` = fscanf "%lf" on the texts where C leaves no room;
  the `io` library level: default files, io.lines, io.type).
  Lemmas for `*n`: GLua/Proofs/IoScan.lean (the model of fmt.Fscanf / bufio.ReadRune); for the library level:
  GLua/Proofs/IoWorld.lean.

  `R` is the size of the reader's buffer (4096 in the code): every theorem holds for every `R > 0`, and for
  every state satisfying the invariant, i.e. for every amount of read-ahead `b = |rbuf|`.
-/
import GLua.Proofs.IoSim
import GLua.Proofs.IoWorld

namespace GLua.Props.C19
open GLua GLua.IoFile
open GLua.FileSpec (Bytes Fmt Whence VBuf Mode Op Res Stream Slot WOp WStream)

/-! ## cursor_invariant -/

/-- **cursor_invariant (full statement)**: every operation, from every state satisfying the invariant
    (any read-ahead, any writer incl. a buffered one holding bytes, in or out of the ISO C discipline), leads to
    a state satisfying it.  Not proved at this strength yet (believed true of the repaired code; the
    correspondence run samples it through the exact Impl = Model comparison). -/
def cursor_invariant_full : Prop :=
  ∀ (R : Nat), 0 < R → ∀ (f : LFile) (op : Op), Inv f → Inv (step R f op).1

/-- **cursor_invariant (proved part)**: logical cursor = OS offset − read-ahead, the read-ahead is exactly the
    disk content between cursor and offset, preserved by every operation for every buffer size and every amount
    of read-ahead — for the unbuffered writer, writes obeying the discipline, and line reads on CR-free files
    (the three guards of `io_refines_cursor_partial`). -/
theorem cursor_invariant_partial (R : Nat) (hR : 0 < R) (pend : Bool) (f : LFile) (op : Op)
    (h : Sim pend f)
    (hw : ∀ s, op = .write s → pend = false)
    (hro : ∀ m, op = .reopen m → f.closed = true)
    (hnb : isBuffering op = false)
    (hcr : usesLine op = true → (13 : UInt8) ∉ f.disk)
    (hfp : opProved (absOf f) op = true) :
    Inv (step R f op).1 ∧ cursor (step R f op).1 = (FileSpec.step (absOf f) op).1.cur :=
  have hs := step_sim hR h op hw hro hnb hcr hfp
  ⟨hs.2.2.inv, by rw [hs.2.1]; rfl⟩

/-- every read function keeps the invariant and the stream, whatever is buffered (`b` universally quantified):
    `read(n)` for every count, from every state with the invariant. -/
theorem cursor_invariant_read_count (R : Nat) (hR : 0 < R) (f : LFile) (h : Readable f) (n : Nat) :
    ∃ f', Reads f f' ((stream f).take n) ∧
      readBufioSize R f n = (f', if n ≠ 0 ∧ stream f = [] then .eof else .val ((stream f).take n)) :=
  readBufioSize_spec hR h n

/-- a freshly opened handle satisfies the invariant, in every mode. -/
theorem cursor_invariant_init (d : Bytes) (m : Mode) : Inv (ioOpenFile d m) := (sim_open d m).inv

/-! ## io_refines_cursor -/

/-- the histories the property speaks about: ISO C discipline (seek/flush between a read and a following
    write), and one handle at a time. -/
def Disciplined (ops : List Op) : Prop :=
  FileSpec.disc false ops = true ∧ FileSpec.reopenOk false ops = true

instance (ops : List Op) : Decidable (Disciplined ops) := by unfold Disciplined; infer_instance

/-- **io_refines_cursor (full statement)**: every disciplined history on a file opened in any mode yields the
    Spec's results, and ends with the Spec's bytes on disk once the handle is closed. -/
def io_refines_cursor_full : Prop :=
  ∀ (R : Nat), 0 < R → ∀ (d : Bytes) (m : Mode) (ops : List Op), Disciplined ops →
    (run R (ioOpenFile d m) ops).2 = (FileSpec.run (FileSpec.openStream d m) ops).2

/-- the full statement is false of the code (also after fixes 1–5): open finding `C19-readline-strips-cr`. -/
theorem io_refines_cursor_full_fails : ¬ io_refines_cursor_full := by
  intro h
  have := h 4096 (by decide) [97, 13, 10, 98] .r [.read [.line]] (by decide)
  revert this; decide

/-- **io_refines_cursor (proved part)**: for every buffer size, every file content, every open mode and every
    disciplined history that (a) does not switch the writer to buffered mode and (b) reads lines only from
    CR-free data, the model of gopher-lua's handle returns exactly the Spec's results, and its final state
    abstracts to the Spec's final state: same bytes on disk, same cursor, same closed flag. -/
theorem io_refines_cursor_partial (R : Nat) (hR : 0 < R) (d : Bytes) (m : Mode) (ops : List Op)
    (hd : Disciplined ops) (hnb : noBuffering ops) (hls : lineSafe d ops) (hpl : plainReads ops) :
    (run R (ioOpenFile d m) ops).2 = (FileSpec.run (FileSpec.openStream d m) ops).2 ∧
    absOf (run R (ioOpenFile d m) ops).1 = (FileSpec.run (FileSpec.openStream d m) ops).1 := by
  have hdisk : lineSafe (ioOpenFile d m).disk ops := by
    rcases hls with h | ⟨h1, h2⟩
    · exact Or.inl h
    · refine Or.inr ⟨?_, h2⟩
      cases m <;> simp [ioOpenFile, h1]
  have hcl : (ioOpenFile d m).closed = false := by cases m <;> rfl
  have := run_sim hR ops (sim_open d m) hd.1 (by rw [hcl]; exact hd.2) hnb hdisk hpl
  rw [absOf_open] at this
  exact this

/-- in particular: after the history, the bytes on disk are the Spec's byte sequence. -/
theorem final_disk_is_spec_bytes (R : Nat) (hR : 0 < R) (d : Bytes) (m : Mode) (ops : List Op)
    (hd : Disciplined ops) (hnb : noBuffering ops) (hls : lineSafe d ops) (hpl : plainReads ops) :
    (run R (ioOpenFile d m) ops).1.disk = (FileSpec.run (FileSpec.openStream d m) ops).1.bytes := by
  have := (io_refines_cursor_partial R hR d m ops hd hnb hls hpl).2
  rw [← this]; rfl

/-! ### the unchanged tree violates the property (DESIGN §1): machine-checked witnesses -/

/-- `read; flush; write` — the unchanged `fileFlushAux` does not abandon the read-ahead: with an 8-byte file and
    a 4-byte buffer, `read(1); flush(); write("X")` puts X at offset 4, the Spec (and the repaired model) at 1. -/
theorem unfixed_flush_separator_fails :
    let d : Bytes := [97, 98, 99, 100, 101, 102, 103, 104]
    let ops : List Op := [.read [.count 1], .flush, .write [88], .close]
    Disciplined ops ∧ noBuffering ops ∧ lineSafe d ops ∧
    (Unfixed.run 4 (Unfixed.ioOpenFile d .rp) ops).1.disk = [97, 98, 99, 100, 88, 102, 103, 104] ∧
    (FileSpec.run (FileSpec.openStream d .rp) ops).1.bytes = [97, 88, 99, 100, 101, 102, 103, 104] ∧
    (run 4 (ioOpenFile d .rp) ops).1.disk = [97, 88, 99, 100, 101, 102, 103, 104] := by
  refine ⟨by decide, by decide, by decide, by decide, by decide, by decide⟩

/-- `setvbuf("full"); write("abc"); seek("set",0); write("X"); close()` — the unchanged `fileSeek` does not
    flush the buffered writer: the file ends as "abcX"; Spec and repaired model: "Xbc". -/
theorem unfixed_buffered_seek_fails :
    let ops : List Op := [.setvbuf .full 0, .write [97, 98, 99], .seek .set 0, .write [88], .close]
    Disciplined ops ∧
    (Unfixed.run 4096 (Unfixed.ioOpenFile [] .wp) ops).1.disk = [97, 98, 99, 88] ∧
    (FileSpec.run (FileSpec.openStream [] .wp) ops).1.bytes = [88, 98, 99] ∧
    (run 4096 (ioOpenFile [] .wp) ops).1.disk = [88, 98, 99] := by
  refine ⟨by decide, by decide, by decide, by decide⟩

/-- buffered `write` followed by `read` (within the discipline as the property states it), and `setvbuf`
    replacing a writer that still holds bytes: wrong read / lost bytes in the unchanged tree. -/
theorem unfixed_buffered_read_and_setvbuf_fail :
    let d : Bytes := [97, 98, 99, 100, 101]
    let ops1 : List Op := [.setvbuf .full 0, .write [88, 89], .read [.count 1], .close]
    let ops2 : List Op := [.setvbuf .full 0, .write [88, 89], .setvbuf .no 0, .close]
    (Unfixed.run 4096 (Unfixed.ioOpenFile d .rp) ops1).2 ≠ (FileSpec.run (FileSpec.openStream d .rp) ops1).2 ∧
    (run 4096 (ioOpenFile d .rp) ops1).2 = (FileSpec.run (FileSpec.openStream d .rp) ops1).2 ∧
    (Unfixed.run 4096 (Unfixed.ioOpenFile d .rp) ops2).1.disk = d ∧
    (run 4096 (ioOpenFile d .rp) ops2).1.disk = [88, 89, 99, 100, 101] ∧
    (FileSpec.run (FileSpec.openStream d .rp) ops2).1.bytes = [88, 89, 99, 100, 101] := by
  refine ⟨by decide, by decide, by decide, by decide, by decide⟩

/-- `file:lines()` of the unchanged tree returns a line longer than the buffer in pieces (4-byte buffer,
    6-byte line); the repaired iterator and the Spec return it whole. -/
theorem unfixed_lines_split_long_lines :
    let d : Bytes := [97, 98, 99, 100, 101, 102, 10, 103]
    (Unfixed.run 4 (Unfixed.ioOpenFile d .r) [.lines, .iter]).2 = [.ok, .vals [some [97, 98, 99, 100]]] ∧
    (run 4 (ioOpenFile d .r) [.lines, .iter]).2 = [.ok, .vals [some [97, 98, 99, 100, 101, 102]]] ∧
    (FileSpec.run (FileSpec.openStream d .r) [.lines, .iter]).2 = [.ok, .vals [some [97, 98, 99, 100, 101, 102]]] := by
  refine ⟨by decide, by decide, by decide⟩

/-! ## read_number (`*n`) -/

/-- **read_number**: from EVERY state satisfying the cursor invariant (any buffer size `R`, any amount of read-ahead,
    the numeral anywhere relative to the buffer boundary), `*n` on EVERY text whose reading the Spec fixes
    (`numSpecified`: any white space — line feeds included —, then the end of the file, a decimal numeral or a
    hexadecimal integer followed by white space / the end of the file, or an ASCII byte that cannot begin a numeral)
    delivers exactly the Spec's result (the numeral, or nil), consumes exactly the bytes the Spec consumes (a `Reads`
    step: invariant kept), and leaves the cursor exactly where the Spec puts it: right after the numeral, at the end
    of the file, or in front of the byte that is no numeral.  (Full strength since fixes/C19-6; before, the statement
    was false: `fmt.Fscanf` rejected line feeds and hexadecimal integers and consumed exponent letters.) -/
theorem read_number_full (R : Nat) (hR : 0 < R) (f : LFile) (h : Readable f)
    (hg : FileSpec.numSpecified (stream f) = true) :
    ∃ f' out, Reads f f' out ∧
      readOne R f .num = (f', toOut (FileSpec.readFmt f.disk (cursor f) .num).1) ∧
      cursor f' = (FileSpec.readFmt f.disk (cursor f) .num).2 := by
  obtain ⟨f', out, hr, he, hc⟩ := readBufioNumber_sim hR h hg
  exact ⟨f', out, hr, he, hc.symm⟩

/-- the witnesses of the repaired findings (newline, hexadecimal integer, exponent letter, a failing `*n` after a
    successful one), now with the Spec's results and cursors: Model = Spec on each (kernel evaluation). -/
theorem read_number_repaired_witnesses :
    -- "1\n2\n": read("*n","*n")
    (run 4096 (ioOpenFile [49, 10, 50, 10] .r) [.read [.num, .num], .seek .cur 0]).2 = [.vals [some [49], some [50]], .pos 3] ∧
    (FileSpec.run (FileSpec.openStream [49, 10, 50, 10] .r) [.read [.num, .num], .seek .cur 0]).2 = [.vals [some [49], some [50]], .pos 3] ∧
    -- "0x10 "
    (run 4096 (ioOpenFile [48, 120, 49, 48, 32] .r) [.read [.num]]).2 = [.vals [some [48, 120, 49, 48]]] ∧
    (FileSpec.run (FileSpec.openStream [48, 120, 49, 48, 32] .r) [.read [.num]]).2 = [.vals [some [48, 120, 49, 48]]] ∧
    -- "e5 x": read("*n"); read("*a")
    (run 4096 (ioOpenFile [101, 53, 32, 120] .r) [.read [.num], .read [.all]]).2 = [.vals [none], .vals [some [101, 53, 32, 120]]] ∧
    (FileSpec.run (FileSpec.openStream [101, 53, 32, 120] .r) [.read [.num], .read [.all]]).2 =
      [.vals [none], .vals [some [101, 53, 32, 120]]] ∧
    -- "5 abc": read("*n","*n")
    (run 4096 (ioOpenFile [53, 32, 97, 98, 99] .r) [.read [.num, .num], .seek .cur 0]).2 = [.vals [some [53], none], .pos 2] ∧
    (FileSpec.run (FileSpec.openStream [53, 32, 97, 98, 99] .r) [.read [.num, .num], .seek .cur 0]).2 = [.vals [some [53], none], .pos 2] ∧
    -- read("*"), read("")
    (run 4096 (ioOpenFile [97] .r) [.read [.str [42]], .read [.str []]]).2 = [.raise, .raise] ∧
    (FileSpec.run (FileSpec.openStream [97] .r) [.read [.str [42]], .read [.str []]]).2 = [.raise, .raise] := by
  refine ⟨by decide +kernel, by decide +kernel, by decide +kernel, by decide +kernel, by decide +kernel, by decide +kernel,
    by decide +kernel, by decide +kernel, by decide +kernel, by decide +kernel⟩

/-- non-vacuity of `read_number_full`: three blanks INCLUDING a line feed, then the numeral "-12.5e1", read from a state
    with read-ahead (4-byte buffer, one byte already delivered); and a hexadecimal integer at the end of the file. -/
example :
    let f := (step 4 (ioOpenFile [120, 32, 10, 32, 45, 49, 50, 46, 53, 101, 49, 32, 48, 88, 102, 70] .r) (.read [.count 1])).1
    f.rbuf.length = 3 ∧ FileSpec.numSpecified (stream f) = true ∧
    (readOne 4 f .num).2 = .val [45, 49, 50, 46, 53, 101, 49] ∧ cursor (readOne 4 f .num).1 = 11 ∧
    FileSpec.numSpecified (stream (readOne 4 f .num).1) = true ∧
    (readOne 4 (readOne 4 f .num).1 .num).2 = .val [48, 88, 102, 70] ∧ cursor (readOne 4 (readOne 4 f .num).1 .num).1 = 16 := by
  refine ⟨by decide +kernel, by decide +kernel, by decide +kernel, by decide +kernel, by decide +kernel, by decide +kernel,
    by decide +kernel⟩

/-! ## the `io` library level: default files, `io.lines`, `io.type` -/

/-- **io_world_refines_cursor (proved part)**: every history of handle methods (`f:read` incl. `*n` and invalid
    formats, `f:write`, `f:lines`, `f:seek`, …) AND `io` library calls — `io.input/io.output` (handle or file name),
    `io.read`, `io.write`, `io.flush`, `io.close`, `io.lines(name)` and its iterator run to the end, `io.lines()`,
    `io.type`, `tostring` — that stays within the guard `wguard` (evaluated along the Spec's states: ISO C discipline,
    one handle at a time, default slots holding a handle of the file — current or stale —, unbuffered writer,
    CR-free line reads, reads whose meaning the Spec fixes — `readSpecified`) yields
    exactly the Spec's results, and the final world abstracts to the Spec's final world: same bytes on disk, same
    cursor, same closed flag, same default slots.  For every buffer size, content and open mode. -/
theorem io_world_refines_cursor_partial (R : Nat) (hR : 0 < R) (d : Bytes) (m : Mode) (ops : List WOp)
    (hg : wguard false (openWStream d m) ops = true) :
    (wrun R (openWorld d m) ops).2 = (FileSpec.wrun (openWStream d m) ops).2 ∧
    absW (wrun R (openWorld d m) ops).1 = (FileSpec.wrun (openWStream d m) ops).1 := by
  have := wrun_sim hR ops (pend := false) (w := openWorld d m) (sim_open d m) (by rw [absW_openWorld]; exact hg)
  rw [absW_openWorld] at this
  exact this

/-- what the property itself demands of a history (no proof-effort guards, no exclusion of deviations): the ISO C
    discipline, one handle at a time, default slots that hold a handle of the file, reads whose meaning is fixed
    (and not `io.lines()` over an open handle that cannot be read: not fixed either). -/
def wspecified (pend : Bool) (w : WStream) : List WOp → Bool
  | [] => true
  | o :: os =>
    FileSpec.slotOk w o &&
    (match o with
     | .ioLines => !(decide (w.defIn = .cur) && !w.s.closed && !w.s.canRead)
     | _ => true) &&
    (match FileSpec.effOp w o with
     | some (.write _) => !pend
     | some (.reopen _) => w.s.closed
     | some (.read fs) => w.s.closed || !w.s.canRead ||
         FileSpec.readSpecified w.s.bytes w.s.cur (if fs = [] then [.line] else fs)
     | _ => true) &&
    wspecified (wpendNext pend w o) (FileSpec.wstep w o).1 os

/-- **io_world_refines_cursor (full statement)** -/
def io_world_refines_cursor_full : Prop :=
  ∀ (R : Nat), 0 < R → ∀ (d : Bytes) (m : Mode) (ops : List WOp), wspecified false (openWStream d m) ops = true →
    (wrun R (openWorld d m) ops).2 = (FileSpec.wrun (openWStream d m) ops).2 ∧
    absW (wrun R (openWorld d m) ops).1 = (FileSpec.wrun (openWStream d m) ops).1

/-- still false of the code, for the one finding left open (C19-readline-strips-cr): `io.read("*l")` on "a\r\nb"
    drops the CR.  (The other guard of the proved part, the unbuffered writer, is a proof-effort gap.) -/
theorem io_world_refines_cursor_full_fails : ¬ io_world_refines_cursor_full := by
  intro h
  have := (h 4096 (by decide) [97, 13, 10, 98] .r [.ioInput, .ioRead [.line]] (by decide +kernel)).1
  revert this; decide +kernel

/-- the witnesses of the repaired findings at the library level, now with the Spec's outcome: `io.output(name)` truncates
    ("0123" ends as "AB"); a closed handle given to `io.input` / `io.output`, and `io.lines()` over a closed default
    input, raise and leave the defaults alone. -/
theorem io_world_repaired_witnesses :
    (wrun 4096 (openWorld [48, 49, 50, 51] .r) [.h .close, .ioOutputName, .ioWrite [65, 66], .ioClose]).1.f.disk = [65, 66] ∧
    (FileSpec.wrun (openWStream [48, 49, 50, 51] .r) [.h .close, .ioOutputName, .ioWrite [65, 66], .ioClose]).1.s.bytes = [65, 66] ∧
    (wrun 4096 (openWorld [97] .r) [.ioInput, .h .close, .ioInput, .ioOutput, .ioLines]).2 = [.ok, .ok, .raise, .raise, .raise] ∧
    (FileSpec.wrun (openWStream [97] .r) [.ioInput, .h .close, .ioInput, .ioOutput, .ioLines]).2 = [.ok, .ok, .raise, .raise, .raise] ∧
    (wrun 4096 (openWorld [97] .r) [.h .close, .ioInput, .ioOutput]).1.defIn = .std := by
  refine ⟨by decide +kernel, by decide +kernel, by decide +kernel, by decide +kernel, by decide +kernel⟩

/-- **lines_iterators**: one call of an iterator made by `io.lines(name)` (`auto = true`) or by `io.lines()` /
    `f:lines()` (`auto = false`) on the current handle, from any state of the simulation (any read-ahead), CR-free
    file: it returns what the Spec's iterator returns — the line at the cursor, WITH a last line that has no newline,
    nil exactly at the end of the file, an error on a closed handle — and the handle is closed afterwards iff it was
    closed before or (`auto` and the result is nil): `io.lines(name)` closes the file at the end, the others never do. -/
theorem lines_iterators_partial (R : Nat) (hR : 0 < R) (pend : Bool) (f : LFile) (h : Sim pend f) (auto : Bool)
    (hcr : (13 : UInt8) ∉ f.disk) :
    (ioLinesIter R f auto).2 = (FileSpec.step (absOf f) .iter).2 ∧
    (ioLinesIter R f auto).1.closed =
      (f.closed || (auto && decide ((FileSpec.step (absOf f) .iter).2 = .vals [none]))) ∧
    (ioLinesIter R f auto).1.disk = f.disk := by
  obtain ⟨h1, h2, _⟩ := ioLinesIter_sim hR h auto hcr
  have hcl := spec_closed_flag (absOf f) .iter
  simp only at hcl
  have hby : (FileSpec.step (absOf f) .iter).1.bytes = f.disk := by
    by_cases hc : f.closed = true
    · simp [FileSpec.step, absOf, hc]
    · by_cases hr : f.hasReader = true <;> simp [FileSpec.step, absOf, hc, hr]
  refine ⟨h1, ?_, ?_⟩
  · have : (absOf (ioLinesIter R f auto).1).closed = (ioLinesIter R f auto).1.closed := rfl
    rw [← this, h2]
    by_cases hx : auto = true ∧ (FileSpec.step (absOf f) .iter).2 = .vals [none]
    · simp [hx]
    · rw [if_neg hx, hcl]
      show f.closed = _
      cases auto with
      | false => simp
      | true =>
        have : ¬ ((FileSpec.step (absOf f) .iter).2 = .vals [none]) := fun e => hx ⟨rfl, e⟩
        simp [this]
  · have : (absOf (ioLinesIter R f auto).1).bytes = (ioLinesIter R f auto).1.disk := rfl
    rw [← this, h2]
    by_cases hx : auto = true ∧ (FileSpec.step (absOf f) .iter).2 = .vals [none]
    · simp [hx, hby]
    · rw [if_neg hx]; exact hby

/-- **closed_default_file_guard**: an `io` function (`io.read`, `io.write`, `io.flush`, `io.close`, …) whose default
    slot holds a closed handle — an earlier handle of the file, or the current one after `close` — raises an error
    and changes nothing: not the handle, not the slots, not a byte of the file. -/
theorem closed_default_file_guard (R : Nat) (w : World) (sl : Slot) (op : Op) (hro : ∀ m, op ≠ .reopen m)
    (hs : sl = .stale ∨ (sl = .cur ∧ w.f.closed = true)) :
    w.onSlot R sl op = (w, .raise) := by
  rcases hs with rfl | ⟨rfl, hc⟩
  · rfl
  · simp [World.onSlot, step_closed R hc op hro]

/-- `io.type(f)` / `tostring(f)` tell an open handle from a closed one, in every state, and change nothing. -/
theorem io_type_reports_closed (R : Nat) (w : World) :
    wstep R w .ioType = (w, .vals [some (if w.f.closed then FileSpec.strClosedFile else FileSpec.strFile)]) ∧
    wstep R w .toStr = (w, .vals [some (if w.f.closed then FileSpec.strFileClosed else FileSpec.strFile)]) ∧
    FileSpec.strClosedFile ≠ FileSpec.strFile ∧ FileSpec.strFileClosed ≠ FileSpec.strFile :=
  ⟨rfl, rfl, by decide, by decide⟩

/-- a history that meets the guard of `io_world_refines_cursor_partial` and uses every new operation: `*n` (three
    numerals — one after a line feed, one hexadecimal, one straddling the 4-byte buffer), `io.input(f)`/`io.output(f)`, `io.read`, `io.write` after a seek,
    `io.flush`, `io.lines()` + iterator, `io.type`, `io.close()`, a stale default (`io.write` raises), `io.lines(name)`
    run past the end (closes; the next call raises), `io.input(name)`, an invalid format (raises), `tostring`. -/
def exampleWOps : List WOp :=
  [.h (.read [.num, .num]), .ioInput, .ioOutput, .ioRead [.num, .count 1], .h (.seek .cur 0), .ioWrite [32, 55],
   .ioFlush, .ioLines, .ioIter false, .ioType, .ioClose, .ioType, .ioLinesName, .ioWrite [88], .ioIter true,
   .ioIter true, .ioIter true, .ioType, .ioInputName, .ioRead [.count 2, .str [120]], .toStr, .h .close]

def exampleWData : Bytes := [49, 50, 32, 10, 45, 51, 46, 53, 101, 49, 32, 32, 48, 120, 70, 32, 33, 32, 32, 32, 32, 32]

example : wguard false (openWStream exampleWData .rp) exampleWOps = true ∧
    (wrun 4 (openWorld exampleWData .rp) exampleWOps).2 =
      [.vals [some [49, 50], some [45, 51, 46, 53, 101, 49]], .ok, .ok, .vals [some [48, 120, 70], some [32]], .pos 16, .ok,
       .ok, .ok, .vals [some [32, 32, 32, 32]], .vals [some FileSpec.strFile], .ok, .vals [some FileSpec.strClosedFile],
       .ok, .raise, .vals [some [49, 50, 32]],
       .vals [some [45, 51, 46, 53, 101, 49, 32, 32, 48, 120, 70, 32, 32, 55, 32, 32, 32, 32]], .vals [none],
       .vals [some FileSpec.strClosedFile], .ok, .raise, .vals [some FileSpec.strFile], .ok] := by
  refine ⟨by decide +kernel, by decide +kernel⟩

/-! ## closed_handle_guard -/

/-- **closed_handle_guard**: on a closed handle — whatever its mode, its writer (buffered or not, holding
    bytes or not) and its read-ahead — every operation raises an error and nothing changes: not the handle,
    not the descriptor's offset, not a byte of the file. -/
theorem closed_handle_guard (R : Nat) (f : LFile) (hc : f.closed = true) (op : Op) (hro : ∀ m, op ≠ .reopen m) :
    step R f op = (f, .raise) :=
  step_closed R hc op hro

/-- the same statement about the unchanged functions is false: `seek` answers `nil, err`, `setvbuf` succeeds,
    `lines` hands out an iterator, `write` on a closed read-only handle answers `nil, err`. -/
def closed_handle_guard_unfixed : Prop :=
  ∀ (R : Nat) (f : LFile), f.closed = true → ∀ op, (∀ m, op ≠ .reopen m) → (Unfixed.step R f op).2 = .raise

theorem closed_handle_guard_unfixed_fails : ¬ closed_handle_guard_unfixed := by
  intro h
  have := h 4096 { closed := true } (by rfl) (.seek .set 0) (by intro m; simp)
  revert this; decide

theorem closed_handle_unfixed_witnesses :
    let f : LFile := { closed := true }
    let g : LFile := { closed := true, wr := false, writer := .none }
    (Unfixed.step 4096 f (.seek .set 0)).2 = .fail ∧ (Unfixed.step 4096 f (.setvbuf .no 0)).2 = .ok ∧
    (Unfixed.step 4096 f .lines).2 = .ok ∧ (Unfixed.step 4096 g (.write [120])).2 = .fail := by
  refine ⟨by decide, by decide, by decide, by decide⟩

/-! ## non-vacuity -/

/-- a history that meets every hypothesis of `io_refines_cursor_partial`, mixes reads by count / line / all,
    both separators, a write in the middle of the file, close and reopen in append mode — with a buffer (4 bytes)
    smaller than the file so that read-ahead, abandon and refill all happen. -/
def exampleOps : List Op :=
  [.read [.count 2], .seek .cur 0, .write [88, 89], .read [.line], .flush, .write [90],
   .seek .set 1, .read [.count 3, .all], .read [.count 1], .close, .reopen .ap, .write [33], .seek .set 0,
   .read [.all], .close]

def exampleData : Bytes := [97, 98, 99, 100, 101, 10, 102, 103, 104, 105, 106]

example : Disciplined exampleOps ∧ noBuffering exampleOps ∧ lineSafe exampleData exampleOps ∧ plainReads exampleOps ∧
    (run 4 (ioOpenFile exampleData .rp) exampleOps).1.disk =
      [97, 98, 88, 89, 101, 10, 90, 103, 104, 105, 106, 33] ∧
    (run 4 (ioOpenFile exampleData .rp) exampleOps).2 = (FileSpec.run (FileSpec.openStream exampleData .rp) exampleOps).2 := by
  refine ⟨by decide, by decide, by decide, by decide, by decide, by decide⟩

/-- the hypotheses of `closed_handle_guard` / `cursor_invariant_partial` are satisfiable by non-trivial states:
    a state in the middle of a read (3 bytes of read-ahead) satisfies `Sim`. -/
example : ∃ f : LFile, f.rbuf.length = 3 ∧ Sim true f :=
  ⟨(step 4 (ioOpenFile exampleData .rp) (.read [.count 1])).1, by decide,
   (step_sim (R := 4) (by decide) (sim_open exampleData .rp) (.read [.count 1]) (by simp) (by simp) rfl
      (by simp [usesLine, FileSpec.classify]) (by decide)).2.2⟩

end GLua.Props.C19
