/-
  C20 — require loads each module once, from preload first, and reports loops.
  Property theorems only (lemmas: GLua/Proofs/Require.lean).
    Model = GLua/Model/Require.lean  (loRequire, loLoaders [regenerated order], loLoaderPreload, loLoaderLua,
            loFindFile, FindTable, RegisterModule [as after fixes/C20-registermodule-existing.diff],
            PreloadModule, loModule — tied to the code by the correspondence run)
    Spec  = GLua/Spec/Require.lean   (the Lua 5.1 manual's algorithm; parameter `Tie` = the one documented
            under-determination: a loader that assigns package.loaded[n] *and* returns a value)
  Every statement quantifies over all states (any package.loaded / preload / file map / path / string
  functions / heap), all loader behaviours of the vocabulary, all nesting, every fuel.
-/
import GLua.Proofs.Require

namespace GLua.Props.C20
open GLua.Require

/-! ## Model refines Spec -/

/-- `loRequire` computes exactly what the manual's algorithm computes (with the assigned value winning
    the Tie), on every state, for every module name, at every nesting bound. -/
theorem require_refines_spec (f : Nat) (s : St) (n : Name) :
    Model.loRequire f s n = Spec.require .assigned f s n := Refine.loRequire_eq f s n

theorem register_refines_spec (s : St) (n : Name) (funcs : List String) :
    Model.registerModule s n funcs = Spec.register s n funcs := Refine.registerModule_eq s n funcs

theorem module_refines_spec (s : St) (n : Name) : Model.loModule s n = Spec.module s n := Refine.loModule_eq s n

/-- whole histories agree. -/
theorem history_refines_spec (f : Nat) (s : St) (ops : List Op) :
    Model.run f s ops = runWith (Spec.require .assigned f) Spec.register s ops := by
  have h1 : Model.loRequire f = Spec.require .assigned f := funext fun s => funext fun n => Refine.loRequire_eq f s n
  have h2 : Model.registerModule = Spec.register :=
    funext fun s => funext fun n => funext fun fs => Refine.registerModule_eq s n fs
  simp [Model.run, h1, h2]

/-! ## require_once -/

/-- **require_once** — in every history (any ops, any loaders, any nesting) that does not clear or
    re-register module `m`: once package.loaded[m] holds a true non-sentinel value `v`, it keeps holding the
    identical `v`, no loader body of `m` is started again (log count unchanged), and every later
    `require m` returns exactly `v`. -/
theorem require_once (f : Nat) (m : Name) (v : LV) (ops : List Op) (s : St)
    (hc : Cached s m v) (hns : v ≠ .sentinel) (hno : ∀ o ∈ ops, o.resets m = false) :
    Cached (Model.run (f + 1) s ops).1 m v ∧
    runsOf m (Model.run (f + 1) s ops).1.log = runsOf m s.log ∧
    ∀ p ∈ ops.zip (Model.run (f + 1) s ops).2, p.1 = .require m → p.2 = some (.ok v) := by
  have hreq : Frame m v (Model.loRequire (f + 1)) := by
    intro s n hc; rw [Refine.loRequire_eq]; exact require_frame .assigned m v (f + 1) s n hc
  have hhit : ∀ s, Cached s m v → Model.loRequire (f + 1) s m = (s, .ok v) := by
    intro s hc; rw [Refine.loRequire_eq]; exact require_hit .assigned f s m v hc hns
  have hreg : RegFrame m v Model.registerModule := by
    intro s n fs hne hc; rw [Refine.registerModule_eq]; exact register_frame m v s n fs hne hc
  have h := history_cached hreq hhit hreg ops s hc hno
  exact ⟨h.1.1, h.1.2, h.2⟩

/-- the same inside one call, at any nesting depth: requiring *any* module `n` — with everything its loaders
    require in turn, protected or not — keeps a cached module `m` cached with the identical value and
    starts no loader of `m`. -/
theorem require_keeps_cached (f : Nat) (s : St) (n m : Name) (v : LV) (hc : Cached s m v) :
    Kept m v s (Model.loRequire f s n).1 := by
  rw [Refine.loRequire_eq]; exact require_frame .assigned m v f s n hc

/-- what `require` returns is the final package.loaded[n] (never the sentinel); in particular a true result
    is cached, so `require_once` applies from then on: the loader that produced it was its last run until
    the entry is cleared. -/
theorem require_result_is_cached (f : Nat) (s s' : St) (n : Name) (v : LV)
    (h : Model.loRequire f s n = (s', .ok v)) :
    s'.loaded n = v ∧ v ≠ .sentinel ∧ (v.truthy = true → Cached s' n v) := by
  rw [Refine.loRequire_eq] at h
  have := require_result .assigned f s s' n v h
  exact ⟨this.1, this.2, fun ht => ⟨this.1, ht⟩⟩

/-- a loader that returns nothing (and assigns nothing) leaves `true` cached and `require` returns it. -/
theorem require_true_when_nothing_returned (f : Nat) (s : St) (n : Name) (ld : Loader)
    (hun : (s.loaded n).truthy = false) (hl : Model.loaderLoop s n Model.loLoaders [] = .inl ld)
    (hb : ld.beh = { steps := [], final := .none }) :
    ∃ s', Model.loRequire (f + 1) s n = (s', .ok (.bool true)) ∧ s'.loaded n = .bool true := by
  rw [Refine.loRequire_eq]
  apply require_true_when_nothing .assigned f s n ld hun _ hb
  rw [Refine.loaderLoop_eq] at hl
  cases hf : Spec.findLoader s n with
  | inl ld' => simp [hf] at hl; rw [hl]
  | inr t => simp [hf] at hl

/-- the same guarantees hold of the manual's algorithm under *either* Tie choice (Lua 5.1's and
    gopher-lua's): the noted deviation does not touch the property. -/
theorem require_once_spec_any_tie (tie : Spec.Tie) (f : Nat) (m : Name) (v : LV) (ops : List Op) (s : St)
    (hc : Cached s m v) (hns : v ≠ .sentinel) (hno : ∀ o ∈ ops, o.resets m = false) :
    Kept m v s (runWith (Spec.require tie (f + 1)) Spec.register s ops).1 ∧
    ∀ p ∈ ops.zip (runWith (Spec.require tie (f + 1)) Spec.register s ops).2,
      p.1 = .require m → p.2 = some (.ok v) :=
  history_cached (require_frame tie m v (f + 1)) (fun s hc => require_hit tie f s m v hc hns)
    (register_frame m v) ops s hc hno

/-! ## preload_first -/

/-- the post-processing of loRequire after the loader returned. -/
def finish (name : Name) : St × Res → St × Res
  | (s2, .err e) => (s2, .err e)
  | (s2, .ok ret) =>
    if ret ≠ .nil ∧ s2.loaded name = .sentinel then (s2.setLoaded name ret, .ok ret)
    else if s2.loaded name = .sentinel then (s2.setLoaded name (.bool true), .ok (.bool true))
    else (s2, .ok (s2.loaded name))

/-- **preload_first** — with the loader order regenerated from loadlib.go: if package.preload[n] is set
    and n is not cached, the preload entry is the loader that `require` picks and runs (under the
    sentinel), whatever the file map contains. -/
theorem preload_first (f : Nat) (s : St) (n : Name) (ld : Loader)
    (hp : s.preload n = some ld) (hun : (s.loaded n).truthy = false) :
    Model.loaderLoop s n Model.loLoaders [] = .inl ld ∧
    Model.loRequire (f + 1) s n =
      finish n (runLoader { require := Model.loRequire f, module := Model.loModule } (s.setLoaded n .sentinel) ld n) := by
  have h1 : Model.loaderLoop s n Model.loLoaders [] = .inl ld := by
    rw [Refine.loaderLoop_eq]; simp [Spec.findLoader, hp]
  refine ⟨h1, ?_⟩
  simp only [Model.loRequire, Model.loRequireL, hun, h1]
  rcases runLoader { require := Model.loRequireL Model.loLoaders f, module := Model.loModule } (s.setLoaded n .sentinel) ld n with ⟨s2, r⟩
  cases r <;> simp [finish]

/-- without a preload entry the first existing file among the path candidates (if it loads) is what runs. -/
theorem path_search_second (s : St) (n : Name) (p : String) (b : Beh) (hp : s.preload n = none)
    (hfind : (Spec.candidates s n).find? (fun p => (s.files p).isSome) = some p) (hb : s.files p = some b)
    (hok : s.broken p = false) :
    Model.loaderLoop s n Model.loLoaders [] = .inl { src := .file, key := p, beh := b } := by
  rw [Refine.loaderLoop_eq]; simp [Spec.findLoader, hp, hfind, hb, hok]

/-! ## loop_reported -/

/-- **loop_reported** — the sentinel visible ⇒ error, and nothing else happens. -/
theorem loop_reported (f : Nat) (s : St) (n : Name) (h : s.loaded n = .sentinel) :
    Model.loRequire (f + 1) s n = (s, .err (.loop n)) := by
  rw [Refine.loRequire_eq]; exact require_sentinel .assigned f s n h

/-- …and the sentinel stays visible for as long as the loader runs, whatever is required meanwhile, directly
    or indirectly, protected or not: while package.loaded[n] is the sentinel, requiring any module `m`
    (with everything its loaders nest) leaves it the sentinel and starts no loader of `n`.  Together with
    `loop_reported` and `require_runs_loader_under_sentinel`: every require of `n` reached from `n`'s own
    loader, at any depth, is reported as a loop. -/
theorem sentinel_persists (f : Nat) (s : St) (n m : Name) (h : s.loaded n = .sentinel) :
    (Model.loRequire f s m).1.loaded n = .sentinel ∧
    runsOf n (Model.loRequire f s m).1.log = runsOf n s.log := by
  rw [Refine.loRequire_eq]
  have := require_frame .assigned n .sentinel f s m ⟨h, rfl⟩
  exact ⟨this.1.1, this.2⟩

/-- the loader of an uncached module is run in a state where its own entry is the sentinel. -/
theorem require_runs_loader_under_sentinel (f : Nat) (s : St) (n : Name) (ld : Loader)
    (hun : (s.loaded n).truthy = false) (hl : Model.loaderLoop s n Model.loLoaders [] = .inl ld) :
    Model.loRequire (f + 1) s n =
      finish n (runLoader { require := Model.loRequire f, module := Model.loModule } (s.setLoaded n .sentinel) ld n)
    ∧ (s.setLoaded n .sentinel).loaded n = .sentinel := by
  refine ⟨?_, by simp⟩
  simp only [Model.loRequire, Model.loRequireL, hun, hl]
  rcases runLoader { require := Model.loRequireL Model.loLoaders f, module := Model.loModule } (s.setLoaded n .sentinel) ld n with ⟨s2, r⟩
  cases r <;> simp [finish]

/-- direct loop: a loader whose first action is an unprotected `require` of its own module fails with the
    loop error, and (as in 5.1) leaves the sentinel behind, so later requires report "loop or previous error". -/
theorem self_require_is_loop (f : Nat) (s : St) (n : Name) (ld : Loader) (rest : List Step)
    (hun : (s.loaded n).truthy = false) (hl : Model.loaderLoop s n Model.loLoaders [] = .inl ld)
    (hb : ld.beh.steps = { target := n, prot := false } :: rest) :
    ∃ s', Model.loRequire (f + 2) s n = (s', .err (.loop n)) ∧ s'.loaded n = .sentinel := by
  have h := (require_runs_loader_under_sentinel (f + 1) s n ld hun hl).1
  rw [h]
  have hin : Model.loRequire (f + 1) ((s.setLoaded n .sentinel).logEv (.run ld.src ld.key n)) n
      = (((s.setLoaded n .sentinel).logEv (.run ld.src ld.key n)), .err (.loop n)) :=
    loop_reported f _ n (by simp)
  simp [runLoader, hb, runSteps, hin, finish]

/-- what a failure leaves behind (as in Lua 5.1): a loader that raises leaves the sentinel in
    package.loaded[n]; every later `require n` reports "loop or previous error" until the entry is cleared. -/
theorem failed_load_leaves_sentinel (f : Nat) (s : St) (n : Name) (ld : Loader)
    (hun : (s.loaded n).truthy = false) (hl : Model.loaderLoop s n Model.loLoaders [] = .inl ld)
    (hb : ld.beh = { steps := [], final := .raise }) :
    ∃ s', Model.loRequire (f + 1) s n = (s', .err (.raised n)) ∧ s'.loaded n = .sentinel ∧
      ∀ k, Model.loRequire (k + 1) s' n = (s', .err (.loop n)) := by
  have h := (require_runs_loader_under_sentinel f s n ld hun hl).1
  refine ⟨(s.setLoaded n .sentinel).logEv (.run ld.src ld.key n), ?_, by simp, fun k => loop_reported k _ n (by simp)⟩
  rw [h]
  simp [runLoader, hb, runSteps, runFinal, finish]

/-! ## what a failed require leaves behind, stage by stage (and what the next require does)

 stage                                          package.loaded[n] afterwards      the next `require n`
 no searcher finds n                            unchanged (`missing_lists_tried`) searches again
 file found, does not load (syntax, unreadable) unchanged                         searches again: loads the repaired file
 loader raises                                  the sentinel                      "loop or previous error" until cleared
 loader assigns package.loaded[n], then raises  what it assigned                  returns that value, runs nothing
 loader returns false / nil after assigning nil false / true                      runs again / cached            -/

/-- the file found first on the path does not load: the error is raised while the searchers are consulted, the
    state is unchanged — in particular NO sentinel is stored (loadlib.c: loader_Lua → loaderror, before ll_require
    stores the sentinel). -/
theorem unloadable_file_fails_in_search (f : Nat) (s : St) (n : Name) (p : String)
    (hun : (s.loaded n).truthy = false) (hp : s.preload n = none)
    (hfind : (Spec.candidates s n).find? (fun p => (s.files p).isSome) = some p) (hb : s.broken p = true) :
    Model.loRequire (f + 1) s n = (s, .err (.loadErr p)) := by
  have h1 : Model.loaderLoop s n Model.loLoaders [] = .inr (.loadErr p) := by
    rw [Refine.loaderLoop_eq]; simp [Spec.findLoader, hp, hfind, hb]
  simp only [Model.loRequire, Model.loRequireL, hun, h1]
  rfl

/-- … so once that file has been rewritten, the next require runs the new code (under the sentinel, once). -/
theorem repaired_file_loads (f : Nat) (s : St) (n : Name) (p : String) (b : Beh)
    (hun : (s.loaded n).truthy = false) (hp : s.preload n = none)
    (hfind : (Spec.candidates s n).find? (fun p => (s.files p).isSome) = some p) :
    Model.loRequire (f + 1) (s.writeFile p b) n =
      finish n (runLoader { require := Model.loRequire f, module := Model.loModule }
        ((s.writeFile p b).setLoaded n .sentinel) { src := .file, key := p, beh := b } n) := by
  have hsome : (s.files p).isSome = true := by simpa using List.find?_some hfind
  have hfiles : (fun q => ((s.writeFile p b).files q).isSome) = (fun q => (s.files q).isSome) := by
    funext q
    by_cases hq : q = p
    · subst hq; simp [St.writeFile, hsome]
    · simp [St.writeFile, hq]
  have hfind' : (Spec.candidates (s.writeFile p b) n).find? (fun q => ((s.writeFile p b).files q).isSome) = some p := by
    rw [hfiles]; exact hfind
  exact (require_runs_loader_under_sentinel f (s.writeFile p b) n _ hun
    (path_search_second (s.writeFile p b) n p b hp hfind' (by simp [St.writeFile]) (by simp [St.writeFile]))).1

/-- a loader that assigns package.loaded[n] and then raises: the error propagates, the assigned value stays, and
    every later `require n` returns it without running anything (as in Lua 5.1: nothing is rolled back). -/
theorem failed_after_assigning_keeps_assignment (f : Nat) (s : St) (n : Name) (ld : Loader)
    (hun : (s.loaded n).truthy = false) (hl : Model.loaderLoop s n Model.loLoaders [] = .inl ld)
    (hb : ld.beh = { steps := [], final := .setRaise }) :
    ∃ s', Model.loRequire (f + 1) s n = (s', .err (.raised n)) ∧ s'.loaded n = .tbl (s.serial + 1) ∧
      ∀ k, Model.loRequire (k + 1) s' n = (s', .ok (.tbl (s.serial + 1))) := by
  have h := (require_runs_loader_under_sentinel f s n ld hun hl).1
  rw [h]
  simp only [runLoader, hb, runSteps, runFinal, finish, St.fresh]
  refine ⟨_, rfl, by simp [St.logEv], fun k => ?_⟩
  rw [Refine.loRequire_eq]
  exact require_hit .assigned k _ n _ ⟨by simp [St.logEv], rfl⟩ (by simp)

/-! ## the package fields are read when `require` runs, not when the library is opened -/

/-- after `package.preload = {…}` an entry that stayed behind in the discarded table is no registration: the
    preload searcher answers "no field package.preload[n]" … -/
theorem discarded_preload_entry_is_gone (s : St) (n : Name) (keep : List Name) (hk : n ∉ keep) :
    Model.loLoaderPreload (s.newPreload keep) n = .msg ["P:" ++ n] := by
  simp [Model.loLoaderPreload, St.newPreload, hk]

/-- … and a module registered in the NEW table — through L.PreloadModule or from Lua — is what `require` picks. -/
theorem new_preload_table_is_consulted (s : St) (n : Name) (keep : List Name) (b : Beh) :
    Model.loaderLoop (Model.preloadModule (s.newPreload keep) n b) n Model.loLoaders []
      = .inl { src := .go, key := n, beh := b } ∧
    Model.loaderLoop (stepWith (Model.loRequire 0) Model.registerModule (s.newPreload keep) (.preload n b)).1 n
      Model.loLoaders [] = .inl { src := .lua, key := n, beh := b } := by
  constructor <;> (rw [Refine.loaderLoop_eq]; simp [Spec.findLoader, Model.preloadModule, stepWith])

/-- package.path is the string the field holds at the time of the call: candidates are computed from `s.path`
    (whatever it was before), in the order of its templates. -/
theorem path_is_read_per_call (s : St) (n : Name) (path' : String) :
    Spec.candidates { s with path := path' } n =
      (s.str.splitPath path').map (fun tmpl => s.str.subst tmpl (s.str.replaceDots n)) := rfl

/-- the refinement holds over ANY searcher chain: if loRequire iterated over the chain the reference iterates
    over, the two would agree on every state … -/
theorem require_refines_spec_any_chain (chain : List Searcher) (f : Nat) (s : St) (n : Name) :
    Model.loRequireL chain f s n = Spec.requireL .assigned chain f s n := Refine.loRequireL_eq chain f s n

/-- … and require_once holds over any chain (scripted searchers included): -/
theorem require_once_any_chain (chain : List Searcher) (f : Nat) (m : Name) (v : LV) (ops : List Op) (s : St)
    (hc : Cached s m v) (hns : v ≠ .sentinel) (hno : ∀ o ∈ ops, o.resets m = false) :
    Kept m v s (runWith (Model.loRequireL chain (f + 1)) Model.registerModule s ops).1 ∧
    ∀ p ∈ ops.zip (runWith (Model.loRequireL chain (f + 1)) Model.registerModule s ops).2,
      p.1 = .require m → p.2 = some (.ok v) := by
  have hreq : Frame m v (Model.loRequireL chain (f + 1)) := by
    intro s n hc; rw [Refine.loRequireL_eq]; exact requireL_frame .assigned chain m v (f + 1) s n hc
  have hhit : ∀ s, Cached s m v → Model.loRequireL chain (f + 1) s m = (s, .ok v) := by
    intro s hc; rw [Refine.loRequireL_eq]; exact requireL_hit .assigned chain f s m v hc hns
  have hreg : RegFrame m v Model.registerModule := by
    intro s n fs hne hc; rw [Refine.registerModule_eq]; exact register_frame m v s n fs hne hc
  exact history_cached hreq hhit hreg ops s hc hno

/-- FULL statement about a REPLACED package.loaders: Lua 5.1 reads the field `loaders` of the package table on every
    call, so whatever chain a script assigns there is the one `require` uses. -/
def replaced_loaders_honoured_full : Prop :=
  ∀ (chain : List Searcher) (f : Nat) (s : St) (n : Name),
    Model.loRequire f s n = Spec.requireL .assigned chain f s n

/-- it is FALSE of gopher-lua (known finding C20-loaders-replaced): loRequire reads registry._LOADERS, the table
    OpenPackage created, and never the field package.loaders. Witness: `package.loaders = {}`, then require of a
    preloaded module — the reference finds nothing, gopher-lua loads it. -/
theorem replaced_loaders_honoured_full_fails : ¬ replaced_loaders_honoured_full := by
  intro h
  have := congrArg (·.2) (h [] 3
    { str := StrOps.simple,
      preload := upd (fun _ => none) "a" (some { src := .lua, key := "a", beh := { steps := [], final := .ret } }) } "a")
  revert this
  decide

/-- `_partial`: as long as the chain is the one in the table OpenPackage created (never replaced, or changed in
    place — then `chain` below is its current content), the refinement holds. -/
theorem replaced_loaders_honoured_partial (f : Nat) (s : St) (n : Name) :
    Model.loRequire f s n = Spec.requireL .assigned Model.loLoaders f s n :=
  Refine.loRequireL_eq Model.loLoaders f s n

/-! ## missing_lists_tried -/

/-- **missing_lists_tried** — no preload entry and none of the candidate files exists: the error names
    the module and lists the preload lookup and *every* candidate path of package.path, in order; the state
    is unchanged (no sentinel is left behind, so providing the module later works). -/
theorem missing_lists_tried (f : Nat) (s : St) (n : Name)
    (hun : (s.loaded n).truthy = false) (hp : s.preload n = none)
    (hf : ∀ p ∈ Spec.candidates s n, s.files p = none) :
    Model.loRequire (f + 1) s n =
      (s, .err (.notFound n (("P:" ++ n) :: (Spec.candidates s n).map ("F:" ++ ·)))) := by
  have hfind : (Spec.candidates s n).find? (fun p => (s.files p).isSome) = none := by
    rw [List.find?_eq_none]; intro p hp'; simp [hf p hp']
  have h1 : Model.loaderLoop s n Model.loLoaders [] =
      .inr (.notFound n (("P:" ++ n) :: (Spec.candidates s n).map ("F:" ++ ·))) := by
    rw [Refine.loaderLoop_eq]; simp [Spec.findLoader, hp, hfind]
  simp only [Model.loRequire, Model.loRequireL, hun, h1]
  rfl

/-! ## registered_reachable -/

/-- **registered_reachable** (require half, full strength) — after `RegisterModule(n, funcs)` returned the
    module table: every registered function is in that table, and `require n` returns the identical table
    without running anything. -/
theorem registered_reachable (s s' : St) (n : Name) (funcs : List String) (t : LV)
    (h : Model.registerModule s n funcs = (s', .ok t)) :
    (∃ id, t = .tbl id ∧ ∀ f ∈ funcs, s'.heap id f = .fn) ∧
    (∀ k, Model.loRequire (k + 1) s' n = (s', .ok t)) := by
  obtain ⟨id, s1, rfl, hheap, hld, _⟩ := registerModule_ok s s' n funcs t h
  refine ⟨⟨id, rfl, fun f hf => by rw [hheap]; exact (foldl_heapSet_get funcs id s1).1 f hf⟩, fun k => ?_⟩
  rw [Refine.loRequire_eq]
  exact require_hit .assigned k s' n (.tbl id) ⟨hld, rfl⟩ (by simp)

/-- **registered_reachable** (global half, `_partial`) — for an undotted name that is not itself one of the
    function names: if package.loaded[n] did not already hold a table, the module table is also the value
    of the global variable `n`. -/
theorem registered_global_partial (s s' : St) (n : Name) (funcs : List String) (t : LV)
    (hsimple : s.str.splitDots n = [n]) (hf : n ∉ funcs) (hnt : ∀ j, s.loaded n ≠ .tbl j)
    (h : Model.registerModule s n funcs = (s', .ok t)) : s'.heap 0 n = t := by
  obtain ⟨id, s1, rfl, hheap, _, hcase⟩ := registerModule_ok s s' n funcs t h
  rcases hcase with ⟨hl, _⟩ | ⟨_, hft⟩
  · exact absurd hl (hnt id)
  · rw [hheap, (foldl_heapSet_get funcs id s1).2 0 n (Or.inr hf)]
    simp only [Model.findTable, hsimple, Model.findTableLoop] at hft
    cases hh : s.heap 0 n with
    | nil =>
      simp only [hh, St.fresh, Prod.mk.injEq, LV.tbl.injEq] at hft
      obtain ⟨rfl, rfl⟩ := hft
      simp [St.heapSet]
    | tbl j =>
      simp only [hh, Prod.mk.injEq, LV.tbl.injEq] at hft
      obtain ⟨rfl, rfl⟩ := hft
      exact hh
    | bool _ | str _ | fn | sentinel => simp [hh] at hft

/-- the global half without the guard on package.loaded[n]. -/
def registered_global_full : Prop :=
  ∀ (s s' : St) (n : Name) (funcs : List String) (t : LV), s.str.splitDots n = [n] → n ∉ funcs →
    Model.registerModule s n funcs = (s', .ok t) → s'.heap 0 n = t

/-- it is *false* (of gopher-lua and of Lua 5.1's luaL_register alike): when a Lua module was required before
    and returned its own table, RegisterModule reuses that table and the global stays unset. -/
theorem registered_global_full_fails : ¬ registered_global_full := by
  intro h
  have := h { str := StrOps.simple, loaded := upd (fun _ => .nil) "m" (.tbl 7) }
    (Model.registerModule { str := StrOps.simple, loaded := upd (fun _ => .nil) "m" (.tbl 7) } "m" ["f"]).1
    "m" ["f"] (.tbl 7) rfl (by decide) rfl
  revert this
  decide

/-! ## loader chain (regenerated)

(Until /repo 2244ce2 the standard libraries only landed in the `package.loaded` that `require` consults because
OpenPackage ran first and REPLACED registry._LOADED; a theorem pinned that order (`package_opened_first`).  Since the
repair `package.loaded` IS the registry table, whatever the order: the order fact is no longer an obligation, and the
harness checks the outcome directly — every standard library, the globals table under "_G" and the package library
itself are in package.loaded and returned by `require` — at the start of every history.) -/

/-- the regenerated loader chain: preload, then the Lua path search, nothing else. -/
theorem loader_order : Model.loLoaders = [.preload, .lua] := Refine.loLoaders_eq

/-! ## non-vacuity and the stated exception -/

/-- a small world: `a` has a preload loader that requires `b` under pcall and returns a table, `b` has a
    file that (unprotected) requires `a` back — a loop, reported inside `b`, `a` still loads. -/
def exWorld : St :=
  { str := StrOps.simple, path := "?",
    preload := upd (fun _ => none) "a" (some { src := .lua, key := "a", beh := { steps := [⟨"b", true⟩], final := .ret } }),
    files := upd (fun _ => none) "b" (some { steps := [⟨"a", false⟩], final := .ret }) }

/-- hypotheses of `require_once` / `preload_first` / `loop_reported` are met by a concrete run: -/
example :
    let r := Model.loRequire 5 exWorld "a"
    r.2 = .ok (.tbl 1) ∧ r.1.loaded "a" = .tbl 1 ∧ r.1.loaded "b" = .sentinel ∧
    runsOf "a" r.1.log = 1 ∧ runsOf "b" r.1.log = 1 ∧
    (Model.loRequire 5 r.1 "a").2 = .ok (.tbl 1) ∧ runsOf "a" (Model.loRequire 5 r.1 "a").1.log = 1 ∧
    (Model.loRequire 5 r.1 "b").2 = .err (.loop "b") := by
  decide

example : Model.loRequire 5 exWorld "zz" = (exWorld, .err (.notFound "zz" ["P:zz", "F:zz"])) := by
  have := missing_lists_tried 4 exWorld "zz" rfl rfl (by decide)
  simpa [show Spec.candidates exWorld "zz" = ["zz"] from rfl] using this

/-- a world for the failure stages: `b`'s file does not compile, `c`'s loader assigns and then raises. -/
def failWorld : St :=
  { str := StrOps.simple, path := "?",
    files := upd (upd (fun _ => none) "b" (some {})) "c" (some { steps := [], final := .setRaise }),
    broken := upd (fun _ => false) "b" true }

example :
    let r := Model.loRequire 5 failWorld "b"
    r.2 = .err (.loadErr "b") ∧ r.1.loaded "b" = .nil ∧
    (Model.loRequire 5 (r.1.writeFile "b" { steps := [], final := .ret }) "b").2 = .ok (.tbl 1) ∧
    (let c := Model.loRequire 5 failWorld "c"
     c.2 = .err (.raised "c") ∧ c.1.loaded "c" = .tbl 1 ∧ (Model.loRequire 5 c.1 "c").2 = .ok (.tbl 1) ∧
       runsOf "c" (Model.loRequire 5 c.1 "c").1.log = 1) := by
  decide

/-- scripted searchers in the chain: a finder in front of the library's searchers wins, a silent one is skipped,
    a talking one is listed. -/
example :
    (Spec.requireL .assigned [.silent, .finder "a" { steps := [], final := .ret }, .preload, .lua] 3 exWorld "a").2 = .ok (.tbl 1) ∧
    (Spec.requireL .assigned [.says "x", .preload] 3 exWorld "zz").2 = .err (.notFound "zz" ["C:x", "P:zz"]) ∧
    (Spec.requireL .assigned [] 3 exWorld "a").2 = .err (.notFound "a" []) := by
  decide

/-- the stated exception (as in Lua 5.1): a loader that returns `false` leaves `false` in package.loaded, which
    does not count as loaded — the next `require` runs it again. -/
theorem false_returning_loader_reruns :
    ∃ (s : St) (n : Name), let r1 := Model.loRequire 3 s n
      r1.2 = .ok (.bool false) ∧ runsOf n r1.1.log = 1 ∧ runsOf n (Model.loRequire 3 r1.1 n).1.log = 2 :=
  ⟨{ str := StrOps.simple,
     preload := upd (fun _ => none) "a" (some { src := .go, key := "a", beh := { steps := [], final := .retFalse } }) },
   "a", by decide⟩

def tieWorld : St :=
  { str := StrOps.simple,
    preload := upd (fun _ => none) "a" (some { src := .lua, key := "a", beh := { steps := [], final := .setRet } }) }

/-- the Tie: a loader that assigns A and returns B — Lua 5.1 caches B, gopher-lua keeps A; under both the
    second require returns the identical cached value and nothing runs again. -/
example :
    (Spec.require .returned 3 tieWorld "a").2 = .ok (.tbl 2) ∧ (Spec.require .assigned 3 tieWorld "a").2 = .ok (.tbl 1) ∧
    (Model.loRequire 3 tieWorld "a").2 = .ok (.tbl 1) ∧
    (Spec.require .returned 3 (Spec.require .returned 3 tieWorld "a").1 "a").2 = .ok (.tbl 2) ∧
    runsOf "a" (Spec.require .returned 3 (Spec.require .returned 3 tieWorld "a").1 "a").1.log = 1 := by
  decide

end GLua.Props.C20
