/-
  C02 — Spec: value-list adjustment, parameter binding, `select`, `unpack`, table-constructor lists.
  Written from the Lua 5.1 reference manual (§2.4.3 "Assignment", §2.5 "Expressions" — adjustment of
  multiple results, §2.5.7 constructors, §2.5.8 calls, §2.5.9 function definitions / varargs, §5.1 `select`,
  `unpack`), NOT from gopher-lua.  Core Lean only.
  A Lua value is `OVal` (`none` = nil).
-/
import GLua.Basic

namespace GLua.Adjust
open GLua

/-- §2.5: "the list of values is *adjusted* to the required length: if there are more values than needed the
    excess values are thrown away, if there are fewer the list is extended with as many nil's as needed";
    `want = none` is the open position (last in an argument list, return list, constructor, assignment):
    all values are kept. -/
def adjust (vs : List OVal) : Option Nat → List OVal
  | none   => vs
  | some n => vs.take n ++ List.replicate (n - vs.length) none

/-- §2.5.9: parameters receive the arguments adjusted to the number of parameters; a vararg function collects
    the surplus ("extra arguments") for `...`; a fixed-arity function drops it. -/
def bind (np : Nat) (isVararg : Bool) (args : List OVal) : List OVal × List OVal :=
  (adjust args (some np), if isVararg then args.drop np else [])

/-- §5.1 `select (index, ...)`: for a number `index ≥ 1` all arguments from number `index` on; a negative index
    counts from the end (`select(-1, ...)` is the last argument — behaviour of the reference implementation,
    lbaselib.c `luaB_select`); 0 or a negative index before the first argument is an error. -/
def selectSpec (index : Int) (extra : List OVal) : Except String (List OVal) :=
  if index ≥ 1 then .ok (extra.drop (index.toNat - 1))
  else if index < 0 ∧ index.natAbs ≤ extra.length then .ok (extra.drop (extra.length - index.natAbs))
  else .error "index out of range"

/-- `select('#', ...)`: the number of extra arguments. -/
def selectCount (extra : List OVal) : Nat := extra.length

/-- §5.1 `unpack (list [, i [, j]])` = `return list[i], list[i+1], ···, list[j]`; `i` defaults to 1 and `j` to the
    length of the list (the default is resolved by the caller of this function). -/
def unpackSpec (list : Int → OVal) (i j : Int) : List OVal :=
  (List.range (j - i + 1).toNat).map (fun (k : Nat) => list (i + (k : Int)))

/-- §2.5.7: positional fields `exp` of a constructor are stored under consecutive integers starting with 1
    (keyed fields do not count); if the last field is a call or `...` all its values enter the list. -/
def constructorList (items : List OVal) (lastMulti : List OVal) : List OVal := items ++ lastMulti

/-- the table's positional content as a lookup: index `k ≥ 1` holds the `k`-th list value, nothing else is set. -/
def constructorAt (items lastMulti : List OVal) (k : Nat) : OVal :=
  if k = 0 then none else ((constructorList items lastMulti)[k - 1]?).getD none

/-- §2.5.8 method-call sugar `v:name(args)` = `v.name(v, args)`: the receiver becomes the first argument. -/
def methodArgs (receiver : OVal) (args : List OVal) : List OVal := receiver :: args

theorem adjust_length (vs : List OVal) (n : Nat) : (adjust vs (some n)).length = n := by
  simp [adjust]; omega

theorem adjust_get (vs : List OVal) (n i : Nat) (h : i < n) :
    (adjust vs (some n))[i]? = some ((vs[i]?).getD none) := by
  simp only [adjust]
  by_cases hi : i < vs.length
  · rw [List.getElem?_append_left (by simp; omega)]
    simp [h, hi]
  · have hlen : (vs.take n).length ≤ i := by simp; omega
    rw [List.getElem?_append_right hlen]
    have : vs[i]? = none := by simp; omega
    rw [this]
    simp only [List.length_take, Option.getD_none]
    rw [List.getElem?_replicate]
    have : i - min n vs.length < n - vs.length := by omega
    simp [this]

end GLua.Adjust
