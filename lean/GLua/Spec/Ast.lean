/-
  AST of the core language (Lua 5.1 + goto) and its S-expression reader (docs/AST.md).
  Core Lean only.
-/
import GLua.Basic

namespace GLua.Sem

/-! ### S-expressions -/

inductive Sexp where
  | atom (s : String)
  | list (l : List Sexp)
deriving Repr, Inhabited

/-- split a blank-free word into "(", ")" and atoms. -/
def tokWord (w : String) : List String :=
  let rec go (cs : List Char) (cur : List Char) (acc : List String) : List String :=
    match cs with
    | [] => if cur.isEmpty then acc.reverse else (String.ofList cur.reverse :: acc).reverse
    | c :: r =>
      if c = '(' ∨ c = ')' then
        let acc := if cur.isEmpty then acc else String.ofList cur.reverse :: acc
        go r [] (String.singleton c :: acc)
      else go r (c :: cur) acc
  go w.toList [] []

/-- parse a token list into S-expressions (stack machine; total). -/
def parseSexps (toks : List String) : Option (List Sexp) :=
  let rec go (toks : List String) (stack : List (List Sexp)) (cur : List Sexp) : Option (List Sexp) :=
    match toks with
    | [] => if stack.isEmpty then some cur.reverse else none
    | t :: r =>
      if t = "(" then go r (cur :: stack) []
      else if t = ")" then
        match stack with
        | [] => none
        | top :: rest => go r rest (Sexp.list cur.reverse :: top)
      else go r stack (Sexp.atom t :: cur)
  go toks [] []

/-! ### AST -/

inductive BinOp where
  | add | sub | mul | div | mod | pow | concat | eq | ne | lt | le | gt | ge
deriving Repr, DecidableEq, Inhabited

mutual
  inductive Expr where
    | nil | tru | fls | dots
    | num (tok : String)            -- wire token of the number
    | str (hex : String)
    | var (name : String)
    | index (t k : Expr)
    | call (f : Expr) (args : List Expr)
    | meth (o : Expr) (name : String) (args : List Expr)
    | func (line lastLine : Nat) (params : List String) (vararg : Bool) (body : List Stmt)
    | bin (op : BinOp) (l r : Expr)
    | and (l r : Expr) | or (l r : Expr) | not (e : Expr) | neg (e : Expr) | len (e : Expr)
    | table (fields : List Field)
    | paren (e : Expr)
  inductive Field where
    | pos (e : Expr)
    | keyed (k v : Expr)
  inductive Stmt where
    | localS (line : Nat) (names : List String) (es : List Expr)
    | assign (line : Nat) (targets : List Expr) (es : List Expr)
    | callS (line : Nat) (e : Expr)
    | doS (line : Nat) (body : List Stmt)
    | whileS (line : Nat) (c : Expr) (body : List Stmt)
    | repeatS (line untilLine : Nat) (c : Expr) (body : List Stmt)
    | ifS (line : Nat) (c : Expr) (thn els : List Stmt)
    | forNum (line : Nat) (v : String) (e1 e2 : Expr) (e3 : Option Expr) (body : List Stmt)
    | forIn (line : Nat) (names : List String) (es : List Expr) (body : List Stmt)
    | localFn (line : Nat) (name : String) (f : Expr)
    | ret (line : Nat) (es : List Expr)
    | brk (line : Nat)
    | goto (line : Nat) (label : String)
    | label (line : Nat) (label : String)
    | untilS (line : Nat) (c : Expr)      -- internal: the `until` test, appended to a repeat body
end

instance : Inhabited Expr := ⟨.nil⟩
instance : Inhabited Stmt := ⟨.brk 0⟩
instance : Inhabited Field := ⟨.pos .nil⟩

def parseBinOp : String → Option BinOp
  | "add" => some .add | "sub" => some .sub | "mul" => some .mul | "div" => some .div
  | "mod" => some .mod | "pow" => some .pow | "concat" => some .concat
  | "eq" => some .eq | "ne" => some .ne | "lt" => some .lt | "le" => some .le
  | "gt" => some .gt | "ge" => some .ge
  | _ => none

def atomsOf (l : List Sexp) : Option (List String) :=
  l.mapM fun | .atom s => some s | _ => none

mutual
  partial def toExpr : Sexp → Option Expr
    | .atom "nil" => some .nil
    | .atom "true" => some .tru
    | .atom "false" => some .fls
    | .atom "dots" => some .dots
    | .list [.atom "n", .atom t] => some (.num t)
    | .list [.atom "s", .atom h] => some (.str h)
    | .list [.atom "s"] => some (.str "")
    | .list [.atom "v", .atom n] => some (.var n)
    | .list [.atom "ix", a, b] => do some (.index (← toExpr a) (← toExpr b))
    | .list [.atom "call", f, .list args] => do some (.call (← toExpr f) (← args.mapM toExpr))
    | .list [.atom "meth", o, .atom n, .list args] => do some (.meth (← toExpr o) n (← args.mapM toExpr))
    | .list [.atom "fn", .atom l, .atom le, .list ps, .atom va, .list body] => do
        some (.func (← l.toNat?) (← le.toNat?) (← atomsOf ps) (va = "1") (← body.mapM toStmt))
    | .list [.atom "bin", .atom op, a, b] => do some (.bin (← parseBinOp op) (← toExpr a) (← toExpr b))
    | .list [.atom "and", a, b] => do some (.and (← toExpr a) (← toExpr b))
    | .list [.atom "or", a, b] => do some (.or (← toExpr a) (← toExpr b))
    | .list [.atom "not", a] => do some (.not (← toExpr a))
    | .list [.atom "neg", a] => do some (.neg (← toExpr a))
    | .list [.atom "len", a] => do some (.len (← toExpr a))
    | .list [.atom "tbl", .list fs] => do some (.table (← fs.mapM toField))
    | .list [.atom "par", a] => do some (.paren (← toExpr a))
    | _ => none
  partial def toField : Sexp → Option Field
    | .list [.atom "p", e] => do some (.pos (← toExpr e))
    | .list [.atom "k", k, v] => do some (.keyed (← toExpr k) (← toExpr v))
    | _ => none
  partial def toStmt : Sexp → Option Stmt
    | .list [.atom "local", .atom l, .list ns, .list es] => do
        some (.localS (← l.toNat?) (← atomsOf ns) (← es.mapM toExpr))
    | .list [.atom "set", .atom l, .list ts, .list es] => do
        some (.assign (← l.toNat?) (← ts.mapM toExpr) (← es.mapM toExpr))
    | .list [.atom "callst", .atom l, e] => do some (.callS (← l.toNat?) (← toExpr e))
    | .list [.atom "do", .atom l, .list b] => do some (.doS (← l.toNat?) (← b.mapM toStmt))
    | .list [.atom "while", .atom l, c, .list b] => do some (.whileS (← l.toNat?) (← toExpr c) (← b.mapM toStmt))
    | .list [.atom "repeat", .atom l, .atom lu, c, .list b] => do
        some (.repeatS (← l.toNat?) (← lu.toNat?) (← toExpr c) (← b.mapM toStmt))
    | .list [.atom "if", .atom l, c, .list t, .list e] => do
        some (.ifS (← l.toNat?) (← toExpr c) (← t.mapM toStmt) (← e.mapM toStmt))
    | .list [.atom "fornum", .atom l, .atom v, e1, e2, e3, .list b] => do
        let s ← match e3 with
          | .atom "none" => some none
          | x => (toExpr x).map some
        some (.forNum (← l.toNat?) v (← toExpr e1) (← toExpr e2) s (← b.mapM toStmt))
    | .list [.atom "forin", .atom l, .list ns, .list es, .list b] => do
        some (.forIn (← l.toNat?) (← atomsOf ns) (← es.mapM toExpr) (← b.mapM toStmt))
    | .list [.atom "localfn", .atom l, .atom n, f] => do some (.localFn (← l.toNat?) n (← toExpr f))
    | .list [.atom "ret", .atom l, .list es] => do some (.ret (← l.toNat?) (← es.mapM toExpr))
    | .list [.atom "break", .atom l] => do some (.brk (← l.toNat?))
    | .list [.atom "goto", .atom l, .atom lb] => do some (.goto (← l.toNat?) lb)
    | .list [.atom "label", .atom l, .atom lb] => do some (.label (← l.toNat?) lb)
    | _ => none
end

def parseChunk (ws : List String) : Option (List Stmt) := do
  let toks := ws.flatMap tokWord
  match ← parseSexps toks with
  | [.list (.atom "chunk" :: body)] => body.mapM toStmt
  | _ => none

def Stmt.line : Stmt → Nat
  | .localS l .. | .assign l .. | .callS l .. | .doS l .. | .whileS l .. | .repeatS l .. | .ifS l ..
  | .forNum l .. | .forIn l .. | .localFn l .. | .ret l .. | .brk l | .goto l .. | .label l .. | .untilS l .. => l

end GLua.Sem
