/-
  Syntactic scans of programs, used to recognise known-finding classes of program-level checks
  (a failing program is attributed to a recorded finding only if it contains the finding's shape).
-/
import GLua.Spec.Ast

namespace GLua.Sem

mutual
  /-- does `name` occur as a variable reference in the expression? (conservative: ignores shadowing) -/
  partial def Expr.mentions (name : String) : Expr → Bool
    | .var n => n = name
    | .index t k => t.mentions name || k.mentions name
    | .call f args => f.mentions name || args.any (·.mentions name)
    | .meth o _ args => o.mentions name || args.any (·.mentions name)
    | .func _ _ _ _ body => body.any (·.mentions name)
    | .bin _ l r => l.mentions name || r.mentions name
    | .and l r | .or l r => l.mentions name || r.mentions name
    | .not e | .neg e | .len e | .paren e => e.mentions name
    | .table fs => fs.any fun
      | .pos e => e.mentions name
      | .keyed k v => k.mentions name || v.mentions name
    | _ => false
  partial def Stmt.mentions (name : String) : Stmt → Bool
    | .localS _ _ es => es.any (·.mentions name)
    | .assign _ ts es => ts.any (·.mentions name) || es.any (·.mentions name)
    | .callS _ e => e.mentions name
    | .doS _ b => b.any (·.mentions name)
    | .whileS _ c b => c.mentions name || b.any (·.mentions name)
    | .repeatS _ _ c b => c.mentions name || b.any (·.mentions name)
    | .ifS _ c t e => c.mentions name || t.any (·.mentions name) || e.any (·.mentions name)
    | .forNum _ _ a b c body => a.mentions name || b.mentions name || (c.map (·.mentions name)).getD false || body.any (·.mentions name)
    | .forIn _ _ es b => es.any (·.mentions name) || b.any (·.mentions name)
    | .localFn _ _ f => f.mentions name
    | .ret _ es => es.any (·.mentions name)
    | .untilS _ c => c.mentions name
    | _ => false
end

mutual
  /-- `local f = function … f … end` somewhere in the program (gopher-lua's parser cannot tell it from
      `local function f`, so the body sees the new local instead of the outer/global `f`). -/
  partial def Stmt.hasLocalFnExprSelfRef : Stmt → Bool
    | .localS _ [n] [.func _ _ _ _ body] => body.any (·.mentions n) || body.any (·.hasLocalFnExprSelfRef)
    | .localS _ _ es => es.any (·.hasLF)
    | .assign _ ts es => ts.any (·.hasLF) || es.any (·.hasLF)
    | .callS _ e => e.hasLF
    | .doS _ b => b.any (·.hasLocalFnExprSelfRef)
    | .whileS _ c b => c.hasLF || b.any (·.hasLocalFnExprSelfRef)
    | .repeatS _ _ c b => c.hasLF || b.any (·.hasLocalFnExprSelfRef)
    | .ifS _ c t e => c.hasLF || t.any (·.hasLocalFnExprSelfRef) || e.any (·.hasLocalFnExprSelfRef)
    | .forNum _ _ a b c body => a.hasLF || b.hasLF || (c.map (·.hasLF)).getD false || body.any (·.hasLocalFnExprSelfRef)
    | .forIn _ _ es b => es.any (·.hasLF) || b.any (·.hasLocalFnExprSelfRef)
    | .localFn _ _ f => f.hasLF
    | .ret _ es => es.any (·.hasLF)
    | _ => false
  partial def Expr.hasLF : Expr → Bool
    | .index t k => t.hasLF || k.hasLF
    | .call f args => f.hasLF || args.any (·.hasLF)
    | .meth o _ args => o.hasLF || args.any (·.hasLF)
    | .func _ _ _ _ body => body.any (·.hasLocalFnExprSelfRef)
    | .bin _ l r => l.hasLF || r.hasLF
    | .and l r | .or l r => l.hasLF || r.hasLF
    | .not e | .neg e | .len e | .paren e => e.hasLF
    | .table fs => fs.any fun
      | .pos e => e.hasLF
      | .keyed k v => k.hasLF || v.hasLF
    | _ => false
end

def knownFindingTags (body : List Stmt) : List String :=
  (if body.any (·.hasLocalFnExprSelfRef) then ["C01-local-function-expression-scope"] else [])

end GLua.Sem
