/-
  C02 — Spec of CALL SHAPES: a small language of "value producers" and of the list contexts in which Lua 5.1
  adjusts their results, with its evaluation as the reference manual prescribes it.  Written from the manual
  (§2.4.3 assignment, §2.4.4 return, §2.4.7 local declarations, §2.5 "function calls and vararg expressions can
  result in multiple values … adjusted", §2.5.7 table constructors, §2.5.8 function calls incl. the method sugar
  `v:name(args)`, §2.5.9 `...`), NOT from gopher-lua.  Core Lean only.

  Producers (`Ex`):  single-valued atoms; calls `f(args)`; method calls `v:name(args)`; `...`; each of the three
  multi-valued forms also parenthesised (`paren = true`: exactly one value); table constructors (positional and
  keyed fields).  Lists of producers (`evalList`) are evaluated as §2.5 says: every producer but the last
  contributes exactly its first value (nil if it has none), the last one — if it is a call or `...` not enclosed
  in parentheses — contributes all its values.

  Callees are ABSTRACT: `sem fv params extra w` is what the function value `fv` does when its parameters are
  bound to `params` and its `...` to `extra` in world `w` (§2.5.9: the argument list is adjusted to the number of
  parameters; a vararg function collects the surplus): a result list and a new world.  The world is arbitrary
  (`W`): it carries the globals (`getGlobal/setGlobal`), whatever callees can observe or change, and e.g. a log of
  the calls made.  Tables made by constructors live in a separate heap of per-table STORE LOGS (`TLog`): the
  positional stores `t[i] = v` in the order the constructor performs them and the keyed stores.

  Strings (atoms, global names, method names, keys) are byte strings in the hex encoding of `GLua.Val.str`.
-/
import GLua.Spec.Adjust

namespace GLua.CallShapes
open GLua GLua.Adjust

inductive Atom where
  | num (n : Int)
  | str (s : String)
  | nil
  | tru
  | fls
  | loc (r : Nat)          -- the r-th local variable of the running function (declaration order)
  | glob (name : String)
deriving DecidableEq, Repr, Inhabited

/-- a key of a keyed constructor field `[k] = v` / `name = v` -/
inductive Key where
  | num (n : Int)
  | str (s : String)
deriving DecidableEq, Repr, Inhabited

inductive Ex where
  | atom (a : Atom)
  | call (paren : Bool) (fn : Ex) (args : List Ex)
  | mcall (paren : Bool) (recv : Ex) (meth : String) (args : List Ex)
  | dots (paren : Bool)
  | tbl (keys : List (Option Key)) (vals : List Ex)     -- field i is `vals[i]`, keyed by `keys[i]` if that is `some`
deriving Repr, Inhabited

/-- §2.5: the multi-valued expressions — a function call or `...` not enclosed in parentheses. -/
def Ex.isMulti : Ex → Bool
  | .call p _ _ => !p
  | .mcall p _ _ _ => !p
  | .dots p => !p
  | _ => false

/-- a function call (plain or method), parenthesised or not -/
def Ex.isCall : Ex → Bool
  | .call _ _ _ => true
  | .mcall _ _ _ _ => true
  | _ => false

def Ex.paren : Ex → Bool
  | .call p _ _ => p
  | .mcall p _ _ _ => p
  | .dots p => p
  | _ => false

def Key.atom : Key → Atom
  | .num n => .num n
  | .str s => .str s

def Key.isStr : Key → Bool
  | .str _ => true
  | .num _ => false

mutual
/-- every local the producer mentions is declared (`< rt`) -/
def Ex.scoped (rt : Nat) : Ex → Bool
  | .atom a => match a with | .loc r => decide (r < rt) | _ => true
  | .dots _ => true
  | .call _ f args => f.scoped rt && scopedL rt args
  | .mcall _ r _ args => r.scoped rt && scopedL rt args
  | .tbl _ vals => scopedL rt vals
def scopedL (rt : Nat) : List Ex → Bool
  | [] => true
  | e :: es => e.scoped rt && scopedL rt es
end

inductive Target where
  | glob (name : String)
  | loc (r : Nat)
deriving DecidableEq, Repr, Inhabited

inductive Stmt where
  | callst (e : Ex)                          -- a call as a statement (all results discarded)
  | ret (es : List Ex)                       -- return explist
  | localDecl (n : Nat) (es : List Ex)       -- local x1, …, xn = explist     (the next n locals)
  | assign (ts : List Target) (es : List Ex) -- varlist = explist
deriving Repr, Inhabited

/-- store log of one table: positional stores `t[i] = v` (in order) and keyed stores `t[k] = v` (in order). -/
structure TLog where
  arr : List (Int × OVal) := []
  keyed : List (OVal × OVal) := []
deriving DecidableEq, Repr, Inhabited

/-- the abstract surroundings of the running function. -/
structure SEnv (W : Type) where
  varargs : List OVal                                   -- the values of `...`
  getGlobal : W → String → OVal
  setGlobal : W → String → OVal → W
  index : OVal → String → W → OVal                      -- `v.name` (a method lookup)
  np : OVal → Nat                                       -- number of declared parameters of a function value
  va : OVal → Bool                                      -- whether it is a vararg function
  sem : OVal → List OVal → List OVal → W → List OVal × W  -- callee behaviour on (parameters, extra arguments)

structure SState (W : Type) where
  w : W
  heap : List TLog      -- table `r<i>` is `heap[i]`

variable {W : Type}

def Key.val : Key → OVal
  | .num n => some (.int n)
  | .str s => some (.str s)

def evalAtom (env : SEnv W) (loc : Nat → OVal) (w : W) : Atom → OVal
  | .num n => some (.int n)
  | .str s => some (.str s)
  | .nil => none
  | .tru => some (.bool true)
  | .fls => some (.bool false)
  | .loc r => loc r
  | .glob g => env.getGlobal w g

/-- §2.5: adjusting a value list to ONE value: its first value, nil if there is none. -/
def first (vs : List OVal) : OVal := vs.headD none

/-- §2.5.8/§2.5.9: a call binds the argument list to the callee's parameters (`Adjust.bind`) and runs it. -/
def callSem (env : SEnv W) (fv : OVal) (args : List OVal) (w : W) : List OVal × W :=
  env.sem fv (bind (env.np fv) (env.va fv) args).1 (bind (env.np fv) (env.va fv) args).2 w

def modifyAt (h : List TLog) (tid : Nat) (f : TLog → TLog) : List TLog :=
  match h, tid with
  | [], _ => []
  | t :: r, 0 => f t :: r
  | t :: r, k + 1 => t :: modifyAt r k f

/-- §2.5.7: positional values `vs` receive the consecutive indices `n+1, n+2, …`. -/
def posStores (n : Nat) (vs : List OVal) : List (Int × OVal) :=
  (List.range vs.length).map (fun i => (((n + i + 1 : Nat) : Int), (vs[i]?).getD none))

def storePos (σ : SState W) (tid n : Nat) (vs : List OVal) : SState W :=
  { σ with heap := modifyAt σ.heap tid (fun t => { t with arr := t.arr ++ posStores n vs }) }

def storeKeyed (σ : SState W) (tid : Nat) (k v : OVal) : SState W :=
  { σ with heap := modifyAt σ.heap tid (fun t => { t with keyed := t.keyed ++ [(k, v)] }) }

mutual
/-- all the values of a producer, and the state after evaluating it. -/
def evalMulti (env : SEnv W) (loc : Nat → OVal) : Ex → SState W → List OVal × SState W
  | .atom a, σ => ([evalAtom env loc σ.w a], σ)
  | .dots p, σ => (if p then [first env.varargs] else env.varargs, σ)
  | .call p f args, σ =>
    let r1 := evalMulti env loc f σ
    let r2 := evalList env loc args r1.2
    let r3 := callSem env (first r1.1) r2.1 r2.2.w
    (if p then [first r3.1] else r3.1, { r2.2 with w := r3.2 })
  | .mcall p recv m args, σ =>
    let r1 := evalMulti env loc recv σ
    let fv := env.index (first r1.1) m r1.2.w
    let r2 := evalList env loc args r1.2
    let r3 := callSem env fv (methodArgs (first r1.1) r2.1) r2.2.w
    (if p then [first r3.1] else r3.1, { r2.2 with w := r3.2 })
  | .tbl keys vals, σ =>
    let tid := σ.heap.length
    ([some (.ref tid)], evalFields env loc tid keys vals 0 { σ with heap := σ.heap ++ [{}] })
/-- §2.5: an expression list — every producer but the last adjusted to one value, the last one expanded. -/
def evalList (env : SEnv W) (loc : Nat → OVal) : List Ex → SState W → List OVal × SState W
  | [], σ => ([], σ)
  | e :: es, σ =>
    let r1 := evalMulti env loc e σ
    if es.isEmpty && e.isMulti then r1
    else
      let r2 := evalList env loc es r1.2
      (first r1.1 :: r2.1, r2.2)
/-- §2.5.7: the fields of a constructor, in order; `n` positional values have been stored so far. -/
def evalFields (env : SEnv W) (loc : Nat → OVal) (tid : Nat) :
    List (Option Key) → List Ex → Nat → SState W → SState W
  | _, [], _, σ => σ
  | keys, e :: es, n, σ =>
    match keys.headD none with
    | some k =>
      let r := evalMulti env loc e σ
      evalFields env loc tid keys.tail es n (storeKeyed r.2 tid k.val (first r.1))
    | none =>
      let r := evalMulti env loc e σ
      if es.isEmpty && e.isMulti then storePos r.2 tid n r.1
      else evalFields env loc tid keys.tail es (n + 1) (storePos r.2 tid n [first r.1])
end

/-! ### statements -/

/-- the running activation: its local variables (the first `nloc` are declared) and the state. -/
structure Act (W : Type) where
  loc : Nat → OVal
  nloc : Nat
  σ : SState W

inductive Outcome (W : Type) where
  | running (a : Act W)
  | returned (vals : List OVal) (σ : SState W)

/-- §2.4.3: "In a multiple assignment, Lua first evaluates all values and only then executes the assignments";
    the order of the assignments is undefined by the manual — the reference implementation stores from the last
    target to the first, which is the order used here (it matters only for the abstract `setGlobal`). -/
def assignTargets (env : SEnv W) : List Target → List OVal → (Nat → OVal) × W → (Nat → OVal) × W
  | [], _, a => a
  | t :: ts, vs, a =>
    let a' := assignTargets env ts vs.tail a
    match t with
    | .glob g => (a'.1, env.setGlobal a'.2 g (first vs))
    | .loc r => (fun i => if i = r then first vs else a'.1 i, a'.2)

def execStmt (env : SEnv W) (a : Act W) : Stmt → Outcome W
  | .callst e => .running { a with σ := (evalMulti env a.loc e a.σ).2 }
  | .ret es => let r := evalList env a.loc es a.σ; .returned r.1 r.2
  | .localDecl n es =>
    let r := evalList env a.loc es a.σ
    let vs := adjust r.1 (some n)
    .running { loc := fun i => if a.nloc ≤ i ∧ i < a.nloc + n then (vs[i - a.nloc]?).getD none else a.loc i,
               nloc := a.nloc + n, σ := r.2 }
  | .assign ts es =>
    let r := evalList env a.loc es a.σ
    let vs := adjust r.1 (some ts.length)
    let p := assignTargets env ts vs (a.loc, r.2.w)
    .running { a with loc := p.1, σ := { r.2 with w := p.2 } }

/-- a block; falling off its end returns no values. -/
def execChunk (env : SEnv W) : List Stmt → Act W → List OVal × SState W
  | [], a => ([], a.σ)
  | s :: rest, a =>
    match execStmt env a s with
    | .running a' => execChunk env rest a'
    | .returned vs σ => (vs, σ)

end GLua.CallShapes
