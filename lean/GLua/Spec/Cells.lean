/-
  Spec of C03 (closure variables), written from the property text, not from gopher-lua:

    * every variable *instance* (a local of one activation, one loop iteration, one block entry, one call)
      is a fresh heap cell;
    * a closure holds references to the cells of the variables in scope where it was created — closures
      created while the same instance is in scope share its cell;
    * leaving the scope "by any route" only ends the *name*: the cell and its value survive;
    * nothing but a write through the name or through a closure holding the cell changes a cell.

  The running code names its live variable instances by slot numbers `r` (what a compiler would call
  registers); `close k` is "every scope that owns a slot ≥ k has been left".  `step` is partial: it is
  undefined exactly when the request is not meaningful for a lexically scoped program — reading, writing or
  capturing a slot that names no live variable, using a capture that was never made — or when a slot is
  re-declared while the instance it names is still captured and its scope has not been left (the compiler's
  obligation, the *Discipline*: close before reuse).
-/
import GLua.Basic

namespace GLua.Cells
open GLua

inductive Op where
  | declare (r : Nat) (v : OVal)   -- a new variable instance comes into scope in slot r with value v
  | write   (r : Nat) (v : OVal)   -- assignment through the name
  | read    (r : Nat)              -- read through the name
  | capture (r : Nat)              -- a closure is created that refers to the variable in slot r
  | close   (k : Nat)              -- the scopes owning slots ≥ k are left (any route)
  | uvread  (i : Nat)              -- the i-th capture is read through its closure
  | uvwrite (i : Nat) (v : OVal)   -- … written through its closure
deriving DecidableEq, Repr, Inhabited

structure CSt where
  cells    : List OVal := []                      -- heap of variable cells
  regCell  : Nat → Option Nat := fun _ => none    -- the live instance named by slot r
  captured : List Nat := []                       -- cells some closure refers to
  caps     : List Nat := []                       -- i-th capture ↦ its cell

def CSt.init : CSt := {}

/-- one step of the cell semantics: new state and the value observed (reads only). -/
def step (c : CSt) : Op → Option (CSt × Option OVal)
  | .declare r v =>
    let fresh : CSt := { c with cells := c.cells ++ [v],
                                regCell := fun x => if x = r then some c.cells.length else c.regCell x }
    match c.regCell r with
    | none => some (fresh, none)
    | some cell => if cell ∈ c.captured then none else some (fresh, none)
  | .write r v =>
    match c.regCell r with
    | none => none
    | some cell => some ({ c with cells := c.cells.set cell v }, none)
  | .read r =>
    match c.regCell r with
    | none => none
    | some cell => match c.cells[cell]? with
      | none => none
      | some v => some (c, some v)
  | .capture r =>
    match c.regCell r with
    | none => none
    | some cell => some ({ c with captured := cell :: c.captured, caps := c.caps ++ [cell] }, none)
  | .close k => some ({ c with regCell := fun x => if k ≤ x then none else c.regCell x }, none)
  | .uvread i =>
    match c.caps[i]? with
    | none => none
    | some cell => match c.cells[cell]? with
      | none => none
      | some v => some (c, some v)
  | .uvwrite i v =>
    match c.caps[i]? with
    | none => none
    | some cell => some ({ c with cells := c.cells.set cell v }, none)

/-- run a trace; `none` when some step is undefined; otherwise the final state and the observations. -/
def run : CSt → List Op → Option (CSt × List OVal)
  | c, [] => some (c, [])
  | c, op :: rest =>
    match step c op with
    | none => none
    | some (c1, o) =>
      match run c1 rest with
      | none => none
      | some (c2, os) => some (c2, (match o with | some v => [v] | none => []) ++ os)

/-! ### function environments (manual §5.1 `getfenv` / `setfenv`, §2.9)

  "getfenv ([f]) Returns the current environment in use by the function. f can be a Lua function or a number
   that specifies the function at that stack level: Level 1 is the function calling getfenv. If the given
   function is not a Lua function, or if f is 0, getfenv returns the global environment."
  "setfenv (f, table) … f can be a Lua function or a number that specifies the function at that stack level:
   Level 1 is the function calling setfenv. … As a special case, when f is 0 setfenv changes the environment
   of the running thread."   A level that names no active function ("invalid level"), a negative level, and
   setfenv on a function that is not a Lua function are errors. -/

/-- a caller as the level arithmetic sees it -/
inductive Caller where
  | lua (env : Nat)    -- a Lua function and its environment table
  | host               -- a host (C/Go) function
deriving DecidableEq, Repr, Inhabited

inductive GetRes where
  | env (e : Nat) | global | threadEnv | error
deriving DecidableEq, Repr, Inhabited

/-- `getfenv(level)`; `callers` = the active functions, level 1 first. -/
def specGetFEnv (level : Int) (callers : List Caller) : GetRes :=
  if level < 0 then .error
  else if level = 0 then .threadEnv
  else match callers[level.toNat - 1]? with
    | none => .error
    | some .host => .global
    | some (.lua e) => .env e

inductive SetRes where
  | thread | fn (level : Nat) | error
deriving DecidableEq, Repr, Inhabited

/-- `setfenv(level, t)`: whose environment is replaced. -/
def specSetFEnv (level : Int) (callers : List Caller) : SetRes :=
  if level < 0 then .error
  else if level = 0 then .thread
  else match callers[level.toNat - 1]? with
    | none => .error
    | some .host => .error
    | some (.lua _) => .fn level.toNat

end GLua.Cells
