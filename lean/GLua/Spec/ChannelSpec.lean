/-
  Spec for C13 (channel part), written from the property text, not from channellib.go:

    "A value sent on a channel object is received exactly once by exactly one receiver, values from one sender
     arrive in the order sent, receive on a closed drained channel reports closure …"

  A run on one channel is described by what each participant saw (`Hist`): every sender s completed `n_s` sends of
  the tagged values (s,0), (s,1), … in this order; every receiver logged the tags it received, in its own order,
  and whether/when it saw closure.  `histOK` is the executable predicate the driver evaluates on histories recorded
  from the real interpreter; `Props/C13.lean` proves that every history of the Go-channel LTS satisfies it.
  Core Lean only.
-/
namespace GLua.ChanSpec

structure Tag where
  sender : Nat
  seq : Nat
deriving DecidableEq, Repr

/-- what one receiver saw -/
structure RLog where
  rid : Nat
  closures : Nat          -- how many times it saw (ok = false) on this channel
  afterClose : Bool       -- it received a value on the channel after having seen closure
  tags : List Tag         -- received values in its own order
deriving Repr

structure Hist where
  drained : Bool                  -- the run ended after the channel was closed and every receiver saw the closure
  sends : List (Nat × Nat)        -- (sender, number of completed sends)
  recvs : List RLog
deriving Repr

def wasSent (sends : List (Nat × Nat)) (t : Tag) : Bool :=
  sends.any (fun p => p.1 == t.sender && t.seq < p.2)

def hasDup : List Tag → Bool
  | [] => false
  | t :: r => r.contains t || hasDup r

/-- the order relation one sender imposes: same sender ⇒ strictly increasing sequence number -/
def inOrder (a b : Tag) : Bool := a.sender != b.sender || a.seq < b.seq

def orderedLog : List Tag → Bool
  | [] => true
  | t :: r => r.all (inOrder t) && orderedLog r

def allRecv (h : Hist) : List Tag := h.recvs.flatMap (·.tags)

def totalSent (h : Hist) : Nat := (h.sends.map (·.2)).foldl (· + ·) 0

/-- `none` = the history is one the property allows; `some reason` otherwise -/
def histOK (h : Hist) : Option String :=
  if !(allRecv h).all (wasSent h.sends) then some "a received value was never sent"
  else if hasDup (allRecv h) then some "a value was received more than once"
  else if !h.recvs.all (fun r => orderedLog r.tags) then some "values of one sender arrived out of order"
  else if h.recvs.any (·.afterClose) then some "a value was received after closure was reported"
  else if h.drained && (allRecv h).length != totalSent h then some "a sent value was never received although the channel was closed and drained"
  else if h.drained && !h.recvs.all (fun r => r.closures == 1) then some "receive on the closed drained channel did not report closure exactly once per receiver loop"
  else none

end GLua.ChanSpec
