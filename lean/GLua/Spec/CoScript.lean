/-
  C06 (mechanism) — the little script language in which coroutine histories are written.
  It is *only syntax* (shared by the Spec interpreter, the Model interpreter and the Go harness, which renders a
  script as a Lua program): a case is a set of functions (lists of acts), a set of coroutines (plain or wrapped,
  each with a body function) and the main chunk (function 0).

  Acts (the Lua the harness renders is given on the right; `L` = `emit("L<fid>.<idx>", …)`):
    yield  tail a vals want      L(coroutine.yield(vals))            | return coroutine.yield(vals)
    resume j prot a vals want    L(coroutine.resume(co_j, vals))     | L(f_j(vals)) | L(pcall(…))
    ret    a vals                return vals
    err    v                     error(v, 0)
    status j                     L(coroutine.status(co_j))
    running                      L(id of coroutine.running())
    call   f a vals want         L(F_f(vals))                         (ordinary Lua call: frame depth)
    forin  j nvars               for x1..xn in f_j do L(x1..xn) end
    hyield a hargs vals want     L(hy(hargs))   where the Go host function hy calls L.Yield(vals…)  (Go API)
  `want` is the number of results the calling context asks for (`none` = open-ended / MultRet).
  `a` is the register offset of the call inside its frame; it is a *layout* parameter that only the Model reads
  (the Lua-visible behaviour must not depend on it — that independence is part of what the theorems say).
-/
import GLua.Basic

namespace GLua.CoScript
open GLua

abbrev Want := Option Nat

inductive Act where
  | yield  (tail : Bool) (a : Nat) (vals : List OVal) (want : Want)
  | resume (j : Nat) (prot : Bool) (a : Nat) (vals : List OVal) (want : Want)
  | ret    (a : Nat) (vals : List OVal)
  | err    (v : OVal)
  | status (j : Nat)
  | running
  | call   (f : Nat) (a : Nat) (vals : List OVal) (want : Want)
  | forin  (j : Nat) (nvars : Nat)
  | hyield (a : Nat) (hargs : List OVal) (vals : List OVal) (want : Want)   -- L(hy(hargs)): the host function does L.Yield(vals…)
deriving Repr, Inhabited, DecidableEq

structure FnDef where
  np     : Nat := 0
  vararg : Bool := false
  nused  : Nat := 8          -- NumUsedRegisters of the model's frame layout
  acts   : List Act := []
deriving Repr, Inhabited

structure CoDef where
  wrapped : Bool := false
  body    : Option Nat := some 0   -- function id; `none` = the Go host function `hostid` (returns its arguments)
deriving Repr, Inhabited

structure Prog where
  fns : List (Nat × FnDef) := []
  cos : List (Nat × CoDef) := []
deriving Repr, Inhabited

def Prog.fn (p : Prog) (f : Nat) : FnDef :=
  match p.fns.find? (·.1 = f) with
  | some x => x.2
  | none => {}

/-- coroutine `j` (1-based; every id has a definition: the default is a plain coroutine with an empty body). -/
def Prog.co (p : Prog) (j : Nat) : CoDef :=
  match p.cos.find? (·.1 = j) with
  | some x => x.2
  | none => { body := some (900 + j) }

def Prog.maxCo (_p : Prog) : Nat := 4

/-- the reserved strings the coroutine library produces (status names, refusal messages); the harness maps the
    implementation's texts to the same tokens. -/
def sym (s : String) : OVal := some (.str ("!" ++ s))

/-- the manual's adjustment of a value list to the number of values a context wants. -/
def adjust (vs : List OVal) : Want → List OVal
  | none => vs
  | some n => vs.take n ++ List.replicate (n - vs.length) none

def showVals (vs : List OVal) : String := ",".intercalate (vs.map OVal.show)

/-- observable outcome of a run: the emit tokens in order, then the final token. -/
structure Trace where
  rev : List String := []
deriving Repr, Inhabited

def Trace.emit (t : Trace) (lbl : String) (vs : List OVal) : Trace := { rev := (lbl ++ ":" ++ showVals vs) :: t.rev }
def Trace.toks (t : Trace) (fin : String) : List String := t.rev.reverse ++ [fin]

/-- parameter binding of a Lua function (manual §2.5.9): named parameters, then the extra arguments. -/
def bindParams (d : FnDef) (args : List OVal) : List OVal × List OVal :=
  (adjust args (some d.np), if d.vararg then args.drop d.np else [])

/-- the token emitted on entry of function `f`: parameters, then (vararg functions) the count and the extras. -/
def entryVals (d : FnDef) (args : List OVal) : List OVal :=
  let (ps, va) := bindParams d args
  if d.vararg then ps ++ [some (.int va.length)] ++ va else ps

/-! ### wire format -/

def parseWant (s : String) : Option Want :=
  if s = "m" then some none else s.toNat?.map some

def parseVals (ws : List String) : Option (List OVal) := ws.mapM parseVal

def parseBool (s : String) : Option Bool :=
  if s = "1" then some true else if s = "0" then some false else none

/-- `n v1 … vn` -/
def parseCounted (ws : List String) : Option (List OVal) :=
  match ws with
  | n :: r => do
    let n ← n.toNat?
    if r.length = n then parseVals r else none
  | [] => none

def parseAct (ws : List String) : Option Act :=
  match ws with
  | "y" :: t :: a :: w :: r => do
    pure (.yield (← parseBool t) (← a.toNat?) (← parseCounted r) (← parseWant w))
  | "r" :: j :: p :: a :: w :: r => do
    pure (.resume (← j.toNat?) (← parseBool p) (← a.toNat?) (← parseCounted r) (← parseWant w))
  | "ret" :: a :: r => do pure (.ret (← a.toNat?) (← parseCounted r))
  | ["err", v] => do pure (.err (← parseVal v))
  | ["st", j] => do pure (.status (← j.toNat?))
  | ["run"] => some .running
  | "call" :: f :: a :: w :: r => do
    pure (.call (← f.toNat?) (← a.toNat?) (← parseCounted r) (← parseWant w))
  | ["for", j, n] => do pure (.forin (← j.toNat?) (← n.toNat?))
  | "hy" :: a :: w :: n :: r => do
    let n ← n.toNat?
    pure (.hyield (← a.toNat?) (← parseVals (r.take n)) (← parseCounted (r.drop n)) (← parseWant w))
  | _ => none

def Prog.addAct (p : Prog) (f : Nat) (a : Act) : Prog :=
  if p.fns.any (·.1 = f) then
    { p with fns := p.fns.map fun x => if x.1 = f then (f, { x.2 with acts := x.2.acts ++ [a] }) else x }
  else { p with fns := p.fns ++ [(f, { acts := [a] })] }

def Prog.setFn (p : Prog) (f np : Nat) (va : Bool) (nused : Nat) : Prog :=
  if p.fns.any (·.1 = f) then
    { p with fns := p.fns.map fun x => if x.1 = f then (f, { x.2 with np := np, vararg := va, nused := nused }) else x }
  else { p with fns := p.fns ++ [(f, { np := np, vararg := va, nused := nused })] }

def Prog.setCo (p : Prog) (j : Nat) (d : CoDef) : Prog :=
  { p with cos := (p.cos.filter (·.1 ≠ j)) ++ [(j, d)] }

/-! ### the fragment of scripts covered by the history-level simulation theorem (Props/C06 §6) -/

/-- acts covered: create/resume (plain and wrapped, also under pcall), yield (also tail-called), return, error, status,
    running and ordinary Lua calls (frame depth); coroutine ids are 1..4 (the objects a script can hold; 0 is the main
    thread, which no Lua 5.1 script can name); for-in over a wrapped coroutine (≥ 1 loop variable).  Not covered:
    host-function yields (Go API histories), Go-function bodies. -/
def okAct : Act → Bool
  | .yield _ _ _ _ => true
  | .resume j _ _ _ _ => decide (1 ≤ j) && decide (j ≤ 4)
  | .ret _ _ => true
  | .err _ => true
  | .status j => decide (1 ≤ j) && decide (j ≤ 4)
  | .running => true
  | .call _ _ _ _ => true
  | .forin j nvars => decide (1 ≤ j) && decide (j ≤ 4) && decide (1 ≤ nvars)
  | .hyield _ _ _ _ => false

/-- the guard of the simulation theorem: every function keeps its parameters inside its register window
    (`np ≤ NumUsedRegisters`, which the compiler guarantees), uses covered acts only; the coroutines are 1..4 with Lua
    bodies; the main chunk has no named parameters. -/
def okProg (p : Prog) : Bool :=
  p.fns.all (fun x => decide (x.2.np ≤ x.2.nused) && x.2.acts.all okAct) &&
  p.cos.all (fun x => decide (1 ≤ x.1) && decide (x.1 ≤ 4) && x.2.body.isSome) &&
  decide ((p.fn 0).np = 0) && !(p.fn 0).vararg


end GLua.CoScript
