/-
  C06 — Spec: coroutines as the Lua 5.1 manual defines them (§2.11, §5.2), written from the manual and the
  property text, not from gopher-lua.

  * a coroutine is a suspended computation (a stack of pending activations) with a status
      suspended → running → (normal while it has resumed another) → suspended | dead;
  * `resume(co, v…)` is refused unless `co` is suspended (plain: returns false, message; wrap: raises);
    the first resume binds v… to the body's parameters, a later one makes v… the results of the pending yield;
  * `yield(v…)` / `return v…` make v… the results of the pending resume (after `true` for a plain resume);
  * an error kills the coroutine only: the resumer gets (false, value), or the error itself for wrap;
  * every value list is adjusted to the number of values the receiving context wants.

  The Spec runs the scripts of `CoScript` and produces the observable trace.
-/
import GLua.Spec.CoScript

namespace GLua.CoSpec
open GLua GLua.CoScript

inductive Status | suspended | running | normal | dead
deriving DecidableEq, Repr, Inhabited

def Status.name : Status → String
  | .suspended => "suspended" | .running => "running" | .normal => "normal" | .dead => "dead"

/-- how the Lua code that made a pending call consumes the values the call returns. -/
inductive Recv
  | none
  | emit (lbl : String) (want : Want) (prot : Bool)
  | tailret
  | forin (lbl : String) (j nvars : Nat)
deriving Repr, Inhabited

/-- a pending activation of a script function. -/
structure KF where
  fid  : Nat
  idx  : Nat := 0                  -- index of the next act (labels are `L<fid>.<idx>`)
  rest : List Act := []
  recv : Recv := .none
deriving Repr, Inhabited

structure Co where
  st      : Status := .suspended
  started : Bool := false
  k       : List KF := []          -- innermost activation first
deriving Repr, Inhabited

structure St where
  cos   : List Co := []            -- index = coroutine id, 0 = the main chunk
  chain : List Nat := [0]          -- running coroutine first, then the coroutine that resumed it, …, main last
  trace : Trace := {}
deriving Repr, Inhabited

inductive Ctl
  | exec                                   -- the running coroutine executes its next act
  | deliver (vs : List OVal)               -- vs are the results of the running coroutine's pending call
  | raise (v : OVal) (atCall : Bool)       -- an error propagates in the running coroutine
  | fin (tok : String)
deriving Repr, Inhabited

def St.co (s : St) (c : Nat) : Co := s.cos.getD c {}
def St.setCo (s : St) (c : Nat) (x : Co) : St := { s with cos := s.cos.set c x }
def St.cur (s : St) : Nat := s.chain.headD 0

def lbl (fid idx : Nat) : String := "L" ++ toString fid ++ "." ++ toString idx

def refusal : Status → String
  | .dead => "dead" | .running => "running" | .normal => "normal" | .suspended => "suspended"

/-- enter function `f` with arguments `args` in coroutine `c` (emits the parameter token). -/
def enter (p : Prog) (s : St) (c f : Nat) (args : List OVal) : St :=
  let d := p.fn f
  let co := s.co c
  let s := s.setCo c { co with k := { fid := f, rest := d.acts } :: co.k }
  { s with trace := s.trace.emit ("P" ++ toString f) (entryVals d args) }

/-- control goes back from coroutine `c` (which yielded, returned or died) to its resumer. -/
def back (s : St) : St :=
  let s := { s with chain := s.chain.tail }
  let pc := s.cur
  s.setCo pc { s.co pc with st := .running }

/-- `resume(co_j, vs)` / `f_j(vs)` by the running coroutine. -/
def doResume (p : Prog) (s : St) (j : Nat) (vs : List OVal) : St × Ctl :=
  let c := s.cur
  let t := s.co j
  let d := p.co j
  if t.st ≠ .suspended then
    let msg := sym (refusal t.st)
    if d.wrapped then (s, .raise msg true) else (s, .deliver [some (.bool false), msg])
  else
    let s := s.setCo c { s.co c with st := .normal }
    let s := s.setCo j { s.co j with st := .running, started := true }
    let s := { s with chain := j :: s.chain }
    if !t.started then
      match d.body with
      | some f => (enter p s j f vs, .exec)
      | none =>
        -- the body is the host function that returns its arguments: the coroutine returns them and dies
        let s := s.setCo j { s.co j with st := .dead }
        (back s, .deliver (if d.wrapped then vs else some (.bool true) :: vs))
    else (s, .deliver vs)

/-- the running coroutine finishes its innermost activation with results `vs`. -/
def doReturn (p : Prog) (s : St) (vs : List OVal) : St × Ctl :=
  let c := s.cur
  let co := s.co c
  match co.k.tail with
  | _ :: _ => (s.setCo c { co with k := co.k.tail }, .deliver vs)
  | [] =>
    if c = 0 then (s.setCo c { co with k := [] }, .fin ("R:" ++ showVals vs))
    else
      let s := s.setCo c { co with k := [], st := .dead }
      (back s, .deliver (if (p.co c).wrapped then vs else some (.bool true) :: vs))

def step (p : Prog) (s : St) : Ctl → St × Ctl
  | .fin t => (s, .fin t)
  | .exec =>
    let c := s.cur
    let co := s.co c
    match co.k with
    | [] => (s, .fin "STUCK")
    | f :: ks =>
      match f.rest with
      | [] => doReturn p s []
      | a :: rest =>
        let l := lbl f.fid f.idx
        let adv (r : Recv) : St := s.setCo c { co with k := { f with idx := f.idx + 1, rest := rest, recv := r } :: ks }
        match a with
        | .yield tail _ vals want =>
          if c = 0 then (adv .none, .raise (sym "outside") false)
          else
            let s := adv (if tail then .tailret else .emit l want false)
            let s := s.setCo c { s.co c with st := .suspended }
            (back s, .deliver (if (p.co c).wrapped then vals else some (.bool true) :: vals))
        | .hyield _ _ vals want =>
          if c = 0 then (adv .none, .raise (sym "outside") false)
          else
            let s := adv (.emit l want false)
            let s := s.setCo c { s.co c with st := .suspended }
            (back s, .deliver (if (p.co c).wrapped then vals else some (.bool true) :: vals))
        | .resume j prot _ vals want => doResume p (adv (.emit l want prot)) j vals
        | .ret _ vals => doReturn p (adv .none) vals
        | .err v => (adv .none, .raise v false)
        | .status j =>
          let t := s.co j
          let v := if (p.co j).wrapped ∧ !t.started then none else sym t.st.name
          let s := adv .none
          ({ s with trace := s.trace.emit l [v] }, .exec)
        | .running =>
          let s := adv .none
          ({ s with trace := s.trace.emit l [if c = 0 then none else some (.int c)] }, .exec)
        | .call g _ vals want => (enter p (adv (.emit l want false)) c g vals, .exec)
        | .forin j nvars =>
          if (p.co j).wrapped then doResume p (adv (.forin l j nvars)) j [none, none]
          else (adv .none, .exec)
  | .deliver vs =>
    let c := s.cur
    let co := s.co c
    match co.k with
    | [] => (s, .fin "STUCK")
    | f :: ks =>
      let clr : St := s.setCo c { co with k := { f with recv := .none } :: ks }
      match f.recv with
      | .none => (s, .fin "STUCK")
      | .emit l want prot =>
        let vs := if prot then some (.bool true) :: vs else vs
        ({ clr with trace := clr.trace.emit l (adjust vs want) }, .exec)
      | .tailret => doReturn p clr vs
      | .forin l j nvars =>
        let xs := adjust vs (some nvars)
        match vs.headD none with
        | none => (clr, .exec)
        | some x => doResume p { s with trace := s.trace.emit l xs } j [none, some x]
  | .raise v atCall =>
    let c := s.cur
    let co := s.co c
    match co.k with
    | [] => (s, .fin "STUCK")
    | f :: ks =>
      match atCall, f.recv with
      | true, .emit l want true =>
        let s := s.setCo c { co with k := { f with recv := .none } :: ks }
        ({ s with trace := s.trace.emit l (adjust [some (.bool false), v] want) }, .exec)
      | _, _ =>
        match ks with
        | _ :: _ => (s.setCo c { co with k := ks }, .raise v true)
        | [] =>
          if c = 0 then (s.setCo c { co with k := [] }, .fin ("X:" ++ OVal.show v))
          else
            let s := s.setCo c { co with k := [], st := .dead }
            let s := back s
            if (p.co c).wrapped then (s, .raise v true) else (s, .deliver [some (.bool false), v])

def run (p : Prog) : Nat → St → Ctl → St × Ctl
  | 0, s, c => (s, c)
  | n + 1, s, c =>
    match c with
    | .fin _ => (s, c)
    | _ => let (s', c') := step p s c; run p n s' c'

def initSt (p : Prog) : St :=
  let cos := (List.range (p.maxCo + 1)).map fun i => if i = 0 then ({ st := .running, started := true } : Co) else {}
  enter p { cos := cos } 0 0 []

/-- the whole observable trace of a script. -/
def runProg (p : Prog) (fuel : Nat) : List String :=
  match run p fuel (initSt p) .exec with
  | (s, .fin t) => s.trace.toks t
  | (s, _) => s.trace.toks "FUEL"

end GLua.CoSpec
