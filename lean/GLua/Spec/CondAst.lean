/-
  Vocabulary shared by the Spec, the Model and the engine of C01's mechanism part:
  the abstract value domain and the syntax of condition trees / the small statement language
  in which conditions and assignments are placed.  No semantics here.
-/
namespace GLua.Compile

/-- the abstract value domain: only nil/true/false, truthiness, literals and comparison oracles are visible.
    A comparison answering `none` raises an error ("attempt to compare …"). -/
structure Dom (V : Type) where
  nilV : V
  trueV : V
  falseV : V
  truthy : V → Bool
  num : Int → V
  str : String → V
  eq : V → V → Option Bool
  lt : V → V → Option Bool
  le : V → V → Option Bool

/-- what Lua 5.1 §2.4.4 says about truthiness: only nil and false are false. -/
structure Dom.Lawful {V} (d : Dom V) : Prop where
  nil_falsy : d.truthy d.nilV = false
  false_falsy : d.truthy d.falseV = false
  true_truthy : d.truthy d.trueV = true
  num_truthy : ∀ n, d.truthy (d.num n) = true
  str_truthy : ∀ s, d.truthy (d.str s) = true

inductive RelOp where
  | lt | gt | le | ge | eq | ne
deriving DecidableEq, Repr

inductive Cond where
  | tru | fls | nil
  | num (n : Int)               -- a numeral (its value)
  | str (s : String)            -- a string literal
  | loc (r : Nat)               -- the local variable held in register r
  | ev (id : Nat)               -- opaque atom: the global g<id> (one instruction, one register)
  | not (c : Cond)
  | and (l r : Cond)
  | or (l r : Cond)
  | rel (op : RelOp) (l r : Cond)
deriving Repr, DecidableEq

def Cond.isLogical : Cond → Bool
  | .and _ _ | .or _ _ => true
  | _ => false

inductive Target where
  | loc (r : Nat)        -- a local (its register)
  | glob (id : Nat)      -- the global g<id>
deriving Repr, DecidableEq

mutual
inductive Stmt where
  | ifS (c : Cond) (thn els : Block)
  | whileS (c : Cond) (body : Block)
  | repeatS (body : Block) (c : Cond)
  | ret (cs : List Cond)                    -- `return c1, …, cn`
  | localDef (c : Cond)                     -- `local x = c`
  | assign (targets : List Target) (rhs : List Cond)
inductive Block where
  | nil
  | cons (s : Stmt) (rest : Block)
end

def Block.isEmpty : Block → Bool
  | .nil => true
  | _ => false

def Block.ofList : List Stmt → Block
  | [] => .nil
  | s :: r => .cons s (Block.ofList r)

end GLua.Compile
