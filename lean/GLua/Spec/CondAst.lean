/-
  Vocabulary shared by the Spec, the Model and the engine of C01's mechanism part:
  the number structure, the abstract value domain and the syntax of expression trees (conditions, arithmetic,
  unary minus, length, concatenation) / the small statement language in which they are placed.  No semantics here.
-/
namespace GLua.Compile

/-- the six binary arithmetic operators of Lua 5.1 (§2.5.1). -/
inductive ArithOp where
  | add | sub | mul | div | mod | pow
deriving DecidableEq, Repr

/-- The NUMBER STRUCTURE: the carrier of Lua numbers (IEEE doubles in the implementation, arbitrary here) with the
    operations the compiler's constant folding and the VM's arithmetic both use (`+ - * /`, `luaModulo`,
    `math.Pow`, unary minus), the value of an integer numeral as written (`parseNumber`), and the NaN test
    (`ConstIndex` compares constants with Go's `==`, so a NaN constant is never found again).
    Nothing is assumed about the operations: they are uninterpreted total functions. -/
class NumStruct where
  N : Type
  deq : DecidableEq N
  add : N → N → N
  sub : N → N → N
  mul : N → N → N
  div : N → N → N
  mod : N → N → N
  pow : N → N → N
  neg : N → N
  lit : Int → N
  isNaN : N → Bool

instance [ns : NumStruct] : DecidableEq ns.N := ns.deq

def NumStruct.apply [ns : NumStruct] : ArithOp → ns.N → ns.N → ns.N
  | .add => ns.add | .sub => ns.sub | .mul => ns.mul
  | .div => ns.div | .mod => ns.mod | .pow => ns.pow

/-- the abstract value domain: only nil/true/false, truthiness, constants and the operation oracles are visible.
    An operation answering `none` raises an error ("attempt to compare …", "attempt to perform arithmetic on …",
    "attempt to concatenate …", "attempt to get length of …"). -/
structure Dom [NumStruct] (V : Type) where
  nilV : V
  trueV : V
  falseV : V
  truthy : V → Bool
  num : NumStruct.N → V                       -- the value that IS the number x
  str : String → V
  eq : V → V → Option Bool
  lt : V → V → Option Bool
  le : V → V → Option Bool
  arith : ArithOp → V → V → Option V          -- §2.5.1 (with the string→number coercion of §2.2.1 inside)
  unm : V → Option V                          -- unary minus
  len : V → Option V                          -- §2.5.5
  concat : V → V → Option V                   -- §2.5.4

/-- what the manual says about the values: only nil and false are false (§2.4.4); arithmetic on two NUMBERS is the
    number structure's operation and never raises (§2.5.1). -/
structure Dom.Lawful [NumStruct] {V} (d : Dom V) : Prop where
  nil_falsy : d.truthy d.nilV = false
  false_falsy : d.truthy d.falseV = false
  true_truthy : d.truthy d.trueV = true
  num_truthy : ∀ n, d.truthy (d.num n) = true
  str_truthy : ∀ s, d.truthy (d.str s) = true
  arith_num : ∀ op a b, d.arith op (d.num a) (d.num b) = some (d.num (NumStruct.apply op a b))
  unm_num : ∀ a, d.unm (d.num a) = some (d.num (NumStruct.neg a))

inductive RelOp where
  | lt | gt | le | ge | eq | ne
deriving DecidableEq, Repr

inductive Cond where
  | tru | fls | nil
  | num (n : Int)               -- a numeral (its value)
  | str (s : String)            -- a string literal
  | loc (r : Nat)               -- the local variable held in register r
  | ev (id : Nat)               -- opaque atom: the global g<id> (one instruction, one register)
  | not (c : Cond)
  | and (l r : Cond)
  | or (l r : Cond)
  | rel (op : RelOp) (l r : Cond)
  | arith (op : ArithOp) (l r : Cond)   -- l + r, l - r, l * r, l / r, l % r, l ^ r
  | unm (c : Cond)                      -- -c
  | len (c : Cond)                      -- #c
  | concat (l r : Cond)                 -- l .. r   (right associative: a .. b .. c = concat a (concat b c))
deriving Repr, DecidableEq

def Cond.isLogical : Cond → Bool
  | .and _ _ | .or _ _ => true
  | _ => false

inductive Target where
  | loc (r : Nat)        -- a local (its register)
  | glob (id : Nat)      -- the global g<id>
deriving Repr, DecidableEq

mutual
inductive Stmt where
  | ifS (c : Cond) (thn els : Block)
  | whileS (c : Cond) (body : Block)
  | repeatS (body : Block) (c : Cond)
  | ret (cs : List Cond)                    -- `return c1, …, cn`
  | localDef (c : Cond)                     -- `local x = c`
  | assign (targets : List Target) (rhs : List Cond)
inductive Block where
  | nil
  | cons (s : Stmt) (rest : Block)
end

def Block.isEmpty : Block → Bool
  | .nil => true
  | _ => false

def Block.ofList : List Stmt → Block
  | [] => .nil
  | s :: r => .cons s (Block.ofList r)

end GLua.Compile

