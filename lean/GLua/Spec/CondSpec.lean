/-
  Reference meaning of expression trees and of the small statement language around them, written from the
  Lua 5.1 manual (§2.4.3 assignment, §2.4.4 control structures, §2.5.1 arithmetic operators, §2.5.2 relational
  operators, §2.5.3 logical operators, §2.5.4 concatenation, §2.5.5 the length operator, §2.5.6 precedence:
  `..` and `^` are right associative) — NOT from gopher-lua.

    * `not x`  is true when x is nil or false, false otherwise.
    * `a and b` returns a if a is nil or false, otherwise b (b is not evaluated in the first case).
    * `a or b`  returns a unless a is nil or false, otherwise b.
    * relational operators always yield true or false (or raise for unordered operands).
    * arithmetic, unary minus, length and concatenation apply the value domain's operation to the operand values
      (operands evaluated left to right); the operation may raise (`none`) — which values it accepts (numbers, strings
      convertible to numbers, …) is the value domain's business, the number structure's operations are uninterpreted.
    * in a multiple assignment all expressions are evaluated before any assignment is performed;
      surplus values are dropped, missing ones are nil.
-/
import GLua.Spec.CondAst

namespace GLua.CondSpec
open GLua.Compile

variable [NumStruct]

def ofBool {V} (d : Dom V) (b : Bool) : V := if b then d.trueV else d.falseV

/-- value of a relational expression on two operand values (`none` = raises). -/
def relVal {V} (d : Dom V) (op : RelOp) (x y : V) : Option V :=
  match op with
  | .lt => (d.lt x y).map (ofBool d)
  | .gt => (d.lt y x).map (ofBool d)          -- a > b  is  b < a
  | .le => (d.le x y).map (ofBool d)
  | .ge => (d.le y x).map (ofBool d)          -- a >= b is  b <= a
  | .eq => (d.eq x y).map (ofBool d)
  | .ne => (d.eq x y).map (fun b => ofBool d (!b))

/-- the value of a condition tree; `ρ` = the locals (by register), `γ` = the opaque atoms. `none` = raises. -/
def eval {V} (d : Dom V) (ρ γ : Nat → V) : Cond → Option V
  | .tru => some d.trueV
  | .fls => some d.falseV
  | .nil => some d.nilV
  | .num n => some (d.num (NumStruct.lit n))
  | .str s => some (d.str s)
  | .loc r => some (ρ r)
  | .ev id => some (γ id)
  | .not c => (eval d ρ γ c).map fun v => if d.truthy v then d.falseV else d.trueV
  | .and l r =>
    match eval d ρ γ l with
    | none => none
    | some v => if d.truthy v then eval d ρ γ r else some v
  | .or l r =>
    match eval d ρ γ l with
    | none => none
    | some v => if d.truthy v then some v else eval d ρ γ r
  | .rel op l r =>
    match eval d ρ γ l with
    | none => none
    | some x =>
      match eval d ρ γ r with
      | none => none
      | some y => relVal d op x y
  -- §2.5.1: both operands are evaluated (left first), then the operation is applied (it may raise)
  | .arith op l r =>
    match eval d ρ γ l with
    | none => none
    | some x =>
      match eval d ρ γ r with
      | none => none
      | some y => d.arith op x y
  | .unm c =>
    match eval d ρ γ c with
    | none => none
    | some x => d.unm x
  | .len c =>
    match eval d ρ γ c with
    | none => none
    | some x => d.len x
  -- §2.5.4 / §2.5.6: concatenation is right associative; `a .. b .. c` is `a .. (b .. c)`
  | .concat l r =>
    match eval d ρ γ l with
    | none => none
    | some x =>
      match eval d ρ γ r with
      | none => none
      | some y => d.concat x y

/-- a condition is taken when its value is neither nil nor false. -/
def holds {V} (d : Dom V) (ρ γ : Nat → V) (c : Cond) : Option Bool := (eval d ρ γ c).map d.truthy

/-! ### simultaneous assignment to locals -/

/-- value of the i-th right-hand side (nil when missing), all evaluated in the OLD register file. -/
def rhsVal {V} (d : Dom V) (ρ γ : Nat → V) (rhs : List Cond) (i : Nat) : Option V :=
  match rhs[i]? with
  | none => some d.nilV
  | some e => eval d ρ γ e

/-! ### the statement language (for the run tie) -/

structure SState (V : Type) where
  locals : List V          -- locals in scope, by register
  globs : Nat → V

inductive SRes (V : Type) where
  | normal (s : SState V)
  | returned (vs : List V)
  | error
  | outOfFuel

def getLocal {V} (d : Dom V) (s : SState V) (r : Nat) : V := (s.locals[r]?).getD d.nilV

def evalAll {V} (d : Dom V) (s : SState V) : List Cond → Option (List V)
  | [] => some []
  | e :: r =>
    match eval d (getLocal d s) s.globs e with
    | none => none
    | some v => (evalAll d s r).map (v :: ·)

def store {V} (s : SState V) : Target → V → SState V
  | .loc r, v => { s with locals := s.locals.set r v }
  | .glob id, v => { s with globs := fun i => if i = id then v else s.globs i }

mutual
def execStmt {V} (d : Dom V) : Nat → Stmt → SState V → SRes V
  | 0, _, _ => .outOfFuel
  | fuel + 1, .ifS c thn els, s =>
    match holds d (getLocal d s) s.globs c with
    | none => .error
    | some true => execBlock d fuel thn s
    | some false => execBlock d fuel els s
  | fuel + 1, .whileS c body, s =>
    match holds d (getLocal d s) s.globs c with
    | none => .error
    | some false => .normal s
    | some true =>
      match execBlock d fuel body s with
      | .normal s' => execStmt d fuel (.whileS c body) s'
      | r => r
  | fuel + 1, .repeatS body c, s =>
    -- the condition sees the locals of the body (§2.4.4)
    match execChunk d fuel body s with
    | .normal s' =>
      match holds d (getLocal d s') s'.globs c with
      | none => .error
      | some true => .normal { s' with locals := s'.locals.take s.locals.length }
      | some false => execStmt d fuel (.repeatS body c) { s' with locals := s'.locals.take s.locals.length }
    | r => r
  | _ + 1, .ret cs, s =>
    match evalAll d s cs with
    | none => .error
    | some vs => .returned vs
  | _ + 1, .localDef c, s =>
    match eval d (getLocal d s) s.globs c with
    | none => .error
    | some v => .normal { s with locals := s.locals ++ [v] }
  | _ + 1, .assign targets rhs, s =>
    -- all expressions first (surplus ones too), then the stores
    match evalAll d s rhs with
    | none => .error
    | some vs =>
      .normal ((targets.zipIdx).foldl (fun acc (t, i) => store acc t ((vs[i]?).getD d.nilV)) s)
/-- statements in sequence, same scope -/
def execChunk {V} (d : Dom V) : Nat → Block → SState V → SRes V
  | 0, _, _ => .outOfFuel
  | _ + 1, .nil, s => .normal s
  | fuel + 1, .cons st rest, s =>
    match execStmt d fuel st s with
    | .normal s' => execChunk d fuel rest s'
    | r => r
/-- a block: locals declared inside go out of scope at its end -/
def execBlock {V} (d : Dom V) : Nat → Block → SState V → SRes V
  | 0, _, _ => .outOfFuel
  | fuel + 1, b, s =>
    match execChunk d fuel b s with
    | .normal s' => .normal { s' with locals := s'.locals.take s.locals.length }
    | r => r
end

end GLua.CondSpec
