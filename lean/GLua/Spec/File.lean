/-
  Spec for C19 (written from the property text, ISO C 7.19 stream semantics and the Lua 5.1 manual §5.7;
  NOT from iolib.go): an open file handle is a byte sequence with ONE cursor.

    state  = (bytes, cursor, mode flags, closed)
    read   = the bytes at the cursor, cursor advances; end of file = nil
    write  = lands at the cursor (at the end in append mode), cursor = end of what was written
    seek   = returns the resulting offset
    flush / setvbuf = no observable effect on (bytes, cursor)
    closed handle   = every operation raises and nothing changes

  The vocabulary (`Op`, `Res`, `Fmt`, …) is shared with the Model so both can be run on one history.
-/
namespace GLua.FileSpec

abbrev Bytes := List UInt8

/-- read formats.  `count n`, `line` = "*l", `all` = "*a", `num` = "*n"; `str s` = any other string given as a
    format (the raw bytes) — the manual fixes the meaning of exactly "*n", "*l", "*a" and liolib raises
    "invalid format"/"invalid option" for a string that does not start with `*` or whose second byte is not
    one of `n l a`. -/
inductive Fmt where
  | count (n : Nat)
  | line
  | all
  | num
  | str (s : Bytes)
deriving DecidableEq, Repr, Inhabited

inductive Whence where
  | set | cur | «end»
deriving DecidableEq, Repr, Inhabited

inductive VBuf where
  | no | full | line
deriving DecidableEq, Repr, Inhabited

/-- the six open modes (`b` variants are identical on this platform). -/
inductive Mode where
  | r | w | a | rp | wp | ap
deriving DecidableEq, Repr, Inhabited

inductive Op where
  | write (s : Bytes)
  | read (fs : List Fmt)
  | lines                         -- `f:lines()` : create the iterator
  | iter                          -- one call of an iterator made by `f:lines()`
  | seek (w : Whence) (d : Int)
  | flush
  | setvbuf (m : VBuf) (size : Nat)   -- size 0 = not given
  | close
  | reopen (m : Mode)             -- a new handle on the same file (only after `close`)
deriving DecidableEq, Repr, Inhabited

/-- what Lua sees. -/
inductive Res where
  | ok                                   -- true / an iterator
  | vals (l : List (Option Bytes))       -- results of read / iter (none = nil = end of file)
  | pos (n : Nat)                        -- result of seek
  | fail                                 -- nil, message
  | raise                                -- a Lua error
  | nothing                              -- no value at all
deriving DecidableEq, Repr, Inhabited

structure Stream where
  bytes : Bytes := []
  cur : Nat := 0
  canRead : Bool := true
  canWrite : Bool := true
  app : Bool := false
  closed : Bool := false
deriving DecidableEq, Repr, Inhabited

/-- overwrite/extend `b` with `s` at position `pos` (a gap past the end reads as zero bytes, ISO C / POSIX). -/
def writeAt (b : Bytes) (pos : Nat) (s : Bytes) : Bytes :=
  if s = [] then b
  else b.take pos ++ List.replicate (pos - b.length) 0 ++ s ++ b.drop (pos + s.length)

def Mode.canRead : Mode → Bool
  | .r | .rp | .wp | .ap => true
  | _ => false
def Mode.canWrite : Mode → Bool
  | .r => false
  | _ => true
def Mode.app : Mode → Bool
  | .a | .ap => true
  | _ => false
def Mode.trunc : Mode → Bool
  | .w | .wp => true
  | _ => false

/-- `fopen(path, mode)` on an existing file holding `bytes`. -/
def openStream (bytes : Bytes) (m : Mode) : Stream :=
  { bytes := if m.trunc then [] else bytes, cur := 0, canRead := m.canRead, canWrite := m.canWrite,
    app := m.app, closed := false }

/-! ### `*n`: reading a numeral

  Lua 5.1 liolib `read_number` is `fscanf(f, "%lf", &d)`: skip white space (`isspace`, "C" locale), then read the
  longest sequence of input characters that is a prefix of a matching subject sequence of `strtod`
  (ISO C 7.19.6.2 §9, §12 `a,e,f,g`; 7.20.1.3).  The meaning is fixed here for the inputs on which these rules leave
  no room: white space, then a decimal numeral `[sign] (D+ [. D*] | . D+) [(e|E) [sign] D+]` or a hexadecimal
  integer `[sign] 0(x|X) H+` (the numerals of the Lua 5.1 lexer / C99 `strtod`), FOLLOWED BY white space or the end of
  the file, with a value that rounds to a finite double; white space up to the end of the file (input failure: nil);
  white space and then an ASCII byte that cannot begin any `strtod` subject (matching failure: nil, the byte is not
  consumed; bytes ≥ 0x80 are left out: `isspace` depends on the locale).  Everything else (`1e+x`, `0x1p4`, `inf`, `1_0`, `12abc`, overflow …) is `unspecified`: C89/C99 and
  fscanf's one-character push-back limit make the outcome platform-dependent. -/

def isBlank (c : UInt8) : Bool := c == 32 || (9 ≤ c && c ≤ 13)
def isDigit (c : UInt8) : Bool := 48 ≤ c && c ≤ 57
def isHexDigit (c : UInt8) : Bool := isDigit c || (97 ≤ c && c ≤ 102) || (65 ≤ c && c ≤ 70)
def isSign (c : UInt8) : Bool := c == 43 || c == 45

/-- an optional sign and the rest -/
def spanSign : Bytes → Bytes × Bytes
  | [] => ([], [])
  | c :: r => if isSign c then ([c], r) else ([], c :: r)

/-- the fraction part `. D*` at the head of `s` (empty if `s` does not start with a period), and the rest -/
def spanFrac : Bytes → Bytes × Bytes
  | [] => ([], [])
  | c :: t => if c = 46 then (c :: t.takeWhile isDigit, t.dropWhile isDigit) else ([], c :: t)

/-- the exponent part `(e|E) [sign] D+` at the head of `s` (empty if there is no complete one), and the rest -/
def spanExp : Bytes → Bytes × Bytes
  | [] => ([], [])
  | e :: t =>
    if e = 101 ∨ e = 69 then
      let d3 := (spanSign t).2.takeWhile isDigit
      if d3 = [] then ([], e :: t) else (e :: (spanSign t).1 ++ d3, (spanSign t).2.dropWhile isDigit)
    else ([], e :: t)

/-- the longest prefix of `s` that is a decimal numeral, and what follows it. -/
def decNumeral (s : Bytes) : Option (Bytes × Bytes) :=
  let sg := (spanSign s).1
  let s1 := (spanSign s).2
  let d1 := s1.takeWhile isDigit
  let fr := (spanFrac (s1.dropWhile isDigit)).1
  let s3 := (spanFrac (s1.dropWhile isDigit)).2
  if d1 = [] ∧ fr.length ≤ 1 then none
  else some (sg ++ d1 ++ fr ++ (spanExp s3).1, (spanExp s3).2)

/-- the longest prefix of `s` that is a hexadecimal integer `[sign] 0(x|X) H+`, and what follows it. -/
def hexNumeral (s : Bytes) : Option (Bytes × Bytes) :=
  match (spanSign s).2 with
  | z :: x :: t =>
    if z = 48 ∧ (x = 120 ∨ x = 88) ∧ t.takeWhile isHexDigit ≠ [] then
      some ((spanSign s).1 ++ z :: x :: t.takeWhile isHexDigit, t.dropWhile isHexDigit)
    else none
  | _ => none

def numeralPrefix (s : Bytes) : Option (Bytes × Bytes) :=
  match hexNumeral s with
  | some r => some r
  | none => decNumeral s

/-- the real number a numeral denotes: `(-1)^neg * mant * 10^e10`. -/
structure NumVal where
  neg : Bool
  mant : Nat
  e10 : Int
deriving DecidableEq, Repr, Inhabited

def digitsVal (ds : Bytes) : Nat := ds.foldl (fun a c => a * 10 + (c.toNat - 48)) 0
def hexDigitVal (c : UInt8) : Nat :=
  if isDigit c then c.toNat - 48 else if 97 ≤ c then c.toNat - 87 else c.toNat - 55
def hexDigitsVal (ds : Bytes) : Nat := ds.foldl (fun a c => a * 16 + hexDigitVal c) 0

def expVal (ex : Bytes) : Int :=
  match ex with
  | [] => 0
  | _ :: t => if (spanSign t).1 = [45] then - (digitsVal (spanSign t).2 : Int) else (digitsVal (spanSign t).2 : Int)

/-- value of a numeral as `numeralPrefix` delivers it. -/
def numValue (tok : Bytes) : NumVal :=
  let neg := (spanSign tok).1 = [45]
  let s1 := (spanSign tok).2
  match hexNumeral tok with
  | some _ => { neg := neg, mant := hexDigitsVal (s1.drop 2), e10 := 0 }
  | none =>
    let d1 := s1.takeWhile isDigit
    let fr := (spanFrac (s1.dropWhile isDigit)).1
    let s3 := (spanFrac (s1.dropWhile isDigit)).2
    { neg := neg, mant := digitsVal (d1 ++ fr.drop 1), e10 := expVal (spanExp s3).1 - (fr.drop 1).length }

/-- IEEE 754 binary64: the reals that round (to nearest) to a finite double are those of magnitude below
    `(2^54 − 1) · 2^970` (half an ulp above the largest finite double). -/
def roundsFinite (v : NumVal) : Bool :=
  let T : Nat := (2 ^ 54 - 1) * 2 ^ 970
  if v.mant = 0 then true
  else if v.e10 > 400 then false
  else if v.e10 ≥ 0 then decide (v.mant * 10 ^ v.e10.toNat < T)
  -- 10^k > 2^k > mant as soon as k exceeds the binary length of mant: the value is below 1
  else if (-v.e10).toNat > Nat.log2 v.mant then true
  else decide (v.mant < T * 10 ^ (-v.e10).toNat)

inductive NumClass where
  | value (ws tok : Bytes)     -- white space, a numeral, then white space or the end of the file
  | eof (ws : Bytes)           -- nothing but white space up to the end of the file: nil
  | nomatch (ws : Bytes)       -- white space, then a byte that cannot begin a numeral: nil, the byte stays
  | unspecified
deriving DecidableEq, Repr, Inhabited

/-- can this byte begin a `strtod` subject sequence (digits, sign, period, `inf`/`nan`)? -/
def canStartNumeral (c : UInt8) : Bool :=
  isDigit c || isSign c || c == 46 || c == 110 || c == 78 || c == 105 || c == 73

/-- what `*n` means on the text `S` at the cursor. -/
def numClass (S : Bytes) : NumClass :=
  let ws := S.takeWhile isBlank
  match S.dropWhile isBlank with
  | [] => .eof ws
  | c :: t =>
    match numeralPrefix (c :: t) with
    | some (tok, rest) =>
      if (rest = [] ∨ (rest.head?.map isBlank = some true)) ∧ roundsFinite (numValue tok) then .value ws tok
      else .unspecified
    | none => if canStartNumeral c || c ≥ 128 then .unspecified else .nomatch ws

def numSpecified (S : Bytes) : Bool := numClass S ≠ .unspecified

/-! ### format strings -/

inductive FmtClass where
  | is (f : Fmt)       -- a format the manual defines
  | invalid            -- liolib raises "invalid format" / "invalid option"
  | unspecified        -- "*l…", "*a…", "*n…" with trailing bytes: the manual is silent (liolib looks at two bytes only)
deriving DecidableEq, Repr, Inhabited

def classify : Fmt → FmtClass
  | .str s =>
    match s with
    | [a, c] =>
      if a ≠ 42 then .invalid
      else if c = 110 then .is .num else if c = 108 then .is .line else if c = 97 then .is .all else .invalid
    | a :: c :: _ => if a = 42 ∧ (c = 110 ∨ c = 108 ∨ c = 97) then .unspecified else .invalid
    | _ => .invalid
  | f => .is f

/-- one read format at the cursor: the value (none = nil: end of file, or no numeral) and the new cursor.
    A number is represented by its numeral (the bytes read); its value is `numValue`. -/
def readFmt (b : Bytes) (cur : Nat) : Fmt → Option Bytes × Nat
  | .count 0 => (if cur < b.length then some [] else none, cur)
  | .count n =>
    let d := (b.drop cur).take n
    if d = [] then (none, cur) else (some d, cur + d.length)
  | .line =>
    let rest := b.drop cur
    if rest = [] then (none, cur)
    else
      let l := rest.takeWhile (· ≠ 10)
      (some l, cur + l.length + (if l.length < rest.length then 1 else 0))
  | .all => (some (b.drop cur), max cur b.length)
  | .num =>
    match numClass (b.drop cur) with
    | .value ws tok => (some tok, cur + ws.length + tok.length)
    | .eof ws => (none, cur + ws.length)
    | .nomatch ws => (none, cur + ws.length)
    | .unspecified => (none, cur)                 -- meaningless: see `readSpecified`
  | .str _ => (none, cur)                         -- never consulted: `readFmts` goes through `classify`

/-- formats are served left to right; the first nil ends the call (Lua manual: "returns nil on failure");
    an invalid format raises when it is reached.  Result: values, cursor, raised. -/
def readFmts (b : Bytes) (cur : Nat) : List Fmt → List (Option Bytes) × Nat × Bool
  | [] => ([], cur, false)
  | f :: fs =>
    match classify f with
    | .invalid => ([], cur, true)
    | .unspecified => ([], cur, true)             -- meaningless: see `readSpecified`
    | .is g =>
      match readFmt b cur g with
      | (none, c) => ([none], c, false)
      | (some v, c) => let r := readFmts b c fs; (some v :: r.1, r.2.1, r.2.2)

/-- is the meaning of this call fixed?  Every format string is one the manual defines or one liolib rejects, and
    every `*n` that is reached meets a text whose reading is fixed. -/
def readSpecified (b : Bytes) (cur : Nat) : List Fmt → Bool
  | [] => true
  | f :: fs =>
    match classify f with
    | .invalid => true
    | .unspecified => false
    | .is g =>
      (g ≠ .num || numSpecified (b.drop cur)) &&
      (match readFmt b cur g with
       | (none, _) => true
       | (some _, c) => readSpecified b c fs)

def seekTarget (s : Stream) (w : Whence) (d : Int) : Int :=
  (match w with | .set => 0 | .cur => (s.cur : Int) | .«end» => (s.bytes.length : Int)) + d

/-- the reference transition. -/
def step (s : Stream) : Op → Stream × Res
  | .reopen m => (openStream s.bytes m, .ok)
  | op =>
    if s.closed then (s, .raise) else
    match op with
    | .write d =>
      if !s.canWrite then (s, .fail)
      else if d = [] then (s, .ok)
      else
        let p := if s.app then s.bytes.length else s.cur
        ({ s with bytes := writeAt s.bytes p d, cur := p + d.length }, .ok)
    | .read fs =>
      if !s.canRead then (s, .fail)
      -- no format = "*l" (Lua manual §5.7 file:read)
      else
        let r := readFmts s.bytes s.cur (if fs = [] then [.line] else fs)
        ({ s with cur := r.2.1 }, if r.2.2 then .raise else .vals r.1)
    -- (what `lines` yields on a handle that cannot be read is not fixed by the property — Lua 5.1 returns an
    --  iterator whose first call raises; "no iterator" is chosen here and the correspondence accepts both)
    | .lines => if !s.canRead then (s, .nothing) else (s, .ok)
    | .iter =>
      if !s.canRead then (s, .raise)
      else let (v, c) := readFmt s.bytes s.cur .line; ({ s with cur := c }, .vals [v])
    | .seek w d =>
      let t := seekTarget s w d
      if t < 0 then (s, .fail) else ({ s with cur := t.toNat }, .pos t.toNat)
    | .flush => if !s.canWrite then (s, .fail) else (s, .ok)
    | .setvbuf _ _ => if !s.canWrite then (s, .fail) else (s, .ok)
    | .close => ({ s with closed := true }, .ok)
    | .reopen m => (openStream s.bytes m, .ok)

/-- run a history, collecting the results. -/
def run (s : Stream) : List Op → Stream × List Res
  | [] => (s, [])
  | o :: os => let (s', r) := step s o; let (s'', rs) := run s' os; (s'', r :: rs)

/-! ### The discipline of ISO C 7.19.5.3 the property assumes

  "input shall not be directly followed by output without an intervening call to a file positioning
  function or fflush".  `disc pending ops`: `pending` = an input operation happened and no seek/flush since. -/
def isInput : Op → Bool
  | .read _ | .iter => true
  | _ => false
def isSeparator : Op → Bool
  | .seek _ _ | .flush | .close | .reopen _ => true
  | _ => false

def disc (pending : Bool) : List Op → Bool
  | [] => true
  | o :: os =>
    match o with
    | .write _ => !pending && disc false os
    | _ => disc (if isInput o then true else if isSeparator o then false else pending) os

/-- `reopen` is only meaningful after `close` (one handle at a time). -/
def reopenOk (closed : Bool) : List Op → Bool
  | [] => true
  | .reopen _ :: os => closed && reopenOk false os
  | .close :: os => reopenOk true os
  | _ :: os => reopenOk closed os

/-! ### The `io` library level: default files, `io.lines`, `io.type` (Lua 5.1 manual §5.7)

  One file, one handle at a time (as above).  `io.input(file | name)` / `io.output(file | name)` make a handle the
  default input / output; `io.read`, `io.lines()` act on the default input, `io.write`, `io.flush`, `io.close()`
  on the default output — as the corresponding methods of that handle.  `io.input(name)` opens in mode "r",
  `io.output(name)` in mode "w" (liolib `g_iofile`), `io.lines(name)` in mode "r" and its iterator closes the
  file when it reaches the end.  A default slot can also hold one of the standard files (outside this Spec) or
  an older handle of the file, which is closed by then. -/

inductive Slot where
  | std      -- stdin / stdout: outside the Spec
  | cur      -- the current handle of the file
  | stale    -- an earlier handle of the file (closed: a new one is opened only after `close`)
deriving DecidableEq, Repr, Inhabited

inductive WOp where
  | h (op : Op)                 -- a method of the current handle (`f:read`, `f:write`, …; `reopen` = `io.open`)
  | ioInput | ioOutput          -- `io.input(f)` / `io.output(f)`, f = the current handle
  | ioInputName | ioOutputName  -- `io.input(path)` / `io.output(path)`: a new handle (only after `close`)
  | ioLinesName                 -- `io.lines(path)`: a new handle (only after `close`) owned by the iterator
  | ioRead (fs : List Fmt)
  | ioWrite (s : Bytes)
  | ioFlush
  | ioClose                     -- `io.close()`: closes the default output
  | ioLines                     -- `io.lines()`: an iterator over the default input
  | ioIter (auto : Bool)        -- one call of an iterator over the current handle made by `io.lines(path)` (`auto`:
                                --   closes the file at the end) or by `io.lines()` (does not)
  | ioType                      -- `io.type(f)`
  | toStr                       -- `tostring(f)` (the address Lua 5.1 prints for an open file is left out)
deriving DecidableEq, Repr, Inhabited

structure WStream where
  s : Stream := {}
  defIn : Slot := .std
  defOut : Slot := .std
deriving DecidableEq, Repr, Inhabited

def Slot.age : Slot → Slot
  | .cur => .stale
  | x => x

/-- a new handle on the file replaces the current one -/
def WStream.newHandle (w : WStream) (s' : Stream) (setIn setOut : Bool) : WStream :=
  { s := s', defIn := if setIn then .cur else w.defIn.age, defOut := if setOut then .cur else w.defOut.age }

/-- an operation on the handle a default slot refers to -/
def WStream.onSlot (w : WStream) (sl : Slot) (op : Op) : WStream × Res :=
  match sl with
  | .cur => ({ w with s := (step w.s op).1 }, (step w.s op).2)
  | .stale => (w, .raise)        -- a closed handle: raises, nothing changes
  | .std => (w, .nothing)        -- outside the Spec

def strFile : Bytes := [102, 105, 108, 101]                                        -- "file"
def strClosedFile : Bytes := [99, 108, 111, 115, 101, 100, 32, 102, 105, 108, 101] -- "closed file"
def strFileClosed : Bytes := [102, 105, 108, 101, 32, 40, 99, 108, 111, 115, 101, 100, 41] -- "file (closed)"

def wstep (w : WStream) : WOp → WStream × Res
  | .h (.reopen m) => (w.newHandle (openStream w.s.bytes m) false false, .ok)
  | .h op => w.onSlot .cur op
  | .ioInput => if w.s.closed then (w, .raise) else ({ w with defIn := .cur }, .ok)
  | .ioOutput => if w.s.closed then (w, .raise) else ({ w with defOut := .cur }, .ok)
  | .ioInputName => (w.newHandle (openStream w.s.bytes .r) true false, .ok)
  | .ioOutputName => (w.newHandle (openStream w.s.bytes .w) false true, .ok)
  | .ioLinesName => (w.newHandle (openStream w.s.bytes .r) false false, .ok)
  | .ioRead fs => w.onSlot w.defIn (.read fs)
  | .ioWrite d => w.onSlot w.defOut (.write d)
  | .ioFlush => w.onSlot w.defOut .flush
  | .ioClose => w.onSlot w.defOut .close
  | .ioLines => w.onSlot w.defIn .lines
  | .ioIter auto =>
    let r := step w.s .iter
    if auto ∧ r.2 = .vals [none] then ({ w with s := { r.1 with closed := true } }, r.2)
    else ({ w with s := r.1 }, r.2)
  | .ioType => (w, .vals [some (if w.s.closed then strClosedFile else strFile)])
  | .toStr => (w, .vals [some (if w.s.closed then strFileClosed else strFile)])

def wrun (w : WStream) : List WOp → WStream × List Res
  | [] => (w, [])
  | o :: os => let r := wstep w o; let rs := wrun r.1 os; (rs.1, r.2 :: rs.2)

/-- the operation a world operation performs on the CURRENT handle, if any (for the ISO C discipline and the
    one-handle-at-a-time rule, which speak about the handle). -/
def effOp (w : WStream) : WOp → Option Op
  | .h op => some op
  | .ioInputName | .ioLinesName => some (.reopen .r)
  | .ioOutputName => some (.reopen .w)
  | .ioRead fs => if w.defIn = .cur then some (.read fs) else none
  | .ioWrite d => if w.defOut = .cur then some (.write d) else none
  | .ioFlush => if w.defOut = .cur then some .flush else none
  | .ioClose => if w.defOut = .cur then some .close else none
  | .ioLines => if w.defIn = .cur then some .lines else none
  | .ioIter _ => some .iter
  | .ioInput | .ioOutput | .ioType | .toStr => none

/-- the default slot an operation goes through must hold a handle of the file (not stdin/stdout). -/
def slotOk (w : WStream) : WOp → Bool
  | .ioRead _ | .ioLines => w.defIn ≠ .std
  | .ioWrite _ | .ioFlush | .ioClose => w.defOut ≠ .std
  | _ => true


end GLua.FileSpec
