/-
  Spec for C19 (written from the property text, ISO C 7.19 stream semantics and the Lua 5.1 manual §5.7;
  NOT from iolib.go): an open file handle is a byte sequence with ONE cursor.

    state  = (bytes, cursor, mode flags, closed)
    read   = the bytes at the cursor, cursor advances; end of file = nil
    write  = lands at the cursor (at the end in append mode), cursor = end of what was written
    seek   = returns the resulting offset
    flush / setvbuf = no observable effect on (bytes, cursor)
    closed handle   = every operation raises and nothing changes

  The vocabulary (`Op`, `Res`, `Fmt`, …) is shared with the Model so both can be run on one history.
-/
namespace GLua.FileSpec

abbrev Bytes := List UInt8

/-- read formats (`*n` is outside the model: trusted `fmt.Fscanf`). -/
inductive Fmt where
  | count (n : Nat)
  | line
  | all
deriving DecidableEq, Repr, Inhabited

inductive Whence where
  | set | cur | «end»
deriving DecidableEq, Repr, Inhabited

inductive VBuf where
  | no | full | line
deriving DecidableEq, Repr, Inhabited

/-- the six open modes (`b` variants are identical on this platform). -/
inductive Mode where
  | r | w | a | rp | wp | ap
deriving DecidableEq, Repr, Inhabited

inductive Op where
  | write (s : Bytes)
  | read (fs : List Fmt)
  | lines                         -- `f:lines()` : create the iterator
  | iter                          -- one call of an iterator made by `f:lines()`
  | seek (w : Whence) (d : Int)
  | flush
  | setvbuf (m : VBuf) (size : Nat)   -- size 0 = not given
  | close
  | reopen (m : Mode)             -- a new handle on the same file (only after `close`)
deriving DecidableEq, Repr, Inhabited

/-- what Lua sees. -/
inductive Res where
  | ok                                   -- true / an iterator
  | vals (l : List (Option Bytes))       -- results of read / iter (none = nil = end of file)
  | pos (n : Nat)                        -- result of seek
  | fail                                 -- nil, message
  | raise                                -- a Lua error
  | nothing                              -- no value at all
deriving DecidableEq, Repr, Inhabited

structure Stream where
  bytes : Bytes := []
  cur : Nat := 0
  canRead : Bool := true
  canWrite : Bool := true
  app : Bool := false
  closed : Bool := false
deriving DecidableEq, Repr, Inhabited

/-- overwrite/extend `b` with `s` at position `pos` (a gap past the end reads as zero bytes, ISO C / POSIX). -/
def writeAt (b : Bytes) (pos : Nat) (s : Bytes) : Bytes :=
  if s = [] then b
  else b.take pos ++ List.replicate (pos - b.length) 0 ++ s ++ b.drop (pos + s.length)

def Mode.canRead : Mode → Bool
  | .r | .rp | .wp | .ap => true
  | _ => false
def Mode.canWrite : Mode → Bool
  | .r => false
  | _ => true
def Mode.app : Mode → Bool
  | .a | .ap => true
  | _ => false
def Mode.trunc : Mode → Bool
  | .w | .wp => true
  | _ => false

/-- `fopen(path, mode)` on an existing file holding `bytes`. -/
def openStream (bytes : Bytes) (m : Mode) : Stream :=
  { bytes := if m.trunc then [] else bytes, cur := 0, canRead := m.canRead, canWrite := m.canWrite,
    app := m.app, closed := false }

/-- one read format at the cursor: the value (none = end of file) and the new cursor. -/
def readFmt (b : Bytes) (cur : Nat) : Fmt → Option Bytes × Nat
  | .count 0 => (if cur < b.length then some [] else none, cur)
  | .count n =>
    let d := (b.drop cur).take n
    if d = [] then (none, cur) else (some d, cur + d.length)
  | .line =>
    let rest := b.drop cur
    if rest = [] then (none, cur)
    else
      let l := rest.takeWhile (· ≠ 10)
      (some l, cur + l.length + (if l.length < rest.length then 1 else 0))
  | .all => (some (b.drop cur), max cur b.length)

/-- formats are served left to right; the first end-of-file ends the call (Lua manual: "returns nil on failure"). -/
def readFmts (b : Bytes) (cur : Nat) : List Fmt → List (Option Bytes) × Nat
  | [] => ([], cur)
  | f :: fs =>
    match readFmt b cur f with
    | (none, c) => ([none], c)
    | (some v, c) => let (r, c') := readFmts b c fs; (some v :: r, c')

def seekTarget (s : Stream) (w : Whence) (d : Int) : Int :=
  (match w with | .set => 0 | .cur => (s.cur : Int) | .«end» => (s.bytes.length : Int)) + d

/-- the reference transition. -/
def step (s : Stream) : Op → Stream × Res
  | .reopen m => (openStream s.bytes m, .ok)
  | op =>
    if s.closed then (s, .raise) else
    match op with
    | .write d =>
      if !s.canWrite then (s, .fail)
      else if d = [] then (s, .ok)
      else
        let p := if s.app then s.bytes.length else s.cur
        ({ s with bytes := writeAt s.bytes p d, cur := p + d.length }, .ok)
    | .read fs =>
      if !s.canRead then (s, .fail)
      -- no format = "*l" (Lua manual §5.7 file:read)
      else let (r, c) := readFmts s.bytes s.cur (if fs = [] then [.line] else fs); ({ s with cur := c }, .vals r)
    -- (what `lines` yields on a handle that cannot be read is not fixed by the property — Lua 5.1 returns an
    --  iterator whose first call raises; "no iterator" is chosen here and the correspondence accepts both)
    | .lines => if !s.canRead then (s, .nothing) else (s, .ok)
    | .iter =>
      if !s.canRead then (s, .raise)
      else let (v, c) := readFmt s.bytes s.cur .line; ({ s with cur := c }, .vals [v])
    | .seek w d =>
      let t := seekTarget s w d
      if t < 0 then (s, .fail) else ({ s with cur := t.toNat }, .pos t.toNat)
    | .flush => if !s.canWrite then (s, .fail) else (s, .ok)
    | .setvbuf _ _ => if !s.canWrite then (s, .fail) else (s, .ok)
    | .close => ({ s with closed := true }, .ok)
    | .reopen m => (openStream s.bytes m, .ok)

/-- run a history, collecting the results. -/
def run (s : Stream) : List Op → Stream × List Res
  | [] => (s, [])
  | o :: os => let (s', r) := step s o; let (s'', rs) := run s' os; (s'', r :: rs)

/-! ### The discipline of ISO C 7.19.5.3 the property assumes

  "input shall not be directly followed by output without an intervening call to a file positioning
  function or fflush".  `disc pending ops`: `pending` = an input operation happened and no seek/flush since. -/
def isInput : Op → Bool
  | .read _ | .iter => true
  | _ => false
def isSeparator : Op → Bool
  | .seek _ _ | .flush | .close | .reopen _ => true
  | _ => false

def disc (pending : Bool) : List Op → Bool
  | [] => true
  | o :: os =>
    match o with
    | .write _ => !pending && disc false os
    | _ => disc (if isInput o then true else if isSeparator o then false else pending) os

/-- `reopen` is only meaningful after `close` (one handle at a time). -/
def reopenOk (closed : Bool) : List Op → Bool
  | [] => true
  | .reopen _ :: os => closed && reopenOk false os
  | .close :: os => reopenOk true os
  | _ :: os => reopenOk closed os

end GLua.FileSpec
