/-
  Spec for C08, second part: *rendering* a token list as source text, for the round-trip statement
  `lex (render toks layout) = toks` (Props/C08.lean).  Written from the Lua 5.1 manual §2.1 (lexical conventions)
  and the reference lexer's documented behaviour — never from gopher-lua's scanner.

  * `RTok`   : a token in a chosen spelling — names, keywords, the operators / punctuation, numerals (decimal digits,
               decimal with fraction and/or exponent, `0x` hexadecimal), quoted strings spelled character by character
               (raw byte, `\c` escape, `\d` `\dd` `\ddd`, backslash-line end) and long strings `[=*[ … ]=*]` of any level
  * `Sep`    : one element of the text between two tokens — a blank (space, \t, \f, \v, \n, \r), a short comment
               `--…` ended by a line end (or by the end of the text), a long comment `--[=*[ … ]=*]`
  * `Layout` : which separators stand in front of the i-th token (`lay n` = after the last token)
  * `render` : the bytes
  * `WF`     : decidable well-formedness — every token is a token of the grammar in a spelling that denotes it, every
               separator is one, and two adjacent tokens that would otherwise merge (or change their extent) are
               separated by at least one separator (`needSep`, the maximal-munch rule of the reference lexer)
  * `lineEnds`: number of line terminators of a text (\n, \r, \r\n, \n\r each count once)
-/
import GLua.Spec.LexSpec

namespace GLua.LexRender
open GLua.LexSpec

/-! ## tokens -/

/-- the escape letters of the manual's table and the byte each denotes. -/
def escapes : List (UInt8 × UInt8) :=
  [(97, 7), (98, 8), (102, 12), (110, 10), (114, 13), (116, 9), (118, 11), (92, 92), (34, 34), (39, 39)]

/-- the four spellings of a line end. -/
def lineEndSpellings : List Bytes := [[10], [13], [13, 10], [10, 13]]

/-- one character of a quoted string, as spelled in the source. -/
inductive SChar where
  | raw (b : UInt8)         -- the byte itself
  | esc (c : UInt8)         -- backslash + one of  a b f n r t v \ " '
  | dec (b : UInt8)         -- backslash + the three decimal digits of `b`
  | dec1 (b : UInt8)        -- backslash + the one decimal digit of `b` (b < 10; the next character is no digit)
  | dec2 (b : UInt8)        -- backslash + the two decimal digits of `b` (b < 100; the next character is no digit)
  | nl (eol : Bytes)        -- backslash + a line end (LF, CR, CRLF, LFCR); denotes LF
deriving DecidableEq, Repr, Inhabited

def SChar.render : SChar → Bytes
  | .raw b => [b]
  | .esc c => [92, c]
  | .dec b => [92, 48 + b / 100, 48 + b / 10 % 10, 48 + b % 10]
  | .dec1 b => [92, 48 + b]
  | .dec2 b => [92, 48 + b / 10, 48 + b % 10]
  | .nl eol => 92 :: eol

def escapeValue (c : UInt8) : UInt8 := ((escapes.find? (fun p => p.1 == c)).map (·.2)).getD 0

def SChar.denote : SChar → UInt8
  | .raw b => b
  | .esc c => escapeValue c
  | .dec b => b
  | .dec1 b => b
  | .dec2 b => b
  | .nl _ => 10

/-- inside quotes `q`: a raw byte is anything but the quote, the backslash and the line terminators. -/
def SChar.wf (q : UInt8) : SChar → Bool
  | .raw b => b != q && b != 92 && b != 10 && b != 13
  | .esc c => escapes.any (fun p => p.1 == c)
  | .dec _ => true
  | .dec1 b => b < 10
  | .dec2 b => b < 100
  | .nl eol => lineEndSpellings.contains eol

/-- a decimal escape with fewer than three digits: the lexer would take a following digit into the escape. -/
def SChar.shortDec : SChar → Bool
  | .dec1 _ => true
  | .dec2 _ => true
  | _ => false

def SChar.startsWithDigit : SChar → Bool
  | .raw b => isDigit b
  | _ => false

def headStartsWithDigit : List SChar → Bool
  | d :: _ => d.startsWithDigit
  | [] => false

/-- the characters of a quoted string: each one well-formed, and no digit directly behind a short decimal escape. -/
def scharsWf (q : UInt8) : List SChar → Bool
  | [] => true
  | c :: rest =>
    c.wf q && !(c.shortDec && headStartsWithDigit rest) && scharsWf q rest

/-- exponent part of a decimal numeral: marker `e`/`E`, optional sign, digits. -/
structure Exp where
  e    : UInt8
  sign : Option UInt8
  ds   : Bytes
deriving DecidableEq, Repr, Inhabited

def Exp.render (x : Exp) : Bytes := x.e :: ((match x.sign with | some c => [c] | none => []) ++ x.ds)

def Exp.wf (x : Exp) : Bool :=
  (x.e == 101 || x.e == 69) && (match x.sign with | some c => c == 43 || c == 45 | none => true) &&
  x.ds != [] && x.ds.all isDigit

inductive Numeral where
  | dec (ds : Bytes)                                         -- `ddd`
  | flt (ip : Bytes) (fp : Option Bytes) (ex : Option Exp)   -- `ddd` [`.` `ddd`] [exponent]  (ip or fp non-empty)
  | hex (x : UInt8) (hs : Bytes)                             -- `0x hhh` / `0X hhh`
deriving DecidableEq, Repr, Inhabited

def Numeral.render : Numeral → Bytes
  | .dec ds => ds
  | .flt ip fp ex =>
    ip ++ (match fp with | some f => 46 :: f | none => []) ++ (match ex with | some x => x.render | none => [])
  | .hex x hs => 48 :: x :: hs

def Numeral.wf : Numeral → Bool
  | .dec ds => ds != [] && ds.all isDigit
  | .flt ip fp ex =>
    ip.all isDigit && (match fp with | some f => f.all isDigit | none => true) &&
    (ip != [] || (match fp with | some f => f != [] | none => false)) &&
    (match ex with | some x => x.wf | none => true)
  | .hex x hs => (x == 120 || x == 88) && hs != [] && hs.all isHex

/-- would the reference lexer take a dot directly behind the numeral into the numeral?  (llex.c read_numeral: digits
    and dots are collected only before the exponent; a hexadecimal numeral ends at a dot.) -/
def Numeral.dotContinues : Numeral → Bool
  | .dec _ => true
  | .flt _ _ ex => ex.isNone
  | .hex _ _ => false

/-- operators and punctuation (manual §2.1, plus `::`). -/
def symbols : List Bytes := symbols1.map (fun c => [c]) ++ symbols2 ++ symbols3

/-- the closing bracket of a long bracket of the given level. -/
def closer (level : Nat) : Bytes := 93 :: (List.replicate level 61 ++ [93])

/-- does the text start with the closing bracket of that level? -/
def closesAt (level : Nat) : Bytes → Bool
  | 93 :: r => (List.replicate level (61 : UInt8) ++ [93]).isPrefixOf r
  | _ => false

/-- no closing bracket of that level starts inside `content` when it is followed by `closer level`
    (it may straddle the end of the content, e.g. content `x]` at level 0). -/
def noClose (level : Nat) : Bytes → Bool
  | [] => true
  | b :: r => !closesAt level (b :: r ++ closer level) && noClose level r

inductive RTok where
  | name (w : Bytes)
  | kw (k : String)
  | sym (sp : Bytes)
  | num (n : Numeral)
  | str (q : UInt8) (cs : List SChar)
  | lstr (level : Nat) (first : Bytes) (content : Bytes)
        -- `[=*[` first content `]=*]` where `first` is empty or a line end (which the lexer skips)
deriving DecidableEq, Repr, Inhabited

def RTok.render : RTok → Bytes
  | .name w => w
  | .kw k => k.toUTF8.toList
  | .sym sp => sp
  | .num n => n.render
  | .str q cs => q :: (cs.flatMap SChar.render ++ [q])
  | .lstr level first content => 91 :: (List.replicate level 61 ++ 91 :: (first ++ (content ++ closer level)))

def RTok.wf : RTok → Bool
  | .name w =>
    (match w with | c :: _ => isLetter c | [] => false) && w.all isAlnum && !isKeyword w
  | .kw k => keywords.contains k
  | .sym sp => symbols.contains sp
  | .num n => n.wf
  | .str q cs => (q == 34 || q == 39) && scharsWf q cs
  | .lstr level first content =>
    -- line terminators inside a long string are normalised to LF and a first one is skipped: the content that
    -- is denoted byte for byte has no CR, and starts with LF only behind an explicit (skipped) first line end
    ([] :: lineEndSpellings).contains first && content.all (fun b => b != 13) &&
    (!(first == [] || first == [13]) || content.head? != some 10) && noClose level content

/-- the token as the Spec's reference lexer (LexSpec.lean) reports it: kind and text (spelling; for strings the
    denoted bytes). -/
def RTok.kind : RTok → Kind
  | .name _ => .name
  | .kw _ => .keyword
  | .sym _ => .symbol
  | .num _ => .number
  | .str _ _ => .string
  | .lstr _ _ _ => .string

def RTok.specText : RTok → Bytes
  | .name w => w
  | .kw k => k.toUTF8.toList
  | .sym sp => sp
  | .num n => n.render
  | .str _ cs => cs.map SChar.denote
  | .lstr _ _ content => content

/-! ## separators -/

inductive Sep where
  | blank (b : UInt8)
  | short (text : Bytes) (eol : Option UInt8)
        -- `--` text, ended by the line end byte `eol` (for CR LF / LF CR let a blank follow) or by the end of the text
  | long (level : Nat) (content : Bytes)
deriving DecidableEq, Repr, Inhabited

def Sep.render : Sep → Bytes
  | .blank b => [b]
  | .short text eol => 45 :: 45 :: (text ++ (match eol with | some e => [e] | none => []))
  | .long level content => 45 :: 45 :: 91 :: (List.replicate level 61 ++ 91 :: (content ++ closer level))

/-- the text of a short comment must not begin like a long bracket (`[`, any number of `=`, `[`): the reference
    lexer would read a long comment. -/
def Sep.wf : Sep → Bool
  | .blank b => isBlank b
  | .short text eol =>
    text.all (fun b => !isNewline b) && (match eol with | some e => isNewline e | none => true) &&
    (longOpen text).isNone
  | .long level content => noClose level content

def Sep.isComment : Sep → Bool
  | .blank _ => false
  | _ => true

/-- an unterminated short comment runs to the end of the text. -/
def Sep.openEnded : Sep → Bool
  | .short _ none => true
  | _ => false

def renderSeps (g : List Sep) : Bytes := g.flatMap Sep.render

/-! ## which adjacent tokens need a separator -/

/-- may the text `r` follow the token directly without changing what the reference lexer reads?
    (maximal munch: a name / numeral swallows alphanumerics, a numeral without exponent also dots; `=` `<` `>` `~` combine with `=`,
    `:` with `:`, dots with dots and digits, `-` `-` starts a comment, `[` `[` / `[` `=` a long bracket.) -/
def follow (t : RTok) (r : Bytes) : Bool :=
  match r with
  | [] => true
  | c :: _ =>
    match t with
    | .name _ => !isAlnum c
    | .kw _ => !isAlnum c
    | .num n => !isAlnum c && !(c == 46 && n.dotContinues)
    | .sym sp =>
      if sp = [61] ∨ sp = [60] ∨ sp = [62] then c != 61
      else if sp = [58] then c != 58
      else if sp = [46] then c != 46 && !isDigit c
      else if sp = [46, 46] then c != 46
      else if sp = [45] then c != 45
      else if sp = [91] then c != 91 && c != 61
      else true
    | .str _ _ => true
    | .lstr _ _ _ => true

/-- two adjacent tokens need at least one separator between them. -/
def needSep (a b : RTok) : Bool := !follow a b.render

/-- an unterminated short comment can only be the very last thing of the text. -/
def endsOK (hasNext : Bool) : List Sep → Bool
  | [] => true
  | s :: g => (!s.openEnded || (g.isEmpty && !hasNext)) && endsOK hasNext g

/-- the separators between token `prev` and token `next` (`none` = start / end of the text). -/
def gapOK (prev : Option RTok) (gap : List Sep) (next : Option RTok) : Bool :=
  gap.all Sep.wf && endsOK next.isSome gap &&
  (match prev, gap, next with
   | some p, [], some t => !needSep p t
   | some p, g :: _, _ => !(p == .sym [45] && g.isComment)   -- `-` `--…` would read as a comment
   | _, _, _ => true)

/-! ## layouts and rendering -/

/-- `lay i` = the separators in front of the i-th token (i = number of tokens: behind the last one). -/
abbrev Layout := Nat → List Sep

def renderFrom (lay : Layout) : Nat → List RTok → Bytes
  | i, [] => renderSeps (lay i)
  | i, t :: ts => renderSeps (lay i) ++ (t.render ++ renderFrom lay (i + 1) ts)

def render (toks : List RTok) (lay : Layout) : Bytes := renderFrom lay 0 toks

def wfFrom (lay : Layout) : Nat → Option RTok → List RTok → Bool
  | i, prev, [] => gapOK prev (lay i) none
  | i, prev, t :: ts => t.wf && gapOK prev (lay i) (some t) && wfFrom lay (i + 1) (some t) ts

/-- well-formedness of a token list with a layout (decidable: a `Bool`). -/
def WF (toks : List RTok) (lay : Layout) : Bool := wfFrom lay 0 none toks

/-! ## line ends -/

/-- number of line terminators in a text: \n, \r, \r\n, \n\r each count once (pairs are taken greedily from the
    left, as the reference lexer does). -/
def lineEnds (bs : Bytes) : Nat :=
  match bs with
  | [] => 0
  | b :: r =>
    if b = 10 ∨ b = 13 then
      match r with
      | c :: r' => if (b = 10 ∧ c = 13) ∨ (b = 13 ∧ c = 10) then 1 + lineEnds r' else 1 + lineEnds (c :: r')
      | [] => 1
    else lineEnds r
termination_by bs.length

/-! ## what the reference lexer has to read from a rendering -/

/-- the expected stream of the reference lexer `LexSpec.lex`: kind, text, and 1 + the line ends rendered before the
    token (`pre` = the text before gap `i`). -/
def specExpectFrom (lay : Layout) : Nat → Bytes → List RTok → List STok
  | _, _, [] => []
  | i, pre, t :: ts =>
    { kind := t.kind, text := t.specText, line := 1 + lineEnds (pre ++ renderSeps (lay i)) } ::
      specExpectFrom lay (i + 1) (pre ++ renderSeps (lay i) ++ t.render) ts

/-! ## columns -/

/-- the column reached after a text when the column before it was `c`: every byte advances it by one, a line
    terminator byte resets it to 0. -/
def colFrom (c : Nat) : Bytes → Nat
  | [] => c
  | b :: r => if isNewline b then colFrom 0 r else colFrom (c + 1) r

/-- number of bytes behind the last line terminator byte of a text. -/
def lineCol (bs : Bytes) : Nat := colFrom 0 bs

end GLua.LexRender
