/-
  Spec for C08: the lexical grammar of Lua 5.1 (reference manual §2.1) extended with `goto` (reserved) and `::`.
  Written from the manual (and, where the manual is informal — blanks, the extent of a numeral, line counting —
  from the reference lexer's documented behaviour), NEVER from gopher-lua's scanner.

  * blanks between tokens: space, \t, \n, \r, \f, \v (C `isspace`)
  * a line terminator is \n, \r, \r\n or \n\r (a pair counts once); a token's line is 1 + the number of line
    terminators before its first byte
  * names: [A-Za-z_][A-Za-z0-9_]*; the 21 keywords of 5.1 plus `goto`
  * symbols (longest match): + - * / % ^ # == ~= <= >= < > = ( ) { } [ ] ; : , . .. ...  and ::
  * short strings '…' "…" with the escapes \a \b \f \n \r \t \v \\ \" \' , backslash-newline, \ddd (≤ 255);
    long strings [=*[ … ]=*] (first newline skipped, line terminators normalised to \n)
  * numerals: the maximal run `[0-9.]+ ([eE][+-]?)? [A-Za-z0-9_]*`, which must be a decimal constant with optional
    fraction and optional decimal exponent, or a hexadecimal integer 0x…; anything else is "malformed number"
  * comments: `--` followed by a long bracket = long comment, otherwise up to the end of the line

  The result is three-valued: `ok tokens`, `reject` (the text is definitely not Lua: loading it must fail), or
  `unspecified` (the manual gives no meaning, e.g. an escape such as `\q`: no demand on the implementation).
-/
import GLua.Basic

namespace GLua.LexSpec

abbrev Bytes := List UInt8

inductive Kind where
  | name | keyword | symbol | string | number
deriving DecidableEq, Repr, Inhabited

structure STok where
  kind : Kind
  text : Bytes      -- name / keyword / symbol: its spelling; string: the denoted bytes; number: the numeral's text
  line : Nat
deriving DecidableEq, Repr, Inhabited

inductive Res where
  | ok (toks : List STok)
  | reject (why : String)
  | unspecified (why : String)
deriving Repr, Inhabited

def isLetter (b : UInt8) : Bool := (65 ≤ b && b ≤ 90) || (97 ≤ b && b ≤ 122) || b == 95
def isDigit (b : UInt8) : Bool := 48 ≤ b && b ≤ 57
def isHex (b : UInt8) : Bool := isDigit b || (65 ≤ b && b ≤ 70) || (97 ≤ b && b ≤ 102)
def isAlnum (b : UInt8) : Bool := isLetter b || isDigit b
def isBlank (b : UInt8) : Bool := b == 32 || b == 9 || b == 10 || b == 13 || b == 12 || b == 11
def isNewline (b : UInt8) : Bool := b == 10 || b == 13

/-- the line on which each byte of the input lies, counting from `l`: a line terminator (\n, \r, \r\n or \n\r —
    a pair counts once) belongs to the line it ends; "a token's line is 1 + the number of line terminators before
    its first byte" is `(lineMap 1 input)[offset of the token]`. -/
def lineMap (l : Int) (bs : Bytes) : List Int :=
  match bs with
  | [] => []
  | b :: r =>
    if b = 10 ∨ b = 13 then
      match r with
      | c :: r' =>
        if (b = 10 ∧ c = 13) ∨ (b = 13 ∧ c = 10) then l :: l :: lineMap (l + 1) r'
        else l :: lineMap (l + 1) (c :: r')
      | [] => [l]
    else l :: lineMap l r
termination_by bs.length

def keywords : List String :=
  ["and", "break", "do", "else", "elseif", "end", "false", "for", "function", "goto", "if", "in", "local", "nil",
   "not", "or", "repeat", "return", "then", "true", "until", "while"]

def isKeyword (w : Bytes) : Bool := keywords.any (fun k => k.toUTF8.toList == w)

/-- drop one line terminator (the input starts with \n or \r). -/
def dropNewline : Bytes → Bytes
  | 10 :: 13 :: r => r
  | 13 :: 10 :: r => r
  | _ :: r => r
  | [] => []

/-- `[` `=`ⁿ `[` at the head of the input: level and the rest. -/
def longOpen : Bytes → Option (Nat × Bytes)
  | 91 :: r =>
    let eqs := r.takeWhile (· == 61)
    match r.dropWhile (· == 61) with
    | 91 :: r' => some (eqs.length, r')
    | _ => none
  | _ => none

/-- does the input start with the closing bracket `]` `=`ˡᵉᵛᵉˡ `]` ?  returns the rest. -/
def longClose (level : Nat) : Bytes → Option Bytes
  | 93 :: r =>
    if (r.take level).all (· == 61) ∧ (r.take level).length = level then
      match r.drop level with
      | 93 :: r' => some r'
      | _ => none
    else none
  | _ => none

/-- body of a long bracket: content (line terminators normalised), rest, number of line terminators inside. -/
def longBody (level : Nat) : Nat → Bytes → Bytes → Nat → Option (Bytes × Bytes × Nat)
  | 0, _, _, _ => none
  | _ + 1, [], _, _ => none
  | fuel + 1, b :: r, acc, nl =>
    match longClose level (b :: r) with
    | some r' => some (acc, r', nl)
    | none =>
      if isNewline b then longBody level fuel (dropNewline (b :: r)) (acc ++ [10]) (nl + 1)
      else longBody level fuel r (acc ++ [b]) nl

/-- a long bracket whose opening has been recognised: skip the first line terminator, read the body. -/
def longString (level : Nat) (r : Bytes) : Option (Bytes × Bytes × Nat) :=
  match r with
  | b :: _ =>
    if isNewline b then
      (longBody level (r.length + 1) (dropNewline r) [] 0).map (fun (c, r', nl) => (c, r', nl + 1))
    else longBody level (r.length + 1) r [] 0
  | [] => none

inductive StrRes where
  | ok (content rest : Bytes) (newlines : Nat)
  | reject (why : String)
  | unspecified (why : String)

/-- short string body after the opening quote `q`. -/
def shortString (q : UInt8) : Nat → Bytes → Bytes → Nat → StrRes
  | 0, _, _, _ => .reject "unfinished string"
  | _ + 1, [], _, _ => .reject "unfinished string"
  | fuel + 1, b :: r, acc, nl =>
    if b == q then .ok acc r nl
    else if isNewline b then .reject "unfinished string"
    else if b == 92 then
      match r with
      | [] => .reject "unfinished string"
      | e :: r' =>
        if e == 97 then shortString q fuel r' (acc ++ [7]) nl
        else if e == 98 then shortString q fuel r' (acc ++ [8]) nl
        else if e == 102 then shortString q fuel r' (acc ++ [12]) nl
        else if e == 110 then shortString q fuel r' (acc ++ [10]) nl
        else if e == 114 then shortString q fuel r' (acc ++ [13]) nl
        else if e == 116 then shortString q fuel r' (acc ++ [9]) nl
        else if e == 118 then shortString q fuel r' (acc ++ [11]) nl
        else if e == 92 then shortString q fuel r' (acc ++ [92]) nl
        else if e == 34 then shortString q fuel r' (acc ++ [34]) nl
        else if e == 39 then shortString q fuel r' (acc ++ [39]) nl
        else if isNewline e then shortString q fuel (dropNewline (e :: r')) (acc ++ [10]) (nl + 1)
        else if isDigit e then
          let ds := (e :: r').take 3 |>.takeWhile isDigit
          let v := ds.foldl (fun a d => a * 10 + (d.toNat - 48)) 0
          if v > 255 then .reject "escape sequence too large"
          else shortString q fuel ((e :: r').drop ds.length) (acc ++ [UInt8.ofNat v]) nl
        else .unspecified "escape sequence not defined by the manual"
    else shortString q fuel r (acc ++ [b]) nl

/-- the extent of a numeral (reference lexer): digits and dots, an optional exponent marker with optional sign,
    then every following alphanumeric character or underscore. -/
def numeralExtent (input : Bytes) : Bytes × Bytes :=
  let a := input.takeWhile (fun b => isDigit b || b == 46)
  let r := input.dropWhile (fun b => isDigit b || b == 46)
  let (e, r) : Bytes × Bytes := match r with
    | 69 :: 43 :: r' => ([69, 43], r') | 69 :: 45 :: r' => ([69, 45], r')
    | 101 :: 43 :: r' => ([101, 43], r') | 101 :: 45 :: r' => ([101, 45], r')
    | 69 :: r' => ([69], r') | 101 :: r' => ([101], r')
    | r' => ([], r')
  let t := r.takeWhile (fun b => isAlnum b)
  (a ++ e ++ t, r.dropWhile (fun b => isAlnum b))

def digitsVal (ds : Bytes) : Nat := ds.foldl (fun a d => a * 10 + (d.toNat - 48)) 0

def hexVal (ds : Bytes) : Nat :=
  ds.foldl (fun a d => a * 16 + (if isDigit d then d.toNat - 48 else if d ≥ 97 then d.toNat - 87 else d.toNat - 55)) 0

/-- value of a well-formed numeral as `mantissa × 10^exp` (exact), `none` if the text is malformed. -/
def numeralValue (t : Bytes) : Option (Nat × Int) :=
  match t with
  | 48 :: x :: hs =>
    if x == 120 || x == 88 then
      if hs ≠ [] ∧ hs.all isHex then some (hexVal hs, 0) else none
    else decimal t
  | _ => decimal t
where
  decimal (t : Bytes) : Option (Nat × Int) :=
    let ip := t.takeWhile isDigit
    let r := t.dropWhile isDigit
    let (fp, r) := match r with
      | 46 :: r' => (r'.takeWhile isDigit, r'.dropWhile isDigit)
      | _ => ([], r)
    if ip = [] ∧ fp = [] then none else
    let mant := digitsVal (ip ++ fp)
    match r with
    | [] => some (mant, -(fp.length : Int))
    | e :: r' =>
      if e == 101 || e == 69 then
        let (neg, ds) := match r' with
          | 45 :: d => (true, d)
          | 43 :: d => (false, d)
          | d => (false, d)
        if ds ≠ [] ∧ ds.all isDigit then
          let ev : Int := digitsVal ds
          some (mant, (if neg then -ev else ev) - (fp.length : Int))
        else none
      else none

/-- the integer a numeral denotes, when it denotes one below 2^53 (otherwise the value is not compared here). -/
def numeralInt (t : Bytes) : Option Nat :=
  match numeralValue t with
  | none => none
  | some (mant, e) =>
    if mant = 0 then some 0
    else if e ≥ 0 then
      if e ≤ 16 then
        let v := mant * 10 ^ e.toNat
        if v < 2 ^ 53 then some v else none
      else none
    else
      let d := 10 ^ (-e).toNat
      if (-e) ≤ 400 ∧ mant % d = 0 ∧ mant / d < 2 ^ 53 then some (mant / d) else none

def symbols3 : List Bytes := [[46, 46, 46]]
def symbols2 : List Bytes := [[46, 46], [61, 61], [126, 61], [60, 61], [62, 61], [58, 58]]
def symbols1 : Bytes := [43, 45, 42, 47, 37, 94, 35, 60, 62, 61, 40, 41, 123, 125, 91, 93, 59, 58, 44, 46]

/-- the main loop: `line` is the current line. -/
def go : Nat → Bytes → Nat → List STok → Res
  | 0, _, _, acc => .ok acc.reverse
  | _ + 1, [], _, acc => .ok acc.reverse
  | fuel + 1, b :: r, line, acc =>
    if isNewline b then go fuel (dropNewline (b :: r)) (line + 1) acc
    else if isBlank b then go fuel r line acc
    else if isLetter b then
      let w := (b :: r).takeWhile isAlnum
      go fuel ((b :: r).dropWhile isAlnum) line
        ({ kind := if isKeyword w then .keyword else .name, text := w, line := line } :: acc)
    else if isDigit b || (b == 46 && (match r with | d :: _ => isDigit d | [] => false)) then
      let (t, r') := numeralExtent (b :: r)
      match numeralValue t with
      | none => .reject "malformed number"
      | some _ => go fuel r' line ({ kind := .number, text := t, line := line } :: acc)
    else if b == 45 && (match r with | 45 :: _ => true | _ => false) then
      -- comment
      let r1 := r.drop 1
      match longOpen r1 with
      | some (level, r2) =>
        match longString level r2 with
        | none => .reject "unfinished long comment"
        | some (_, r3, nl) => go fuel r3 (line + nl) acc
      | none => go fuel (r1.dropWhile (fun c => !isNewline c)) line acc
    else if b == 34 || b == 39 then
      match shortString b (r.length + 1) r [] 0 with
      | .ok c r' nl => go fuel r' (line + nl) ({ kind := .string, text := c, line := line } :: acc)
      | .reject w => .reject w
      | .unspecified w => .unspecified w
    else if b == 91 && (match r with | 91 :: _ => true | 61 :: _ => true | _ => false) then
      match longOpen (b :: r) with
      | none => .reject "invalid long string delimiter"
      | some (level, r2) =>
        match longString level r2 with
        | none => .reject "unfinished long string"
        | some (c, r3, nl) => go fuel r3 (line + nl) ({ kind := .string, text := c, line := line } :: acc)
    else if symbols3.any (fun s => s == (b :: r).take 3) then
      go fuel (r.drop 2) line ({ kind := .symbol, text := (b :: r).take 3, line := line } :: acc)
    else if symbols2.any (fun s => s == (b :: r).take 2) then
      go fuel (r.drop 1) line ({ kind := .symbol, text := (b :: r).take 2, line := line } :: acc)
    else if symbols1.contains b then
      go fuel r line ({ kind := .symbol, text := [b], line := line } :: acc)
    else .reject "character outside the lexical grammar"

def lex (input : Bytes) : Res := go (input.length + 1) input 1 []

end GLua.LexSpec
