/-
  Spec for C12 (written from the property text and README "Callstack & Registry size", never from state.go):

  * a call stack is a `List Frame` with a capacity; `Push` appends a frame whose `idx` is its position,
    `Pop` removes the last frame, `SetSp n` unwinds to the first `n` frames, `IsFull` ⇔ length = capacity;
  * the data stack ("registry") is a `List` of Lua values `[0, top)` with a limit on its length; every
    operation is the obvious list operation; an operation whose result would be longer than the limit raises
    the Lua error "registry overflow" and changes nothing;
  * `Options` fix the capacity / the limit and nothing else.

  `none` results mean "outside the contract" (a caller error such as `Pop` on an empty stack, `Push` on a full
  one, a store that would leave a hole below `top`): the property says nothing there.
-/
import GLua.Basic

namespace GLua.LimitsSpec
open GLua

/-! ## call stack -/

/-- a call frame as far as the stack is concerned: `tag` stands for all caller-supplied fields,
    `idx` is the position the stack assigns (`callFrame.Idx`). -/
structure Frame where
  tag : Int
  idx : Nat
deriving DecidableEq, Repr, Inhabited

inductive Op where
  | push (tag : Int) | pop | last | at (i : Nat) | setSp (n : Nat) | sp | isFull | isEmpty
deriving DecidableEq, Repr

/-- what one operation lets the caller observe. `stale` (a slot whose content is whatever the segment pool
    handed out) is only ever produced by the Model, outside the contract. -/
inductive Obs where
  | unit | nil | frame (f : Frame) | stale | nat (n : Nat) | bool (b : Bool)
deriving DecidableEq, Repr

def step (cap : Nat) (l : List Frame) : Op → Option (List Frame × Obs)
  | .push tag => if l.length < cap then some (l ++ [⟨tag, l.length⟩], .unit) else none
  | .pop => match l.getLast? with
    | some f => some (l.dropLast, .frame f)
    | none => none
  | .last => match l.getLast? with
    | some f => some (l, .frame f)
    | none => some (l, .nil)
  | .at i => match l[i]? with
    | some f => some (l, .frame f)
    | none => none
  | .setSp n => if n ≤ l.length then some (l.take n, .unit) else none
  | .sp => some (l, .nat l.length)
  | .isFull => some (l, .bool (l.length == cap))
  | .isEmpty => some (l, .bool (l.length == 0))

def run (cap : Nat) : List Frame → List Op → Option (List Frame × List Obs)
  | l, [] => some (l, [])
  | l, op :: r => match step cap l op with
    | none => none
    | some (l', o) => match run cap l' r with
      | none => none
      | some (l'', os) => some (l'', o :: os)

/-- the history stays strictly below the capacity (so neither a push fails nor `IsFull` answers true). -/
def below (cap : Nat) : List Frame → List Op → Prop
  | l, [] => l.length < cap
  | l, op :: r => l.length < cap ∧ match step cap l op with
    | none => False
    | some (l', _) => below cap l' r

def decBelow (cap : Nat) : (ops : List Op) → (l : List Frame) → Decidable (below cap l ops)
  | [], l => inferInstanceAs (Decidable (l.length < cap))
  | op :: r, l =>
    match h : step cap l op with
    | none => isFalse (by simp [below, h])
    | some (l', o) =>
      match decBelow cap r l' with
      | isTrue hr =>
        if hl : l.length < cap then isTrue (by simp only [below, h]; exact ⟨hl, hr⟩)
        else isFalse (by simp only [below, h]; intro hc; exact hl hc.1)
      | isFalse hr => isFalse (by simp only [below, h]; intro hc; exact hr hc.2)

instance (cap : Nat) (l : List Frame) (ops : List Op) : Decidable (below cap l ops) := decBelow cap ops l

/-- capacity promised by a configuration: `CallStackSize` frames for the fixed stack; the auto-growing stack
    allocates whole pages of `fps` frames "up to a max of CallStackSize", i.e. the page multiple that covers it. -/
def capacity (auto : Bool) (fps size : Nat) : Nat :=
  if auto then fps * ((size + (fps - 1)) / fps) else size

/-! ## registry (data stack) -/

inductive ROp where
  | push (v : OVal) | pop | get (i : Nat) | set (i : Nat) (v : OVal) | setTop (n : Nat)
  | copyRange (regv : Nat) (start limit : Int) (n : Nat) | fillNil (regm n : Nat)
  | insert (v : OVal) (reg : Nat) | top | isFull
deriving DecidableEq, Repr

inductive RObs where
  | unit | val (v : OVal) | nat (n : Nat) | any
deriving DecidableEq, Repr

/-- source window of a block move: slots `[0, lim)` are readable, everything else reads as nil. -/
def moveLim (len : Nat) (limit : Int) : Nat :=
  if limit = -1 ∨ limit > (len : Int) then len else limit.toNat

def moveSrc (l : List OVal) (lim : Nat) (j : Int) : OVal :=
  if j < 0 ∨ j ≥ (lim : Int) then none else (l[j.toNat]?).getD none

/-- one registry operation on the list `[0, top)`, ignoring the limit. -/
def rstep (l : List OVal) : ROp → Option (List OVal × RObs)
  | .push v => some (l ++ [v], .unit)
  | .pop => match l.getLast? with
    | some v => some (l.dropLast, .val v)
    | none => none
  | .get i => match l[i]? with
    | some v => some (l, .val v)
    | none => none
  | .set i v => if i < l.length then some (l.set i v, .unit) else if i = l.length then some (l ++ [v], .unit) else none
  | .setTop n => some (l.take n ++ List.replicate (n - l.length) none, .unit)
  | .copyRange regv start limit n =>
    -- "move n values from start to regv; slots at or past the limit read as nil; top becomes regv+n".
    -- Contract: no hole below the destination, and the move is downwards or disjoint (a forward copy).
    let lim := moveLim l.length limit
    if regv ≤ l.length ∧ ((regv : Int) ≤ start ∨ lim ≤ regv) then
      some (l.take regv ++ (List.range n).map (fun (i : Nat) => moveSrc l lim (start + (i : Int))), .unit)
    else none
  | .fillNil regm n => if regm ≤ l.length then some (l.take regm ++ List.replicate n none, .unit) else none
  | .insert v reg => if reg ≤ l.length then some (l.take reg ++ v :: l.drop reg, .unit) else none
  | .top => some (l, .nat l.length)
  | .isFull => some (l, .any)      -- representation-dependent, not part of the contract

/-- outcome of an operation under a limit. -/
inductive ROut where
  | ok (l : List OVal) (o : RObs)
  | overflow                -- the Lua error "registry overflow", nothing changed
deriving DecidableEq, Repr

def rstepL (limit : Nat) (l : List OVal) (op : ROp) : Option ROut :=
  match rstep l op with
  | none => none
  | some (l', o) => if l'.length ≤ limit then some (.ok l' o) else some .overflow

/-- the history never reaches past `limit`. -/
def rbelow (limit : Nat) : List OVal → List ROp → Prop
  | l, [] => l.length ≤ limit
  | l, op :: r => match rstep l op with
    | none => False
    | some (l', _) => l'.length ≤ limit ∧ rbelow limit l' r

def decRbelow (limit : Nat) : (ops : List ROp) → (l : List OVal) → Decidable (rbelow limit l ops)
  | [], l => inferInstanceAs (Decidable (l.length ≤ limit))
  | op :: r, l =>
    match h : rstep l op with
    | none => isFalse (by simp [rbelow, h])
    | some (l', o) =>
      match decRbelow limit r l' with
      | isTrue hr =>
        if hl : l'.length ≤ limit then isTrue (by simp only [rbelow, h]; exact ⟨hl, hr⟩)
        else isFalse (by simp only [rbelow, h]; intro hc; exact hl hc.1)
      | isFalse hr => isFalse (by simp only [rbelow, h]; intro hc; exact hr hc.2)

instance (limit : Nat) (l : List OVal) (ops : List ROp) : Decidable (rbelow limit l ops) := decRbelow limit ops l

def rrun : List OVal → List ROp → Option (List OVal × List RObs)
  | l, [] => some (l, [])
  | l, op :: r => match rstep l op with
    | none => none
    | some (l', o) => match rrun l' r with
      | none => none
      | some (l'', os) => some (l'', o :: os)

/-- a history under a limit; an overflowing operation is observed as `none` and changes nothing
    (what a protected call sees). -/
def rrunL (limit : Nat) : List OVal → List ROp → Option (List OVal × List (Option RObs))
  | l, [] => some (l, [])
  | l, op :: r => match rstepL limit l op with
    | none => none
    | some .overflow => match rrunL limit l r with
      | none => none
      | some (l'', os) => some (l'', none :: os)
    | some (.ok l' o) => match rrunL limit l' r with
      | none => none
      | some (l'', os) => some (l'', some o :: os)

/-! ## Options (README: "Callstack & Registry size", "Option defaults") -/

structure Options where
  callStackSize : Int
  minimizeStackMemory : Bool
  registrySize : Int
  registryMaxSize : Int
  registryGrowStep : Int
deriving DecidableEq, Repr

/-- maximum call depth of a state created with these options (defaults: `defCS`; pages of `fps`). -/
def callLimit (defCS fps : Nat) (o : Options) : Nat :=
  capacity o.minimizeStackMemory fps (if o.callStackSize < 1 then defCS else o.callStackSize.toNat)

/-- maximum registry length: the initial size, or the maximum size when growth is enabled
    ("If set to 0 (the default) then the registry will not auto grow"; a maximum below the initial size disables growth). -/
def regLimit (defRS : Nat) (o : Options) : Nat :=
  let rs := if o.registrySize < 128 then defRS else o.registrySize.toNat
  if o.registryMaxSize < (rs : Int) then rs else o.registryMaxSize.toNat

end GLua.LimitsSpec
