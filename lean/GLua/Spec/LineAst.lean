/-
  C17, line layer — Spec vocabulary: the SOURCE TEXT of a program of the C01M fragment (Spec/CondAst.lean) as a tree of
  TOKENS WITH THEIR LINES.  Written from the Lua 5.1 grammar (§8 of the manual) and the property text only:

    * every token that can begin or end a construct carries the line on which it stands (operands, unary operator
      tokens, parentheses, the keywords of a statement); binary operator tokens, commas, `=` and the names after `local`
      stand between two recorded tokens and are not recorded;
    * `toks` lists the recorded lines in SOURCE ORDER; a text is well formed (`Mono`) when they never decrease — which is
      what reading a file from top to bottom means;
    * the SPAN of a statement is [line of its first token, line of its last token]; the HEADER of a compound statement
      is `if … then` / `while … do` / `until …`;
    * `mapLines σ` moves every token from line l to line σ l (inserting blank or comment lines is an order-preserving σ).

  Nothing here looks at gopher-lua.  Which of these lines the parser stores in which AST node is Model/CompileLines.lean.
-/
import GLua.Spec.CondAst

namespace GLua.Lines
open GLua.Compile

/-- an expression of the fragment with the lines of its tokens. -/
inductive TCond where
  | tru (ln : Nat) | fls (ln : Nat) | nil (ln : Nat)
  | num (ln : Nat) (n : Int)
  | str (ln : Nat) (s : String)
  | loc (ln : Nat) (r : Nat)
  | ev (ln : Nat) (id : Nat)
  | not (tk : Nat) (c : TCond)            -- tk: line of the `not` token
  | unm (tk : Nat) (c : TCond)            -- tk: line of the `-` token
  | len (tk : Nat) (c : TCond)            -- tk: line of the `#` token
  | and (l r : TCond) | or (l r : TCond)
  | rel (op : RelOp) (l r : TCond)
  | arith (op : ArithOp) (l r : TCond)
  | concat (l r : TCond)
  | paren (op cl : Nat) (c : TCond)       -- `(` c `)`: lines of the two parentheses
deriving Repr

/-- the recorded token lines in source order. -/
def TCond.toks : TCond → List Nat
  | .tru ln | .fls ln | .nil ln | .num ln _ | .str ln _ | .loc ln _ | .ev ln _ => [ln]
  | .not tk c | .unm tk c | .len tk c => tk :: c.toks
  | .and l r | .or l r | .rel _ l r | .arith _ l r | .concat l r => l.toks ++ r.toks
  | .paren op cl c => op :: (c.toks ++ [cl])

/-- the expression without positions (parentheses produce no node). -/
def TCond.erase : TCond → Cond
  | .tru _ => .tru | .fls _ => .fls | .nil _ => .nil
  | .num _ n => .num n | .str _ s => .str s | .loc _ r => .loc r | .ev _ id => .ev id
  | .not _ c => .not c.erase | .unm _ c => .unm c.erase | .len _ c => .len c.erase
  | .and l r => .and l.erase r.erase | .or l r => .or l.erase r.erase
  | .rel op l r => .rel op l.erase r.erase
  | .arith op l r => .arith op l.erase r.erase
  | .concat l r => .concat l.erase r.erase
  | .paren _ _ c => c.erase

def TCond.mapLines (σ : Nat → Nat) : TCond → TCond
  | .tru ln => .tru (σ ln) | .fls ln => .fls (σ ln) | .nil ln => .nil (σ ln)
  | .num ln n => .num (σ ln) n | .str ln s => .str (σ ln) s | .loc ln r => .loc (σ ln) r | .ev ln id => .ev (σ ln) id
  | .not tk c => .not (σ tk) (c.mapLines σ) | .unm tk c => .unm (σ tk) (c.mapLines σ) | .len tk c => .len (σ tk) (c.mapLines σ)
  | .and l r => .and (l.mapLines σ) (r.mapLines σ) | .or l r => .or (l.mapLines σ) (r.mapLines σ)
  | .rel op l r => .rel op (l.mapLines σ) (r.mapLines σ)
  | .arith op l r => .arith op (l.mapLines σ) (r.mapLines σ)
  | .concat l r => .concat (l.mapLines σ) (r.mapLines σ)
  | .paren op cl c => .paren (σ op) (σ cl) (c.mapLines σ)

mutual
/-- statements with the lines of their keywords.  `else` is present iff the else block is not empty. -/
inductive TStmt where
  | ifS (ifLn : Nat) (c : TCond) (thenLn : Nat) (thn : TBlock) (elseLn : Nat) (els : TBlock) (endLn : Nat)
  | whileS (whileLn : Nat) (c : TCond) (doLn : Nat) (body : TBlock) (endLn : Nat)
  | repeatS (repeatLn : Nat) (body : TBlock) (untilLn : Nat) (c : TCond)
  | ret (retLn : Nat) (cs : List TCond)                       -- `return c1, …, cn`
  | localDef (localLn : Nat) (c : TCond)                      -- `local x = c`
  | assign (t0 : Nat × Target) (targets : List (Nat × Target)) (rhs : List TCond)
      -- `t0, targets… = rhs…`: each target with the line of its name (the grammar requires at least one target)
inductive TBlock where
  | nil
  | cons (s : TStmt) (rest : TBlock)
end

def TBlock.isEmpty : TBlock → Bool
  | .nil => true
  | _ => false

mutual
def TStmt.toks : TStmt → List Nat
  | .ifS ifLn c thenLn thn elseLn els endLn =>
    ifLn :: (c.toks ++ thenLn :: (thn.toks ++ ((if els.isEmpty then [] else elseLn :: els.toks) ++ [endLn])))
  | .whileS whileLn c doLn body endLn => whileLn :: (c.toks ++ doLn :: (body.toks ++ [endLn]))
  | .repeatS repeatLn body untilLn c => repeatLn :: (body.toks ++ untilLn :: c.toks)
  | .ret retLn cs => retLn :: cs.flatMap TCond.toks
  | .localDef localLn c => localLn :: c.toks
  | .assign t0 targets rhs => t0.1 :: (targets.map Prod.fst ++ rhs.flatMap TCond.toks)
def TBlock.toks : TBlock → List Nat
  | .nil => []
  | .cons s rest => s.toks ++ rest.toks
end

mutual
def TStmt.erase : TStmt → Stmt
  | .ifS _ c _ thn _ els _ => .ifS c.erase thn.erase els.erase
  | .whileS _ c _ body _ => .whileS c.erase body.erase
  | .repeatS _ body _ c => .repeatS body.erase c.erase
  | .ret _ cs => .ret (cs.map TCond.erase)
  | .localDef _ c => .localDef c.erase
  | .assign t0 targets rhs => .assign (t0.2 :: targets.map Prod.snd) (rhs.map TCond.erase)
def TBlock.erase : TBlock → Block
  | .nil => .nil
  | .cons s rest => .cons s.erase rest.erase
end

mutual
def TStmt.mapLines (σ : Nat → Nat) : TStmt → TStmt
  | .ifS ifLn c thenLn thn elseLn els endLn =>
    .ifS (σ ifLn) (c.mapLines σ) (σ thenLn) (thn.mapLines σ) (σ elseLn) (els.mapLines σ) (σ endLn)
  | .whileS whileLn c doLn body endLn => .whileS (σ whileLn) (c.mapLines σ) (σ doLn) (body.mapLines σ) (σ endLn)
  | .repeatS repeatLn body untilLn c => .repeatS (σ repeatLn) (body.mapLines σ) (σ untilLn) (c.mapLines σ)
  | .ret retLn cs => .ret (σ retLn) (cs.map (TCond.mapLines σ))
  | .localDef localLn c => .localDef (σ localLn) (c.mapLines σ)
  | .assign t0 targets rhs => .assign (σ t0.1, t0.2) (targets.map fun p => (σ p.1, p.2)) (rhs.map (TCond.mapLines σ))
def TBlock.mapLines (σ : Nat → Nat) : TBlock → TBlock
  | .nil => .nil
  | .cons s rest => .cons (s.mapLines σ) (rest.mapLines σ)
end

/-- [line of the first token, line of the last token] -/
def spanOf (toks : List Nat) : Nat × Nat := (toks.head?.getD 0, toks.getLast?.getD 0)

def TStmt.span (s : TStmt) : Nat × Nat := spanOf s.toks

/-- the header of a compound statement (`if … then`, `while … do`, `until …`); for a simple statement its span. -/
def TStmt.header : TStmt → Nat × Nat
  | .ifS ifLn _ thenLn _ _ _ _ => (ifLn, thenLn)
  | .whileS whileLn _ doLn _ _ => (whileLn, doLn)
  | .repeatS _ _ untilLn c => (untilLn, (spanOf c.toks).2)
  | s => s.span

/-- the condition of a compound statement. -/
def TStmt.cond? : TStmt → Option TCond
  | .ifS _ c _ _ _ _ _ => some c
  | .whileS _ c _ _ _ => some c
  | .repeatS _ _ _ c => some c
  | _ => none

/-- a main chunk of the fragment: the prologue `local l0, …, l(n-1) = ...` (present iff n > 0; recorded: the lines of
    `local` and of `...`) and the statements. -/
structure TProg where
  nlocals : Nat
  localLn : Nat := 1
  dotsLn : Nat := 1
  body : TBlock

def TProg.toks (p : TProg) : List Nat :=
  (if p.nlocals = 0 then [] else [p.localLn, p.dotsLn]) ++ p.body.toks

def TProg.mapLines (σ : Nat → Nat) (p : TProg) : TProg :=
  { nlocals := p.nlocals, localLn := σ p.localLn, dotsLn := σ p.dotsLn, body := p.body.mapLines σ }

/-- the text is read top to bottom: token lines never decrease. -/
def Mono (toks : List Nat) : Prop := toks.Pairwise (· ≤ ·)

instance (toks : List Nat) : Decidable (Mono toks) := by unfold Mono; infer_instance

def inSpan (l : Nat) (sp : Nat × Nat) : Prop := sp.1 ≤ l ∧ l ≤ sp.2

instance (l : Nat) (sp : Nat × Nat) : Decidable (inSpan l sp) := by unfold inSpan; infer_instance

end GLua.Lines

