/-
  Spec for C14 — the Lua 5.1 pattern matcher (lstrlib.c 5.1.5: `match`, `max_expand`, `min_expand`,
  `start_capture`/`end_capture`, `match_capture`, `matchbalance`, `classEnd`, `singlematch`,
  `matchbracketclass`, `match_class` for the C locale over bytes) and the drivers `str_find_aux`
  (find / match), `gmatch_aux`, `str_gsub` with `add_s` / `add_value`.

  Written from the reference manual §5.4.1 and lstrlib's semantics, never from gopher-lua.
  Bytes are `Nat` (< 256); strings are `List Nat`, the subject is an `Array Nat`.
  `%f[set]` (frontier) is ported as lstrlib 5.1.5 implements it (it is there, though the 5.1 manual does not document it).
  Not covered (outside the property's domain): patterns containing
  the byte 0 (5.1 patterns are C strings; this port reads a NUL in the pattern as an ordinary byte, which is the reading of
  lstrlib ≥ 5.2 — the `…_bytes` theorems of Props/C14 say so explicitly), a replacement string ending in a single `%` (5.1 reads the
  terminating NUL), more than 32 captures (LUA_MAXCAPTURES is a limit, not a semantics).
-/
namespace GLua.LuaPattern

abbrev Bytes := List Nat

inductive Res (α : Type) where
  | error (msg : String)
  | fail
  | ok (a : α)
deriving Repr

/-- one entry of `ms->capture[]` -/
inductive Cap where
  | closed (init len : Nat)
  | position (init : Nat)          -- `()`; the value pushed is `init + 1`
  | unfinished (init : Nat)
deriving DecidableEq, Repr

/-- a capture value as pushed by `push_onecapture` -/
inductive CapVal where
  | str (b : Bytes)
  | pos (n : Nat)
deriving DecidableEq, Repr

/-! ### character classes (C locale) -/
def isUpper (c : Nat) : Bool := 65 ≤ c && c ≤ 90
def isLower (c : Nat) : Bool := 97 ≤ c && c ≤ 122
def isAlpha (c : Nat) : Bool := isUpper c || isLower c
def isDigit (c : Nat) : Bool := 48 ≤ c && c ≤ 57
def isAlnum (c : Nat) : Bool := isAlpha c || isDigit c
def isCntrl (c : Nat) : Bool := c ≤ 31 || c == 127
def isPunct (c : Nat) : Bool := (33 ≤ c && c ≤ 47) || (58 ≤ c && c ≤ 64) || (91 ≤ c && c ≤ 96) || (123 ≤ c && c ≤ 126)
def isSpace (c : Nat) : Bool := c == 32 || (9 ≤ c && c ≤ 13)
def isXDigit (c : Nat) : Bool := isDigit c || (97 ≤ c && c ≤ 102) || (65 ≤ c && c ≤ 70)

/-- `match_class(c, cl)` -/
def matchClass (c cl : Nat) : Bool :=
  let l := if isUpper cl then cl + 32 else cl
  let sgn (r : Bool) : Bool := if isLower cl then r else !r
  if l == 97 then sgn (isAlpha c)
  else if l == 99 then sgn (isCntrl c)
  else if l == 100 then sgn (isDigit c)
  else if l == 108 then sgn (isLower c)
  else if l == 112 then sgn (isPunct c)
  else if l == 115 then sgn (isSpace c)
  else if l == 117 then sgn (isUpper c)
  else if l == 119 then sgn (isAlnum c)
  else if l == 120 then sgn (isXDigit c)
  else if l == 122 then sgn (c == 0)
  else cl == c

/-- body of `matchbracketclass` after the optional `^`: `content` is what lies before the closing `]`. -/
def matchSetBody (c : Nat) : List Nat → Bool
  | [] => false
  | [x] => if x = 37 then matchClass c 93 else x == c       -- a final `%` reads the closing bracket
  | [x, y] => if x = 37 then matchClass c y else x == c || matchSetBody c [y]
  | x :: y :: z :: r =>
    if x = 37 then matchClass c y || matchSetBody c (z :: r)
    else if y = 45 then (x ≤ c && c ≤ z) || matchSetBody c r
    else x == c || matchSetBody c (y :: z :: r)

def matchBracketClass (c : Nat) (content : List Nat) : Bool :=
  match content with
  | 94 :: r => !(matchSetBody c r)
  | r => matchSetBody c r

/-- a single-character class, as delimited by `classEnd` -/
inductive Cls where
  | any                       -- `.`
  | esc (cl : Nat)            -- `%x`
  | set (content : List Nat)  -- `[...]` (content without the brackets, with a leading `^` if present)
  | lit (c : Nat)
deriving DecidableEq, Repr

def singleMatch (c : Nat) : Cls → Bool
  | .any => true
  | .esc cl => matchClass c cl
  | .set content => matchBracketClass c content
  | .lit x => x == c

/-- the `do … while (*p != ']')` loop of `classEnd`: `p` is what follows `[` / `[^`; returns (content, rest after `]`). -/
def setEnd (acc : List Nat) : List Nat → Res (List Nat × List Nat)
  | [] => .error "malformed pattern (missing ']')"
  | [_] => .error "malformed pattern (missing ']')"
  | [x, y] =>
    if x = 37 then .error "malformed pattern (missing ']')"
    else if y = 93 then .ok (acc ++ [x], [])
    else setEnd (acc ++ [x]) [y]
  | x :: y :: z :: r =>
    if x = 37 then (if z = 93 then .ok (acc ++ [x, y], r) else setEnd (acc ++ [x, y]) (z :: r))   -- `%y` is skipped as a pair
    else if y = 93 then .ok (acc ++ [x], z :: r)
    else setEnd (acc ++ [x]) (y :: z :: r)

/-- `classEnd`: splits the pattern at the end of its first single-character class. -/
def classEnd : List Nat → Res (Cls × List Nat)
  | [] => .error "malformed pattern (empty)"
  | c :: r =>
    if c = 37 then
      match r with
      | [] => .error "malformed pattern (ends with '%')"
      | cl :: r' => .ok (.esc cl, r')
    else if c = 91 then
      match r with
      | 94 :: r' =>
        match setEnd [] r' with
        | .ok (content, rest) => .ok (.set (94 :: content), rest)
        | .error e => .error e
        | .fail => .fail
      | _ =>
        match setEnd [] r with
        | .ok (content, rest) => .ok (.set content, rest)
        | .error e => .error e
        | .fail => .fail
    else if c = 46 then .ok (.any, r)
    else .ok (.lit c, r)

/-! ### the matcher -/

/-- `capture_to_close` + closing it at `s` -/
def closeCap (s : Nat) : List Cap → Option (List Cap)
  | [] => none
  | c :: r =>
    match closeCap s r with
    | some r' => some (c :: r')
    | none =>
      match c with
      | .unfinished i => some (.closed i (s - i) :: r)
      | _ => none

/-- `matchbalance` (s points at the subject position; b e are the two delimiter bytes) -/
def balanceLoop (src : Array Nat) (b e : Nat) : Nat → Nat → Nat → Option Nat
  | 0, _, _ => none
  | n+1, s, cont =>
    match src[s]? with
    | none => none
    | some ch =>
      if ch = e then (if cont = 1 then some (s+1) else balanceLoop src b e n (s+1) (cont-1))
      else if ch = b then balanceLoop src b e n (s+1) (cont+1)
      else balanceLoop src b e n (s+1) cont

def matchBalance (src : Array Nat) (s b e : Nat) : Option Nat :=
  match src[s]? with
  | none => none
  | some ch => if ch = b then balanceLoop src b e (src.size - s) (s+1) 1 else none

/-- number of consecutive positions from `s` whose byte satisfies `m` (at most `n`) -/
def countMax (m : Nat → Bool) (s : Nat) : Nat → Nat
  | 0 => 0
  | n+1 => if m s then 1 + countMax m (s+1) n else 0

/-- the second loop of `max_expand`: try the rest with i, i-1, …, 0 repetitions -/
def maxExpand {α} (k : Nat → Res α) (s : Nat) : Nat → Res α
  | 0 => k s
  | i+1 =>
    match k (s+i+1) with
    | .fail => maxExpand k s i
    | r => r

/-- `min_expand` -/
def minExpand {α} (k : Nat → Res α) (m : Nat → Bool) : Nat → Nat → Res α
  | 0, s => k s
  | n+1, s =>
    match k s with
    | .fail => if m s then minExpand k m n (s+1) else .fail
    | r => r

def memEq (src : Array Nat) (a b : Nat) : Nat → Bool
  | 0 => true
  | n+1 => src[a]? == src[b]? && (src[a]?).isSome && memEq src (a+1) (b+1) n

/-- `match_capture` (`d` = the digit byte) -/
def matchCapture (src : Array Nat) (caps : List Cap) (s d : Nat) : Res Nat :=
  if d < 49 then .error "invalid capture index" else
  match caps[d - 49]? with
  | none => .error "invalid capture index"
  | some (.unfinished _) => .error "invalid capture index"
  | some (.position _) => .fail        -- len = CAP_POSITION = (size_t)-2: never fits
  | some (.closed i len) =>
    if src.size - s ≥ len ∧ s ≤ src.size ∧ memEq src i s len then .ok (s + len) else .fail

def maxCaptures : Nat := 32

/-- `match(ms, s, p)`; the fuel is the recursion depth (one per pattern item: `p.length + 1` suffices). -/
def matchF (src : Array Nat) : Nat → List Cap → Nat → List Nat → Res (Nat × List Cap)
  | 0, _, _, _ => .error "spec-fuel"
  | f+1, caps, s, p =>
    match p with
    | [] => .ok (s, caps)
    | c :: r =>
      if c = 40 then
        if caps.length ≥ maxCaptures then .error "too many captures" else
        match r with
        | 41 :: r' => matchF src f (caps ++ [.position s]) s r'
        | _ => matchF src f (caps ++ [.unfinished s]) s r
      else if c = 41 then
        match closeCap s caps with
        | none => .error "invalid pattern capture"
        | some caps' => matchF src f caps' s r
      else if c = 37 ∧ r.head? = some 98 then
        match r with
        | _ :: b :: e :: r' =>
          match matchBalance src s b e with
          | none => .fail
          | some s' => matchF src f caps s' r'
        | _ => .error "unbalanced pattern"
      else if c = 37 ∧ r.head? = some 102 then
        -- `case 'f'` of lstrlib 5.1.5: the previous byte ('\0' at the start of the subject) is outside the set and the
        -- current byte ('\0' at the end of the subject) is inside it; consumes nothing
        match r.drop 1 with
        | 91 :: _ =>
          match classEnd (r.drop 1) with
          | .ok (.set content, ep) =>
            let prev : Nat := if s = 0 then 0 else (src[s - 1]?).getD 0
            let cur : Nat := (src[s]?).getD 0
            if matchBracketClass prev content ∨ ¬ matchBracketClass cur content then .fail
            else matchF src f caps s ep
          | .ok _ => .error "malformed pattern"
          | .error e => .error e
          | .fail => .fail
        | _ => .error "missing '[' after '%f' in pattern"
      else if c = 37 ∧ (r.head?.map isDigit) = some true then
        match matchCapture src caps s (r.headD 0) with
        | .error e => .error e
        | .fail => .fail
        | .ok s' => matchF src f caps s' (r.drop 1)
      else if c = 36 ∧ r = [] then
        if s = src.size then .ok (s, caps) else .fail
      else
        match classEnd p with
        | .error e => .error e
        | .fail => .fail
        | .ok (cls, ep) =>
          let m (i : Nat) : Bool := match src[i]? with | some ch => singleMatch ch cls | none => false
          match ep with
          | 63 :: r' =>
            if m s then
              match matchF src f caps (s+1) r' with
              | .fail => matchF src f caps s r'
              | x => x
            else matchF src f caps s r'
          | 42 :: r' => maxExpand (fun s' => matchF src f caps s' r') s (countMax m s (src.size - s))
          | 43 :: r' =>
            if m s then maxExpand (fun s' => matchF src f caps s' r') (s+1) (countMax m (s+1) (src.size - (s+1)))
            else .fail
          | 45 :: r' => minExpand (fun s' => matchF src f caps s' r') m (src.size + 1 - s) s
          | _ => if m s then matchF src f caps (s+1) ep else .fail

def doMatch (src : Array Nat) (s : Nat) (p : List Nat) : Res (Nat × List Cap) :=
  matchF src (p.length + 2) [] s p

/-! ### pushing captures -/
def slice (src : Array Nat) (i len : Nat) : Bytes := (src.toList.drop i).take len

def oneCapture (src : Array Nat) : Cap → Res CapVal
  | .closed i len => .ok (.str (slice src i len))
  | .position i => .ok (.pos (i + 1))
  | .unfinished _ => .error "unfinished capture"

def allCaptures (src : Array Nat) : List Cap → Res (List CapVal)
  | [] => .ok []
  | c :: r =>
    match oneCapture src c, allCaptures src r with
    | .ok v, .ok vs => .ok (v :: vs)
    | .error e, _ => .error e
    | _, .error e => .error e
    | _, _ => .fail

/-- `push_captures(ms, s, e)` with `wholeIfNone` = (s ≠ NULL) -/
def pushCaptures (src : Array Nat) (caps : List Cap) (s e : Nat) (wholeIfNone : Bool) : Res (List CapVal) :=
  if caps = [] ∧ wholeIfNone then .ok [.str (slice src s (e - s))] else allCaptures src caps

/-- one successful match: 0-based start, end (exclusive), captures as `find` returns them (no whole-match default) -/
structure Match where
  s : Nat
  e : Nat
  caps : List Cap
deriving Repr

/-! ### find / match -/
def posrelat (pos : Int) (len : Nat) : Int :=
  let p := if pos < 0 then pos + len + 1 else pos
  if p ≥ 0 then p else 0

/-- 0-based start offset of `str_find_aux` -/
def initOffset (init : Int) (len : Nat) : Nat :=
  let i := posrelat init len - 1
  if i < 0 then 0 else if i.toNat > len then len else i.toNat

/-- the `do … while (s1++ < src_end && !anchor)` loop: first position ≥ s1 where the pattern matches -/
def scanFrom (src : Array Nat) (p : List Nat) (anchor : Bool) : Nat → Nat → Res Match
  | 0, _ => .fail
  | n+1, s1 =>
    match doMatch src s1 p with
    | .ok (e, caps) => .ok ⟨s1, e, caps⟩
    | .error e => .error e
    | .fail => if s1 < src.size ∧ !anchor then scanFrom src p anchor n (s1+1) else .fail

def splitAnchor (p : List Nat) : Bool × List Nat :=
  match p with
  | 94 :: r => (true, r)
  | _ => (false, p)

/-- first match at or after `init` (pattern search of `string.find` / `string.match`) -/
def firstMatch (src : Array Nat) (pat : List Nat) (init : Int) : Res Match :=
  let (anchor, p) := splitAnchor pat
  let i := initOffset init src.size
  scanFrom src p anchor (src.size + 1 - i) i

/-- `string.find(s, pat, init)` (no `plain`): start (1-based), end, captures -/
def strFind (src : Array Nat) (pat : List Nat) (init : Int) : Res (Nat × Nat × List CapVal) :=
  match firstMatch src pat init with
  | .ok m =>
    match pushCaptures src m.caps m.s m.e false with
    | .ok cs => .ok (m.s + 1, m.e, cs)
    | .error e => .error e
    | .fail => .fail
  | .error e => .error e
  | .fail => .fail

/-- `string.match(s, pat, init)` -/
def strMatch (src : Array Nat) (pat : List Nat) (init : Int) : Res (List CapVal) :=
  match firstMatch src pat init with
  | .ok m => pushCaptures src m.caps m.s m.e true
  | .error e => .error e
  | .fail => .fail

/-! ### gmatch / gsub scan: leftmost matches, an empty match advances by one -/
/-- all successive matches of an abstract single-position matcher `mt` from position `s` on a subject of length
    `len` (`anchor`: stop after the first attempt; `maxn`: at most that many matches): leftmost first, the next
    attempt starts at the end of the previous match, or one further if that match was empty. -/
def scanAllWith {β : Type} (mt : Nat → Res (Nat × β)) (len : Nat) (anchor : Bool) :
    Nat → Nat → Nat → Res (List (Nat × Nat × β))
  | 0, _, _ => .ok []
  | _, _, 0 => .ok []
  | fuel+1, s, maxn+1 =>
    if s > len then .ok [] else
    match mt s with
    | .error e => .error e
    | .ok (e, c) =>
      if anchor then .ok [(s, e, c)] else
      match scanAllWith mt len anchor fuel (if e > s then e else s + 1) maxn with
      | .ok ms => .ok ((s, e, c) :: ms)
      | r => r
    | .fail => if anchor then .ok [] else scanAllWith mt len anchor fuel (s+1) (maxn+1)

def scanAll (src : Array Nat) (p : List Nat) (anchor : Bool) (fuel s maxn : Nat) : Res (List Match) :=
  match scanAllWith (fun s => doMatch src s p) src.size anchor fuel s maxn with
  | .ok l => .ok (l.map fun m => ⟨m.1, m.2.1, m.2.2⟩)
  | .error e => .error e
  | .fail => .fail

/-- `string.gmatch`: in 5.1 a leading `^` is NOT an anchor (it matches itself). -/
def gmatchAll (src : Array Nat) (pat : List Nat) : Res (List (List CapVal)) :=
  match scanAll src pat false (src.size + 2) 0 (src.size + 2) with
  | .ok ms =>
    ms.foldr (fun m acc =>
      match pushCaptures src m.caps m.s m.e true, acc with
      | .ok cs, .ok l => .ok (cs :: l)
      | .error e, _ => .error e
      | _, .error e => .error e
      | _, _ => .fail) (.ok [])
  | .error e => .error e
  | .fail => .fail

/-! ### gsub -/
/-- Lua values a replacement table / function can produce, as far as gsub distinguishes them -/
inductive RVal where
  | nil | false
  | str (b : Bytes)
  | int (i : Int)            -- a number with an integral value (converted by `tostring`)
  | other (tyname : String)  -- true, table, function, …: "invalid replacement value"
deriving DecidableEq, Repr

def natDigits (n : Nat) : Bytes := (toString n).toList.map (·.toNat)
def intBytes (i : Int) : Bytes := (toString i).toList.map (·.toNat)

def capValBytes : CapVal → Bytes
  | .str b => b
  | .pos n => natDigits n

/-- `add_s`: expand `%0`–`%9`, `%%`, `%c` in a replacement string -/
def addS (src : Array Nat) (m : Match) : Bytes → Res Bytes
  | [] => .ok []
  | [x] => if x = 37 then .error "UNDEF replacement ends with '%'" else .ok [x]
  | x :: y :: r =>
    if x = 37 then
      let rest := addS src m r
      let here : Res Bytes :=
        if !isDigit y then .ok [y]
        else if y = 48 then .ok (slice src m.s (m.e - m.s))
        else
          let i := y - 49
          if i ≥ m.caps.length then
            (if i = 0 then .ok (slice src m.s (m.e - m.s)) else .error "invalid capture index")
          else match m.caps[i]? with
            | some c => (match oneCapture src c with | .ok v => .ok (capValBytes v) | .error e => .error e | .fail => .fail)
            | none => .error "invalid capture index"
      match here, rest with
      | .ok a, .ok b => .ok (a ++ b)
      | .error e, _ => .error e
      | _, .error e => .error e
      | _, _ => .fail
    else
      match addS src m (y :: r) with
      | .ok b => .ok (x :: b)
      | e => e

/-- the replacement argument, abstractly: string, or what the table / function yields for the capture values -/
inductive Repl where
  | str (b : Bytes)
  | tbl (look : CapVal → RVal)
  | fn (call : Nat → List CapVal → RVal)     -- call index (0-based) and arguments

/-- `add_value` for one match (k = index of the match); result = bytes appended to the buffer -/
def addValue (src : Array Nat) (repl : Repl) (k : Nat) (m : Match) : Res Bytes :=
  let whole := slice src m.s (m.e - m.s)
  let fin (v : RVal) : Res Bytes :=
    match v with
    | .nil => .ok whole
    | .false => .ok whole
    | .str b => .ok b
    | .int i => .ok (intBytes i)
    | .other t => .error ("invalid replacement value (a " ++ t ++ ")")
  match repl with
  | .str b => addS src m b
  | .tbl look =>
    match pushCaptures src m.caps m.s m.e true with
    | .ok (c :: _) => fin (look c)
    | .ok [] => .fail
    | .error e => .error e
    | .fail => .fail
  | .fn call =>
    match pushCaptures src m.caps m.s m.e true with
    | .ok cs => fin (call k cs)
    | .error e => .error e
    | .fail => .fail

/-- reference assembly of a substitution result: `str` with the ordered, disjoint spans `[i0, i1)` replaced by
    the given texts — the gap before each span, its replacement, …, the tail (`pos` = end of the previous span). -/
def splice (str : List Nat) : Nat → List (Nat × Nat × List Nat) → List Nat
  | pos, [] => str.drop pos
  | pos, (i0, i1, txt) :: rest => (str.drop pos).take (i0 - pos) ++ txt ++ splice str i1 rest

/-- concatenate gaps and replacements over ordered matches; `pos` = end of the previous match -/
def assemble (src : Array Nat) (repl : Repl) : Nat → Nat → List Match → Res Bytes
  | _, pos, [] => .ok (slice src pos (src.size - pos))
  | k, pos, m :: ms =>
    match addValue src repl k m, assemble src repl (k+1) m.e ms with
    | .ok v, .ok rest => .ok (slice src pos (m.s - pos) ++ v ++ rest)
    | .error e, _ => .error e
    | _, .error e => .error e
    | _, _ => .fail

/-- `string.gsub(s, pat, repl, max_s)`; `maxS = none` means the default `#s + 1`.
    (In lstrlib the callbacks run interleaved with the scan; matches do not depend on them, so scanning
    first is the same function.) -/
def strGsub (src : Array Nat) (pat : List Nat) (repl : Repl) (maxS : Option Int) : Res (Bytes × Nat) :=
  let (anchor, p) := splitAnchor pat
  let lim : Nat := match maxS with
    | none => src.size + 1
    | some i => if i ≤ 0 then 0 else i.toNat
  match scanAll src p anchor (src.size + 2) 0 lim with
  | .ok ms =>
    match assemble src repl 0 0 ms with
    | .ok b => .ok (b, ms.length)
    | .error e => .error e
    | .fail => .fail
  | .error e => .error e
  | .fail => .fail

/-! ### static well-formedness: the conditions under which lstrlib raises no error on any subject
    (every item of the linear pattern is checked when the matcher passes it). -/
structure WfState where
  caps : List Bool := []      -- per capture: closed?  (position captures are closed)
  ok : Bool := true
  backrefPos : Bool := false  -- a back-reference names a position capture (never matches in 5.1)
  rangeEsc : Bool := false    -- a set contains a range whose upper bound is `%` (manual: undefined)
  frontier : Bool := false

def closeLast : List Bool → Option (List Bool)
  | [] => none
  | c :: r =>
    match closeLast r with
    | some r' => some (c :: r')
    | none => if c then none else some (true :: r)

def setHasRangeEsc : List Nat → Bool
  | [] => false
  | [_] => false
  | [_, _] => false
  | x :: y :: z :: r =>
    if x = 37 then setHasRangeEsc (z :: r)
    else if y = 45 then z = 37 || setHasRangeEsc r
    else setHasRangeEsc (y :: z :: r)

def wfScan (posCaps : List Nat) : Nat → WfState → List Nat → WfState
  | 0, st, _ => { st with ok := false }
  | _, st, [] => { st with ok := st.ok && st.caps.all id }
  | f+1, st, c :: r =>
    if c = 40 then
      if st.caps.length ≥ maxCaptures then { st with ok := false } else
      match r with
      | 41 :: r' => wfScan (posCaps ++ [st.caps.length]) f { st with caps := st.caps ++ [true] } r'
      | _ => wfScan posCaps f { st with caps := st.caps ++ [false] } r
    else if c = 41 then
      match closeLast st.caps with
      | none => { st with ok := false }
      | some cs => wfScan posCaps f { st with caps := cs } r
    else if c = 37 ∧ r.head? = some 98 then
      match r with
      | _ :: _ :: _ :: r' => wfScan posCaps f st r'
      | _ => { st with ok := false }
    else if c = 37 ∧ r.head? = some 102 then
      match r.drop 1 with
      | 91 :: _ =>
        match classEnd (r.drop 1) with
        | .ok (.set content, ep) =>
          let re := st.rangeEsc || setHasRangeEsc (match content with | 94 :: x => x | x => x)
          wfScan posCaps f { st with frontier := true, rangeEsc := re } ep
        | _ => { st with ok := false, frontier := true }
      | _ => { st with ok := false, frontier := true }
    else if c = 37 ∧ (r.head?.map isDigit) = some true then
      let d := r.headD 0
      if d < 49 then { st with ok := false } else
      match st.caps[d - 49]? with
      | some true => wfScan posCaps f { st with backrefPos := st.backrefPos || posCaps.contains (d - 49) } (r.drop 1)
      | _ => { st with ok := false }
    else if c = 36 ∧ r = [] then { st with ok := st.ok && st.caps.all id }
    else
      match classEnd (c :: r) with
      | .ok (cls, ep) =>
        let st := match cls with
          | .set content => { st with rangeEsc := st.rangeEsc || setHasRangeEsc (match content with | 94 :: x => x | x => x) }
          | _ => st
        match ep with
        | q :: r' => if q = 63 ∨ q = 42 ∨ q = 43 ∨ q = 45 then wfScan posCaps f st r' else wfScan posCaps f st ep
        | [] => wfScan posCaps f st ep
      | _ => { st with ok := false }

/-- static analysis of a pattern body (after the optional anchor has been removed) -/
def analyse (p : List Nat) : WfState := wfScan [] (p.length + 2) {} p

def wellFormed (p : List Nat) : Bool := (analyse p).ok

end GLua.LuaPattern
