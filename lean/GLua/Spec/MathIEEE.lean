/-
  IEEE-754 binary64 arithmetic on BIT PATTERNS (`Nat` below 2^64), for C15's special-operand family.

  A bit pattern is decoded to  nan | ±inf | (-1)^neg · m · 2^e  (m = 0 is a SIGNED zero); every operation works on
  the exact dyadic / rational value and rounds once, to nearest-even, back to a bit pattern.  Nothing here uses
  Lean's `Float`: the definitions are plain `Nat`/`Int` arithmetic, transparent to the kernel, so the sign of a
  zero, an infinity or a NaN as argument or result is an ordinary decidable fact.

  This file is the NUMBER SYSTEM (IEEE 754-2008 §5, §6, §7.2 default results), not a description of any library:
  `GLua/Spec/MathSpec.lean` builds the C99 / Lua 5.1 definitions of the math functions on top of it, and
  `GLua/Model/MathLib.lean` the transcription of /repo/mathlib.go (whose `float64` operators and `math.Floor`,
  `math.Mod`, … ARE these operations — the trusted part is stated there).
-/
namespace GLua.IEEE

abbrev Bits := Nat

def p51 : Nat := 2251799813685248
def p52 : Nat := 4503599627370496
def p53 : Nat := 9007199254740992
def p63 : Nat := 9223372036854775808
def p64 : Nat := 18446744073709551616

/-- a decoded binary64 -/
inductive F where
  | nan
  | inf (neg : Bool)
  | fin (neg : Bool) (m : Nat) (e : Int)      -- (-1)^neg · m · 2^e, m < 2^53, e ≥ -1074;  m = 0: a signed zero
deriving Repr, DecidableEq, Inhabited

def decode (b : Bits) : F :=
  let neg : Bool := b / p63 % 2 = 1
  let ex := b / p52 % 2048
  let fr := b % p52
  if ex = 2047 then (if fr = 0 then .inf neg else .nan)
  else if ex = 0 then .fin neg fr (-1074)
  else .fin neg (fr + p52) ((ex : Int) - 1075)

def signBit (neg : Bool) : Nat := if neg then p63 else 0
def infBits (neg : Bool) : Bits := signBit neg + 2047 * p52
def zeroBits (neg : Bool) : Bits := signBit neg
/-- the canonical quiet NaN; NaNs are compared as a class (`isNaN`), never by payload -/
def nanBits : Bits := 2047 * p52 + p51
def oneBits (neg : Bool := false) : Bits := signBit neg + 1023 * p52

def isNaN (b : Bits) : Bool := match decode b with | .nan => true | _ => false
def isNeg (b : Bits) : Bool := b / p63 % 2 = 1
def isZero (b : Bits) : Bool := b % p63 = 0
def isInf (b : Bits) : Bool := b % p63 = 2047 * p52
def isFinite (b : Bits) : Bool := b / p52 % 2048 ≠ 2047
/-- magnitude bits: monotone in |x| for non-NaN x (the "ordinal" used for distances in units in the last place) -/
def mag (b : Bits) : Nat := b % p63

/-- flip the sign bit (Go / C unary minus, also of zeros, infinities and NaNs) -/
def negate (b : Bits) : Bits := if isNeg b then b - p63 else b + p63
def abs (b : Bits) : Bits := b % p63

/-- encode a rounded significand `mant ≤ 2^53` with unit exponent `q` (q = -1074 whenever mant < 2^52) -/
def encode (neg : Bool) (mant : Nat) (q : Int) : Bits :=
  let mq : Nat × Int := if mant ≥ p53 then (mant / 2, q + 1) else (mant, q)
  let mant := mq.1
  let q := mq.2
  if mant < p52 then signBit neg + mant            -- subnormal or zero
  else
    let be := q + 1075
    if be ≥ 2047 then infBits neg else signBit neg + be.toNat * p52 + (mant - p52)

/-- `m · 2^e` (+ a non-zero amount below the last bit of m when `sticky`; callers then give m ≥ 2^54) rounded to
    nearest, ties to even; overflow gives an infinity, underflow is gradual; a zero keeps the sign `neg`. -/
def roundDy (neg : Bool) (m : Nat) (e : Int) (sticky : Bool := false) : Bits :=
  if m = 0 then zeroBits neg
  else
    let me : Nat × Int := if sticky then (2 * m + 1, e - 1) else (m, e)
    let m := me.1
    let e := me.2
    let n := Nat.log2 m + 1                       -- bit length
    let E : Int := (n : Int) - 1 + e              -- 2^E ≤ value < 2^(E+1)
    let q : Int := max (E - 52) (-1074)           -- exponent of the result's unit in the last place
    if E ≥ 1024 then infBits neg                  -- beyond the largest finite number: overflow
    else if E < -1075 then zeroBits neg           -- below half the smallest subnormal: underflow to a signed zero
    else if e ≥ q then encode neg (m * 2 ^ (e - q).toNat) q
    else
      let sh := (q - e).toNat
      let mant := m / 2 ^ sh
      let rem := m % 2 ^ sh
      let half := 2 ^ (sh - 1)
      let up : Bool := rem > half ∨ (rem = half ∧ mant % 2 = 1)
      encode neg (if up then mant + 1 else mant) q

/-- `p / q · 2^e` (p, q > 0) correctly rounded -/
def roundRat (neg : Bool) (p q : Nat) (e : Int) : Bits :=
  if p = 0 then zeroBits neg
  else
    let k := 66 + (Nat.log2 q + 1)
    let qt := p * 2 ^ k / q
    let rm := p * 2 ^ k % q
    roundDy neg qt (e - (k : Int)) (rm ≠ 0)

def ofInt (i : Int) : Bits := roundDy (i < 0) i.natAbs 0

/-- m · 2^e as an integer multiple of 2^e0 (e0 ≤ e) -/
def scale (m : Nat) (e e0 : Int) : Nat := m * 2 ^ (e - e0).toNat

def sgn (neg : Bool) (m : Nat) : Int := if neg then -(m : Int) else (m : Int)

/-- order key of a non-NaN value (multiples of 2^-1074; infinities beyond every finite key) -/
def key : F → Option Int
  | .nan => none
  | .inf neg => some (sgn neg (2 ^ 2200))
  | .fin neg m e => some (sgn neg (scale m e (-1074)))

/-- IEEE `<` and `==`: false when an operand is a NaN, zeros of both signs are equal -/
def lt (a b : Bits) : Bool :=
  match key (decode a), key (decode b) with
  | some x, some y => x < y
  | _, _ => false
def eq (a b : Bits) : Bool :=
  match key (decode a), key (decode b) with
  | some x, some y => x = y
  | _, _ => false
def gt (a b : Bits) : Bool := lt b a

def add (a b : Bits) : Bits :=
  match decode a, decode b with
  | .nan, _ => nanBits
  | _, .nan => nanBits
  | .inf n1, .inf n2 => if n1 = n2 then infBits n1 else nanBits
  | .inf n, .fin .. => infBits n
  | .fin .., .inf n => infBits n
  | .fin n1 m1 e1, .fin n2 m2 e2 =>
    let e0 := min e1 e2
    let s : Int := sgn n1 (scale m1 e1 e0) + sgn n2 (scale m2 e2 e0)
    -- an exact zero sum is +0 in round-to-nearest unless both operands are negative (zeros)
    if s = 0 then zeroBits (n1 && n2) else roundDy (s < 0) s.natAbs e0

def sub (a b : Bits) : Bits := if isNaN b then nanBits else add a (negate b)

def mul (a b : Bits) : Bits :=
  match decode a, decode b with
  | .nan, _ => nanBits
  | _, .nan => nanBits
  | .inf n1, .inf n2 => infBits (n1 != n2)
  | .inf n1, .fin n2 m _ => if m = 0 then nanBits else infBits (n1 != n2)
  | .fin n1 m _, .inf n2 => if m = 0 then nanBits else infBits (n1 != n2)
  | .fin n1 m1 e1, .fin n2 m2 e2 => roundDy (n1 != n2) (m1 * m2) (e1 + e2)

def div (a b : Bits) : Bits :=
  match decode a, decode b with
  | .nan, _ => nanBits
  | _, .nan => nanBits
  | .inf _, .inf _ => nanBits
  | .inf n1, .fin n2 .. => infBits (n1 != n2)
  | .fin n1 .., .inf n2 => zeroBits (n1 != n2)
  | .fin n1 m1 e1, .fin n2 m2 e2 =>
    if m2 = 0 then (if m1 = 0 then nanBits else infBits (n1 != n2))
    else roundRat (n1 != n2) m1 m2 (e1 - e2)

/-- roundToIntegral toward −∞ / +∞ / zero: exact, the sign is kept (floor(0.5) = +0, ceil(-0.5) = −0, ±0 ↦ ±0) -/
def floor (a : Bits) : Bits :=
  match decode a with
  | .fin neg m e =>
    if e ≥ 0 then a
    else
      let d := 2 ^ (-e).toNat
      roundDy neg (if neg ∧ m % d ≠ 0 then m / d + 1 else m / d) 0
  | _ => a
def ceil (a : Bits) : Bits :=
  match decode a with
  | .fin neg m e =>
    if e ≥ 0 then a
    else
      let d := 2 ^ (-e).toNat
      roundDy neg (if !neg ∧ m % d ≠ 0 then m / d + 1 else m / d) 0
  | _ => a
def trunc (a : Bits) : Bits :=
  match decode a with
  | .fin neg m e => if e ≥ 0 then a else roundDy neg (m / 2 ^ (-e).toNat) 0
  | _ => a

/-- is the finite value m·2^e an integer / an odd integer -/
def isIntDy (m : Nat) (e : Int) : Bool := e ≥ 0 ∨ m % 2 ^ (-e).toNat = 0
def isOddDy (m : Nat) (e : Int) : Bool :=
  if e > 0 then false else if e = 0 then m % 2 = 1 else m % 2 ^ (-e).toNat = 0 ∧ m / 2 ^ (-e).toNat % 2 = 1

/-- the truncated value of a finite number as an integer (none for inf / NaN) -/
def toIntTrunc (a : Bits) : Option Int :=
  match decode a with
  | .fin neg m e => some (sgn neg (if e ≥ 0 then m * 2 ^ e.toNat else m / 2 ^ (-e).toNat))
  | _ => none

/-- IEEE / C99 `fmod`: x − n·y with n = trunc(x/y), EXACT; the result — also a zero result — has the sign of x.
    fmod(±0, y≠0) = ±0, fmod(x, ±inf) = x for finite x, fmod(±inf, y) = fmod(x, ±0) = NaN. -/
def fmod (x y : Bits) : Bits :=
  match decode x, decode y with
  | .nan, _ => nanBits
  | _, .nan => nanBits
  | .inf _, _ => nanBits
  | .fin .., .inf _ => x
  | .fin nx mx ex, .fin _ my ey =>
    if my = 0 then nanBits
    else
      let e0 := min ex ey
      roundDy nx (scale mx ex e0 % scale my ey e0) e0

/-- x · 2^n, rounded once (C99 `ldexp` / `scalbn`) -/
def ldexp (x : Bits) (n : Int) : Bits :=
  match decode x with
  | .fin neg m e => roundDy neg m (e + n)
  | _ => if isNaN x then nanBits else x

/-- integer square root: Newton from above, `fuel` steps are far more than the ≈ log₂(bits) needed -/
def isqrtLoop : Nat → Nat → Nat → Nat
  | 0, _, x => x
  | fuel + 1, n, x =>
    let y := (x + n / x) / 2
    if y ≥ x then x else isqrtLoop fuel n y
def isqrt (n : Nat) : Nat := if n = 0 then 0 else isqrtLoop 400 n (2 ^ (Nat.log2 n / 2 + 1))

/-- IEEE `squareRoot`, correctly rounded: sqrt(−0) = −0, sqrt(x < 0) = NaN, sqrt(+inf) = +inf -/
def sqrt (x : Bits) : Bits :=
  match decode x with
  | .nan => nanBits
  | .inf neg => if neg then nanBits else x
  | .fin neg m e =>
    if m = 0 then x
    else if neg then nanBits
    else
      -- m·2^e = (m·2^k)·2^(e−k) with e−k even and m·2^k ≥ 2^130
      let k : Nat := if (e - 130) % 2 = 0 then 130 else 131
      let n := m * 2 ^ k
      let s := isqrt n
      roundDy false s ((e - (k : Int)) / 2) (s * s ≠ n)

/-- x^k for an integer k, correctly rounded from the exact rational value (finite x ≠ 0) -/
def powInt (neg : Bool) (m : Nat) (e : Int) (k : Int) : Bits :=
  let rneg := neg && (k % 2 != 0)
  let a := k.natAbs
  if k ≥ 0 then roundDy rneg (m ^ a) (e * a) else roundRat rneg 1 (m ^ a) (-(e * a))

/-- distance in units in the last place between two non-NaN values of the same sign (zeros of the same sign: 0) -/
def ulpDist (a b : Bits) : Option Nat :=
  if isNaN a ∨ isNaN b ∨ isNeg a ≠ isNeg b then none
  else some (if mag a ≥ mag b then mag a - mag b else mag b - mag a)

/-! ### decimal numerals (the subset of C `strtod` the harness sends: `[ws][-]digits[.digits][e[±]digits][ws]`) -/

def isWs (c : Nat) : Bool := c = 32 ∨ (9 ≤ c ∧ c ≤ 13)
def isDig (c : Nat) : Bool := 48 ≤ c ∧ c ≤ 57
def digitsVal (ds : List Nat) : Nat := ds.foldl (fun acc d => acc * 10 + (d - 48)) 0

/-- value of a decimal numeral, correctly rounded; −0 for "-0", "-0.0", "-0e5" (C99 7.20.1.3: the sign applies
    to the converted value, a negated zero is −0 under IEC 60559) -/
def strtod (s : List Nat) : Option Bits :=
  let s := (s.dropWhile isWs).reverse.dropWhile isWs |>.reverse
  let (neg, s) : Bool × List Nat := match s with
    | 45 :: r => (true, r)
    | 43 :: r => (false, r)
    | r => (false, r)
  let ip := s.takeWhile isDig
  let s := s.dropWhile isDig
  let (fp, s) : List Nat × List Nat := match s with
    | 46 :: r => (r.takeWhile isDig, r.dropWhile isDig)
    | r => ([], r)
  if ip.isEmpty ∧ fp.isEmpty then none
  else
    let ex : Option Int := match s with
      | [] => some 0
      | c :: r =>
        if c = 101 ∨ c = 69 then
          let (eneg, r) : Bool × List Nat := match r with
            | 45 :: t => (true, t)
            | 43 :: t => (false, t)
            | t => (false, t)
          if r.isEmpty ∨ !r.all isDig then none
          else some (if eneg then -(digitsVal r : Int) else (digitsVal r : Int))
        else none
    match ex with
    | none => none
    | some ex =>
      let d := digitsVal (ip ++ fp)
      let e10 : Int := ex - (fp.length : Int)
      if d = 0 then some (zeroBits neg)
      else if e10.natAbs > 5000 then none
      else if e10 ≥ 0 then some (roundDy neg (d * 10 ^ e10.toNat) 0)
      else some (roundRat neg d (10 ^ (-e10).toNat) 0)

end GLua.IEEE
