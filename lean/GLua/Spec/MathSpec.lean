/-
  Spec for C15's math functions on SPECIAL OPERANDS (signed zeros, infinities, NaN, subnormals, 2^53, 2^63, …),
  written from the Lua 5.1 manual §5.6 ("an interface to the standard C math library") and ISO C99 §7.12 and
  Annex F (IEC 60559 arithmetic) — not from the Go code.

  For every function and operand tuple the Spec says what the standard FIXES:
    * `exact b`   the result is this bit pattern (the sign of a zero is part of it),
    * `nan`       some NaN (NaNs are compared as a class),
    * `near b u`  same sign as b and at most u units in the last place away (the C standard does not bound the
                  accuracy of the transcendental functions; values such as ±π/2 are fixed up to the last bit),
    * `cls …`     only the sign and the kind (zero / finite non-zero / infinite) are fixed,
    * `anyOf l`   bit-exactly one of these, `any` nothing is fixed (platform-defined).
  Exactly defined functions (floor, ceil, fabs, fmod, modf, frexp, ldexp, sqrt) are computed on the exact value
  by `GLua.IEEE`.
-/
import GLua.Spec.MathIEEE

namespace GLua.MathSpec
open GLua.IEEE

inductive Expect where
  | exact (b : Bits)
  | nan
  | near (b : Bits) (ulps : Nat)
  /-- a non-NaN of sign `neg` whose kind is among the allowed ones; `maxMag`: |result| ≤ this (magnitude bits) -/
  | cls (neg : Bool) (zero fin inf : Bool) (maxMag : Option Nat := none)
  /-- a finite number or zero of either sign with |result| ≤ maxMag -/
  | finAny (maxMag : Option Nat := none)
  | anyOf (l : List Bits)
  | any
deriving Repr, Inhabited

/-- does the implementation's result (a bit pattern; any NaN pattern for NaN) satisfy the expectation -/
def Expect.holds (r : Bits) : Expect → Bool
  | .exact b => r = b
  | .nan => isNaN r
  | .near b u => match ulpDist r b with | some d => d ≤ u | none => false
  | .cls neg z f i mm =>
    !isNaN r && (isNeg r == neg) &&
    ((z && isZero r) || (f && isFinite r && !isZero r) || (i && isInf r)) &&
    (match mm with | some m => decide (mag r ≤ m) | none => true)
  | .finAny mm => isFinite r && (match mm with | some m => decide (mag r ≤ m) | none => true)
  | .anyOf l => l.contains r
  | .any => true

def Expect.show : Expect → String
  | .exact b => "bits " ++ toString b
  | .nan => "NaN"
  | .near b u => "within " ++ toString u ++ " ulp of bits " ++ toString b
  | .cls neg z f i _ =>
    (if neg then "negative" else "positive") ++ " {" ++ (if z then "zero " else "") ++ (if f then "finite " else "") ++
      (if i then "inf" else "") ++ "}"
  | .finAny _ => "finite"
  | .anyOf l => "one of " ++ toString l
  | .any => "(unspecified)"

/-! constants: the doubles nearest to π, π/2, π/4, 3π/4 (C99 F.9.1.4 gives atan2's special results in terms of π) -/
def piBits (neg : Bool) : Bits := signBit neg + 0x400921FB54442D18
def pi2Bits (neg : Bool) : Bits := signBit neg + 0x3FF921FB54442D18
def pi4Bits (neg : Bool) : Bits := signBit neg + 0x3FE921FB54442D18
def pi34Bits (neg : Bool) : Bits := signBit neg + 0x4002D97C7F3321D2

/-- π to 80 decimal digits as a rational p / 10^79 (deg / rad reference) -/
def piNum : Nat := 31415926535897932384626433832795028841971693993751058209749445923078164062862089
def piDen : Nat := 10 ^ 79

def pos : Bool := false

/-- one-argument functions: one expectation per result -/
def spec1 (fn : String) (x : Bits) : Option (List Expect) :=
  let d := decode x
  let isN : Bool := isNaN x
  let neg := isNeg x
  let one := oneBits
  match fn with
  -- exactly defined (C99 F.9.6.1/2, 7.12.7.2, F.9.4.5)
  | "floor" => some [if isN then .nan else .exact (floor x)]
  | "ceil" => some [if isN then .nan else .exact (ceil x)]
  | "abs" => some [if isN then .nan else .exact (abs x)]
  | "sqrt" => some [if isNaN (sqrt x) then .nan else .exact (sqrt x)]
  -- modf (F.9.3.12): both parts carry the sign of x; modf(±inf) = ±inf, ±0.  Lua returns (integral, fractional).
  | "modf" =>
    match d with
    | .nan => some [.nan, .nan]
    | .inf _ => some [.exact x, .exact (zeroBits neg)]
    | .fin ng m e =>
      let ip := trunc x
      let fp := if e ≥ 0 then zeroBits ng else roundDy ng (m % 2 ^ (-e).toNat) e
      some [.exact ip, .exact fp]
  -- frexp (F.9.3.4): ±0 ↦ ±0, 0; ±inf ↦ ±inf, unspecified; NaN ↦ NaN, unspecified; else x = m·2^e, ½ ≤ |m| < 1
  | "frexp" =>
    match d with
    | .nan => some [.nan, .any]
    | .inf _ => some [.exact x, .any]
    | .fin ng m e =>
      if m = 0 then some [.exact x, .exact (zeroBits false)]
      else
        let n : Int := (Nat.log2 m + 1 : Nat)
        some [.exact (roundDy ng m (-n)), .exact (ofInt (n + e))]
  -- deg / rad (manual §5.6: x in degrees / radians): ±0 and ±inf are kept, the sign is kept, value x·180/π, x·π/180
  | "deg" | "rad" =>
    match d with
    | .nan => some [.nan]
    | .inf _ => some [.exact x]
    | .fin ng m e =>
      if m = 0 then some [.exact x]
      -- lmathlib divides / multiplies by the ROUNDED constant π/180: two roundings, up to 2 units from RN(exact)
      else if fn = "deg" then some [.near (roundRat ng (m * 180 * piDen) piNum e) 2]
      else some [.near (roundRat ng (m * piNum) (180 * piDen) e) 2]
  -- C99 F.9.3.1: exp(±0) = 1, exp(−inf) = +0, exp(+inf) = +inf; positive everywhere
  | "exp" =>
    match d with
    | .nan => some [.nan]
    | .inf ng => some [.exact (if ng then zeroBits false else x)]
    | .fin ng m _ => some [if m = 0 then .exact one else .cls pos ng true (!ng)]
  -- F.9.3.7/8: log(±0) = −inf, log(1) = +0, log(x < 0) = NaN, log(+inf) = +inf; negative below 1
  | "log" | "log10" =>
    match d with
    | .nan => some [.nan]
    | .inf ng => some [if ng then .nan else .exact x]
    | .fin ng m _ =>
      some [if m = 0 then .exact (infBits true)
            else if ng then .nan
            else if x = one then .exact (zeroBits false)
            else .cls (lt x one) false true false]
  -- F.9.1.6/7: sin(±0) = ±0, tan(±0) = ±0, NaN at ±inf; |sin| ≤ 1
  | "sin" =>
    match d with
    | .nan => some [.nan]
    | .inf _ => some [.nan]
    | .fin _ m _ => some [if m = 0 then .exact x else .finAny (some (mag one))]
  | "tan" =>
    match d with
    | .nan => some [.nan]
    | .inf _ => some [.nan]
    | .fin _ m _ => some [if m = 0 then .exact x else .finAny]
  -- F.9.1.5: cos(±0) = 1, NaN at ±inf; |cos| ≤ 1
  | "cos" =>
    match d with
    | .nan => some [.nan]
    | .inf _ => some [.nan]
    | .fin _ m _ => some [if m = 0 then .exact one else .finAny (some (mag one))]
  -- F.9.1.2: asin(±0) = ±0, NaN for |x| > 1; odd and monotone: the sign of x
  | "asin" =>
    match d with
    | .nan => some [.nan]
    | .inf _ => some [.nan]
    | .fin ng m _ =>
      some [if m = 0 then .exact x else if lt one (abs x) then .nan else .cls ng false true false (some (mag (pi2Bits false) + 1))]
  -- F.9.1.1: acos(1) = +0, NaN for |x| > 1; otherwise in (0, π]
  | "acos" =>
    match d with
    | .nan => some [.nan]
    | .inf _ => some [.nan]
    | .fin _ _ _ =>
      some [if x = one then .exact (zeroBits false) else if lt one (abs x) then .nan
            else .cls pos false true false (some (mag (piBits false) + 1))]
  -- F.9.1.3: atan(±0) = ±0, atan(±inf) = ±π/2
  | "atan" =>
    match d with
    | .nan => some [.nan]
    | .inf ng => some [.near (pi2Bits ng) 1]
    | .fin ng m _ => some [if m = 0 then .exact x else .cls ng false true false (some (mag (pi2Bits false) + 1))]
  -- F.9.2.5: sinh(±0) = ±0, sinh(±inf) = ±inf; odd, monotone, |sinh x| ≥ |x|
  | "sinh" =>
    match d with
    | .nan => some [.nan]
    | .inf _ => some [.exact x]
    | .fin ng m _ => some [if m = 0 then .exact x else .cls ng false true true]
  -- F.9.2.4: cosh(±0) = 1, cosh(±inf) = +inf; ≥ 1
  | "cosh" =>
    match d with
    | .nan => some [.nan]
    | .inf _ => some [.exact (infBits false)]
    | .fin _ m _ => some [if m = 0 then .exact one else .cls pos false true true]
  -- F.9.2.6: tanh(±0) = ±0, tanh(±inf) = ±1; |tanh| ≤ 1
  | "tanh" =>
    match d with
    | .nan => some [.nan]
    | .inf ng => some [.exact (oneBits ng)]
    | .fin ng m _ => some [if m = 0 then .exact x else .cls ng false true false (some (mag one))]
  | _ => none

/-- is x^k (finite x = ±m·2^e ≠ 0, integer k) itself a binary64 number, namely the finite non-zero `r`?  Then
    every partial product of any multiplication scheme is exact and the result is fixed to the last bit. -/
def powIsExact (m : Nat) (e : Int) (k : Int) (r : Bits) : Bool :=
  match decode r with
  | .fin _ mr er =>
    let a := k.natAbs
    if mr = 0 then false
    else if k ≥ 0 then
      let e0 := min er (e * a)
      scale mr er e0 = scale (m ^ a) (e * a) e0
    else
      -- mr·2^er · m^a·2^(e·a) = 1
      let t := er + e * a
      t ≤ 0 ∧ mr * m ^ a = 2 ^ (-t).toNat
  | _ => false

/-- C99 F.9.4.4 `pow` -/
def specPow (x y : Bits) : Expect :=
  let one := oneBits
  match decode x, decode y with
  | dx, .fin ny my ey =>
    if my = 0 then .exact one                                    -- pow(x, ±0) = 1 for any x, even a NaN
    else if x = one then .exact one                              -- pow(+1, y) = 1 for any y
    else
    let yInt := isIntDy my ey
    let yOdd := isOddDy my ey
    match dx with
    | .nan => .nan
    | .inf nx =>
      if nx then (if ny then .exact (zeroBits yOdd) else .exact (infBits yOdd))
      else (if ny then .exact (zeroBits false) else .exact (infBits false))
    | .fin nx mx ex =>
      if mx = 0 then
        -- pow(±0, y): ±inf / ±0 for odd integers y, +inf / +0 otherwise
        if ny then .exact (infBits (nx && yOdd)) else .exact (zeroBits (nx && yOdd))
      else if nx ∧ !yInt then .nan                               -- finite x < 0, finite non-integer y
      else
        let rneg := nx && yOdd
        if abs x = one then .exact (oneBits rneg)                -- (−1)^integer
        else
          match toIntTrunc y with
          | some k =>
            if yInt ∧ k.natAbs ≤ 64 then
              -- an integer power: bit-exact when x^k is a binary64 number; otherwise C99 leaves the accuracy to the
              -- implementation — a generous band (one unit per factor) around the correctly rounded value
              let r := powInt nx mx ex k
              if powIsExact mx ex k r then .exact r else .near r (2 * k.natAbs + 2)
            else
              -- |y| ≥ 2^11 with |x| ≥ 2 or |x| ≤ ½: far beyond the overflow / underflow thresholds
              let big : Bool := !lt (abs y) (ofInt 2048)
              let xBig : Bool := !lt (abs x) (ofInt 2)
              let xSmall : Bool := !lt (roundDy false 1 (-1)) (abs x)
              if big ∧ (xBig ∨ xSmall) then
                (if xBig = !ny then .exact (infBits rneg) else .exact (zeroBits rneg))
              else .cls rneg true true true
          | none => .any
  | dx, .inf ny =>
    if x = oneBits then .exact one
    else match dx with
    | .nan => .nan
    | _ =>
      let ax := abs x
      if ax = one then .exact one                                -- pow(−1, ±inf) = 1
      else
        let lt1 := lt ax one
        -- pow(x, −inf) = +inf for |x| < 1, +0 for |x| > 1; pow(x, +inf) the other way round (also x = ±0, ±inf)
        if lt1 = ny then .exact (infBits false) else .exact (zeroBits false)
  | _, .nan => if x = oneBits then .exact one else .nan

/-- C99 F.9.1.4 `atan2(y, x)` -/
def specAtan2 (y x : Bits) : Expect :=
  match decode y, decode x with
  | .nan, _ => .nan
  | _, .nan => .nan
  | .inf ny, .inf nx => .near (if nx then pi34Bits ny else pi4Bits ny) 1
  | .inf ny, .fin .. => .near (pi2Bits ny) 1
  | .fin ny _ _, .inf nx => if nx then .near (piBits ny) 1 else .exact (zeroBits ny)
  | .fin ny my _, .fin nx mx _ =>
    if my = 0 then (if nx then .near (piBits ny) 1 else .exact (zeroBits ny))   -- x = −0 or x < 0: ±π; x = +0 or x > 0: ±0
    else if mx = 0 then .near (pi2Bits ny) 1
    else .cls ny true true false (some (mag (piBits false) + 1))

/-- operands of the (repaired) finding C15-atan2-underflow-sign: y < 0, x < 0, both finite and non-zero, and the
    quotient y/x underflows to zero — there Go's math.Atan2 answers +π -/
def atan2UnderflowClass (y x : Bits) : Bool :=
  match decode y, decode x with
  | .fin ny my _, .fin nx mx _ => ny && nx && my != 0 && mx != 0 && isZero (div y x)
  | _, _ => false

/-- Lua 5.1 `math.ldexp(m, e)` = C `ldexp(m, (int)e)`: fixed when e is an integer that fits a C int -/
def specLdexp (x n : Bits) : Expect :=
  match decode n with
  | .fin _ m e =>
    if isIntDy m e then
      match toIntTrunc n with
      | some k => if k.natAbs < 2147483648 then (if isNaN x then .nan else .exact (ldexp x k)) else .any
      | none => .any
    else .any
  | _ => .any

/-- Lua 5.1 manual §2.5.1: `a % b == a - math.floor(a/b)*b`, "the remainder of a division that rounds the
    quotient towards minus infinity".  For finite a and finite b ≠ 0 that remainder is computed EXACTLY here
    (a − ⌊a/b⌋·b over the rationals, rounded once).  On the operands where the real-number reading says nothing
    (a zero remainder's sign, infinite or zero divisor, infinite dividend) the manual's formula is evaluated in
    IEEE arithmetic, which is what defines it in Lua 5.1 (luai_nummod). -/
def luaModFormula (a b : Bits) : Bits := sub a (mul (floor (div a b)) b)

def specLuaMod (a b : Bits) : Expect :=
  match decode a, decode b with
  | .fin na ma ea, .fin nb mb eb =>
    if mb = 0 then .nan
    else
      let e0 := min ea eb
      let A : Int := sgn na (scale ma ea e0)
      let B : Int := sgn nb (scale mb eb e0)
      let r : Int := Int.fmod A B          -- floored remainder: the sign of the divisor
      -- a zero remainder: floor(a/b)·b = a, and a − a = +0 in round-to-nearest (also for a = ±0, either sign of b)
      if r = 0 then .exact (zeroBits false) else .exact (roundDy (r < 0) r.natAbs e0)
  | _, _ => if isNaN (luaModFormula a b) then .nan else .exact (luaModFormula a b)

/-- the operand classes on which `specLuaMod` rests on the IEEE evaluation of the formula only -/
def luaModIeeeOnly (a b : Bits) : Bool :=
  match decode a, decode b with
  | .fin na ma ea, .fin nb mb eb =>
    if mb = 0 then false
    else
      let e0 := min ea eb
      Int.fmod (sgn na (scale ma ea e0)) (sgn nb (scale mb eb e0)) = 0
  | .fin .., .inf _ => true
  | _, _ => false

/-- two-argument functions -/
def spec2 (fn : String) (x y : Bits) : Option (List Expect) :=
  match fn with
  | "fmod" => some [if isNaN (fmod x y) then .nan else .exact (fmod x y)]     -- C99 7.12.10.1, F.9.7.1
  | "pow" => some [specPow x y]
  | "atan2" => some [specAtan2 x y]
  | "ldexp" => some [specLdexp x y]
  | "mod" | "opmod" => some [specLuaMod x y]
  | _ => none

/-- math.max / math.min (manual: "the maximum / minimum value among its arguments"): without NaNs the result is,
    bit for bit, one of the arguments that compare equal to the extremum (so max(-0, +0) may be either zero);
    with a NaN among the arguments the manual fixes nothing. -/
def specMaxMin (isMax : Bool) (xs : List Bits) : Option (List Expect) :=
  match xs with
  | [] => none
  | x :: r =>
    if xs.any isNaN then some [.any]
    else
      let best := r.foldl (fun b v => if (if isMax then lt b v else lt v b) then v else b) x
      some [.anyOf (xs.filter fun v => eq v best)]

end GLua.MathSpec
