/-
  C04 — Spec: the metamethod events of the Lua 5.1 reference manual §2.8 (and the §5.1 functions
  `tostring`, `getmetatable`, `setmetatable`, `rawget`, `rawset`, `rawequal`) as PURE DECISION FUNCTIONS.

  Written from the manual's pseudo-code (`gettable_event`, `settable_event`, `arith_event`, `concat_event`,
  `eq_event`, `lt_event`, `le_event`, `unm`, `len`, `call_event`, `getbinhandler`, `getcomphandler`) and from
  the property text — never from gopher-lua's code.

  A decision function does not run handlers: it returns an `Action`
      raw v                  the operation's result is the value v, no handler involved
      store t k v            primitive `rawset(t, k, v)`, no result
      setmt obj mt           replace the metatable of obj, result obj
      call h args post       call handler h with exactly these arguments in this order; the operation's
                             result is `post` of what the call returns
                             (first result | its truth value | the negated truth value | nothing | all results)
      error kind             the operation raises an error of this kind
      next obj               (one step of an `__index` / `__newindex` chain) repeat the event on obj
  over an ABSTRACT description of the operands:
      `V N`      a value: its type, its payload, and an identity for reference types
      `Heap N`   raw content lookup of tables, metatable field lookup, individual metatables of tables and
                 userdata, the per-type metatables of every other type, primitive table length  — all as
                 function parameters (no assumption on how they are stored)
      `Prims N`  the primitive operations that are *not* the subject of this property (number arithmetic and
                 order over an arbitrary number type `N`, string order, string→number and number→string
                 coercion, primitive `tostring`): both Spec and Model take them as parameters, so no theorem
                 relies on any law of floating-point arithmetic.
  Core Lean only.
-/
namespace GLua.Meta

/-- the value types (gopher-lua's `LValueType`, = Lua 5.1's eight types + `channel`). -/
inductive Ty where
  | nil | bool | num | str | func | udata | thread | table | chan
deriving DecidableEq, Repr, Inhabited

/-- an abstract Lua value over a number type `N`; strings are byte strings (hex text in the driver). -/
inductive V (N : Type) where
  | nil
  | bool (b : Bool)
  | num (n : N)
  | str (s : String)
  | func (id : Nat)
  | udata (id : Nat)
  | thread (id : Nat)
  | table (id : Nat)
  | chan (id : Nat)
deriving DecidableEq, Repr, Inhabited

inductive ArithOp where
  | add | sub | mul | div | mod | pow
deriving DecidableEq, Repr, Inhabited

/-- the metatable fields ("events") the property speaks about. -/
inductive Event where
  | index | newindex | add | sub | mul | div | mod | pow | unm | len | concat | eq | lt | le | call
  | tostring | metatable
deriving DecidableEq, Repr, Inhabited

def ArithOp.event : ArithOp → Event
  | .add => .add | .sub => .sub | .mul => .mul | .div => .div | .mod => .mod | .pow => .pow

def Event.name : Event → String
  | .index => "__index" | .newindex => "__newindex" | .add => "__add" | .sub => "__sub" | .mul => "__mul"
  | .div => "__div" | .mod => "__mod" | .pow => "__pow" | .unm => "__unm" | .len => "__len"
  | .concat => "__concat" | .eq => "__eq" | .lt => "__lt" | .le => "__le" | .call => "__call"
  | .tostring => "__tostring" | .metatable => "__metatable"

/-- what is done with the values a handler returns. -/
inductive Post where
  | first      -- the first result (nil if none)
  | truth      -- the truth value of the first result
  | nottruth   -- the negated truth value of the first result
  | discard    -- results are ignored (`__newindex`)
  | all        -- all results (`__call`)
  | apiInt     -- Go API `ObjLen` only: first result as int if it is a number, else 0   (Model only)
deriving DecidableEq, Repr, Inhabited

inductive ErrKind where
  | index       -- attempt to index a value that is neither a table nor has the handler
  | arith | concat | compare | call | unm | len
  | loop        -- `__index`/`__newindex` chain longer than the documented depth
  | protectedMt -- setmetatable on an object whose metatable has `__metatable`
  | badArg      -- argument of a library function has the wrong type
deriving DecidableEq, Repr, Inhabited

inductive Action (N : Type) where
  | raw (v : V N)
  | store (t : Nat) (k v : V N)
  | setmt (obj : V N) (mt : Option Nat)
  | call (h : V N) (args : List (V N)) (post : Post)
  | error (k : ErrKind)
  | next (obj : V N)
deriving DecidableEq, Repr, Inhabited

/-- primitives outside the property (parameters of both corners). -/
structure Prims (N : Type) where
  arith  : ArithOp → N → N → N
  neg    : N → N
  numEq  : N → N → Bool
  numLt  : N → N → Bool
  numLe  : N → N → Bool
  strLt  : String → String → Bool
  strLe  : String → String → Bool
  toNum  : String → Option N          -- string → number coercion (`tonumber`)
  numStr : N → String                 -- number → string coercion
  strLen : String → N
  tostr  : V N → String               -- primitive `tostring`

/-- abstract description of the store. Object ids of tables, userdata, functions are separate name spaces. -/
structure Heap (N : Type) where
  raw    : Nat → V N → V N            -- `rawget(table #id, key)`
  field  : Nat → Event → V N          -- `rawget(table #id, "<event name>")`
  tmeta  : Nat → Option Nat           -- metatable (a table id) of table #id
  umeta  : Nat → Option Nat           -- metatable of userdata #id
  tymeta : Ty → Option Nat            -- the one metatable shared by all values of a non-table, non-userdata type
  border : Nat → N                    -- primitive length `#` of table #id

variable {N : Type}

def V.ty : V N → Ty
  | .nil => .nil | .bool _ => .bool | .num _ => .num | .str _ => .str | .func _ => .func
  | .udata _ => .udata | .thread _ => .thread | .table _ => .table | .chan _ => .chan

def V.isNil : V N → Bool
  | .nil => true
  | _ => false

/-- Lua truth: everything except `nil` and `false`. -/
def V.truthy : V N → Bool
  | .nil => false
  | .bool false => false
  | _ => true

def V.isFunc : V N → Bool
  | .func _ => true
  | _ => false

def optTable : Option Nat → V N
  | none => .nil
  | some m => .table m

/-! ## §2.8 helpers -/

/-- `metatable(obj)`: tables and userdata have individual metatables, values of all other types share one
    single metatable per type. -/
def metatable (h : Heap N) : V N → Option Nat
  | .table id => h.tmeta id
  | .udata id => h.umeta id
  | v => h.tymeta v.ty

/-- `metatable(obj)[event]` — "rawget(metatable(obj) or {}, event)": nil when there is no metatable. -/
def mtEvent (h : Heap N) (o : V N) (ev : Event) : V N :=
  match metatable h o with
  | none => .nil
  | some m => h.field m ev

/-- `tonumber` as used by the arithmetic events: numbers, and strings convertible to numbers. -/
def tonumber (p : Prims N) : V N → Option N
  | .num n => some n
  | .str s => p.toNum s
  | _ => none

/-- primitive equality (§2.5.2): same type and same value; reference types by identity. -/
def rawEq (p : Prims N) : V N → V N → Bool
  | .nil, .nil => true
  | .bool a, .bool b => a == b
  | .num a, .num b => p.numEq a b
  | .str a, .str b => a == b
  | .func a, .func b => a == b
  | .udata a, .udata b => a == b
  | .thread a, .thread b => a == b
  | .table a, .table b => a == b
  | .chan a, .chan b => a == b
  | _, _ => false

/-- `getbinhandler (op1, op2, event) = metatable(op1)[event] or metatable(op2)[event]` -/
def getbinhandler (h : Heap N) (op1 op2 : V N) (ev : Event) : V N :=
  let m1 := mtEvent h op1 ev
  if m1.truthy then m1 else mtEvent h op2 ev

/-- `getcomphandler (op1, op2, event)`: both operands of the same type with the *same* handler. -/
def getcomphandler (p : Prims N) (h : Heap N) (op1 op2 : V N) (ev : Event) : V N :=
  if op1.ty ≠ op2.ty then .nil
  else
    let mm1 := mtEvent h op1 ev
    let mm2 := mtEvent h op2 ev
    if rawEq p mm1 mm2 then mm1 else .nil

/-! ## events -/

/-- "index": one application of `gettable_event` (`h[key]` on a non-function handler = `next h`). -/
def gettable_event (h : Heap N) (t key : V N) : Action N :=
  match t with
  | .table id =>
    let v := h.raw id key
    if !v.isNil then .raw v
    else
      let hd := mtEvent h t .index
      if hd.isNil then .raw .nil
      else if hd.isFunc then .call hd [t, key] .first
      else .next hd
  | _ =>
    let hd := mtEvent h t .index
    if hd.isNil then .error .index
    else if hd.isFunc then .call hd [t, key] .first
    else .next hd

/-- "newindex": one application of `settable_event`. -/
def settable_event (h : Heap N) (t key value : V N) : Action N :=
  match t with
  | .table id =>
    let v := h.raw id key
    if !v.isNil then .store id key value
    else
      let hd := mtEvent h t .newindex
      if hd.isNil then .store id key value
      else if hd.isFunc then .call hd [t, key, value] .discard
      else .next hd
  | _ =>
    let hd := mtEvent h t .newindex
    if hd.isNil then .error .index
    else if hd.isFunc then .call hd [t, key, value] .discard
    else .next hd

/-- the documented depth of `__index`/`__newindex` chains (`MAXTAGLOOP`, luaconf.h of Lua 5.1). -/
def MAXTAGLOOP : Nat := 100

/-- the whole chain with `fuel` applications of the event; exhausting it is the "loop" error. -/
def gettable (h : Heap N) : Nat → V N → V N → Action N
  | 0, _, _ => .error .loop
  | fuel + 1, t, key =>
    match gettable_event h t key with
    | .next o => gettable h fuel o key
    | a => a

def settable (h : Heap N) : Nat → V N → V N → V N → Action N
  | 0, _, _, _ => .error .loop
  | fuel + 1, t, key, value =>
    match settable_event h t key value with
    | .next o => settable h fuel o key value
    | a => a

/-- "add", "sub", "mul", "div", "mod", "pow": numeric coercion first, then `getbinhandler`. -/
def arith_event (p : Prims N) (h : Heap N) (op : ArithOp) (op1 op2 : V N) : Action N :=
  match tonumber p op1, tonumber p op2 with
  | some o1, some o2 => .raw (.num (p.arith op o1 o2))
  | _, _ =>
    let hd := getbinhandler h op1 op2 op.event
    if hd.truthy then .call hd [op1, op2] .first else .error .arith

/-- "unm" -/
def unm_event (p : Prims N) (h : Heap N) (op : V N) : Action N :=
  match tonumber p op with
  | some o => .raw (.num (p.neg o))
  | none =>
    let hd := mtEvent h op .unm
    if hd.truthy then .call hd [op] .first else .error .unm

def isStrOrNum : V N → Bool
  | .str _ => true
  | .num _ => true
  | _ => false

/-- the string a string-or-number operand denotes in a concatenation. -/
def asString (p : Prims N) : V N → String
  | .str s => s
  | .num n => p.numStr n
  | _ => ""

/-- "concat" -/
def concat_event (p : Prims N) (h : Heap N) (op1 op2 : V N) : Action N :=
  if isStrOrNum op1 && isStrOrNum op2 then .raw (.str (asString p op1 ++ asString p op2))
  else
    let hd := getbinhandler h op1 op2 .concat
    if hd.truthy then .call hd [op1, op2] .first else .error .concat

/-- "len" (5.1: strings and tables are primitive; the handler is for the other types). -/
def len_event (p : Prims N) (h : Heap N) (op : V N) : Action N :=
  match op with
  | .str s => .raw (.num (p.strLen s))
  | .table id => .raw (.num (h.border id))
  | _ =>
    let hd := mtEvent h op .len
    if hd.truthy then .call hd [op] .first else .error .len

/-- "eq": as the property states it (and as lvm.c implements it) the handler is consulted only for two
    tables or two userdata; the manual's pseudo-code leaves the restriction to its prose. -/
def eq_event (p : Prims N) (h : Heap N) (op1 op2 : V N) : Action N :=
  if op1.ty ≠ op2.ty then .raw (.bool false)
  else if rawEq p op1 op2 then .raw (.bool true)
  else if op1.ty = .table ∨ op1.ty = .udata then
    let hd := getcomphandler p h op1 op2 .eq
    if hd.truthy then .call hd [op1, op2] .truth else .raw (.bool false)
  else .raw (.bool false)

/-- "lt" -/
def lt_event (p : Prims N) (h : Heap N) (op1 op2 : V N) : Action N :=
  match op1, op2 with
  | .num a, .num b => .raw (.bool (p.numLt a b))
  | .str a, .str b => .raw (.bool (p.strLt a b))
  | _, _ =>
    let hd := getcomphandler p h op1 op2 .lt
    if hd.truthy then .call hd [op1, op2] .truth else .error .compare

/-- "le": `__le`, and in its absence `not (op2 < op1)` through `__lt`. -/
def le_event (p : Prims N) (h : Heap N) (op1 op2 : V N) : Action N :=
  match op1, op2 with
  | .num a, .num b => .raw (.bool (p.numLe a b))
  | .str a, .str b => .raw (.bool (p.strLe a b))
  | _, _ =>
    let hd := getcomphandler p h op1 op2 .le
    if hd.truthy then .call hd [op1, op2] .truth
    else
      let hd := getcomphandler p h op1 op2 .lt
      if hd.truthy then .call hd [op2, op1] .nottruth else .error .compare

/-- "call": also for calls in tail position and for the iterator of a generic `for`. -/
def call_event (h : Heap N) (f : V N) (args : List (V N)) : Action N :=
  if f.isFunc then .call f args .all
  else
    let hd := mtEvent h f .call
    if hd.truthy then .call hd (f :: args) .all else .error .call

/-! ## §5.1 -/

/-- `tostring(e)` -/
def tostring_fn (p : Prims N) (h : Heap N) (e : V N) : Action N :=
  let hd := mtEvent h e .tostring
  if hd.truthy then .call hd [e] .first else .raw (.str (p.tostr e))

/-- `getmetatable(object)` -/
def getmetatable_fn (h : Heap N) (o : V N) : Action N :=
  match metatable h o with
  | none => .raw .nil
  | some m =>
    let f := h.field m .metatable
    if f.isNil then .raw (.table m) else .raw f

/-- `setmetatable(table, metatable)` -/
def setmetatable_fn (h : Heap N) (t mt : V N) : Action N :=
  match t with
  | .table id =>
    match mt with
    | .nil | .table _ =>
      let prot := match h.tmeta id with
        | none => false
        | some m => !(h.field m .metatable).isNil
      if prot then .error .protectedMt
      else .setmt t (match mt with | .table m => some m | _ => none)
    | _ => .error .badArg
  | _ => .error .badArg

def rawget_fn (h : Heap N) (t k : V N) : Action N :=
  match t with
  | .table id => .raw (h.raw id k)
  | _ => .error .badArg

def rawset_fn (t k v : V N) : Action N :=
  match t with
  | .table id => .store id k v
  | _ => .error .badArg

def rawequal_fn (p : Prims N) (a b : V N) : Action N := .raw (.bool (rawEq p a b))

/-! ## running an action against a handler oracle (used for n-ary concatenation and by the driver) -/

/-- one recorded handler call -/
structure Call (N : Type) where
  h : V N
  args : List (V N)
deriving DecidableEq, Repr

instance {ε α : Type} [DecidableEq ε] [DecidableEq α] : DecidableEq (Except ε α) := fun a b =>
  match a, b with
  | .ok x, .ok y => if h : x = y then isTrue (by rw [h]) else isFalse (fun e => h (by cases e; rfl))
  | .error x, .error y => if h : x = y then isTrue (by rw [h]) else isFalse (fun e => h (by cases e; rfl))
  | .ok _, .error _ => isFalse (fun e => by cases e)
  | .error _, .ok _ => isFalse (fun e => by cases e)

/-- calls made so far, and the result or error. -/
abbrev Outcome (N : Type) := List (Call N) × Except ErrKind (V N)

/-- binary concatenation of the running result `r` (already an outcome) with a left operand. -/
def concatStep (p : Prims N) (h : Heap N) (ret : V N → List (V N) → V N) (lhs : V N) (r : Outcome N) : Outcome N :=
  match r with
  | (log, .error e) => (log, .error e)
  | (log, .ok rhs) =>
    match concat_event p h lhs rhs with
    | .raw v => (log, .ok v)
    | .call hd args _ => (log ++ [⟨hd, args⟩], .ok (ret hd args))
    | .error k => (log, .error k)
    | _ => (log, .error .concat)

/-- `e1 .. e2 .. … .. en` is right associative: `e1 .. (e2 .. (… .. en))`; `ret` is what a handler returns
    (its first result) for given arguments. -/
def concat_fold (p : Prims N) (h : Heap N) (ret : V N → List (V N) → V N) : List (V N) → Outcome N
  | [] => ([], .ok (.str ""))
  | [x] => ([], .ok x)
  | x :: rest => concatStep p h ret x (concat_fold p h ret rest)

end GLua.Meta
