/-
  Numbers and byte strings for the reference semantics.
  Lua strings are byte strings; they are kept HEX-ENCODED (lower case, two digits per byte) in a Lean
  `String`: concatenation, equality, lexicographic byte order and length (÷ 2) are then the String ones.
  Numbers are IEEE doubles (`Float`); on the wire an integral double is `i<exact integer>`, any other
  `f<bits>` (NaN is the single token `nan`).  `Float` is opaque to the kernel: nothing here is used in a
  theorem that needs arithmetic laws.
-/
import GLua.Basic

namespace GLua.Sem

def hexDigit (n : Nat) : Char := if n < 10 then Char.ofNat (48 + n) else Char.ofNat (87 + n)

def hexOfBytes (bs : List Nat) : String :=
  String.ofList (bs.flatMap fun b => [hexDigit (b / 16 % 16), hexDigit (b % 16)])

def hexVal (c : Char) : Nat :=
  let n := c.toNat
  if 48 ≤ n ∧ n ≤ 57 then n - 48 else if 97 ≤ n ∧ n ≤ 102 then n - 87 else if 65 ≤ n ∧ n ≤ 70 then n - 55 else 0

def bytesOfHex (h : String) : List Nat :=
  let rec go : List Char → List Nat
    | a :: b :: r => (hexVal a * 16 + hexVal b) :: go r
    | _ => []
  go h.toList

def hexOfAscii (s : String) : String := hexOfBytes (s.toList.map Char.toNat)

def strLen (h : String) : Nat := h.length / 2

/-! ### doubles ↔ wire -/

def pow2 (n : Nat) : Nat := 2 ^ n

/-- exact integer value of a finite integral double, from its bit pattern. -/
def floatExactInt? (f : Float) : Option Int :=
  let b := f.toBits.toNat
  let sign := b / pow2 63
  let e := b / pow2 52 % 2048
  let m := b % pow2 52
  if e = 2047 then none
  else if e = 0 then (if m = 0 then some 0 else none)     -- subnormals are not integral
  else
    let mant := m + pow2 52
    -- value = mant * 2^(e - 1075)
    if e ≥ 1075 then
      let v : Int := (mant * pow2 (e - 1075) : Nat)
      some (if sign = 1 then -v else v)
    else
      let sh := 1075 - e
      if sh ≥ 64 then none
      else if mant % pow2 sh = 0 then
        let v : Int := (mant / pow2 sh : Nat)
        some (if sign = 1 then -v else v)
      else none

def tokOfFloat (f : Float) : String :=
  if f.isNaN then "nan"
  else match floatExactInt? f with
    | some i => "i" ++ toString i
    | none => "f" ++ toString f.toBits.toNat

def floatOfTok (t : String) : Option Float :=
  if t = "nan" then some (0.0 / 0.0)
  else
    let rest := (t.drop 1).toString
    match t.front with
    | 'i' => rest.toInt?.map Float.ofInt
    | 'f' => rest.toNat?.map (fun n => Float.ofBits n.toUInt64)
    | _ => none

/-- the digits `m` (no trailing zero, at most 14 of them) and decimal exponent `e` with `a = m.ddd × 10^e` when the
    integer `a` is, as a float, the float nearest to such a short decimal; `none` when 14 digits do not identify it.
    (The closest nd-digit decimal is tried for nd = 1, 2, …: the first that reads back as the same float has the
    fewest digits any round-tripping decimal can have.) -/
def shortDecimal? (a : Nat) : Option (Nat × Nat) :=
  let k := (toString a).length
  let fa := Float.ofNat a
  (List.range 14).findSome? fun j =>
    let nd := j + 1
    if nd > k then none
    else
      let p := 10 ^ (k - nd)
      let m := (a + p / 2) / p
      if Float.ofNat (m * p) == fa then
        -- (a carry to 10^nd means "1 × 10^k")
        let (m, e) := if m = 10 ^ nd then (1, k) else (m, k - 1)
        let rec strip (fuel m : Nat) : Nat := match fuel with
          | 0 => m
          | fuel + 1 => if m ≠ 0 ∧ m % 10 = 0 then strip fuel (m / 10) else m
        some (strip 20 m, e)
      else none

/-- `d[.ddd]e+XX` (at least two exponent digits): the layout C's `%.14g` and Go's shortest `%v` share -/
def fmtShortE (neg : Bool) (m e : Nat) : String :=
  let ds := toString m
  let mant := if ds.length = 1 then ds else (ds.take 1).toString ++ "." ++ (ds.drop 1).toString
  let es := toString e
  (if neg then "-" else "") ++ mant ++ "e+" ++ (if es.length < 2 then "0" ++ es else es)

/-- `tostring` of a number, as far as the property fixes it for this implementation family: integral values below
    2^53 print as plain decimal digits; integral values beyond the 64-bit integer range that a decimal of at most
    14 digits identifies (1e19, -1e100, 5e20 …) print as `d.ddde+XX` — there Lua 5.1's `%.14g` and the shortest
    round-trip form coincide.  Everything else is left unspecified (`none`). -/
def numToStr? (f : Float) : Option String :=
  match floatExactInt? f with
  | some i =>
    if i.natAbs < pow2 53 then some (hexOfAscii (toString i))
    else if i.natAbs ≥ pow2 63 then
      (shortDecimal? i.natAbs).map fun (m, e) => hexOfAscii (fmtShortE (i < 0) m e)
    else none
  | none => none

/-! ### string → number (Lua 5.1 `lua_str2number` = strtod, then optional trailing blanks; `0x` hex integers) -/

def isBlank (b : Nat) : Bool := b = 32 ∨ (9 ≤ b ∧ b ≤ 13)
def isDigit (b : Nat) : Bool := 48 ≤ b ∧ b ≤ 57
def isHexDigit (b : Nat) : Bool := isDigit b ∨ (97 ≤ b ∧ b ≤ 102) ∨ (65 ≤ b ∧ b ≤ 70)

def digitsVal (ds : List Nat) : Nat := ds.foldl (fun a d => a * 10 + (d - 48)) 0
def hexDigitsVal (ds : List Nat) : Nat :=
  ds.foldl (fun a d => a * 16 + (if isDigit d then d - 48 else if d ≥ 97 then d - 87 else d - 55)) 0

def mkFloat (neg : Bool) (mant : Nat) (exp10 : Int) : Float :=
  let v := if exp10 ≥ 0 then Float.ofNat (mant * 10 ^ exp10.toNat) else Float.ofScientific mant true (-exp10).toNat
  if neg then -v else v

/-- `none` = not a numeral. -/
def strToNum? (h : String) : Option Float :=
  let bs := (bytesOfHex h).dropWhile isBlank
  let (neg, bs) := match bs with
    | 45 :: r => (true, r)
    | 43 :: r => (false, r)
    | _ => (false, bs)
  let trailingOk (r : List Nat) : Bool := r.all isBlank
  match bs with
  | 48 :: x :: r =>
    if (x = 120 ∨ x = 88) then
      let ds := r.takeWhile isHexDigit
      let rest := r.dropWhile isHexDigit
      if ds.isEmpty ∨ !trailingOk rest then none
      else
        let v := Float.ofNat (hexDigitsVal ds)
        some (if neg then -v else v)
    else decimal neg bs trailingOk
  | _ => decimal neg bs trailingOk
where
  decimal (neg : Bool) (bs : List Nat) (trailingOk : List Nat → Bool) : Option Float :=
    let ip := bs.takeWhile isDigit
    let r := bs.dropWhile isDigit
    let (fp, r) := match r with
      | 46 :: r' => (r'.takeWhile isDigit, r'.dropWhile isDigit)
      | _ => ([], r)
    if ip.isEmpty ∧ fp.isEmpty then none
    else
      let mant := digitsVal (ip ++ fp)
      let exp0 : Int := -(fp.length : Int)
      match r with
      | e :: r' =>
        if e = 101 ∨ e = 69 then
          let (eneg, r'') := match r' with
            | 45 :: x => (true, x)
            | 43 :: x => (false, x)
            | _ => (false, r')
          let ed := r''.takeWhile isDigit
          let rest := r''.dropWhile isDigit
          if ed.isEmpty ∨ !trailingOk rest then none
          else
            let ev : Int := digitsVal ed
            some (mkFloat neg mant (exp0 + (if eneg then -ev else ev)))
        else if trailingOk r then some (mkFloat neg mant exp0) else none
      | [] => some (mkFloat neg mant exp0)

/-- Lua 5.1 `luai_nummod`: a - floor(a/b)*b -/
def luaMod (a b : Float) : Float := a - Float.floor (a / b) * b

end GLua.Sem
