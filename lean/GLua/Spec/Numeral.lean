/-
  C16 Spec — Lua 5.1 numerals (reference manual §2.1 "numerical constants", §5.1 `tonumber`, §2.2.1 coercion)
  and what it means for a double to be "the intended float64" of a numeral (round to nearest, ties to even).

  Written from the manual / the property text, not from the Go code.  Strings are byte lists (`List Nat`,
  every element < 256 on the wire).  The *value* of a numeral is an exact rational `± mant · 10^exp10 · 2^exp2`
  (`exp2` is always 0 for Lua numerals; it exists so that the same checker can judge the hexadecimal floats that
  Go's `ParseFloat` accepts in the unrepaired tree).  Core Lean only.
-/
namespace GLua.NumSpec

abbrev Bytes := List Nat

/-- C `isspace` in the "C" locale: blank, \t \n \v \f \r. -/
def isBlank (c : Nat) : Bool := c == 32 || (9 ≤ c && c ≤ 13)
def isDec (c : Nat) : Bool := 48 ≤ c && c ≤ 57

/-- value of an alphanumeric digit (any base up to 36, letters case-insensitive). -/
def digitVal (c : Nat) : Option Nat :=
  if 48 ≤ c ∧ c ≤ 57 then some (c - 48)
  else if 97 ≤ c ∧ c ≤ 122 then some (c - 87)
  else if 65 ≤ c ∧ c ≤ 90 then some (c - 55)
  else none

def isDigitIn (b c : Nat) : Bool :=
  match digitVal c with
  | some d => d < b
  | none => false

/-- positional value of a digit string, most significant digit first. -/
def valIn (b : Nat) (ds : Bytes) : Nat := ds.foldl (fun a c => a * b + (digitVal c).getD 0) 0

/-- exact value `(-1)^neg · mant · 10^exp10 · 2^exp2`. -/
structure Exact where
  neg : Bool
  mant : Nat
  exp10 : Int
  exp2 : Int := 0
deriving DecidableEq, Repr, Inhabited

def trimL (s : Bytes) : Bytes := s.dropWhile isBlank
def trim (s : Bytes) : Bytes := (trimL (trimL s).reverse).reverse

def sign : Bytes → Bool × Bytes
  | 45 :: r => (true, r)
  | 43 :: r => (false, r)
  | r => (false, r)

/-- optional exponent part `[eE][+-]?digits+`, must extend to the end of the numeral. -/
def exponent : Bytes → Option Int
  | [] => some 0
  | e :: r =>
    if e = 101 ∨ e = 69 then
      let (neg, ds) := sign r
      if ds ≠ [] ∧ ds.all isDec then some (if neg then -(valIn 10 ds : Int) else (valIn 10 ds : Int)) else none
    else none

/-- optional fraction `.digits*`: (fraction digits, what follows). -/
def fraction (r1 : Bytes) : Bytes × Bytes :=
  match r1 with
  | 46 :: t => (t.takeWhile isDec, t.dropWhile isDec)
  | _ => ([], r1)

/-- decimal numeral: digits, optional fraction, optional exponent; at least one mantissa digit. -/
def decimal (s : Bytes) : Option (Nat × Int) :=
  let ip := s.takeWhile isDec
  let fr := fraction (s.dropWhile isDec)
  if ip.length + fr.1.length = 0 then none
  else (exponent fr.2).map fun e => (valIn 10 (ip ++ fr.1), e - (fr.1.length : Int))

/-- hexadecimal integer body (after `0x`). -/
def hexInt (s : Bytes) : Option Nat :=
  if s ≠ [] ∧ s.all (isDigitIn 16) then some (valIn 16 s) else none

/-- an unsigned Lua 5.1 numeral. -/
def unsigned (s : Bytes) : Option (Nat × Int) :=
  match s with
  | 48 :: x :: r => if x = 120 ∨ x = 88 then (hexInt r).map (·, 0) else decimal s
  | _ => decimal s

/-- a numeral as it appears in source text (the sign is an operator, blanks are not part of it). -/
def literal (s : Bytes) : Option Exact :=
  (unsigned s).map fun p => { neg := false, mant := p.1, exp10 := p.2 }

/-- a numeral as `tonumber` and the arithmetic coercion read it: surrounding blanks and one sign allowed. -/
def numeral (s : Bytes) : Option Exact :=
  let (neg, u) := sign (trim s)
  (unsigned u).map fun p => { neg := neg, mant := p.1, exp10 := p.2 }

def has0x : Bytes → Bool
  | 48 :: x :: _ => x = 120 ∨ x = 88
  | _ => false

/-- `tonumber(s, b)`: base 10 is the ordinary reader, and so is base 16 on a `0x` numeral (all readers agree on
    every decimal or 0x-hexadecimal numeral); otherwise an integer written with the digits of that base
    (letters case-insensitive, blanks around, one sign — C `strtoul`).  Integers have no negative zero. -/
def numeralBase (b : Nat) (s : Bytes) : Option Exact :=
  let (neg, u) := sign (trim s)
  if b = 10 ∨ (b = 16 ∧ has0x u) then numeral s
  else if u ≠ [] ∧ u.all (isDigitIn b) then some { neg := neg && valIn b u != 0, mant := valIn b u, exp10 := 0 } else none

/-! ### "denotes the intended float64": correct rounding, as a checker over exact integers -/

def natPow (b : Nat) (e : Int) : Nat := b ^ e.toNat

/-- compare `m · 10^e10 · 2^e2` with `a · 2^b` exactly. -/
def cmpScaled (m : Nat) (e10 e2 : Int) (a : Nat) (b : Int) : Ordering :=
  let d := e2 - b
  compare (m * natPow 10 e10 * natPow 2 d) (a * natPow 10 (-e10) * natPow 2 (-d))

def numDigits (n : Nat) : Nat := (Nat.toDigits 10 n).length

/-- `rounds x bits`: the IEEE-754 double with bit pattern `bits` is the round-to-nearest-even image of `x`
    (overflow to infinity past the midpoint above the largest finite double).  With `strictZero` the sign of a
    zero must match too (used for Impl = Model, where Go's ParseFloat keeps `-0`). -/
def roundsS (strictZero : Bool) (x : Exact) (bits : Nat) : Bool :=
  let neg : Bool := bits / 2 ^ 63 % 2 == 1
  let be : Nat := bits / 2 ^ 52 % 2048
  let fr : Nat := bits % 2 ^ 52
  if x.mant == 0 && !strictZero then bits % 2 ^ 63 == 0
  else if neg != x.neg then false
  else if be == 2047 then
    -- infinity (NaN never denotes a numeral)
    fr == 0 && x.mant != 0 &&
      ((numDigits x.mant : Int) + x.exp10 > 400 ∨
        ((numDigits x.mant : Int) + x.exp10 ≥ -400 ∧ x.exp2.natAbs ≤ 100000 ∧
          cmpScaled x.mant x.exp10 x.exp2 (2 ^ 54 - 1) 970 != .lt))
  else
    let M : Nat := if be == 0 then fr else fr + 2 ^ 52
    let E : Int := if be == 0 then -1074 else (be : Int) - 1075
    if x.mant == 0 then M == 0
    else if x.exp2 == 0 ∧ (numDigits x.mant : Int) + x.exp10 > 400 then false
    else if x.exp2 == 0 ∧ (numDigits x.mant : Int) + x.exp10 < -400 then M == 0
    else if x.exp2.natAbs > 100000 then false
    else
      let up := cmpScaled x.mant x.exp10 x.exp2 (2 * M + 1) (E - 1)
      let okUp := up == .lt || (up == .eq && M % 2 == 0)
      let okLo :=
        if M == 0 then true
        else
          let lo := if M == 2 ^ 52 ∧ be > 1 then cmpScaled x.mant x.exp10 x.exp2 (4 * M - 1) (E - 2)
                    else cmpScaled x.mant x.exp10 x.exp2 (2 * M - 1) (E - 1)
          lo == .gt || (lo == .eq && M % 2 == 0)
      okUp && okLo

/-- the exact value lies at or beyond the midpoint between the largest finite double and 2^1024. -/
def overflows (x : Exact) : Bool :=
  x.mant != 0 &&
    ((x.exp2 == 0 ∧ (numDigits x.mant : Int) + x.exp10 > 400) ∨
      (¬ (x.exp2 == 0 ∧ (numDigits x.mant : Int) + x.exp10 < -400) ∧ x.exp2.natAbs ≤ 100000 ∧
        cmpScaled x.mant x.exp10 x.exp2 (2 ^ 54 - 1) 970 != .lt))

/-- the property's notion: the value zero has no sign (`-0 == 0`). -/
def rounds (x : Exact) (bits : Nat) : Bool := roundsS false x bits

/-- exact value of a finite double's bit pattern as an integer, when it is integral. -/
def bitsToInt? (bits : Nat) : Option Int :=
  let neg : Bool := bits / 2 ^ 63 % 2 == 1
  let be : Nat := bits / 2 ^ 52 % 2048
  let fr : Nat := bits % 2 ^ 52
  if be == 2047 then none
  else
    let M : Nat := if be == 0 then fr else fr + 2 ^ 52
    let E : Int := if be == 0 then -1074 else (be : Int) - 1075
    if M == 0 then some 0
    else if E ≥ 0 then some (if neg then -((M * 2 ^ E.toNat : Nat) : Int) else ((M * 2 ^ E.toNat : Nat) : Int))
    else
      let d := 2 ^ (-E).toNat
      if M % d == 0 then some (if neg then -((M / d : Nat) : Int) else ((M / d : Nat) : Int)) else none

def isFiniteBits (bits : Nat) : Bool := bits / 2 ^ 52 % 2048 != 2047

/-- plain decimal rendering of an integer: optional `-`, digits, no leading zero, no fraction, no exponent. -/
def natDigits : Nat → Nat → Bytes
  | 0, _ => []
  | fuel + 1, n => if n < 10 then [48 + n] else natDigits fuel (n / 10) ++ [48 + n % 10]

def plainInt (i : Int) : Bytes :=
  match i with
  | .ofNat n => natDigits (n + 1) n
  | .negSucc n => 45 :: natDigits (n + 2) (n + 1)

end GLua.NumSpec
