/-
  C16 Spec — string literals (Lua 5.1 manual §2.1; llex.c read_string / read_long_string) and
  `string.format('%q')` (manual §5.4: "written between double quotes, and all double quotes, newlines,
  embedded zeros and backslashes in the string are correctly escaped when written"; lstrlib.c addquoted).
  Written from the manual, not from the Go code.  Strings are byte lists.  Core Lean only.
-/
import GLua.Spec.Numeral

namespace GLua.QuoteSpec
open GLua.NumSpec (Bytes isDec)

/-- body of lstrlib's addquoted. -/
def addquotedBody : Bytes → Bytes
  | [] => []
  | c :: r =>
    (if c = 34 ∨ c = 92 ∨ c = 10 then [92, c]
     else if c = 13 then [92, 114]
     else if c = 0 then [92, 48, 48, 48]
     else [c]) ++ addquotedBody r

def addquoted (s : Bytes) : Bytes := 34 :: (addquotedBody s ++ [34])

/-- single-letter escapes. -/
def escChar (c : Nat) : Nat :=
  if c = 97 then 7 else if c = 98 then 8 else if c = 102 then 12 else if c = 110 then 10
  else if c = 114 then 13 else if c = 116 then 9 else if c = 118 then 11 else c

def isNl (c : Nat) : Bool := c == 10 || c == 13

/-- one source newline: LF, CR, CRLF or LFCR. -/
def skipNlPair (d : Nat) : Bytes → Bytes
  | e :: r => if isNl e ∧ e ≠ d then r else e :: r
  | [] => []

/-- number of line ends in a piece of source text (manual §2.1 / llex.c inclinenumber: LF, CR, CRLF and LFCR are
    ONE line end each, paired greedily from the left).  A token stands on line `1 + lineEnds (text before it)`,
    wherever in the chunk that text lies. -/
def lineEndsAux : Bytes → Nat → Nat
  | [], acc => acc
  | [c], acc => if isNl c then acc + 1 else acc
  | c :: d :: r, acc =>
    if isNl c then
      if isNl d ∧ d ≠ c then lineEndsAux r (acc + 1) else lineEndsAux (d :: r) (acc + 1)
    else lineEndsAux (d :: r) acc

def lineEnds (s : Bytes) : Nat := lineEndsAux s 0

/-- body of a short string after the opening delimiter `q`: (denoted bytes, input after the closing delimiter).
    `none` = malformed (unfinished string, escape > 255). -/
def readShort (q : Nat) : Nat → Bytes → Option (Bytes × Bytes)
  | 0, _ => none
  | _ + 1, [] => none
  | fuel + 1, c :: r =>
    if c = q then some ([], r)
    else if isNl c then none
    else if c ≠ 92 then (readShort q fuel r).map fun p => (c :: p.1, p.2)
    else
      match r with
      | [] => none
      | d :: r1 =>
        if isNl d then (readShort q fuel (skipNlPair d r1)).map fun p => (10 :: p.1, p.2)
        else if !isDec d then (readShort q fuel r1).map fun p => (escChar d :: p.1, p.2)
        else
          -- \ddd : up to three decimal digits
          let ds := (d :: r1).take 3 |>.takeWhile isDec
          let v := NumSpec.valIn 10 ds
          if v > 255 then none
          else (readShort q fuel ((d :: r1).drop ds.length)).map fun p => (v :: p.1, p.2)

/-- is `]` `=`^n `]` at the head?  returns the input after it. -/
def closeBracket (n : Nat) : Bytes → Option Bytes
  | 93 :: r => if r.take n = List.replicate n 61 ∧ (r.drop n).head? = some 93 then some (r.drop (n + 1)) else none
  | _ => none

/-- body of a long string of level `n` (after the opening bracket and the optional first newline). -/
def readLong (n : Nat) : Nat → Bytes → Option (Bytes × Bytes)
  | 0, _ => none
  | _ + 1, [] => none
  | fuel + 1, c :: r =>
    match closeBracket n (c :: r) with
    | some rest => some ([], rest)
    | none =>
      if isNl c then (readLong n fuel (skipNlPair c r)).map fun p => (10 :: p.1, p.2)
      else (readLong n fuel r).map fun p => (c :: p.1, p.2)

/-- a string literal at the head of the input: the bytes it denotes and the input after it. -/
def literalPrefix (src : Bytes) : Option (Bytes × Bytes) :=
  match src with
  | 34 :: r => readShort 34 (r.length + 1) r
  | 39 :: r => readShort 39 (r.length + 1) r
  | 91 :: r =>
    let n := (r.takeWhile (· == 61)).length
    match r.drop n with
    | 91 :: body =>
      let body := match body with
        | c :: t => if isNl c then skipNlPair c t else body
        | [] => body
      readLong n (body.length + 1) body
    | _ => none
  | _ => none

/-- a complete string literal (nothing after it): the bytes it denotes. -/
def literal (src : Bytes) : Option Bytes :=
  match literalPrefix src with
  | some (s, []) => some s
  | _ => none

end GLua.QuoteSpec
