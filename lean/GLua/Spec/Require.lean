/-
  Spec for C20 — `require` as the Lua 5.1 manual (§5.3) defines it, written from the manual and the
  property text, not from gopher-lua:

    require(modname):  if package.loaded[modname] is (a true value) → return it
                       otherwise find a loader: first package.preload[modname], then the search of
                       package.path (each template with `?` replaced by the name, `.` → directory separator);
                       no loader → error listing what was tried;
                       call the loader with modname; a returned non-nil value is stored in
                       package.loaded[modname]; if nothing was returned and nothing was assigned, `true`
                       is stored; in any case the final package.loaded[modname] is returned.
    Loop detection (reference implementation loadlib.c): a sentinel is stored in package.loaded[modname]
    while the loader runs; a `require` that sees the sentinel raises "loop or previous error loading
    module"; a loader that fails leaves the sentinel behind.

  NOTE (Model/Spec note of DESIGN §1, not a finding): when a loader *both* assigns package.loaded[modname]
  itself *and* returns a non-nil value, Lua 5.1 stores the returned value, gopher-lua keeps the assigned
  one.  The property (identical cached value afterwards, at most one run) holds under either choice, so
  the Spec carries the choice as the parameter `Tie`; every Spec-level theorem is proved for both values.

  Reference implementation details the manual leaves to loadlib.c (5.1.5), followed here:
    * `require` iterates over `package.loaders` — the field `loaders` of the package table, read on EVERY call
      (ll_require: lua_getfield(L, LUA_ENVIRONINDEX, "loaders")), so a table ASSIGNED to package.loaders is the
      chain from then on; each searcher answers a loader function, a string (why not found) or nothing;
    * the preload searcher reads the field `preload` of the package table on every call, the path searcher
      the field `path` (this state's `preload` / `path` are the CURRENT contents of those fields);
    * `package.loaded` is read through the registry (`_LOADED`): assigning another table to the field
      `package.loaded` changes nothing for require / module;
    * a file found on the path that cannot be read or compiled makes the SEARCHER raise (loader_Lua →
      loaderror), i.e. before the sentinel is stored: package.loaded[modname] stays as it was;
    * an error raised by the loader itself leaves whatever package.loaded[modname] holds at that moment
      (the sentinel, or what the loader assigned before failing).

  This file also fixes the vocabulary shared by Spec and Model: values, loader behaviours (the
  *environment* of `require`: what a module's code does when it is run), states, the event log.
  Core Lean only.
-/
namespace GLua.Require

abbrev Name := String

/-- Lua values as far as `require` can tell them apart. `tbl id`: the id-th table allocated in the case
    (identity = id); `sentinel` is the loop-detection userdata. -/
inductive LV where
  | nil
  | bool (b : Bool)
  | str (s : String)
  | tbl (id : Nat)
  | fn
  | sentinel
deriving DecidableEq, Repr, Inhabited

/-- Lua truth: everything but nil and false. -/
def LV.truthy : LV → Bool
  | .nil => false
  | .bool false => false
  | _ => true

/-- how a loader body ends. `A`, `B` are fresh tables. -/
inductive Final where
  | ret        -- return B
  | none       -- return nothing
  | retFalse   -- return false
  | set        -- package.loaded[...] = A
  | setRet     -- package.loaded[...] = A; return B        (the noted Tie case)
  | setNil     -- package.loaded[...] = nil
  | setNilRet  -- package.loaded[...] = nil; return B      (Tie case)
  | raise      -- error(...)
  | setRaise   -- package.loaded[...] = A; error(...)      (fails after having assigned)
  | module     -- module(...)  (assigns package.loaded[...] and the global of that name)
  | setMod     -- package.loaded[...] = A; module(...)     (module reuses the table found in package.loaded)
deriving DecidableEq, Repr, Inhabited

/-- one nested `require target` inside a loader body; `prot`: wrapped in `pcall`. -/
structure Step where
  target : Name
  prot : Bool
deriving DecidableEq, Repr, Inhabited

structure Beh where
  steps : List Step := []
  final : Final := .ret
deriving DecidableEq, Repr, Inhabited

/-- where a loader function came from: a module file, a Lua function in package.preload, a Go function
    registered with `PreloadModule`, a script's own searcher in package.loaders. -/
inductive Src where
  | file | lua | go
  | searcher   -- handed out by a searcher function that a script put into package.loaders
deriving DecidableEq, Repr, Inhabited

/-- a loader function value: origin, the key it was found under (relative file path / preload name), body. -/
structure Loader where
  src : Src
  key : String
  beh : Beh
deriving DecidableEq, Repr, Inhabited

inductive RErr where
  | loop (n : Name)                          -- "loop or previous error loading module"
  | notFound (n : Name) (tried : List String) -- "module n not found:" + what was tried
  | raised (n : Name)                        -- the loader body of n raised
  | loadErr (path : String)                  -- the module file found at `path` could not be read / compiled
  | conflict (n : Name)                      -- "name conflict for module"
  | fuel                                     -- model recursion bound exhausted (never observed; see Proofs)
deriving DecidableEq, Repr, Inhabited

inductive Res where
  | ok (v : LV)
  | err (e : RErr)
deriving DecidableEq, Repr, Inhabited

/-- the observable log: which loader bodies started (with the argument they received) and what nested
    requires returned to them. Newest first. -/
inductive Ev where
  | run (src : Src) (key : String) (arg : Name)
  | nest (m : Name) (r : Res)
deriving DecidableEq, Repr, Inhabited

def Ev.isRunOf (m : Name) : Ev → Bool
  | .run _ _ a => a == m
  | .nest _ _ => false

/-- the string operations of Go's `strings` package that the module system uses (trusted library code):
    a parameter of the state, so that every theorem holds for any such functions and concrete witnesses
    can be evaluated by the kernel (Lean's `String.splitOn`/`replace` are opaque to it). `real` is what
    the driver uses. -/
structure StrOps where
  splitDots   : String → List String            -- strings.Split(n, ".")
  replaceDots : String → String                 -- strings.Replace(name, ".", string(os.PathSeparator), -1)
  splitPath   : String → List String            -- strings.Split(path, ";")
  subst       : String → String → String        -- strings.Replace(pattern, "?", name, -1)

def StrOps.real : StrOps where
  splitDots n := n.splitOn "."
  replaceDots n := n.replace "." "/"
  splitPath p := p.splitOn ";"
  subst pattern name := pattern.replace "?" name

/-- kernel-friendly instance for concrete witnesses: undotted names, one template `?` ↦ name. -/
def StrOps.simple : StrOps where
  splitDots n := [n]
  replaceDots n := n
  splitPath p := [p]
  subst _ name := name

instance : Inhabited StrOps := ⟨StrOps.real⟩

structure St where
  str     : StrOps := StrOps.real
  loaded  : Name → LV := fun _ => .nil               -- package.loaded  (= registry._LOADED)
  preload : Name → Option Loader := fun _ => none    -- package.preload
  files   : String → Option Beh := fun _ => none     -- the parameter file map: relative path ↦ module code
  broken  : String → Bool := fun _ => false          -- … paths that exist but cannot be read / compiled (syntax error, a directory)
  path    : String := "?.lua"                        -- package.path (templates relative to the module dir)
  heap    : Nat → String → LV := fun _ _ => .nil     -- raw string fields of tables; table 0 = the globals
  serial  : Nat := 0                                 -- last table id handed out
  log     : List Ev := []
deriving Inhabited

def upd {β} (f : String → β) (k : String) (v : β) : String → β := fun k' => if k' = k then v else f k'

@[simp] theorem upd_same {β} (f : String → β) (k : String) (v : β) : upd f k v k = v := by simp [upd]
@[simp] theorem upd_other {β} (f : String → β) (k k' : String) (v : β) (h : k' ≠ k) : upd f k v k' = f k' := by
  simp [upd, h]

def St.setLoaded (s : St) (n : Name) (v : LV) : St := { s with loaded := upd s.loaded n v }
def St.logEv (s : St) (e : Ev) : St := { s with log := e :: s.log }
/-- allocate a fresh table -/
def St.fresh (s : St) : St × LV := ({ s with serial := s.serial + 1 }, .tbl (s.serial + 1))
def St.heapSet (s : St) (t : Nat) (k : String) (v : LV) : St :=
  { s with heap := fun t' k' => if t' = t ∧ k' = k then v else s.heap t' k' }

def St.writeFile (s : St) (p : String) (b : Beh) : St := { s with files := upd s.files p (some b), broken := upd s.broken p false }
def St.writeBad (s : St) (p : String) : St := { s with files := upd s.files p (some {}), broken := upd s.broken p true }
def St.removeFile (s : St) (p : String) : St := { s with files := upd s.files p none, broken := upd s.broken p false }
/-- `package.preload = T` for a fresh table T that received the entries of the names in `keep` from the old one. -/
def St.newPreload (s : St) (keep : List Name) : St := { s with preload := fun k => if k ∈ keep then s.preload k else none }

/-- the library functions a loader body can call. -/
structure Lib where
  require : St → Name → St × Res
  module  : St → Name → St × Res

/-- the nested requires of a loader body, in order. An unprotected failing require aborts the body. -/
def runSteps (req : St → Name → St × Res) (s : St) : List Step → St × Option RErr
  | [] => (s, none)
  | st :: rest =>
    match req s st.target with
    | (s1, .err e) =>
      if st.prot then runSteps req (s1.logEv (.nest st.target (.err e))) rest
      else (s1, some e)
    | (s1, .ok v) => runSteps req (s1.logEv (.nest st.target (.ok v))) rest

/-- the end of a loader body for module `self` (the argument it was called with). -/
def runFinal (modf : St → Name → St × Res) (s : St) (self : Name) : Final → St × Res
  | .ret => let (s1, b) := s.fresh; (s1, .ok b)
  | .none => (s, .ok .nil)
  | .retFalse => (s, .ok (.bool false))
  | .set => let (s1, a) := s.fresh; (s1.setLoaded self a, .ok .nil)
  | .setRet => let (s1, a) := s.fresh; let (s2, b) := s1.fresh; (s2.setLoaded self a, .ok b)
  | .setNil => (s.setLoaded self .nil, .ok .nil)
  | .setNilRet => let (s1, b) := s.fresh; (s1.setLoaded self .nil, .ok b)
  | .raise => (s, .err (.raised self))
  | .setRaise => let (s1, a) := s.fresh; (s1.setLoaded self a, .err (.raised self))
  | .module =>
    match modf s self with
    | (s1, .err e) => (s1, .err e)
    | (s1, .ok _) => (s1, .ok .nil)
  | .setMod =>
    let (s1, a) := s.fresh
    match modf (s1.setLoaded self a) self with
    | (s2, .err e) => (s2, .err e)
    | (s2, .ok _) => (s2, .ok .nil)

/-- calling a loader function with the module name. -/
def runLoader (lib : Lib) (s : St) (ld : Loader) (arg : Name) : St × Res :=
  match runSteps lib.require (s.logEv (.run ld.src ld.key arg)) ld.beh.steps with
  | (s1, some e) => (s1, .err e)
  | (s1, none) => runFinal lib.module s1 arg ld.beh.final

/-- an element of `package.loaders`. `preload` / `lua`: the two searchers the library installs (preload table,
    package.path); the others are Lua functions a script put there: `finder who b` answers a loader (body `b`)
    for module `who` and nothing for any other name, `says tag` always answers the string "tag", `silent`
    always answers nil. `unknown`: a library searcher this model does not know (regenerated chain only). -/
inductive Searcher where
  | preload | lua | unknown
  | finder (who : Name) (b : Beh)
  | says (tag : String)
  | silent
deriving DecidableEq, Repr

/-- what a searcher answers: a function, a message string (the lines it consists of), something else —
    or it raises. -/
inductive Found where
  | fn (ld : Loader)
  | msg (m : List String)
  | other
  | raise (e : RErr)

/-- the scripted searchers (their code is part of the environment, like loader bodies). -/
def scripted (name : Name) : Searcher → Found
  | .finder who b => if name = who then .fn { src := .searcher, key := who, beh := b } else .other
  | .says tag => .msg ["C:" ++ tag]
  | _ => .other

/-! ## The manual's algorithm -/
namespace Spec

/-- the chain the library installs, as far as gopher-lua has it (no C searchers): preload, then package.path. -/
def stdLoaders : List Searcher := [.preload, .lua]

/-- which value wins when a loader both assigns package.loaded[n] and returns a non-nil value. -/
inductive Tie where
  | returned   -- Lua 5.1
  | assigned   -- gopher-lua
deriving DecidableEq, Repr

def candidates (s : St) (n : Name) : List String :=
  (s.str.splitPath s.path).map (fun tmpl => s.str.subst tmpl (s.str.replaceDots n))

/-- preload first, then the first existing file among the path candidates (which must load); otherwise
    what was tried. -/
def findLoader (s : St) (n : Name) : Sum Loader RErr :=
  match s.preload n with
  | some ld => .inl ld
  | none =>
    match (candidates s n).find? (fun p => (s.files p).isSome) with
    | some p =>
      if s.broken p then .inr (.loadErr p)
      else match s.files p with
      | some b => .inl { src := .file, key := p, beh := b }
      | none => .inr (.notFound n [])
    | none => .inr (.notFound n (("P:" ++ n) :: (candidates s n).map ("F:" ++ ·)))

/-- one searcher of the chain asked for module `n` (manual §5.3, package.loaders). -/
def search (s : St) (n : Name) : Searcher → Found
  | .preload =>
    match s.preload n with
    | some ld => .fn ld
    | none => .msg ["P:" ++ n]
  | .lua =>
    match (candidates s n).find? (fun p => (s.files p).isSome) with
    | some p =>
      if s.broken p then .raise (.loadErr p)
      else match s.files p with
      | some b => .fn { src := .file, key := p, beh := b }
      | none => .other
    | none => .msg ((candidates s n).map ("F:" ++ ·))
  | c => scripted n c

/-- ll_require's loop over package.loaders: the first searcher that answers a function wins, strings are
    accumulated, anything else is skipped; the end of the table = "module not found" + what was accumulated. -/
def findLoaderIn (s : St) (n : Name) : List Searcher → List String → Sum Loader RErr
  | [], msgs => .inr (.notFound n msgs)
  | l :: rest, msgs =>
    match search s n l with
    | .fn ld => .inl ld
    | .msg m => findLoaderIn s n rest (msgs ++ m)
    | .other => findLoaderIn s n rest msgs
    | .raise e => .inr e

/-- the names on a dotted path `a.b.c` -/
def parts (s : St) (n : Name) : List String := s.str.splitDots n

/-- luaL_findtable: walk/create nested tables from table `t` along the dotted name; `none` = a non-table is in the way. -/
def findTable (s : St) (t : Nat) : List String → St × Option Nat
  | [] => (s, some t)
  | k :: r =>
    match s.heap t k with
    | .nil => let (s1, v) := s.fresh
              match v with
              | .tbl id => findTable (s1.heapSet t k v) id r
              | _ => (s1, none)
    | .tbl id => findTable s id r
    | _ => (s, none)

/-- `module(name)` (manual §5.3): the module table is package.loaded[name] if that is a table, else the
    global table of that name (created if absent); it becomes package.loaded[name]; `_NAME`, `_M`,
    `_PACKAGE` are initialised once. -/
def module (s : St) (n : Name) : St × Res :=
  let (s1, t) : St × Option Nat :=
    match s.loaded n with
    | .tbl id => (s, some id)
    | _ => match findTable s 0 (parts s n) with
      | (s1, some id) => (s1.setLoaded n (.tbl id), some id)
      | (s1, none) => (s1, none)
  match t with
  | none => (s1, .err (.conflict n))
  | some id =>
    let s2 := if s1.heap id "_NAME" = .nil then
        -- _PACKAGE: the name minus its last component ("a.b.c" ↦ "a.b.", "a" ↦ "")
        ((s1.heapSet id "_M" (.tbl id)).heapSet id "_NAME" (.str n)).heapSet id "_PACKAGE"
          (.str (if (parts s n).length > 1 then ".".intercalate (parts s n).dropLast ++ "." else ""))
      else s1
    (s2, .ok (.tbl id))

/-- luaL_register(name, funcs) as the host sees it: reuse package.loaded[name] if it is a table, else the
    global table of that name (created if absent, also made package.loaded[name]); register every function. -/
def register (s : St) (n : Name) (funcs : List String) : St × Res :=
  let (s1, t) : St × Option Nat :=
    match s.loaded n with
    | .tbl id => (s, some id)
    | _ => match findTable s 0 (parts s n) with
      | (s1, some id) => (s1.setLoaded n (.tbl id), some id)
      | (s1, none) => (s1, none)
  match t with
  | none => (s1, .err (.conflict n))
  | some id => (funcs.foldl (fun s f => s.heapSet id f .fn) s1, .ok (.tbl id))

/-- `require` over the chain `chain` (= what package.loaders holds when it is called). -/
def requireL (tie : Tie) (chain : List Searcher) : Nat → St → Name → St × Res
  | 0, s, _ => (s, .err .fuel)
  | f + 1, s, n =>
    if (s.loaded n).truthy then
      if s.loaded n = .sentinel then (s, .err (.loop n)) else (s, .ok (s.loaded n))
    else
      match findLoaderIn s n chain [] with
      | .inr e => (s, .err e)
      | .inl ld =>
        match runLoader { require := requireL tie chain f, module := module } (s.setLoaded n .sentinel) ld n with
        | (s2, .err e) => (s2, .err e)
        | (s2, .ok ret) =>
          let s3 := if ret ≠ .nil ∧ (tie = .returned ∨ s2.loaded n = .sentinel) then s2.setLoaded n ret else s2
          let s4 := if s3.loaded n = .sentinel then s3.setLoaded n (.bool true) else s3
          (s4, .ok (s4.loaded n))

/-- `require` with the chain the library installs (`findLoaderIn_std`: that search is `findLoader`). -/
def require (tie : Tie) : Nat → St → Name → St × Res := requireL tie stdLoaders

end Spec

/-! ## Histories (what the host / the top-level script does between requires) -/
inductive Op where
  | file (path : String) (b : Beh)       -- write a module file
  | badfile (path : String)              -- write a module file that does not compile / cannot be read
  | rmfile (path : String)
  | newPreload (keep : List Name)        -- package.preload = {a fresh table holding only the entries of `keep`}
  | preload (n : Name) (b : Beh)         -- package.preload[n] = function … end   (from Lua)
  | gpreload (n : Name) (b : Beh)        -- L.PreloadModule(n, goFunction)
  | unpreload (n : Name)                 -- package.preload[n] = nil
  | clear (n : Name)                     -- package.loaded[n] = nil
  | require (n : Name)                   -- pcall(require, n) at top level
  | register (n : Name) (f : String)     -- L.RegisterModule(n, {f = …})
deriving DecidableEq, Repr, Inhabited

/-- the ops after which package.loaded[n] may legitimately change without n's loader running. -/
def Op.resets (n : Name) : Op → Bool
  | .clear m => m == n
  | .register m _ => m == n
  | _ => false

/-- one top-level step, parametrised by the implementation of require / register (Spec or Model). -/
def stepWith (req : St → Name → St × Res) (reg : St → Name → List String → St × Res)
    (s : St) : Op → St × Option Res
  | .file p b => (s.writeFile p b, none)
  | .badfile p => (s.writeBad p, none)
  | .rmfile p => (s.removeFile p, none)
  | .newPreload keep => (s.newPreload keep, none)
  | .preload n b => ({ s with preload := upd s.preload n (some { src := .lua, key := n, beh := b }) }, none)
  | .gpreload n b => ({ s with preload := upd s.preload n (some { src := .go, key := n, beh := b }) }, none)
  | .unpreload n => ({ s with preload := upd s.preload n none }, none)
  | .clear n => (s.setLoaded n .nil, none)
  | .require n => let (s1, r) := req s n; (s1, some r)
  | .register n f => let (s1, r) := reg s n [f]; (s1, some r)

def runWith (req : St → Name → St × Res) (reg : St → Name → List String → St × Res) :
    St → List Op → St × List (Option Res)
  | s, [] => (s, [])
  | s, o :: r =>
    let (s1, x) := stepWith req reg s o
    let (s2, xs) := runWith req reg s1 r
    (s2, x :: xs)

end GLua.Require
