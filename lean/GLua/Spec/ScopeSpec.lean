/-
  ScopeSpec — reference for the "variables in scope" half of C17, written from the property text and the
  Lua 5.1 manual (§2.6 visibility rules: "the scope of variables begins at the first statement after their
  declaration and lasts until the end of the innermost block that includes the declaration"), NOT from the
  Go code.

  A function body is seen as a block-structured program of events:

      declare n   a local variable named n is declared (its scope begins with the NEXT event)
      begin       a block is entered
      end         the innermost block is left
      instr       one instruction is executed / could be queried (a call site, a metamethod site, …)

  At each `instr` the variables in scope are the declared-and-not-yet-ended ones, outermost block first,
  in declaration order.  Only NAMED variables count for the property: names starting with `(` are
  implementation-internal (`(for index)`, `(*temporary)` …) and are filtered out by `named`.

  The spec of the *level* arithmetic (`level 1` = the function that called `error`, `level 2` = the function
  that called that function) is `callerAt`: levels count the LOGICAL frames of running functions.
-/
namespace GLua.ScopeSpec

inductive Ev where
  | declare (name : String)
  | begin
  | «end»
  | instr
deriving DecidableEq, Repr, Inhabited

/-- blocks still open, innermost first; each block lists its declarations in order. -/
abbrev Scopes := List (List String)

def step (s : Scopes) : Ev → Scopes
  | .declare n => match s with
    | [] => [[n]]
    | b :: r => (b ++ [n]) :: r
  | .begin => [] :: s
  | .end => s.tail
  | .instr => s

/-- the variables in scope, outermost block first, declaration order inside a block. -/
def inScope (s : Scopes) : List String := s.reverse.flatten

/-- scopes of every `instr` of the program, in program order (function body starts with one open block). -/
def scopesAux : Scopes → List Ev → List (List String)
  | _, [] => []
  | s, .instr :: r => inScope s :: scopesAux s r
  | s, e :: r => scopesAux (step s e) r

def scopesAtInstrs (evs : List Ev) : List (List String) := scopesAux [[]] evs

/-- the scope after a prefix of events (what a query issued right after the prefix must see). -/
def scopeAfter (evs : List Ev) : List String := inScope (evs.foldl step [[]])

/-- a program never closes more blocks than it opened (the function's own block is never closed by `end`)
    and closes every block it opened. -/
def balancedAux : Nat → List Ev → Bool
  | d, [] => d == 0
  | d, .begin :: r => balancedAux (d + 1) r
  | 0, .end :: _ => false
  | d + 1, .end :: r => balancedAux d r
  | d, _ :: r => balancedAux d r

def wellNested (evs : List Ev) : Bool := balancedAux 0 evs

/-- a NAMED variable (the property counts only those). -/
def isNamed (n : String) : Bool := !(n.startsWith "(")

def named (l : List String) : List String := l.filter isNamed

/-! ### levels -/

/-- A running function as the property sees it: a Lua function (with the line of the statement it is
    currently executing) or a host function. -/
inductive Fn where
  | lua (line : Nat)
  | host
deriving DecidableEq, Repr, Inhabited

/-- `callerAt stack n`: the n-th Lua function above a running host function (`error`) that raises an error:
    the stack lists the running functions innermost first, WITHOUT the raising host function itself.
    Level 1 = the function that called `error`, level 2 = the function that called it, …  Host functions in
    between have no position; the position reported for such a level is that of the nearest Lua function
    outside it (Lua 5.1's luaL_where prints nothing there; the property only speaks about Lua callers). -/
def callerAt : List Fn → Nat → Option Nat
  | [], _ => none
  | _, 0 => none
  | .lua l :: _, 1 => some l
  | .host :: r, 1 => callerAt r 1
  | _ :: r, n + 2 => callerAt r (n + 1)

end GLua.ScopeSpec
