/-
  Reference semantics of core Lua 5.1 (+ goto): the transition function.
  See SemTypes.lean for the machine.  Written from the Lua 5.1 manual; independent of gopher-lua.
-/
import GLua.Spec.SemTypes

namespace GLua.Sem

abbrev Step := M ⊕ Outcome

def hx (s : String) : String := hexOfAscii s
def sv (s : String) : SVal := .str (hx s)

/-! ### heap helpers -/

def M.tget (m : M) (id : Nat) : STable := m.tables.getD id {}
def M.tset (m : M) (id : Nat) (t : STable) : M := { m with tables := m.tables.setIfInBounds id t }
def M.newTable (m : M) : M × Nat := ({ m with tables := m.tables.push {} }, m.tables.size)
def M.newCell (m : M) (v : SVal) : M × Nat := ({ m with cells := m.cells.push v }, m.cells.size)
def M.cell (m : M) (c : Nat) : SVal := m.cells.getD c .nil
def M.setCell (m : M) (c : Nat) (v : SVal) : M := { m with cells := m.cells.setIfInBounds c v }
def M.clo (m : M) (id : Nat) : Closure := m.closures.getD id default

def M.rawget (m : M) (tid : Nat) (k : SVal) : SVal :=
  match k.toKey? with
  | some k => (m.tget tid).get k
  | none => .nil

def M.rawsetK (m : M) (tid : Nat) (k : Key) (v : SVal) : M := m.tset tid ((m.tget tid).set k v)

def lookup (env : Env) (n : String) : Option Nat :=
  match env with
  | [] => none
  | (n', c) :: r => if n' = n then some c else lookup r n

def bindNames (m : M) (env : Env) : List String → List SVal → M × Env
  | [], _ => (m, env)
  | n :: ns, vs =>
    let (m, c) := m.newCell (vs.headD .nil)
    bindNames m ((n, c) :: env) ns vs.tail

def M.fenvId (m : M) : Nat :=
  match m.curFn with
  | some f => (m.clo f).fenv
  | none => m.globals

/-- pack a value list into a fresh table {1..n, n = count} (used for `...`) -/
def M.pack (m : M) (vs : List SVal) : M × Nat :=
  let (m, tid) := m.newTable
  let rec go (m : M) (i : Nat) : List SVal → M
    | [] => m
    | v :: r => go (m.rawsetK tid (.int (i : Nat)) v) (i + 1) r
  let m := go m 1 vs
  (m.rawsetK tid (.str (hx "n")) (.num (Float.ofNat vs.length)), tid)

def M.unpackN (m : M) (tid : Nat) (i : Nat) (n : Nat) : List SVal :=
  match n with
  | 0 => []
  | n + 1 => (m.tget tid).get (.int (i : Nat)) :: m.unpackN tid (i + 1) n

def numOf? : SVal → Option Float
  | .num f => some f
  | _ => none

def natOfFloat? (f : Float) : Option Int := floatExactInt? f

/-- string↔number coercion of arithmetic (§2.2.1) -/
def toNumber? : SVal → Option Float
  | .num f => some f
  | .str h => strToNum? h
  | _ => none

/-! ### outcomes and faults -/

def posPrefix (line : Nat) : String := "<string>:" ++ toString line ++ ":"

/-- marks a message that may or may not carry a `<string>:N: ` position prefix (see `error`, `assert`) -/
def optPosMarker : String := hexOfAscii "\x01optpos\x01"

/-- a fault raised by the machine itself: positioned at the current line; wording unspecified ("?") -/
def fault (m : M) (_what : String) : Step :=
  .inl { m with ctrl := .err (sv (posPrefix m.line ++ " ?")) true }

def unspec (why : String) : Step := .inr (.unspecified why)

def vals (m : M) (vs : List SVal) : Step := .inl { m with ctrl := .vals vs }
def val1 (m : M) (v : SVal) : Step := .inl { m with ctrl := .vals [v] }
def push (m : M) (f : Frame) (c : Ctrl) : Step := .inl { m with kont := f :: m.kont, ctrl := c }
def goto_ (m : M) (c : Ctrl) : Step := .inl { m with ctrl := c }

/-! ### metatables -/

def M.metaOf (m : M) : SVal → Option Nat
  | .tbl id => (m.tget id).mt
  | .str _ => some m.strMeta
  | _ => none

def M.metaField (m : M) (v : SVal) (ev : String) : SVal :=
  match m.metaOf v with
  | some mt => (m.tget mt).get (.str (hx ev))
  | none => .nil

/-- `getbinhandler` (§2.8): first operand's handler, else second's -/
def M.binHandler (m : M) (a b : SVal) (ev : String) : SVal :=
  let h := m.metaField a ev
  if h.isNil then m.metaField b ev else h

/-- `getcomphandler` (§2.8): both operands must have the same handler -/
def M.compHandler (m : M) (a b : SVal) (ev : String) : SVal :=
  let h1 := m.metaField a ev
  let h2 := m.metaField b ev
  if h1.isNil then .nil else if h1.rawEq h2 then h1 else .nil

def evName : BinOp → String
  | .add => "__add" | .sub => "__sub" | .mul => "__mul" | .div => "__div" | .mod => "__mod"
  | .pow => "__pow" | .concat => "__concat" | .eq => "__eq" | .ne => "__eq"
  | .lt => "__lt" | .le => "__le" | .gt => "__lt" | .ge => "__le"

def arithF (op : BinOp) (a b : Float) : Float :=
  match op with
  | .add => a + b | .sub => a - b | .mul => a * b | .div => a / b
  | .mod => luaMod a b | .pow => Float.pow a b
  | _ => 0.0

/-- byte-wise string order on hex strings (hex encoding preserves the order) -/
def strLt (a b : String) : Bool := a < b
def strLe (a b : String) : Bool := a < b || a == b

/-- binary operation on two evaluated operands (§2.5, §2.8) -/
def binop (m : M) (op : BinOp) (a b : SVal) : Step :=
  match op with
  | .add | .sub | .mul | .div | .mod | .pow =>
    match toNumber? a, toNumber? b with
    | some x, some y => val1 m (.num (arithF op x y))
    | _, _ =>
      let h := m.binHandler a b (evName op)
      if h.isNil then fault m "arith" else push m .ret1 (.call h [a, b])
  | .concat =>
    let strOf : SVal → Option (Option String) := fun
      | .str h => some (some h)
      | .num f => some (numToStr? f)
      | _ => none
    match strOf a, strOf b with
    | some (some x), some (some y) => val1 m (.str (x ++ y))
    | some _, some _ => unspec "tostring of a non-integral or huge number"
    | _, _ =>
      let h := m.binHandler a b "__concat"
      if h.isNil then fault m "concat" else push m .ret1 (.call h [a, b])
  | .eq | .ne =>
    let neg := match op with | .ne => true | _ => false
    if a.rawEq b then val1 m (.bool (!neg))
    else match a, b with
      | .tbl _, .tbl _ =>
        let h := m.compHandler a b "__eq"
        if h.isNil then val1 m (.bool neg) else push m (.retBool neg) (.call h [a, b])
      | _, _ => val1 m (.bool neg)
  | .lt | .gt =>
    let (a, b) := match op with | .gt => (b, a) | _ => (a, b)
    match a, b with
    | .num x, .num y => val1 m (.bool (x < y))
    | .str x, .str y => val1 m (.bool (strLt x y))
    | _, _ =>
      let h := m.compHandler a b "__lt"
      if h.isNil then fault m "compare" else push m (.retBool false) (.call h [a, b])
  | .le | .ge =>
    let (a, b) := match op with | .ge => (b, a) | _ => (a, b)
    match a, b with
    | .num x, .num y => val1 m (.bool (x ≤ y))
    | .str x, .str y => val1 m (.bool (strLe x y))
    | _, _ =>
      let h := m.compHandler a b "__le"
      if !h.isNil then push m (.retBool false) (.call h [a, b])
      else
        let h := m.compHandler b a "__lt"
        if h.isNil then fault m "compare" else push m (.retBool true) (.call h [b, a])

/-! ### statements: helpers for unwinding -/

def isLoopFrame : Frame → Bool
  | .whileL .. | .repeatL .. | .forNumL .. | .forInL .. => true
  | _ => false

/-- pop frames down to (and excluding) the nearest loop frame; `none` when a call boundary is hit -/
def popToLoop : List Frame → Option (List Frame)
  | [] => none
  | f :: k =>
    if isLoopFrame f then some (f :: k)
    else match f with
      | .callB .. | .coB | .pcallB .. | .xpcallB .. | .resumeB .. => none
      | _ => popToLoop k

def labelIn (l : String) : List Stmt → Option (List Stmt)
  | [] => none
  | s :: r => match s with
    | .label _ n => if n = l then some (s :: r) else labelIn l r
    | _ => labelIn l r

/-- resolve a goto: either a label already passed in an enclosing block (backward) or a label later in an
    enclosing block (forward).  Returns the new continuation and the block to run. -/
def findLabel (l : String) : List Frame → Option (List Frame × List Stmt × Env)
  | [] => none
  | f :: k => match f with
    | .labelMark n rest env => if n = l then some (f :: k, rest, env) else findLabel l k
    | .seq rest env => match labelIn l rest with
      | some r => some (k, r, env)
      | none => findLabel l k
    | .callB .. | .coB | .pcallB .. | .xpcallB .. | .resumeB .. => none
    | _ => findLabel l k

/-! ### table constructor -/

def tblNext (m : M) (tid idx : Nat) (fields : List Field) (env : Env) : Step :=
  match fields with
  | [] => val1 m (.tbl tid)
  | .pos e :: rest => push m (.tblPos tid idx rest env rest.isEmpty) (.expr e env)
  | .keyed k v :: rest => push m (.tblKeyK tid idx v rest env) (.expr k env)

/-! ### calls -/

def callClosure (m : M) (id : Nat) (args : List SVal) (fromHost : Bool) : Step :=
  let c := m.clo id
  let (m, env) := bindNames m c.env c.params args
  let (m, env) :=
    if c.vararg then
      let (m, tid) := m.pack (args.drop c.params.length)
      let (m, cell) := m.newCell (.tbl tid)
      (m, ("...", cell) :: env)
    else (m, env)
  .inl { m with kont := .callB m.line m.curFn fromHost :: m.kont, line := c.line, curFn := some id,
                ctrl := .block c.body env }

def listGet (vs : List SVal) (i : Nat) : SVal := vs.getD i .nil

def boolV (b : Bool) : SVal := .bool b
def numV (n : Int) : SVal := .num (Float.ofInt n)

def statusName : CoStatus → String
  | .suspended => "suspended" | .running => "running" | .normal => "normal" | .dead => "dead"

def M.thread (m : M) (id : Nat) : Thread := m.threads.getD id {}
def M.setThread (m : M) (id : Nat) (t : Thread) : M := { m with threads := m.threads.setIfInBounds id t }

/-- `coroutine.resume` / a call of a `wrap` function -/
def resume (m : M) (co : Nat) (args : List SVal) (wrap : Bool) : Step :=
  let t := m.thread co
  let refuse (msg : String) : Step :=
    if wrap then .inl { m with ctrl := .err (sv (posPrefix m.line ++ " ?")) true }
    else vals m [.bool false, sv msg]
  match t.status with
  | .dead => refuse "?"
  | .running => refuse "?"
  | .normal => refuse "?"
  | .suspended =>
    let me := m.thread m.cur
    let m := m.setThread m.cur { me with kont := .resumeB co wrap :: m.kont, status := .normal,
                                          savedLine := m.line, savedFn := m.curFn }
    let m := m.setThread co { t with status := .running, parent := some m.cur, started := true }
    if t.started then
      .inl { m with cur := co, kont := t.kont, line := t.savedLine, curFn := t.savedFn, ctrl := .vals args }
    else
      .inl { m with cur := co, kont := [.coB], line := 0, curFn := none, ctrl := .call t.body args }

/-- leave the running coroutine (yield, return or death) and hand `c` to the resumer -/
def switchToParent (m : M) (st : CoStatus) (saveKont : List Frame) (deliver : Bool → Ctrl) : Step :=
  let t := m.thread m.cur
  match t.parent with
  | none => unspec "coroutine without a resumer"
  | some p =>
    let m := m.setThread m.cur { t with status := st, kont := saveKont, parent := none,
                                         savedLine := m.line, savedFn := m.curFn }
    let pt := m.thread p
    match pt.kont with
    | .resumeB _ wrap :: k =>
      let m := m.setThread p { pt with status := .running, kont := [] }
      .inl { m with cur := p, kont := k, line := pt.savedLine, curFn := pt.savedFn, ctrl := deliver wrap }
    | _ => unspec "resumer is not waiting"

def floorF (f : Float) : Float := Float.floor f

/-- `string.sub` index normalisation (manual §5.4: negative = from the end) -/
def posrelat (i : Int) (len : Nat) : Int := if i < 0 then (len : Int) + i + 1 else i

def intArg? (v : SVal) : Option Int :=
  match toNumber? v with
  | some f => floatExactInt? (Float.floor f)
  | none => none

def upperByte (b : Nat) : Nat := if 97 ≤ b ∧ b ≤ 122 then b - 32 else b
def lowerByte (b : Nat) : Nat := if 65 ≤ b ∧ b ≤ 90 then b + 32 else b

def tostringPrim (v : SVal) : Option String :=
  match v with
  | .nil => some (hx "nil")
  | .bool true => some (hx "true")
  | .bool false => some (hx "false")
  | .num f => numToStr? f
  | .str h => some h
  | _ => none

/-- host (library) functions.  `none` result of a sub-computation = "bad argument" fault. -/
def hostCall (m : M) (name : String) (args : List SVal) (via : Bool := false) : Step :=
  let a0 := listGet args 0
  let a1 := listGet args 1
  let a2 := listGet args 2
  let badArg : Step := fault m ("bad argument to " ++ name)
  match name with
  | "emit" => vals { m with trace := m.trace.push args } []
  | "hostid" => vals m args
  | "type" => if args.isEmpty then badArg else val1 m (sv a0.typeName)
  | "tostring" =>
    if args.isEmpty then badArg else
    let h := m.metaField a0 "__tostring"
    if !h.isNil then push m .ret1 (.call h [a0])
    else match tostringPrim a0 with
      | some s => val1 m (.str s)
      | none => unspec "tostring of a reference value or a non-integral number"
  | "tonumber" =>
    match a1 with
    | .nil => (match a0 with
        | .num f => val1 m (.num f)
        | .str h => (match strToNum? h with | some f => val1 m (.num f) | none => val1 m .nil)
        | _ => if args.isEmpty then badArg else val1 m .nil)
    | _ => unspec "tonumber with a base"
  | "select" =>
    (match a0 with
     | .str h => if h = hx "#" then val1 m (numV (args.length - 1)) else badArg
     | _ => match intArg? a0 with
       | some n =>
         let cnt : Int := args.length - 1
         if n < 0 then (if -n > cnt then badArg else vals m (args.drop (1 + (cnt + n).toNat)))
         else if n = 0 then badArg
         else vals m (args.drop n.toNat)
       | none => badArg)
  | "unpack" =>
    (match a0 with
     | .tbl tid =>
       let i? := if a1.isNil then some 1 else intArg? a1
       let j? : Option (Option Int) := if a2.isNil then some none else (intArg? a2).map some
       match i?, j? with
       | some i, some j? =>
         let j : Option Int := match j? with
           | some j => some j
           | none => ((m.tget tid).border?).map (fun n => (n : Int))
         (match j with
          | none => unspec "length of a table with holes"
          | some j =>
            if j < i then vals m []
            else if j - i > 10000 then unspec "huge unpack"
            else vals m ((List.range (j - i + 1).toNat).map fun (d : Nat) => (m.tget tid).get (.int (i + (d : Int)))))
       | _, _ => badArg
     | _ => badArg)
  | "rawget" => (match a0 with | .tbl tid => if args.length < 2 then badArg else val1 m (m.rawget tid a1) | _ => badArg)
  | "rawset" =>
    (match a0, a1.toKey? with
     | .tbl tid, some k => if args.length < 3 then badArg else val1 (m.rawsetK tid k a2) a0
     | _, _ => badArg)
  | "rawequal" => if args.length < 2 then badArg else val1 m (.bool (a0.rawEq a1))   -- luaL_checkany(L, 1), (L, 2)
  | "next" =>
    (match a0 with
     | .tbl tid =>
       let mp := (m.tget tid).map
       (match a1.toKey? with
        | none => if a1.isNil then
            (match mp with | [] => val1 m .nil | (k, v) :: _ => vals m [k.toVal, v])
          else badArg
        | some k =>
          match mp.dropWhile (fun p => p.1 ≠ k) with
          | [] => unspec "next with a key that is no longer present"
          | _ :: rest => match rest with
            | [] => val1 m .nil
            | (k', v') :: _ => vals m [k'.toVal, v'])
     | _ => badArg)
  | "pairs" => (match a0 with | .tbl _ => vals m [.host "next", a0, .nil] | _ => badArg)
  | "ipairs" => (match a0 with | .tbl _ => vals m [.host "ipairsaux", a0, numV 0] | _ => badArg)
  | "ipairsaux" =>
    (match a0, intArg? a1 with
     | .tbl tid, some i =>
       let v := m.rawget tid (numV (i + 1))
       if v.isNil then val1 m .nil else vals m [numV (i + 1), v]
     | _, _ => badArg)
  | "setmetatable" =>
    (match a0 with
     | .tbl tid =>
       if !(m.metaField a0 "__metatable").isNil then fault m "cannot change a protected metatable"
       else match a1 with
         | .nil => val1 (m.tset tid { m.tget tid with mt := none }) a0
         | .tbl mid => val1 (m.tset tid { m.tget tid with mt := some mid }) a0
         | _ => badArg
     | _ => unspec "setmetatable on a non-table (an error in 5.1; gopher-lua sets a per-type metatable)")
  | "getmetatable" =>
    (match m.metaOf a0 with
     | none => val1 m .nil
     | some mt =>
       let p := (m.tget mt).get (.str (hx "__metatable"))
       if p.isNil then val1 m (.tbl mt) else val1 m p)
  | "getfenv" =>
    (match a0 with
     | .fn id => val1 m (.tbl (m.clo id).fenv)
     | .host _ => val1 m (.tbl m.globals)
     | _ =>
       let lvl := if args.isEmpty then some 1 else intArg? a0
       match lvl with
       | some 0 => val1 m (.tbl m.globals)
       | some 1 => val1 m (.tbl m.fenvId)
       | some 2 =>
         (match m.kont.find? (fun f => match f with | .callB .. => true | _ => false) with
          | some (.callB _ (some f) false) => val1 m (.tbl (m.clo f).fenv)
          | some (.callB _ none false) => val1 m (.tbl m.globals)
          | _ => unspec "getfenv level 2 through a host frame")
       | _ => unspec "getfenv level > 2")
  | "setfenv" =>
    (match a1 with
     | .tbl eid =>
       (match a0 with
        | .fn id => val1 { m with closures := m.closures.setIfInBounds id { m.clo id with fenv := eid } } a0
        | _ =>
          match intArg? a0 with
          | some 1 =>
            (match m.curFn with
             | some id => val1 { m with closures := m.closures.setIfInBounds id { m.clo id with fenv := eid } } (.fn id)
             | none => unspec "setfenv(1) in the main chunk")
          | some 2 =>
            (match m.kont.find? (fun f => match f with | .callB .. => true | _ => false) with
             | some (.callB _ (some id) false) =>
               val1 { m with closures := m.closures.setIfInBounds id { m.clo id with fenv := eid } } (.fn id)
             | _ => unspec "setfenv level 2 through a host frame / main chunk")
          | _ => unspec "setfenv with this level")
     | _ => badArg)
  | "pcall" =>
    if args.isEmpty then badArg
    else push { m with viaHost := true } (.pcallB m.line m.curFn) (.call a0 args.tail)
  | "xpcall" => push { m with viaHost := true } (.xpcallB a1 m.line m.curFn) (.call a0 [])
  | "error" =>
    let lvl := if a1.isNil then some 1 else intArg? a1
    (match a0, lvl with
     | .str h, some 1 =>
       -- called directly by a host function (pcall(error, msg)): 5.1 adds no position (level 1 is a C function),
       -- gopher-lua adds the position of the nearest Lua caller; the property does not fix this: either is accepted
       if via then .inl { m with ctrl := .err (.str (optPosMarker ++ h)) false }
       else .inl { m with ctrl := .err (.str (hx (posPrefix m.line ++ " ") ++ h)) false }
     | .str h, some 2 =>
       (match m.kont.find? (fun f => match f with | .callB .. | .pcallB .. | .xpcallB .. | .coB => true | _ => false) with
        | some (.callB l _ false) => .inl { m with ctrl := .err (.str (hx (posPrefix l ++ " ") ++ h)) false }
        | _ => unspec "error level 2 whose level-2 frame is not a Lua function")
     | .str _, some 0 => .inl { m with ctrl := .err a0 false }
     | .str _, _ => unspec "error with level > 2"
     | v, _ => .inl { m with ctrl := .err v false })
  | "assert" =>
    if args.isEmpty then badArg
    else if a0.truthy then vals m args
    else
      -- luaL_error(L, "%s", luaL_optstring(L, 2, "assertion failed!")): the message must be a string and gains the
      -- position of the caller of assert when that caller is a Lua function
      let pre := if via then optPosMarker else hx (posPrefix m.line ++ " ")
      if a1.isNil then .inl { m with ctrl := .err (.str (pre ++ hx "assertion failed!")) false }
      else match a1 with
        | .str h => .inl { m with ctrl := .err (.str (pre ++ h)) false }
        | .num f => (match numToStr? f with
          | some h => .inl { m with ctrl := .err (.str (pre ++ h)) false }
          | none => unspec "tostring of a non-integral number")
        | _ => badArg
  | "coroutine.create" =>
    (match a0 with
     | .fn _ | .host _ =>
       let id := m.threads.size
       val1 { m with threads := m.threads.push { body := a0 } } (.thread id)
     | _ => badArg)
  | "coroutine.wrap" =>
    (match a0 with
     | .fn _ | .host _ =>
       let id := m.threads.size
       val1 { m with threads := m.threads.push { body := a0 } } (.host ("wrap:" ++ toString id))
     | _ => badArg)
  | "coroutine.resume" => (match a0 with | .thread co => resume m co args.tail false | _ => badArg)
  | "coroutine.yield" =>
    if m.cur = 0 then fault m "attempt to yield from outside a coroutine"
    else if m.kont.any (fun f => match f with
        | .pcallB .. | .xpcallB .. | .xpcallH .. | .ret1 | .retBool _ | .forInCall .. | .discard => false || (match f with | .discard => false | _ => true)
        | _ => false)
    then unspec "yield across pcall / metamethod / iterator (an error in Lua 5.1)"
    else switchToParent m .suspended m.kont (fun wrap => if wrap then .vals args else .vals (.bool true :: args))
  | "coroutine.status" => (match a0 with | .thread co => val1 m (sv (statusName (m.thread co).status)) | _ => badArg)
  | "coroutine.running" => if m.cur = 0 then val1 m .nil else val1 m (.thread m.cur)
  | "table.insert" =>
    (match a0 with
     | .tbl tid =>
       match (m.tget tid).border? with
       | none => unspec "length of a table with holes"
       | some n =>
         if args.length = 2 then vals (m.rawsetK tid (.int ((n : Int) + 1)) a1) []
         else if args.length = 3 then
           (match intArg? a1 with
            | some pos =>
              if pos < 1 ∨ pos > (n : Int) + 1 then unspec "table.insert position out of [1, n+1]"
              else
                -- shift up pos..n
                let m := (List.range (n + 1 - pos.toNat)).foldl (fun m (d : Nat) =>
                  let i : Int := (n : Int) - (d : Int)
                  m.rawsetK tid (.int (i + 1)) ((m.tget tid).get (.int i))) m
                vals (m.rawsetK tid (.int pos) a2) []
            | none => badArg)
         else badArg
     | _ => badArg)
  | "table.remove" =>
    (match a0 with
     | .tbl tid =>
       match (m.tget tid).border? with
       | none => unspec "length of a table with holes"
       | some n =>
         let pos? := if args.length ≥ 2 then intArg? a1 else some (n : Int)
         match pos? with
         | none => badArg
         | some pos =>
           if n = 0 then val1 m .nil
           else if pos < 1 ∨ pos > (n : Int) then unspec "table.remove position out of [1, n]"
           else
             let v := (m.tget tid).get (.int pos)
             let m := (List.range (n - pos.toNat)).foldl (fun m (d : Nat) =>
               let i : Int := pos + (d : Int)
               m.rawsetK tid (.int i) ((m.tget tid).get (.int (i + 1)))) m
             val1 (m.rawsetK tid (.int (n : Int)) .nil) v
     | _ => badArg)
  | "table.concat" =>
    (match a0 with
     | .tbl tid =>
       let sep := match a1 with | .str h => some h | .nil => some "" | .num f => numToStr? f | _ => none
       let i? := if a2.isNil then some 1 else intArg? a2
       let j? := if (listGet args 3).isNil then ((m.tget tid).border?).map (fun n => (n : Int)) else intArg? (listGet args 3)
       match sep, i?, j? with
       | some sep, some i, some j =>
         if j < i then val1 m (.str "")
         else
           let items := (List.range (j - i + 1).toNat).map fun (d : Nat) => (m.tget tid).get (.int (i + (d : Int)))
           let strs := items.map fun
             | .str h => some h
             | .num f => numToStr? f
             | _ => none
           if strs.all Option.isSome then val1 m (.str (sep.intercalate (strs.filterMap id)))
           else if items.any (fun v => match v with | .num _ => true | _ => false) ∧ items.all (fun v => match v with | .num _ | .str _ => true | _ => false)
           then unspec "tostring of a non-integral number" else fault m "invalid value in table.concat"
       | _, _, _ => unspec "table.concat arguments"
     | _ => badArg)
  | "string.len" => (match a0 with | .str h => val1 m (numV (strLen h)) | .num f => (match numToStr? f with | some h => val1 m (numV (strLen h)) | none => unspec "tostring") | _ => badArg)
  | "string.sub" =>
    let s? := match a0 with | .str h => some h | .num f => numToStr? f | _ => none
    (match s?, intArg? a1, (if a2.isNil then some (-1) else intArg? a2) with
     | some h, some i, some j =>
       let l := strLen h
       let i := posrelat i l
       let j := posrelat j l
       let i := if i < 1 then 1 else i
       let j := if j > (l : Int) then (l : Int) else j
       if i > j then val1 m (.str "")
       else val1 m (.str (hexOfBytes (((bytesOfHex h).drop (i.toNat - 1)).take (j - i + 1).toNat)))
     | _, _, _ => badArg)
  | "string.rep" =>
    (match a0, intArg? a1 with
     | .str h, some n => if n > 10000 then unspec "huge rep" else val1 m (.str (String.join (List.replicate n.toNat h)))
     | _, _ => badArg)
  | "string.byte" =>
    (match a0 with
     | .str h =>
       let l := strLen h
       let i? := if a1.isNil then some 1 else intArg? a1
       match i? with
       | some i0 =>
         let j? := if a2.isNil then some i0 else intArg? a2
         (match j? with
          | some j0 =>
            let i := posrelat i0 l
            let j := posrelat j0 l
            let i := if i < 1 then 1 else i
            let j := if j > (l : Int) then (l : Int) else j
            if i > j then vals m []
            else vals m ((((bytesOfHex h).drop (i.toNat - 1)).take (j - i + 1).toNat).map fun (b : Nat) => numV (b : Int))
          | none => badArg)
       | none => badArg
     | _ => badArg)
  | "string.char" =>
    let bs := args.map intArg?
    if bs.all (fun b => match b with | some b => 0 ≤ b ∧ b ≤ 255 | none => false)
    then val1 m (.str (hexOfBytes (bs.filterMap (fun b => b.map Int.toNat))))
    else badArg
  | "string.upper" => (match a0 with | .str h => val1 m (.str (hexOfBytes ((bytesOfHex h).map upperByte))) | _ => badArg)
  | "string.lower" => (match a0 with | .str h => val1 m (.str (hexOfBytes ((bytesOfHex h).map lowerByte))) | _ => badArg)
  | "math.floor" => (match toNumber? a0 with | some f => val1 m (.num (floorF f)) | none => badArg)
  | "math.abs" => (match toNumber? a0 with | some f => val1 m (.num (Float.abs f)) | none => badArg)
  | "math.max" =>
    (match args.mapM toNumber? with
     | some (x :: xs) => val1 m (.num (xs.foldl (fun a b => if a < b then b else a) x))
     | _ => badArg)
  | "math.min" =>
    (match args.mapM toNumber? with
     | some (x :: xs) => val1 m (.num (xs.foldl (fun a b => if b < a then b else a) x))
     | _ => badArg)
  | "math.fmod" =>
    (match toNumber? a0, toNumber? a1 with
     | some a, some b =>
       -- C fmod: result has the sign of the dividend; exact for the integral operands programs use
       (match floatExactInt? a, floatExactInt? b with
        | some x, some y => if y = 0 then val1 m (.num (0.0 / 0.0)) else val1 m (.num (Float.ofInt (Int.tmod x y)))
        | _, _ => unspec "fmod of non-integral operands")
     | _, _ => badArg)
  | _ =>
    if name.startsWith "wrap:" then
      match (name.drop 5).toString.toNat? with
      | some co => resume m co args true
      | none => unspec ("unknown host function " ++ name)
    else unspec ("unknown host function " ++ name)

end GLua.Sem
